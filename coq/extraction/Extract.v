(* Extraction of the executable models. ExtrOcamlBasic only: nat, N, Z, positive and
   Byte.byte stay Coq datatypes. Run from ocaml/gen (coqc writes model.ml in the cwd). *)
Require Extraction.
Require Import ExtrOcamlBasic.
From Coq Require Import Strings.Byte.
From JS Require Import Common.Wire Omap.OmapRun Num.NumModel Json.JsonRun Text.Render Schema.Shape Schema.Recursion Text.Formats Text.RegexType Text.Unquote Schema.Machine Schema.MachineSpec Schema.Example Enum.EnumScanner SchemaScan.SchemaRun SchemaScan.Loader Schema.E2E Schema.RecursionE2E Schema.E2ETypes Schema.RulePipeline Schema.RulePipelineSpec.
Extraction Language OCaml.
Extraction "model.ml" wire_byte_of_N wire_byte_to_N
  omap_model_line omap_spec_line
  num_model_line json_model_line render_model_line shape_model_line recursion_model_line formats_model_line regex_model_line unquote_model_line machine_model_line machine_graph_line machine_spec_line example_model_line enum_model_line schema_scan_model_line loader_model_line e2e_model_line e2e_texts_model_line rec_e2e_model_line e2e_types_model_line rules_model_line rules_spec_line rules_spec_raw_line.
