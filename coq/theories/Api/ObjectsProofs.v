(* ObjectsProofs.v — proofs for properties C11 / C12 over the model in Objects.v:
   - once-cells: results are independent of the history of operations (history_independent,
     same_as_fresh);
   - example buffer pool: values handed to the caller stay unchanged by later calls for the
     repaired Example() (returned_values_stable), and do change for the defective variant
     (alias_refuted);
   - sync.Once under arbitrary interleavings: at most one run, one result, exactly one run
     when everybody returned, and some schedule finishes (the once_ theorems).
   All statements are stated inside Sections re-declaring the variables of Objects.v, so the
   closed theorems quantify over every result/opkind/source type and every [eval]. *)
From Coq Require Import List NArith Bool Arith Lia.
Import ListNotations.
From JS Require Import Api.Objects.

(* ---------- generic facts about [update] ---------- *)
Lemma update_length : forall {A} (l : list A) i x, length (update l i x) = length l.
Proof.
  intros A l; induction l as [|y r IHr]; intros i x; destruct i as [|i']; simpl; auto.
Qed.

Lemma nth_error_update_eq : forall {A} (l : list A) i x,
  i < length l -> nth_error (update l i x) i = Some x.
Proof.
  intros A l; induction l as [|y r IHr]; intros i x Hlt; simpl in Hlt.
  - lia.
  - destruct i as [|i']; simpl; [reflexivity|]. apply IHr. lia.
Qed.

Lemma nth_error_update_neq : forall {A} (l : list A) i j x,
  i <> j -> nth_error (update l i x) j = nth_error l j.
Proof.
  intros A l; induction l as [|y r IHr]; intros i j x Hne.
  - destruct i; reflexivity.
  - destruct i as [|i'], j as [|j']; simpl; try reflexivity.
    + congruence.
    + apply IHr. congruence.
Qed.

Lemma nth_error_update_some : forall {A} (l : list A) i x y,
  nth_error l i = Some y -> nth_error (update l i x) i = Some x.
Proof.
  intros A l i x y Hy. apply nth_error_update_eq. apply nth_error_Some. congruence.
Qed.

Lemma map_update : forall {A B} (f : A -> B) (l : list A) i x,
  map f (update l i x) = update (map f l) i (f x).
Proof.
  intros A B f l; induction l as [|y r IHr]; intros i x; destruct i as [|i']; simpl; auto.
  now rewrite IHr.
Qed.

Lemma update_same : forall {A} (l : list A) i x, nth_error l i = Some x -> update l i x = l.
Proof.
  intros A l; induction l as [|y r IHr]; intros i x Hx; destruct i as [|i']; simpl in *;
    try discriminate.
  - congruence.
  - now rewrite IHr.
Qed.

Lemma Forall_update : forall {A} (P : A -> Prop) (l : list A) i x,
  Forall P l -> P x -> Forall P (update l i x).
Proof.
  intros A P l; induction l as [|y r IHr]; intros i x Hl Hx; destruct i as [|i']; simpl; auto;
    inversion Hl as [|y' r' Hy Hr]; subst; constructor; auto.
Qed.

Lemma update_app_l : forall {A} (l l' : list A) i x,
  i < length l -> update (l ++ l') i x = update l i x ++ l'.
Proof.
  intros A l; induction l as [|y r IHr]; intros l' i x Hlt; simpl in Hlt.
  - lia.
  - destruct i as [|i']; simpl; [reflexivity|]. rewrite IHr by lia. reflexivity.
Qed.

Lemma update_app_r : forall {A} (l l' : list A) i x,
  length l <= i -> update (l ++ l') i x = l ++ update l' (i - length l) x.
Proof.
  intros A l; induction l as [|y r IHr]; intros l' i x Hle; simpl in *.
  - now rewrite Nat.sub_0_r.
  - destruct i as [|i']; [lia|]. simpl. rewrite IHr by lia. reflexivity.
Qed.

(* ====================== C11: once-cells ====================== *)
Section ObjectsProofs.
Variable result : Type.
Variable opkind : Type.
Variable opkind_eqb : opkind -> opkind -> bool.
Hypothesis opkind_eqb_eq : forall a b, opkind_eqb a b = true <-> a = b.
Variable source : Type.
Variable eval : opkind -> source -> result.

Local Notation obj := (obj result opkind source).
Local Notation world := (world result opkind source).
Local Notation cell := (cell result opkind opkind_eqb).
Local Notation call := (call result opkind opkind_eqb source eval).
Local Notation step := (step result opkind opkind_eqb source eval).
Local Notation run := (run result opkind opkind_eqb source eval).
Local Notation fresh := (fresh result opkind source).
Local Notation cells_ok := (cells_ok result opkind opkind_eqb source eval).
Local Notation world_ok := (world_ok result opkind opkind_eqb source eval).
Local Notation o_src := (o_src result opkind source).
Local Notation o_cells := (o_cells result opkind source).

(* the sources of the objects of a world, in order: never changed by any operation *)
Definition sources (w : world) : list source := map o_src w.

(* a call on an object with sound cells returns the pure value, keeps the source and keeps
   the cells sound *)
Lemma call_spec : forall (o : obj) k, cells_ok o ->
  snd (call o k) = eval k (o_src o) /\
  o_src (fst (call o k)) = o_src o /\
  cells_ok (fst (call o k)).
Proof.
  intros o k Hok. unfold Objects.call.
  destruct (cell (o_cells o) k) as [r|] eqn:Hc; simpl.
  - split; [apply Hok; exact Hc|]. split; [reflexivity|exact Hok].
  - split; [reflexivity|]. split; [reflexivity|].
    intros k' r' Hc'. simpl in Hc'.
    destruct (opkind_eqb k' k) eqn:He.
    + apply opkind_eqb_eq in He. subst k'. simpl. congruence.
    + apply Hok. exact Hc'.
Qed.

(* one operation on a sound world *)
Lemma step_spec : forall (w : world) op, world_ok w ->
  snd (step w op) = option_map (eval (snd op)) (nth_error (sources w) (fst op)) /\
  sources (fst (step w op)) = sources w /\
  world_ok (fst (step w op)).
Proof.
  intros w [i k] Hok. unfold Objects.step, sources. simpl fst; simpl snd.
  rewrite nth_error_map.
  destruct (nth_error w i) as [o|] eqn:Hn; simpl.
  - assert (Ho : cells_ok o).
    { unfold Objects.world_ok in Hok. rewrite Forall_forall in Hok. apply Hok.
      eapply nth_error_In; exact Hn. }
    destruct (call_spec o k Ho) as [Hr [Hs Hc]].
    destruct (call o k) as [o' r] eqn:Hcall. simpl in *.
    split; [now rewrite Hr|]. split.
    + rewrite map_update. rewrite Hs. apply update_same.
      rewrite nth_error_map, Hn. reflexivity.
    + apply Forall_update; assumption.
  - auto.
Qed.

Lemma run_spec : forall ops (w : world), world_ok w ->
  snd (run w ops) = map (fun op => option_map (eval (snd op)) (nth_error (sources w) (fst op))) ops /\
  sources (fst (run w ops)) = sources w /\
  world_ok (fst (run w ops)).
Proof.
  intros ops; induction ops as [|op rest IH]; intros w Hok; simpl.
  - auto.
  - destruct (step_spec w op Hok) as [Hr [Hs Hw]].
    destruct (step w op) as [w1 r] eqn:Hstep. simpl in Hr, Hs, Hw.
    destruct (IH w1 Hw) as [Hrs [Hss Hww]].
    destruct (run w1 rest) as [w2 rs] eqn:Hrun. simpl in *.
    split; [|split].
    + rewrite Hr, Hrs, Hs. reflexivity.
    + congruence.
    + exact Hww.
Qed.

Lemma fresh_ok : forall srcs, world_ok (fresh srcs).
Proof.
  intros srcs. unfold Objects.world_ok, Objects.fresh. apply Forall_forall.
  intros o Hin. apply in_map_iff in Hin. destruct Hin as [s [Hs _]]. subst o.
  intros k r Hc. simpl in Hc. discriminate.
Qed.

Lemma sources_fresh : forall srcs, sources (fresh srcs) = srcs.
Proof.
  intros srcs. unfold sources, Objects.fresh. rewrite map_map. simpl. apply map_id.
Qed.

(* C11: results do not depend on the history *)
Theorem history_independent : forall srcs ops,
  snd (run (fresh srcs) ops)
  = map (fun op => option_map (eval (snd op)) (nth_error srcs (fst op))) ops
  /\ world_ok (fst (run (fresh srcs) ops)).
Proof.
  intros srcs ops.
  destruct (run_spec ops (fresh srcs) (fresh_ok srcs)) as [Hr [_ Hw]].
  rewrite sources_fresh in Hr. split; assumption.
Qed.

(* the same operation after any history and on fresh objects *)
Corollary same_as_fresh : forall srcs h op,
  snd (step (fst (run (fresh srcs) h)) op) = snd (step (fresh srcs) op).
Proof.
  intros srcs h op.
  destruct (run_spec h (fresh srcs) (fresh_ok srcs)) as [_ [Hs Hw]].
  destruct (step_spec _ op Hw) as [Hr _].
  destruct (step_spec _ op (fresh_ok srcs)) as [Hr' _].
  rewrite Hr, Hr', Hs. reflexivity.
Qed.

End ObjectsProofs.

(* ====================== C11: the example buffer pool ====================== *)
Section PoolProofs.
Variable byte_t : Type.

Local Notation mem := (mem byte_t).
Local Notation buffer := (buffer byte_t).
Local Notation heap := (heap byte_t).
Local Notation pool := (pool byte_t).
Local Notation handed := (handed byte_t).
Local Notation take := (take byte_t).
Local Notation write := (write byte_t).
Local Notation read := (read byte_t).
Local Notation mem_ok := (mem_ok byte_t).
Local Notation example_copy := (example_copy byte_t).
Local Notation run_examples := (run_examples byte_t).

(* Get: the buffer taken is allocated afterwards, is not held by the caller, is no longer in
   the pool; the pool only shrinks; old buffers keep their contents *)
Lemma take_spec : forall (m : mem) c, mem_ok m ->
  let m1 := fst (take m c) in let b := snd (take m c) in
  b < length (heap m1) /\
  ~ In b (handed m) /\
  ~ In b (pool m1) /\
  NoDup (pool m1) /\
  (forall x, In x (pool m1) -> In x (pool m)) /\
  handed m1 = handed m /\
  length (heap m) <= length (heap m1) /\
  (forall x, x < length (heap m) -> nth_error (heap m1) x = nth_error (heap m) x).
Proof.
  intros m c [Hhp [Hpl [Hhl Hnd]]].
  assert (Hfresh :
    let m1 := Objects.mkmem byte_t (heap m ++ [[]]) (pool m) (handed m) in
    let b := length (heap m) in
    b < length (Objects.heap byte_t m1) /\ ~ In b (handed m) /\ ~ In b (Objects.pool byte_t m1) /\
    NoDup (Objects.pool byte_t m1) /\ (forall x, In x (Objects.pool byte_t m1) -> In x (pool m)) /\
    Objects.handed byte_t m1 = handed m /\ length (heap m) <= length (Objects.heap byte_t m1) /\
    (forall x, x < length (heap m) -> nth_error (Objects.heap byte_t m1) x = nth_error (heap m) x)).
  { simpl. rewrite app_length. simpl.
    split; [lia|]. split; [intros Hin; apply Hhl in Hin; lia|].
    split; [intros Hin; apply Hpl in Hin; lia|].
    split; [exact Hnd|]. split; [auto|]. split; [reflexivity|]. split; [lia|].
    intros x Hx. apply nth_error_app1. exact Hx. }
  unfold Objects.take. destruct c as [i|]; [|exact Hfresh].
  destruct (nth_error (pool m) i) as [b|] eqn:Hn; [|exact Hfresh].
  simpl.
  assert (Hsplit : pool m = firstn i (pool m) ++ b :: skipn (S i) (pool m)).
  { clear - Hn. revert i Hn. generalize (pool m) as l.
    induction l as [|y r IHr]; intros i Hn; destruct i as [|i']; simpl in *; try discriminate.
    - congruence.
    - f_equal. apply IHr. exact Hn. }
  assert (Hin : In b (pool m)) by (eapply nth_error_In; exact Hn).
  rewrite Hsplit in Hnd. apply NoDup_remove in Hnd. destruct Hnd as [Hnd' Hnotin].
  split; [apply Hpl; exact Hin|].
  split; [intros Hh; exact (Hhp b Hh Hin)|].
  split; [exact Hnotin|]. split; [exact Hnd'|].
  split.
  { intros x Hx. rewrite Hsplit. apply in_app_or in Hx. apply in_or_app.
    destruct Hx as [Hx|Hx]; [left; exact Hx|right; right; exact Hx]. }
  split; [reflexivity|]. split; [lia|]. reflexivity.
Qed.

(* one call of the repaired Example() *)
Lemma example_copy_spec : forall (m : mem) c d, mem_ok m ->
  let m1 := fst (example_copy m c d) in let r := snd (example_copy m c d) in
  mem_ok m1 /\
  (forall b d0, In b (handed m) -> read m b = Some d0 -> read m1 b = Some d0) /\
  (forall b, In b (handed m) -> In b (handed m1)) /\
  In r (handed m1) /\
  read m1 r = Some d.
Proof.
  intros m c d Hok.
  pose proof (take_spec m c Hok) as Ht. simpl in Ht.
  destruct Hok as [Hhp [Hpl [Hhl Hnd]]].
  unfold Objects.example_copy.
  destruct (take m c) as [mt b] eqn:Htake. simpl in Ht.
  destruct Ht as [Hb [Hbh [Hbp [Hnd1 [Hsub [Hhd [Hlen Hkeep]]]]]]].
  simpl. unfold Objects.read, Objects.mem_ok. simpl.
  rewrite update_length.
  split; [|split; [|split; [|split]]].
  - (* mem_ok *)
    split; [|split; [|split]].
    + intros x [Hx|Hx] [Hy|Hy].
      * lia.
      * subst x. apply Hsub in Hy. apply Hpl in Hy. lia.
      * subst x. rewrite Hhd in Hx. exact (Hbh Hx).
      * rewrite Hhd in Hx. apply Hsub in Hy. exact (Hhp x Hx Hy).
    + intros x [Hx|Hx]; rewrite app_length, update_length; simpl.
      * lia.
      * apply Hsub in Hx. apply Hpl in Hx. lia.
    + intros x [Hx|Hx]; rewrite app_length, update_length; simpl.
      * lia.
      * rewrite Hhd in Hx. apply Hhl in Hx. lia.
    + constructor; assumption.
  - (* held values keep their contents *)
    intros x d0 Hx Hrd.
    assert (Hxl : x < length (heap m)) by (apply Hhl; exact Hx).
    rewrite nth_error_app1 by (rewrite update_length; lia).
    rewrite nth_error_update_neq by (intros Heq; subst x; exact (Hbh Hx)).
    rewrite Hkeep by exact Hxl. exact Hrd.
  - intros x Hx. right. rewrite Hhd. exact Hx.
  - left. reflexivity.
  - rewrite nth_error_app2 by (rewrite update_length; lia).
    rewrite update_length, Nat.sub_diag. reflexivity.
Qed.

Lemma run_examples_copy_spec : forall calls (m : mem), mem_ok m ->
  let m' := fst (run_examples example_copy m calls) in
  let rs := snd (run_examples example_copy m calls) in
  mem_ok m' /\
  (forall b d, In b (handed m) -> read m b = Some d -> read m' b = Some d) /\
  (forall b, In b (handed m) -> In b (handed m')) /\
  Forall2 (fun r cd => read m' r = Some (snd cd)) rs calls.
Proof.
  intros calls; induction calls as [|[c d] rest IH]; intros m Hok; simpl.
  - auto.
  - pose proof (example_copy_spec m c d Hok) as Hs. simpl in Hs.
    destruct (example_copy m c d) as [m1 r] eqn:Hex. simpl in Hs.
    destruct Hs as [Hok1 [Hkeep1 [Hsub1 [Hr1 Hrd1]]]].
    pose proof (IH m1 Hok1) as Hi. simpl in Hi.
    destruct (run_examples example_copy m1 rest) as [m2 rs] eqn:Hrun. simpl in Hi |- *.
    destruct Hi as [Hok2 [Hkeep2 [Hsub2 Hall]]].
    split; [exact Hok2|]. split; [|split].
    + intros b d0 Hb Hrd. apply Hkeep2; [apply Hsub1; exact Hb|]. apply Hkeep1; assumption.
    + intros b Hb. apply Hsub2. apply Hsub1. exact Hb.
    + constructor; [|exact Hall]. simpl. apply Hkeep2; assumption.
Qed.

(* C11: values handed to the caller never change after later API calls (repaired Example) *)
Theorem returned_values_stable : forall calls m, mem_ok m ->
  let '(m', rs) := run_examples example_copy m calls in
  mem_ok m' /\
  (forall b d, In b (handed m) -> read m b = Some d -> read m' b = Some d) /\
  Forall2 (fun r cd => read m' r = Some (snd cd)) rs calls.
Proof.
  intros calls m Hok.
  pose proof (run_examples_copy_spec calls m Hok) as Hs. simpl in Hs.
  destruct (run_examples example_copy m calls) as [m' rs]. simpl in Hs.
  destruct Hs as [Hok' [Hkeep [_ Hall]]]. auto.
Qed.

End PoolProofs.

(* ... and the defective variant (the pooled buffer itself is handed out) does change them:
   two calls, the second one gets pooled buffer 0 again and overwrites it *)
Theorem alias_refuted : exists (calls : list (choice * buffer bool)),
  let '(m', rs) := run_examples bool (example_alias bool) (mem0 bool) calls in
  exists r d, nth_error rs 0 = Some r /\ nth_error calls 0 = Some (None, d) /\ read bool m' r <> Some d.
Proof.
  exists [(None, [true]); (Some 0, [false])].
  vm_compute. exists 0, [true]. split; [reflexivity|]. split; [reflexivity|]. discriminate.
Qed.

(* ====================== C12: goroutines racing to one sync.Once ====================== *)
Section OnceProofs.
Variable result : Type.
Variable body : result.

Local Notation ostate := (ostate result).
Local Notation tstate := (tstate result).
Local Notation cst := (cst result).
Local Notation threads := (threads result).
Local Notation runs := (runs result).
Local Notation ostep := (ostep result body).
Local Notation orun := (orun result body).
Local Notation oinit := (oinit result).
Local Notation all_returned := (all_returned result).
Local Notation TIdle := (TIdle result).
Local Notation TWaiting := (TWaiting result).
Local Notation TInside := (TInside result).
Local Notation TReturned := (TReturned result).
Local Notation CEmpty := (CEmpty result).
Local Notation CRunning := (CRunning result).
Local Notation CDone := (CDone result).
Local Notation mkos := (mkos result).

(* the invariant of sync.Once *)
Definition once_inv (s : ostate) : Prop :=
  (forall t r, nth_error (threads s) t = Some (TReturned r) -> r = body) /\
  match cst s with
  | Objects.CEmpty _ => runs s = 0 /\ (forall t x, nth_error (threads s) t = Some x -> x = TIdle)
  | Objects.CRunning _ o =>
      runs s = 0 /\ nth_error (threads s) o = Some TInside /\
      (forall t x, nth_error (threads s) t = Some x -> t <> o -> x = TIdle \/ x = TWaiting)
  | Objects.CDone _ r =>
      r = body /\ runs s = 1 /\ (forall t, nth_error (threads s) t <> Some TInside)
  end.

Lemma once_inv_init : forall n, once_inv (oinit n).
Proof.
  intros n. unfold once_inv, Objects.oinit. simpl. split.
  - intros t r Hn. apply nth_error_In in Hn. apply repeat_spec in Hn. discriminate.
  - split; [reflexivity|]. intros t x Hn. apply nth_error_In in Hn. apply repeat_spec in Hn.
    exact Hn.
Qed.

(* reading a thread after an update *)
Lemma nth_error_update_cases : forall (l : list tstate) i j x y,
  nth_error (update l i x) j = Some y ->
  (j = i /\ y = x) \/ (j <> i /\ nth_error l j = Some y).
Proof.
  intros l i j x y Hn. destruct (Nat.eq_dec j i) as [He|Hne].
  - subst j. left. split; [reflexivity|].
    assert (Hlt : i < length l).
    { rewrite <- (update_length l i x). apply nth_error_Some. congruence. }
    rewrite nth_error_update_eq in Hn by exact Hlt. congruence.
  - right. split; [exact Hne|]. rewrite nth_error_update_neq in Hn by congruence. exact Hn.
Qed.

Lemma once_inv_step : forall s t, once_inv s -> once_inv (ostep s t).
Proof.
  intros s t [Hret Hc]. unfold Objects.ostep.
  destruct (nth_error (threads s) t) as [ts|] eqn:Ht; [|split; assumption].
  destruct ts as [| | |r0].
  - (* TIdle *)
    destruct (cst s) as [|o|r] eqn:Hcst.
    + (* CEmpty: t becomes the owner *)
      destruct Hc as [Hruns Hall]. unfold once_inv; simpl. split.
      * intros j r Hn. apply nth_error_update_cases in Hn.
        destruct Hn as [[_ Hy]|[_ Hn]]; [discriminate|]. apply Hall in Hn. discriminate.
      * split; [exact Hruns|]. split.
        { eapply nth_error_update_some; exact Ht. }
        intros j x Hn Hne. apply nth_error_update_cases in Hn.
        destruct Hn as [[Hj _]|[_ Hn]]; [contradiction|]. left. eapply Hall; exact Hn.
    + (* CRunning o: t waits *)
      destruct Hc as [Hruns [Hown Hoth]]. unfold once_inv; simpl. split.
      * intros j r Hn. apply nth_error_update_cases in Hn.
        destruct Hn as [[_ Hy]|[_ Hn]]; [discriminate|]. eapply Hret; exact Hn.
      * split; [exact Hruns|].
        assert (Hto : t <> o) by (intros He; subst t; congruence).
        split.
        { rewrite nth_error_update_neq by exact Hto. exact Hown. }
        intros j x Hn Hne. apply nth_error_update_cases in Hn.
        destruct Hn as [[_ Hy]|[_ Hn]]; [right; exact Hy|]. eapply Hoth; eassumption.
    + (* CDone r: fast path *)
      destruct Hc as [Hr [Hruns Hnoin]]. unfold once_inv; simpl. split.
      * intros j r1 Hn. apply nth_error_update_cases in Hn.
        destruct Hn as [[_ Hy]|[_ Hn]]; [congruence|]. eapply Hret; exact Hn.
      * split; [exact Hr|]. split; [exact Hruns|].
        intros j Hn. apply nth_error_update_cases in Hn.
        destruct Hn as [[_ Hy]|[_ Hn]]; [discriminate|]. exact (Hnoin j Hn).
  - (* TWaiting *)
    destruct (cst s) as [|o|r] eqn:Hcst.
    + unfold once_inv. rewrite Hcst. split; assumption.
    + unfold once_inv. rewrite Hcst. split; assumption.
    + destruct Hc as [Hr [Hruns Hnoin]]. unfold once_inv; simpl. split.
      * intros j r1 Hn. apply nth_error_update_cases in Hn.
        destruct Hn as [[_ Hy]|[_ Hn]]; [congruence|]. eapply Hret; exact Hn.
      * split; [exact Hr|]. split; [exact Hruns|].
        intros j Hn. apply nth_error_update_cases in Hn.
        destruct Hn as [[_ Hy]|[_ Hn]]; [discriminate|]. exact (Hnoin j Hn).
  - (* TInside: t is the owner, runs the body *)
    destruct (cst s) as [|o|r] eqn:Hcst.
    + destruct Hc as [_ Hall]. apply Hall in Ht. discriminate.
    + destruct Hc as [Hruns [Hown Hoth]].
      assert (Hto : t = o).
      { destruct (Nat.eq_dec t o) as [He|Hne]; [exact He|].
        destruct (Hoth t _ Ht Hne); discriminate. }
      subst t. unfold once_inv; simpl. split.
      * intros j r1 Hn. apply nth_error_update_cases in Hn.
        destruct Hn as [[_ Hy]|[_ Hn]]; [congruence|]. eapply Hret; exact Hn.
      * split; [reflexivity|]. split; [lia|].
        intros j Hn. apply nth_error_update_cases in Hn.
        destruct Hn as [[_ Hy]|[Hne Hn]]; [discriminate|].
        destruct (Hoth j _ Hn Hne); discriminate.
    + destruct Hc as [_ [_ Hnoin]]. exfalso. exact (Hnoin t Ht).
  - (* TReturned *)
    split; assumption.
Qed.

Lemma once_inv_run : forall schedule s, once_inv s -> once_inv (orun s schedule).
Proof.
  intros schedule; induction schedule as [|t rest IH]; intros s Hs; simpl.
  - exact Hs.
  - apply IH. apply once_inv_step. exact Hs.
Qed.

Lemma ostep_length : forall s t, length (threads (ostep s t)) = length (threads s).
Proof.
  intros s t. unfold Objects.ostep.
  destruct (nth_error (threads s) t) as [[| | |r0]|]; try reflexivity;
    destruct (cst s); simpl; try reflexivity; apply update_length.
Qed.

Lemma orun_length : forall schedule s, length (threads (orun s schedule)) = length (threads s).
Proof.
  intros schedule; induction schedule as [|t rest IH]; intros s; simpl.
  - reflexivity.
  - rewrite (IH (ostep s t)). apply ostep_length.
Qed.

(* C12 *)
Theorem once_at_most_once : forall n schedule, runs (orun (oinit n) schedule) <= 1.
Proof.
  intros n schedule.
  destruct (once_inv_run schedule _ (once_inv_init n)) as [_ Hc].
  destruct (cst (orun (oinit n) schedule)).
  - destruct Hc as [Hr _]. lia.
  - destruct Hc as [Hr _]. lia.
  - destruct Hc as [_ [Hr _]]. lia.
Qed.

Theorem once_same_result : forall n schedule t r,
  nth_error (threads (orun (oinit n) schedule)) t = Some (TReturned r) -> r = body.
Proof.
  intros n schedule t r Hn.
  destruct (once_inv_run schedule _ (once_inv_init n)) as [Hret _].
  eapply Hret; exact Hn.
Qed.

Theorem once_exactly_once_when_done : forall n schedule, 0 < n ->
  all_returned (orun (oinit n) schedule) -> runs (orun (oinit n) schedule) = 1.
Proof.
  intros n schedule Hn Hall.
  destruct (once_inv_run schedule _ (once_inv_init n)) as [_ Hc].
  pose proof (orun_length schedule (oinit n)) as Hlen.
  unfold Objects.oinit in Hlen at 2. simpl in Hlen. rewrite repeat_length in Hlen.
  unfold Objects.all_returned in Hall. rewrite Forall_forall in Hall.
  destruct (cst (orun (oinit n) schedule)) as [|o|r].
  - destruct Hc as [_ Hidle].
    destruct (nth_error (threads (orun (oinit n) schedule)) 0) as [x|] eqn:H0.
    + pose proof (Hidle 0 x H0) as Hx. apply nth_error_In in H0. apply Hall in H0.
      destruct H0 as [r Hr]. congruence.
    + apply nth_error_None in H0. lia.
  - destruct Hc as [_ [Hown _]]. apply nth_error_In in Hown. apply Hall in Hown.
    destruct Hown as [r Hr]. discriminate.
  - destruct Hc as [_ [Hr _]]. exact Hr.
Qed.

(* a schedule that lets everybody finish: thread 0 enters, then every thread in turn *)
Lemma finish_rest : forall m k rn,
  orun (mkos (CDone body) (repeat (TReturned body) k ++ repeat TIdle m) rn) (seq k m)
  = mkos (CDone body) (repeat (TReturned body) (k + m)) rn.
Proof.
  intros m; induction m as [|m' IH]; intros k rn; simpl.
  - rewrite app_nil_r, Nat.add_0_r. reflexivity.
  - unfold Objects.ostep at 1. simpl.
    rewrite nth_error_app2 by (rewrite repeat_length; lia).
    rewrite repeat_length, Nat.sub_diag. simpl.
    rewrite update_app_r by (rewrite repeat_length; lia).
    rewrite repeat_length, Nat.sub_diag. simpl.
    replace (repeat (TReturned body) k ++ TReturned body :: repeat TIdle m')
      with (repeat (TReturned body) (S k) ++ repeat TIdle m').
    + rewrite IH. f_equal. f_equal. lia.
    + simpl. rewrite app_comm_cons, (repeat_cons k (TReturned body)), <- app_assoc. reflexivity.
Qed.

Theorem once_can_finish : forall n, exists schedule, all_returned (orun (oinit n) schedule).
Proof.
  intros n. exists (0 :: seq 0 n).
  destruct n as [|m].
  - unfold Objects.all_returned. simpl. constructor.
  - change (0 :: seq 0 (S m)) with ([0; 0] ++ seq 1 m).
    unfold Objects.orun. rewrite fold_left_app.
    change (fold_left ostep [0; 0] (oinit (S m)))
      with (mkos (CDone body) (repeat (TReturned body) 1 ++ repeat TIdle m) 1).
    pose proof (finish_rest m 1 1) as Hf. unfold Objects.orun in Hf.
    rewrite Hf. unfold Objects.all_returned. simpl.
    constructor; [eexists; reflexivity|].
    apply Forall_forall. intros x Hx. apply repeat_spec in Hx. eexists; exact Hx.
Qed.

End OnceProofs.
