(* Objects.v — properties C11 / C12: the caching and pooling around the pure functions of
   the public objects (Schema, Document, Enum, Regex).

   The pure functions themselves (load, compile, check, example, ast, len ...) are a
   Section parameter [eval]: what an operation kind returns for an object's immutable
   source (text, options, added types/rules).  What is modelled:
   - once-cells (internal/sync ErrOnce / ErrOnceWithValue = sync.Once + stored result): the
     first call computes and stores, every later call returns the stored value;
   - the example buffer pool (internal/sync BufferPool = sync.Pool): Get hands out ANY
     pooled buffer or a fresh one (chosen by an adversary, since sync.Pool may drop), the
     builder writes into it, and - after fix 1be0987 - a COPY is returned to the caller
     before the buffer goes back to the pool; [example_alias] is the pre-fix variant that
     returns the pooled buffer itself;
   - values handed to the caller are references into a heap of byte buffers, so that
     later writes would be visible;
   - concurrent callers of one once-cell (C12): threads interleave at the granularity
     of sync.Once's critical steps.
   No proofs in this file. *)
From Coq Require Import List NArith Bool Arith.
Import ListNotations.

Section Objects.
Variable result : Type.
Variable opkind : Type.
Variable opkind_eqb : opkind -> opkind -> bool.
Hypothesis opkind_eqb_eq : forall a b, opkind_eqb a b = true <-> a = b.
Variable source : Type.
Variable eval : opkind -> source -> result.       (* the pure function behind an operation *)

(* ---------- once-cells ---------- *)
Record obj := mkobj { o_src : source; o_cells : list (opkind * result) }.

Fixpoint cell (cs : list (opkind * result)) (k : opkind) : option result :=
  match cs with
  | [] => None
  | (k', r) :: rest => if opkind_eqb k k' then Some r else cell rest k
  end.

(* ErrOnceWithValue.Do *)
Definition call (o : obj) (k : opkind) : obj * result :=
  match cell (o_cells o) k with
  | Some r => (o, r)
  | None => let r := eval k (o_src o) in (mkobj (o_src o) ((k, r) :: o_cells o), r)
  end.

Definition objid := nat.
Definition world := list obj.        (* object id = position *)

Fixpoint update {A} (l : list A) (i : nat) (x : A) : list A :=
  match l, i with
  | [], _ => []
  | _ :: r, O => x :: r
  | y :: r, S i' => y :: update r i' x
  end.

Definition step (w : world) (op : objid * opkind) : world * option result :=
  let '(i, k) := op in
  match nth_error w i with
  | None => (w, None)
  | Some o => let '(o', r) := call o k in (update w i o', Some r)
  end.

Fixpoint run (w : world) (ops : list (objid * opkind)) : world * list (option result) :=
  match ops with
  | [] => (w, [])
  | op :: rest => let '(w1, r) := step w op in let '(w2, rs) := run w1 rest in (w2, r :: rs)
  end.

Definition fresh (srcs : list source) : world := map (fun s => mkobj s []) srcs.

(* every filled cell holds the pure result for the object's source *)
Definition cells_ok (o : obj) : Prop := forall k r, cell (o_cells o) k = Some r -> r = eval k (o_src o).
Definition world_ok (w : world) : Prop := Forall cells_ok w.

End Objects.

(* ---------- the example buffer pool and values handed to the caller ---------- *)
Section Pool.
Variable byte_t : Type.
Definition buffer := list byte_t.
Definition bufid := nat.

Record mem := mkmem {
  heap : list buffer;         (* buffer id = position *)
  pool : list bufid;          (* buffers currently in the sync.Pool *)
  handed : list bufid         (* buffers the caller holds references to *)
}.

Definition mem0 : mem := mkmem [] [] [].

(* adversary: which pooled buffer Get returns (None = a fresh one: the pool may be empty or may have dropped it) *)
Definition choice := option nat.

Definition take (m : mem) (c : choice) : mem * bufid :=
  match c with
  | Some i =>
    match nth_error (pool m) i with
    | Some b => (mkmem (heap m) (firstn i (pool m) ++ skipn (S i) (pool m)) (handed m), b)
    | None => (mkmem (heap m ++ [[]]) (pool m) (handed m), length (heap m))
    end
  | None => (mkmem (heap m ++ [[]]) (pool m) (handed m), length (heap m))
  end.

Definition write (m : mem) (b : bufid) (data : buffer) : mem :=
  mkmem (update (heap m) b data) (pool m) (handed m).

(* Example() after the fix: build in a pooled buffer, copy, put the buffer back, return the copy *)
Definition example_copy (m : mem) (c : choice) (data : buffer) : mem * bufid :=
  let '(m1, b) := take m c in
  let m2 := write m1 b data in
  let copy := length (heap m2) in
  (mkmem (heap m2 ++ [data]) (b :: pool m2) (copy :: handed m2), copy).

(* Example() before the fix: the pooled buffer itself is handed out *)
Definition example_alias (m : mem) (c : choice) (data : buffer) : mem * bufid :=
  let '(m1, b) := take m c in
  let m2 := write m1 b data in
  (mkmem (heap m2) (b :: pool m2) (b :: handed m2), b).

Definition read (m : mem) (b : bufid) : option buffer := nth_error (heap m) b.

Fixpoint run_examples (ex : mem -> choice -> buffer -> mem * bufid) (m : mem) (calls : list (choice * buffer)) : mem * list bufid :=
  match calls with
  | [] => (m, [])
  | (c, d) :: rest => let '(m1, r) := ex m c d in let '(m2, rs) := run_examples ex m1 rest in (m2, r :: rs)
  end.

(* invariant: what the caller holds is never in the pool, and all ids are allocated *)
Definition mem_ok (m : mem) : Prop :=
  (forall b, In b (handed m) -> ~ In b (pool m)) /\
  (forall b, In b (pool m) -> b < length (heap m)) /\
  (forall b, In b (handed m) -> b < length (heap m)) /\
  NoDup (pool m).

End Pool.

(* ---------- C12: many goroutines race to one once-cell ---------- *)
Section Once.
Variable result : Type.
Variable body : result.                 (* what the protected function computes *)

Inductive cellst := CEmpty | CRunning (owner : nat) | CDone (r : result).
Inductive tstate := TIdle | TWaiting | TInside | TReturned (r : result).

Record ostate := mkos { cst : cellst; threads : list tstate; runs : nat (* how often the body ran *) }.

(* one scheduler step of thread t (sync.Once.Do: fast path on done; otherwise take the mutex;
   the first one in runs the body and marks done; the others wait and then see done) *)
Definition ostep (s : ostate) (t : nat) : ostate :=
  match nth_error (threads s) t with
  | Some TIdle =>
    match cst s with
    | CDone r => mkos (cst s) (update (threads s) t (TReturned r)) (runs s)
    | CEmpty => mkos (CRunning t) (update (threads s) t TInside) (runs s)
    | CRunning _ => mkos (cst s) (update (threads s) t TWaiting) (runs s)
    end
  | Some TWaiting =>
    match cst s with
    | CDone r => mkos (cst s) (update (threads s) t (TReturned r)) (runs s)
    | _ => s                                                   (* blocked on the mutex *)
    end
  | Some TInside => mkos (CDone body) (update (threads s) t (TReturned body)) (S (runs s))
  | _ => s
  end.

Definition oinit (n : nat) : ostate := mkos CEmpty (repeat TIdle n) 0.
Definition orun (s : ostate) (schedule : list nat) : ostate := fold_left ostep schedule s.

Definition all_returned (s : ostate) : Prop := Forall (fun t => exists r, t = TReturned r) (threads s).
End Once.
