(* Formats.v — exact models of two format rules of property C02 whose Go implementation is
   self-contained:  date  = time.Parse("2006-01-02", s)   (c_date.go)
                    uuid  = parseBytes                      (c_uuid.go, after github.com/google/uuid)
   on the decoded string; and of datetime (c_datetime.go isRFC3339DateTime, the library's own RFC 3339 parser since fix 3e85282).  No proofs in this file. *)
From Coq Require Import List NArith ZArith Bool Arith.
From Coq Require Import Strings.Byte.
Import ListNotations.
From JS Require Import Common.Wire.

Definition bN (c : byte) : N := Byte.to_N c.
Definition is_digit (c : byte) : bool := (N.leb 48 (bN c) && N.leb (bN c) 57)%bool.
Definition dig (c : byte) : N := (bN c - 48)%N.
Definition is_dash (c : byte) : bool := N.eqb (bN c) 45.

(* ---------- date ---------- *)
Definition leap (y : N) : bool :=
  ((N.eqb (N.modulo y 4) 0 && negb (N.eqb (N.modulo y 100) 0)) || N.eqb (N.modulo y 400) 0)%bool.
Definition days_in (y m : N) : N :=
  if N.eqb m 2 then (if leap y then 29 else 28)
  else if (N.eqb m 4 || N.eqb m 6 || N.eqb m 9 || N.eqb m 11)%bool then 30 else 31.
Definition valid_ymd (y m d : N) : bool :=
  (N.leb y 9999 && N.leb 1 m && N.leb m 12 && N.leb 1 d && N.leb d (days_in y m))%bool.

Definition date_ok (s : bytes) : bool :=
  match s with
  | [y1; y2; y3; y4; d1; m1; m2; d2; a1; a2] =>
    (is_digit y1 && is_digit y2 && is_digit y3 && is_digit y4 && is_dash d1 &&
     is_digit m1 && is_digit m2 && is_dash d2 && is_digit a1 && is_digit a2 &&
     valid_ymd (dig y1 * 1000 + dig y2 * 100 + dig y3 * 10 + dig y4) (dig m1 * 10 + dig m2) (dig a1 * 10 + dig a2))%bool
  | _ => false
  end.

(* the specification: the text is YYYY-MM-DD of a date of the proleptic Gregorian calendar *)
Definition two (n : N) : bytes := [digit_byte (N.div n 10); digit_byte (N.modulo n 10)].
Definition four (n : N) : bytes :=
  [digit_byte (N.div n 1000); digit_byte (N.modulo (N.div n 100) 10); digit_byte (N.modulo (N.div n 10) 10); digit_byte (N.modulo n 10)].
Definition fmt_date (y m d : N) : bytes := four y ++ [x2d] ++ two m ++ [x2d] ++ two d.

(* ---------- uuid ---------- *)
Definition is_hex (c : byte) : bool :=
  let n := bN c in
  ((N.leb 48 n && N.leb n 57) || (N.leb 97 n && N.leb n 102) || (N.leb 65 n && N.leb n 70))%bool.
Definition lower (c : byte) : byte :=
  let n := bN c in
  if (N.leb 65 n && N.leb n 90)%bool then match Byte.of_N (n + 32) with Some b => b | None => c end else c.
Definition urn_prefix : bytes := [x75; x72; x6e; x3a; x75; x75; x69; x64; x3a].   (* "urn:uuid:" *)
Definition bytes_eqb (a b : bytes) : bool :=
  (Nat.eqb (length a) (length b) && forallb (fun p => byte_eqb (fst p) (snd p)) (combine a b))%bool.

(* xxxxxxxx-xxxx-xxxx-xxxx-xxxxxxxxxxxx on exactly 36 bytes (trailing bytes are the caller's business) *)
Definition canonical36 (b : bytes) : bool :=
  match b with
  | [a1;a2;a3;a4;a5;a6;a7;a8; h1; b1;b2;b3;b4; h2; c1;c2;c3;c4; h3; d1;d2;d3;d4; h4; e1;e2;e3;e4;e5;e6;e7;e8;e9;e10;e11;e12] =>
    (is_dash h1 && is_dash h2 && is_dash h3 && is_dash h4 &&
     forallb is_hex [a1;a2;a3;a4;a5;a6;a7;a8;b1;b2;b3;b4;c1;c2;c3;c4;d1;d2;d3;d4;e1;e2;e3;e4;e5;e6;e7;e8;e9;e10;e11;e12])%bool
  | _ => false
  end.

Definition uuid_ok (b : bytes) : bool :=
  let n := length b in
  if Nat.eqb n 36 then canonical36 b
  else if Nat.eqb n 45 then (bytes_eqb (map lower (firstn 9 b)) urn_prefix && canonical36 (skipn 9 b))%bool
  else if Nat.eqb n 38 then
    (match b, nth_error b 37 with
     | o :: _, Some c => (N.eqb (bN o) 123 && N.eqb (bN c) 125)%bool
     | _, _ => false
     end && canonical36 (firstn 36 (skipn 1 b)))%bool
  else if Nat.eqb n 32 then forallb is_hex b
  else false.

(* ---------- datetime (constraint/c_datetime.go isRFC3339DateTime, fix 3e85282) ----------
   date-time = full-date ("T"/"t") 2DIGIT ":" 2DIGIT ":" 2DIGIT ["." 1*DIGIT] ("Z"/"z" / ("+"/"-") 2DIGIT ":" 2DIGIT)
   hour <= 23, minute <= 59, second <= 60; offset hour <= 23, minute <= 59; a second of 60 only as the last second
   of a day of UTC.  time.Parse("2006-01-02", s[:10]) is [date_ok]. *)
Definition two_digits (a b : byte) (max : N) : option N :=
  if (is_digit a && is_digit b)%bool then
    let n := (dig a * 10 + dig b)%N in if N.leb n max then Some n else None
  else None.
Fixpoint drop_digits (s : bytes) : bytes :=
  match s with c :: r => if is_digit c then drop_digits r else s | [] => [] end.
(* the rest behind the seconds: optional fraction, then the zone; Some offset in minutes (as Z) *)
Definition zone_offset (s : bytes) : option Z :=
  match s with
  | [z] => if (N.eqb (bN z) 90 || N.eqb (bN z) 122)%bool then Some 0%Z else None
  | [sg; h1; h2; c; m1; m2] =>
    if ((N.eqb (bN sg) 43 || N.eqb (bN sg) 45) && N.eqb (bN c) 58)%bool then
      match two_digits h1 h2 23, two_digits m1 m2 59 with
      | Some oh, Some om =>
        let off := Z.of_N (oh * 60 + om) in
        Some (if N.eqb (bN sg) 45 then (- off)%Z else off)
      | _, _ => None
      end
    else None
  | _ => None
  end.
Definition after_seconds (s : bytes) : option bytes :=
  match s with
  | c :: r =>
    if N.eqb (bN c) 46 then
      match r with
      | d :: _ => if is_digit d then Some (drop_digits r) else None
      | [] => None
      end
    else Some s
  | [] => None                      (* s[0] on an empty rest: the length test (>= 20) excludes it *)
  end.
Definition datetime_ok (s : bytes) : bool :=
  if Nat.ltb (length s) 20 then false
  else
    match skipn 10 s with
    | t :: h1 :: h2 :: c1 :: m1 :: m2 :: c2 :: s1 :: s2 :: rest =>
      if ((N.eqb (bN t) 84 || N.eqb (bN t) 116) && N.eqb (bN c1) 58 && N.eqb (bN c2) 58 && date_ok (firstn 10 s))%bool then
        match two_digits h1 h2 23, two_digits m1 m2 59, two_digits s1 s2 60 with
        | Some hh, Some mi, Some ss =>
          match after_seconds rest with
          | Some z =>
            match zone_offset z with
            | Some off =>
              (negb (N.eqb ss 60) || Z.eqb (Z.modulo (Z.modulo (Z.of_N (hh * 60 + mi) - off) 1440 + 1440) 1440) 1439)%bool
            | None => false
            end
          | None => false
          end
        | _, _, _ => false
        end
      else false
    | _ => false
    end.

(* ---------- wire:  "d <hex>" / "u <hex>" / "t <hex>"  ->  T | F ---------- *)
Definition formats_model_line (line : bytes) : bytes :=
  match split_on sp line with
  | [[k]; h] =>
    match unhex (match h with [x2d] => [] | _ => h end) with
    | Some s => if byte_eqb k x64 then print_bool (date_ok s)
                else if byte_eqb k x75 then print_bool (uuid_ok s)
                else if byte_eqb k x74 then print_bool (datetime_ok s) else [x42; x41; x44]
    | None => [x42; x41; x44]
    end
  | _ => [x42; x41; x44]
  end.
