(* RenderSpec.v — what the rendered error must show, stated on a decomposition of the file
   into  pre ++ line ++ post  around the offending position.  No proofs in this file. *)
From Coq Require Import List NArith ZArith Bool Arith.
From Coq Require Import Strings.Byte.
Import ListNotations.
From JS Require Import Common.Wire Text.Render.

Definition LF : byte := x0a.
Definition CR : byte := x0d.
Definition has (c : byte) (bs : bytes) : bool := existsb (byte_eqb c) bs.

(* files with one kind of line end *)
Definition lf_file (content : bytes) : bool := negb (has CR content).
Definition cr_file (content : bytes) : bool := (negb (has LF content) && has CR content)%bool.
(* CRLF file: every CR is followed by LF and every LF is preceded by CR, at least one pair *)
Fixpoint crlf_ok (prev_cr : bool) (bs : bytes) : bool :=
  match bs with
  | [] => negb prev_cr
  | c :: r =>
    if byte_eqb c CR then (negb prev_cr && crlf_ok true r)%bool
    else if byte_eqb c LF then (prev_cr && crlf_ok false r)%bool
    else (negb prev_cr && crlf_ok false r)%bool
  end.
Definition crlf_file (content : bytes) : bool := (crlf_ok false content && has LF content)%bool.

Definition count_byte (c : byte) (bs : bytes) : N :=
  fold_left (fun n x => if byte_eqb x c then N.succ n else n) bs 0%N.

(* leading blanks (space, tab) of a line *)
Fixpoint lead_blanks (bs : bytes) : nat :=
  match bs with
  | c :: r => if (N.eqb (Byte.to_N c) 32 || N.eqb (Byte.to_N c) 9)%bool then S (lead_blanks r) else 0
  | [] => 0
  end.

(* the line that contains position p in an LF file: content = pre ++ line ++ post where pre is
   empty or ends with LF, line contains no LF, post is empty or starts with LF, and p lies in
   the line or on its terminating LF *)
Definition is_line_at (nlb : byte) (content pre line post : bytes) (p : N) : Prop :=
  content = pre ++ line ++ post /\
  (pre = [] \/ exists pre', pre = pre' ++ [nlb]) /\
  has nlb line = false /\
  (post = [] \/ exists post', post = nlb :: post') /\
  (length pre <= N.to_nat p)%nat /\
  (N.to_nat p < length pre + length line \/ (N.to_nat p = length pre + length line /\ post <> []))%nat.

(* the line that contains position p in a CRLF file: content = pre ++ line ++ post where pre is empty or ends with CR LF,
   line contains neither CR nor LF, post is empty or starts with CR LF, and p lies in the line, on its CR or on its LF *)
Definition is_line_at_crlf (content pre line post : bytes) (p : N) : Prop :=
  content = pre ++ line ++ post /\
  (pre = [] \/ exists pre', pre = pre' ++ [CR; LF]) /\
  has CR line = false /\
  has LF line = false /\
  (post = [] \/ exists post', post = CR :: LF :: post') /\
  (length pre <= N.to_nat p)%nat /\
  (N.to_nat p < length pre + length line \/ (N.to_nat p <= length pre + length line + 1 /\ post <> []))%nat.

(* "the text of that line (left-trimmed, truncated at 200 bytes)": the indentation does not count *)
Definition shown (line : bytes) : bytes :=
  let t := skipn (lead_blanks line) line in
  if Nat.ltb 200 (length t) then firstn 197 t ++ dots else t.
