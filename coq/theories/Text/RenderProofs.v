(* RenderProofs.v — proofs about the error renderer model (Text/Render.v) against
   Text/RenderSpec.v: rendering is total on in-range positions, slice bounds hold, new-line
   detection is right on LF / CR / CRLF files, line numbers, shown text and caret offset. *)
From Coq Require Import List NArith ZArith Bool Arith Lia.
From Coq Require Import ZifyBool ZifyNat ZifyN.
From Coq Require Import Strings.Byte.
Import ListNotations.
From JS Require Import Common.Wire Text.Render Text.RenderSpec.

(* ---------- bytes ---------- *)
Lemma to_N_inj : forall a b : byte, Byte.to_N a = Byte.to_N b -> a = b.
Proof.
  intros a b H.
  assert (E : Some a = Some b).
  { rewrite <- (Byte.of_to_N a), <- (Byte.of_to_N b). now rewrite H. }
  now inversion E.
Qed.

Lemma byte_eqb_eq : forall a b, byte_eqb a b = true <-> a = b.
Proof.
  intros a b. unfold byte_eqb. rewrite N.eqb_eq. split.
  - apply to_N_inj.
  - now intros ->.
Qed.

Lemma byte_eqb_refl : forall a, byte_eqb a a = true.
Proof. intros a. now apply byte_eqb_eq. Qed.

Lemma byte_eqb_sym : forall a b, byte_eqb a b = byte_eqb b a.
Proof. intros a b. unfold byte_eqb. apply N.eqb_sym. Qed.

Lemma byte_eqb_neq : forall a b, byte_eqb a b = false <-> a <> b.
Proof.
  intros a b. rewrite <- byte_eqb_eq. destruct (byte_eqb a b); split; congruence.
Qed.

Lemma is_nl_cases : forall c, is_nl c = (byte_eqb c LF || byte_eqb c CR)%bool.
Proof. reflexivity. Qed.

Lemma is_blank_cases : forall c,
  is_blank c = (N.eqb (Byte.to_N c) 32 || N.eqb (Byte.to_N c) 9 || is_nl c)%bool.
Proof.
  intros c. unfold is_blank, is_nl, bN.
  destruct (N.eqb (Byte.to_N c) 32), (N.eqb (Byte.to_N c) 9), (N.eqb (Byte.to_N c) 10); reflexivity.
Qed.

Lemma other_half_LF : forall c, other_half LF c = byte_eqb c CR.
Proof. intros c. unfold other_half. cbn. apply orb_false_r. Qed.

Lemma other_half_CR : forall c, other_half CR c = byte_eqb c LF.
Proof. intros c. reflexivity. Qed.

Lemma other_half_self : forall nl, other_half nl nl = false.
Proof.
  intros nl. unfold other_half.
  destruct (N.eqb (bN nl) 10) eqn:E1, (N.eqb (bN nl) 13) eqn:E2; try reflexivity.
  apply N.eqb_eq in E1. apply N.eqb_eq in E2. rewrite E1 in E2. discriminate.
Qed.

(* ---------- has ---------- *)
Lemma has_cons : forall c x bs, has c (x :: bs) = (byte_eqb c x || has c bs)%bool.
Proof. reflexivity. Qed.

Lemma has_app : forall c a b, has c (a ++ b) = (has c a || has c b)%bool.
Proof. intros c a b. unfold has. apply existsb_app. Qed.

Lemma has_false_In : forall c bs, has c bs = false -> forall x, In x bs -> byte_eqb x c = false.
Proof.
  intros c bs. induction bs as [|y r IH]; intros H x Hin.
  - destruct Hin.
  - rewrite has_cons in H. apply orb_false_iff in H. destruct H as [H1 H2].
    destruct Hin as [->|Hin].
    + now rewrite byte_eqb_sym.
    + now apply IH.
Qed.

Lemma In_has_false : forall c bs, (forall x, In x bs -> byte_eqb x c = false) -> has c bs = false.
Proof.
  intros c bs. induction bs as [|y r IH]; intros H.
  - reflexivity.
  - rewrite has_cons. apply orb_false_iff. split.
    + rewrite byte_eqb_sym. apply H. now left.
    + apply IH. intros x Hx. apply H. now right.
Qed.

(* ---------- render_total ---------- *)
Theorem render_total : forall content p, (p < N.of_nat (length content))%N -> render content p <> RPanic.
Proof.
  intros content p H. unfold render.
  apply N.ltb_lt in H. rewrite H. discriminate.
Qed.

(* ---------- detect_nl ---------- *)
Lemma detect_nl_aux_only : forall nl bs found,
  (forall x, In x bs -> is_nl x = true -> x = nl) ->
  detect_nl_aux found nl bs = nl.
Proof.
  intros nl bs. induction bs as [|c r IH]; intros found H.
  - reflexivity.
  - cbn [detect_nl_aux]. destruct (is_nl c) eqn:E.
    + assert (c = nl) as -> by (apply H; [now left|exact E]).
      apply IH. intros x Hx. apply H. now right.
    + destruct found; [reflexivity|].
      apply IH. intros x Hx. apply H. now right.
Qed.

Lemma no_CR_nl_LF : forall x, byte_eqb x CR = false -> is_nl x = true -> x = LF.
Proof.
  intros x H1 H2. rewrite is_nl_cases, H1, orb_false_r in H2. now apply byte_eqb_eq.
Qed.

Lemma no_LF_nl_CR : forall x, byte_eqb x LF = false -> is_nl x = true -> x = CR.
Proof.
  intros x H1 H2. rewrite is_nl_cases, H1, orb_false_l in H2. now apply byte_eqb_eq.
Qed.

Theorem detect_nl_lf : forall content, lf_file content = true -> detect_nl content = LF.
Proof.
  intros content H. unfold lf_file in H. apply negb_true_iff in H.
  unfold detect_nl. apply (detect_nl_aux_only LF).
  intros x Hx Hnl. apply no_CR_nl_LF; [|exact Hnl].
  now apply (has_false_In CR content).
Qed.

Lemma detect_nl_aux_first_CR : forall bs nl,
  has LF bs = false -> has CR bs = true -> detect_nl_aux false nl bs = CR.
Proof.
  induction bs as [|c r IH]; intros nl HL HC.
  - discriminate.
  - rewrite has_cons in HL, HC. apply orb_false_iff in HL. destruct HL as [HL1 HL2].
    rewrite byte_eqb_sym in HL1.
    cbn [detect_nl_aux]. destruct (is_nl c) eqn:E.
    + assert (c = CR) as -> by (now apply no_LF_nl_CR).
      apply detect_nl_aux_only. intros x Hx Hnl. apply no_LF_nl_CR; [|exact Hnl].
      now apply (has_false_In LF r).
    + rewrite is_nl_cases in E. apply orb_false_iff in E. destruct E as [_ E].
      rewrite byte_eqb_sym, E in HC. cbn [orb] in HC. now apply IH.
Qed.

Theorem detect_nl_cr : forall content, cr_file content = true -> detect_nl content = CR.
Proof.
  intros content H. unfold cr_file in H. apply andb_true_iff in H. destruct H as [H1 H2].
  apply negb_true_iff in H1. unfold detect_nl. now apply detect_nl_aux_first_CR.
Qed.

Lemma detect_nl_aux_crlf : forall bs found,
  (crlf_ok false bs = true -> detect_nl_aux found LF bs = LF) /\
  (crlf_ok true bs = true -> forall nl, detect_nl_aux found nl bs = LF).
Proof.
  induction bs as [|c r IH]; intros found.
  - split; [reflexivity|discriminate].
  - cbn [crlf_ok detect_nl_aux]. rewrite is_nl_cases.
    destruct (byte_eqb c CR) eqn:ECR.
    + split; [|discriminate].
      cbn [negb andb]. intros H. rewrite orb_true_r. now apply (proj2 (IH true)).
    + destruct (byte_eqb c LF) eqn:ELF.
      * split; [discriminate|].
        cbn [andb orb]. intros H nl. apply byte_eqb_eq in ELF. subst c. now apply (proj1 (IH true)).
      * split; [|discriminate].
        cbn [negb andb orb]. intros H. destruct found; [reflexivity|]. now apply (proj1 (IH false)).
Qed.

Theorem detect_nl_crlf : forall content, crlf_file content = true -> detect_nl content = LF.
Proof.
  intros content H. unfold crlf_file in H. apply andb_true_iff in H. destruct H as [H _].
  unfold detect_nl. now apply (proj1 (detect_nl_aux_crlf content false)).
Qed.

(* ---------- line numbers ---------- *)
Lemma count_nl_count_byte : forall nl bs, count_nl nl bs = count_byte nl bs.
Proof. reflexivity. Qed.

Lemma line_no_eq : forall content p, (p < N.of_nat (length content))%N ->
  line_no content p = N.succ (count_byte (detect_nl content) (firstn (N.to_nat p) content)).
Proof.
  intros content p H. unfold line_no. destruct content as [|c r].
  - cbn [length] in H. lia.
  - now rewrite count_nl_count_byte.
Qed.

Theorem line_number_lf : forall content p, lf_file content = true -> (p < N.of_nat (length content))%N ->
  line_no content p = N.succ (count_byte LF (firstn (N.to_nat p) content)).
Proof. intros content p H Hp. rewrite line_no_eq by exact Hp. now rewrite detect_nl_lf. Qed.

Theorem line_number_cr : forall content p, cr_file content = true -> (p < N.of_nat (length content))%N ->
  line_no content p = N.succ (count_byte CR (firstn (N.to_nat p) content)).
Proof. intros content p H Hp. rewrite line_no_eq by exact Hp. now rewrite detect_nl_cr. Qed.

Theorem line_number_crlf : forall content p, crlf_file content = true -> (p < N.of_nat (length content))%N ->
  line_no content p = N.succ (count_byte LF (firstn (N.to_nat p) content)).
Proof. intros content p H Hp. rewrite line_no_eq by exact Hp. now rewrite detect_nl_crlf. Qed.

(* ---------- last_nl_end / first_nl_from ---------- *)
Lemma last_nl_end_app : forall nl a b pos acc,
  last_nl_end nl (a ++ b) pos acc =
  last_nl_end nl b (pos + N.of_nat (length a)) (last_nl_end nl a pos acc).
Proof.
  intros nl a. induction a as [|c r IH]; intros b pos acc.
  - cbn [app length last_nl_end]. f_equal. lia.
  - cbn [app length last_nl_end]. rewrite IH. f_equal. lia.
Qed.

Lemma last_nl_end_none : forall nl bs pos acc, has nl bs = false -> last_nl_end nl bs pos acc = acc.
Proof.
  intros nl bs. induction bs as [|c r IH]; intros pos acc H.
  - reflexivity.
  - rewrite has_cons in H. apply orb_false_iff in H. destruct H as [H1 H2].
    cbn [last_nl_end]. rewrite byte_eqb_sym, H1. now apply IH.
Qed.

Lemma last_nl_end_le : forall nl bs pos acc, (acc <= pos)%N ->
  (last_nl_end nl bs pos acc <= pos + N.of_nat (length bs))%N.
Proof.
  intros nl bs. induction bs as [|c r IH]; intros pos acc H.
  - cbn [last_nl_end length]. lia.
  - cbn [last_nl_end length].
    specialize (IH (N.succ pos) (if byte_eqb c nl then N.succ pos else acc)).
    destruct (byte_eqb c nl); lia.
Qed.

Lemma first_nl_from_bounds : forall nl bs pos,
  (pos <= first_nl_from nl bs pos <= pos + N.of_nat (length bs))%N.
Proof.
  intros nl bs. induction bs as [|c r IH]; intros pos.
  - cbn [first_nl_from length]. lia.
  - cbn [first_nl_from length]. specialize (IH (N.succ pos)).
    destruct (byte_eqb c nl); lia.
Qed.

Lemma first_nl_from_app_none : forall nl a b pos, has nl a = false ->
  first_nl_from nl (a ++ b) pos = first_nl_from nl b (pos + N.of_nat (length a)).
Proof.
  intros nl a. induction a as [|c r IH]; intros b pos H.
  - cbn [app length]. f_equal. lia.
  - rewrite has_cons in H. apply orb_false_iff in H. destruct H as [H1 H2].
    cbn [app length first_nl_from]. rewrite byte_eqb_sym, H1, IH by exact H2. f_equal. lia.
Qed.

Lemma firstn_S_nth : forall (l : bytes) n c, nth_error l n = Some c ->
  firstn (S n) l = firstn n l ++ [c].
Proof.
  induction l as [|x r IH]; intros n c H.
  - destruct n; discriminate.
  - destruct n as [|n].
    + cbn in H. inversion H. reflexivity.
    + cbn [nth_error] in H. cbn [firstn app]. f_equal. now apply IH.
Qed.

(* ---------- slice_bounds ---------- *)
Lemma line_begin_le : forall nl content p, (p <= N.of_nat (length content))%N ->
  (line_begin nl content p <= p)%N.
Proof.
  intros nl content p H. unfold line_begin.
  pose proof (last_nl_end_le nl (firstn (N.to_nat p) content) 0 0) as B.
  rewrite firstn_length in B. lia.
Qed.

Lemma line_end_le : forall nl content p, (p <= N.of_nat (length content))%N ->
  (line_end nl content p <= N.of_nat (length content))%N.
Proof.
  intros nl content p H. unfold line_end.
  pose proof (first_nl_from_bounds nl (skipn (N.to_nat p) content) p) as B.
  rewrite skipn_length in B.
  set (i := first_nl_from nl (skipn (N.to_nat p) content) p) in *.
  destruct (N.ltb 0 i); [|lia].
  destruct (nth_error content (N.to_nat (i - 1))) as [c|]; [|lia].
  destruct (other_half nl c); lia.
Qed.

Lemma line_begin_le_end : forall nl content p, (p <= N.of_nat (length content))%N ->
  (line_begin nl content p <= line_end nl content p)%N.
Proof.
  intros nl content p H.
  pose proof (line_begin_le nl content p H) as Hb.
  unfold line_end.
  pose proof (first_nl_from_bounds nl (skipn (N.to_nat p) content) p) as B.
  set (i := first_nl_from nl (skipn (N.to_nat p) content) p) in *.
  destruct (N.ltb 0 i) eqn:E0; [|lia].
  destruct (nth_error content (N.to_nat (i - 1))) as [c|] eqn:En; [|lia].
  destruct (other_half nl c) eqn:Eo; [|lia].
  assert (Hi : (p < i \/ i = p)%N) by lia. destruct Hi as [Hi|Hi]; [lia|].
  apply N.ltb_lt in E0. rewrite Hi in En.
  unfold line_begin in *.
  replace (N.to_nat p) with (S (N.to_nat (p - 1))) in * by lia.
  rewrite (firstn_S_nth _ _ _ En), last_nl_end_app in *.
  cbn [last_nl_end].
  destruct (byte_eqb c nl) eqn:Ec.
  - apply byte_eqb_eq in Ec. subst c. rewrite other_half_self in Eo. discriminate.
  - pose proof (last_nl_end_le nl (firstn (N.to_nat (p - 1)) content) 0 0) as B2.
    rewrite firstn_length in B2. lia.
Qed.

Theorem slice_bounds : forall content p, (p < N.of_nat (length content))%N ->
  let nl := detect_nl content in
  (line_begin nl content p <= p /\ line_begin nl content p <= line_end nl content p /\ line_end nl content p <= N.of_nat (length content))%N.
Proof.
  intros content p H nl. assert (H' : (p <= N.of_nat (length content))%N) by lia.
  split; [|split].
  - now apply line_begin_le.
  - now apply line_begin_le_end.
  - now apply line_end_le.
Qed.

(* ---------- list helpers ---------- *)
Lemma skipn_app_len : forall (a b : bytes), skipn (length a) (a ++ b) = b.
Proof. induction a as [|x r IH]; intros b; [reflexivity|]. cbn [length app skipn]. apply IH. Qed.

Lemma firstn_app_len : forall (a b : bytes), firstn (length a) (a ++ b) = a.
Proof. induction a as [|x r IH]; intros b; [reflexivity|]. cbn [length app firstn]. f_equal. apply IH. Qed.

Lemma firstn_app_le : forall (a b : bytes) n, (n <= length a)%nat -> firstn n (a ++ b) = firstn n a.
Proof.
  induction a as [|x r IH]; intros b n H.
  - cbn [length] in H. assert (n = 0)%nat as -> by lia. reflexivity.
  - destruct n as [|n]; [reflexivity|]. cbn [length] in H. cbn [app firstn]. f_equal. apply IH. lia.
Qed.

Lemma skipn_app_le : forall (a b : bytes) n, (n <= length a)%nat -> skipn n (a ++ b) = skipn n a ++ b.
Proof.
  induction a as [|x r IH]; intros b n H.
  - cbn [length] in H. assert (n = 0)%nat as -> by lia. reflexivity.
  - destruct n as [|n]; [reflexivity|]. cbn [length] in H. cbn [app skipn]. apply IH. lia.
Qed.

Lemma firstn_app_ge : forall (a b : bytes) n, (length a <= n)%nat ->
  firstn n (a ++ b) = a ++ firstn (n - length a) b.
Proof.
  induction a as [|x r IH]; intros b n H.
  - cbn [app length]. now rewrite Nat.sub_0_r.
  - destruct n as [|n]; [cbn [length] in H; lia|]. cbn [length] in *. cbn [app firstn Nat.sub]. f_equal. apply IH. lia.
Qed.

Lemma skipn_app_ge : forall (a b : bytes) n, (length a <= n)%nat ->
  skipn n (a ++ b) = skipn (n - length a) b.
Proof.
  induction a as [|x r IH]; intros b n H.
  - cbn [app length]. now rewrite Nat.sub_0_r.
  - destruct n as [|n]; [cbn [length] in H; lia|]. cbn [length] in *. cbn [app skipn Nat.sub]. apply IH. lia.
Qed.

Lemma In_firstn : forall (l : bytes) n x, In x (firstn n l) -> In x l.
Proof.
  induction l as [|y r IH]; intros n x H.
  - destruct n; exact H.
  - destruct n as [|n]; [destruct H|]. cbn [firstn] in H. destruct H as [H|H]; [now left|right; now apply (IH n)].
Qed.

Lemma In_skipn : forall (l : bytes) n x, In x (skipn n l) -> In x l.
Proof.
  induction l as [|y r IH]; intros n x H.
  - destruct n; exact H.
  - destruct n as [|n]; [exact H|]. cbn [skipn] in H. right. now apply (IH n).
Qed.

Lemma has_firstn : forall c l n, has c l = false -> has c (firstn n l) = false.
Proof.
  intros c l n H. apply In_has_false. intros x Hx. apply (has_false_In c l H). now apply (In_firstn l n).
Qed.

Lemma has_skipn : forall c l n, has c l = false -> has c (skipn n l) = false.
Proof.
  intros c l n H. apply In_has_false. intros x Hx. apply (has_false_In c l H). now apply (In_skipn l n).
Qed.

(* ---------- where the line begins and ends ---------- *)
Lemma line_begin_at : forall nl content pre line post p,
  is_line_at nl content pre line post p ->
  line_begin nl content p = N.of_nat (length pre).
Proof.
  intros nl content pre line post p (Hc & Hpre & Hline & Hpost & Hp1 & Hp2).
  unfold line_begin. subst content.
  rewrite firstn_app_ge by exact Hp1.
  rewrite firstn_app_le by lia.
  rewrite last_nl_end_app.
  rewrite (last_nl_end_none nl (firstn _ line)) by (now apply has_firstn).
  destruct Hpre as [->|[pre' ->]].
  - reflexivity.
  - rewrite last_nl_end_app. cbn [last_nl_end]. rewrite byte_eqb_refl.
    rewrite app_length. cbn [length]. lia.
Qed.

Lemma first_nl_at : forall nl content pre line post p,
  is_line_at nl content pre line post p ->
  first_nl_from nl (skipn (N.to_nat p) content) p = N.of_nat (length pre + length line).
Proof.
  intros nl content pre line post p (Hc & Hpre & Hline & Hpost & Hp1 & Hp2).
  subst content. rewrite skipn_app_ge by exact Hp1.
  rewrite skipn_app_le by lia.
  rewrite first_nl_from_app_none by (now apply has_skipn).
  rewrite skipn_length.
  destruct Hpost as [->|[post' ->]].
  - cbn [first_nl_from]. lia.
  - cbn [first_nl_from]. rewrite byte_eqb_refl. lia.
Qed.

Lemma line_end_at : forall nl content pre line post p,
  is_line_at nl content pre line post p ->
  (forall c, In c content -> other_half nl c = false) ->
  line_end nl content p = N.of_nat (length pre + length line).
Proof.
  intros nl content pre line post p Hat Hoh.
  unfold line_end. rewrite (first_nl_at _ _ _ _ _ _ Hat).
  destruct (N.ltb 0 (N.of_nat (length pre + length line))); [|reflexivity].
  destruct (nth_error content _) as [c|] eqn:En; [|reflexivity].
  apply nth_error_In in En. now rewrite (Hoh c En).
Qed.

Lemma slice_line : forall pre line post : bytes,
  slice (pre ++ line ++ post) (N.of_nat (length pre)) (N.of_nat (length pre + length line)) = line.
Proof.
  intros pre line post. unfold slice.
  rewrite Nat2N.id, skipn_app_len.
  replace (N.to_nat _) with (length line) by lia.
  apply firstn_app_len.
Qed.

(* ---------- blanks ---------- *)
Lemma is_blank_no_nl : forall c, is_nl c = false ->
  is_blank c = (N.eqb (Byte.to_N c) 32 || N.eqb (Byte.to_N c) 9)%bool.
Proof. intros c H. rewrite is_blank_cases, H. apply orb_false_r. Qed.

Lemma drop_blank_skipn : forall bs, (forall x, In x bs -> is_nl x = false) ->
  drop_blank bs = skipn (lead_blanks bs) bs.
Proof.
  induction bs as [|c r IH]; intros H.
  - reflexivity.
  - cbn [drop_blank lead_blanks]. rewrite is_blank_no_nl by (apply H; now left).
    destruct (N.eqb (Byte.to_N c) 32 || N.eqb (Byte.to_N c) 9)%bool.
    + cbn [skipn]. apply IH. intros x Hx. apply H. now right.
    + reflexivity.
Qed.

(* indentation (all four blank bytes) and lead_blanks (space, tab) agree on a line that has no
   new-line byte; a line of blanks only included: both are its length *)
Lemma indentation_lead : forall bs, (forall x, In x bs -> is_nl x = false) ->
  indentation bs = lead_blanks bs.
Proof.
  induction bs as [|c r IH]; intros H.
  - reflexivity.
  - cbn [indentation lead_blanks]. rewrite is_blank_no_nl by (apply H; now left).
    destruct (N.eqb (Byte.to_N c) 32 || N.eqb (Byte.to_N c) 9)%bool.
    + f_equal. apply IH. intros x Hx. apply H. now right.
    + reflexivity.
Qed.

Lemma indentation_le : forall bs, (indentation bs <= length bs)%nat.
Proof.
  induction bs as [|c r IH]; cbn [indentation length]; [lia|]. destruct (is_blank c); lia.
Qed.

Lemma drop_blank_indentation : forall bs, drop_blank bs = skipn (indentation bs) bs.
Proof.
  induction bs as [|c r IH]; [reflexivity|].
  cbn [drop_blank indentation]. destruct (is_blank c); [cbn [skipn]; exact IH|reflexivity].
Qed.

(* a line of blanks only: nothing is left to show *)
Lemma lead_blanks_le : forall bs, (lead_blanks bs <= length bs)%nat.
Proof.
  induction bs as [|c r IH]; cbn [lead_blanks length]; [lia|].
  destruct (N.eqb (Byte.to_N c) 32 || N.eqb (Byte.to_N c) 9)%bool; lia.
Qed.

Lemma shown_all_blank : forall line, lead_blanks line = length line -> shown line = [].
Proof.
  intros line H. unfold shown. rewrite H, skipn_all. reflexivity.
Qed.

(* ---------- shown text and caret, for any new-line byte ---------- *)
Lemma source_substring_eq : forall content p, content <> [] ->
  source_substring content p =
    let nl := detect_nl content in
    let b := line_begin nl content p in
    let e := line_end nl content p in
    let line := slice content b e in
    let t := skipn (indentation line) line in
    if Nat.ltb 200 (length t) then firstn 197 t ++ dots else t.
Proof. intros content p H. destruct content; [congruence|reflexivity]. Qed.

(* the two facts the renderer needs about the line: where it begins and where it ends *)
Lemma line_text_core : forall nl content pre line post p,
  content = pre ++ line ++ post ->
  detect_nl content = nl ->
  line_begin nl content p = N.of_nat (length pre) ->
  line_end nl content p = N.of_nat (length pre + length line) ->
  (forall c, In c line -> is_nl c = false) ->
  source_substring content p = shown line.
Proof.
  intros nl content pre line post p Hc Hd Hb He Hnl.
  destruct content as [|c0 r0] eqn:Ec.
  - symmetry in Hc. apply app_eq_nil in Hc. destruct Hc as [_ Hc].
    apply app_eq_nil in Hc. destruct Hc as [-> _]. reflexivity.
  - rewrite <- Ec in *. rewrite source_substring_eq by (rewrite Ec; discriminate). cbv zeta.
    rewrite Hd, Hb, He. rewrite Hc.
    unfold shown. rewrite slice_line, (indentation_lead line Hnl). reflexivity.
Qed.

Lemma caret_core : forall nl content pre line post p,
  content = pre ++ line ++ post ->
  detect_nl content = nl ->
  line_begin nl content p = N.of_nat (length pre) ->
  line_end nl content p = N.of_nat (length pre + length line) ->
  (forall c, In c line -> is_nl c = false) ->
  caret_offset content p = N.of_nat (N.to_nat p - length pre - lead_blanks line).
Proof.
  intros nl content pre line post p Hc Hd Hb He Hnl.
  unfold caret_offset. rewrite Hd, Hb, He. rewrite Hc.
  rewrite slice_line, (indentation_lead line Hnl). lia.
Qed.

Lemma line_text_gen : forall nl content pre line post p,
  detect_nl content = nl ->
  (forall c, In c content -> other_half nl c = false) ->
  (forall c, In c line -> is_nl c = false) ->
  is_line_at nl content pre line post p ->
  source_substring content p = shown line.
Proof.
  intros nl content pre line post p Hd Hoh Hnl Hat.
  apply (line_text_core nl content pre line post p); try assumption.
  - now destruct Hat.
  - exact (line_begin_at _ _ _ _ _ _ Hat).
  - exact (line_end_at _ _ _ _ _ _ Hat Hoh).
Qed.

Lemma caret_gen : forall nl content pre line post p,
  detect_nl content = nl ->
  (forall c, In c content -> other_half nl c = false) ->
  (forall c, In c line -> is_nl c = false) ->
  is_line_at nl content pre line post p ->
  caret_offset content p = N.of_nat (N.to_nat p - length pre - lead_blanks line).
Proof.
  intros nl content pre line post p Hd Hoh Hnl Hat.
  apply (caret_core nl content pre line post p); try assumption.
  - now destruct Hat.
  - exact (line_begin_at _ _ _ _ _ _ Hat).
  - exact (line_end_at _ _ _ _ _ _ Hat Hoh).
Qed.

(* ---------- LF files ---------- *)
Lemma lf_line_no_nl : forall content pre line post p, lf_file content = true ->
  is_line_at LF content pre line post p -> forall c, In c line -> is_nl c = false.
Proof.
  intros content pre line post p Hf (Hc & _ & Hline & _) c Hin.
  unfold lf_file in Hf. apply negb_true_iff in Hf.
  rewrite is_nl_cases. apply orb_false_iff. split.
  - now apply (has_false_In LF line).
  - apply (has_false_In CR content Hf). subst content. apply in_or_app. right. apply in_or_app. now left.
Qed.

Lemma lf_no_other_half : forall content, lf_file content = true ->
  forall c, In c content -> other_half LF c = false.
Proof.
  intros content Hf c Hin. unfold lf_file in Hf. apply negb_true_iff in Hf.
  rewrite other_half_LF. now apply (has_false_In CR content).
Qed.

Theorem line_text_lf : forall content pre line post p, lf_file content = true -> is_line_at LF content pre line post p ->
  source_substring content p = shown line.
Proof.
  intros content pre line post p Hf Hat.
  apply (line_text_gen LF content pre line post p).
  - now apply detect_nl_lf.
  - now apply lf_no_other_half.
  - now apply (lf_line_no_nl content pre line post p).
  - exact Hat.
Qed.

Theorem caret_lf : forall content pre line post p, lf_file content = true -> is_line_at LF content pre line post p ->
  caret_offset content p = N.of_nat (N.to_nat p - length pre - lead_blanks line).
Proof.
  intros content pre line post p Hf Hat.
  apply (caret_gen LF content pre line post p).
  - now apply detect_nl_lf.
  - now apply lf_no_other_half.
  - now apply (lf_line_no_nl content pre line post p).
  - exact Hat.
Qed.

(* ---------- CR files ---------- *)
Lemma cr_line_no_nl : forall content pre line post p, cr_file content = true ->
  is_line_at CR content pre line post p -> forall c, In c line -> is_nl c = false.
Proof.
  intros content pre line post p Hf (Hc & _ & Hline & _) c Hin.
  unfold cr_file in Hf. apply andb_true_iff in Hf. destruct Hf as [Hf _]. apply negb_true_iff in Hf.
  rewrite is_nl_cases. apply orb_false_iff. split.
  - apply (has_false_In LF content Hf). subst content. apply in_or_app. right. apply in_or_app. now left.
  - now apply (has_false_In CR line).
Qed.

Lemma cr_no_other_half : forall content, cr_file content = true ->
  forall c, In c content -> other_half CR c = false.
Proof.
  intros content Hf c Hin. unfold cr_file in Hf. apply andb_true_iff in Hf. destruct Hf as [Hf _].
  apply negb_true_iff in Hf. rewrite other_half_CR. now apply (has_false_In LF content).
Qed.

Theorem line_text_cr : forall content pre line post p, cr_file content = true -> is_line_at CR content pre line post p ->
  source_substring content p = shown line.
Proof.
  intros content pre line post p Hf Hat.
  apply (line_text_gen CR content pre line post p).
  - now apply detect_nl_cr.
  - now apply cr_no_other_half.
  - now apply (cr_line_no_nl content pre line post p).
  - exact Hat.
Qed.

Theorem caret_cr : forall content pre line post p, cr_file content = true -> is_line_at CR content pre line post p ->
  caret_offset content p = N.of_nat (N.to_nat p - length pre - lead_blanks line).
Proof.
  intros content pre line post p Hf Hat.
  apply (caret_gen CR content pre line post p).
  - now apply detect_nl_cr.
  - now apply cr_no_other_half.
  - now apply (cr_line_no_nl content pre line post p).
  - exact Hat.
Qed.

(* ---------- CRLF files ---------- *)
(* seen with the new-line byte LF, the line of a CRLF file carries its CR *)
Lemma crlf_line_lf : forall content pre line post p,
  is_line_at_crlf content pre line post p ->
  (post = [] /\ is_line_at LF content pre line [] p) \/
  (exists post', post = CR :: LF :: post' /\ is_line_at LF content pre (line ++ [CR]) (LF :: post') p).
Proof.
  intros content pre line post p (Hc & Hpre & HlC & HlL & Hpost & Hp1 & Hp2).
  assert (Hpre' : pre = [] \/ exists pre', pre = pre' ++ [LF]).
  { destruct Hpre as [->|[pre' ->]]; [now left|]. right. exists (pre' ++ [CR]). now rewrite <- app_assoc. }
  destruct Hpost as [->|[post' ->]].
  - left. split; [reflexivity|]. repeat split; try assumption.
    + now left.
    + destruct Hp2 as [Hp2|[_ Hp2]]; [now left|congruence].
  - right. exists post'. split; [reflexivity|]. repeat split; try assumption.
    + rewrite Hc, <- app_assoc. reflexivity.
    + rewrite has_app, HlL. reflexivity.
    + right. now exists post'.
    + rewrite app_length. cbn [length].
      destruct Hp2 as [Hp2|[Hp2 _]]; [left; lia|].
      assert (E : (N.to_nat p < length pre + (length line + 1) \/ N.to_nat p = length pre + (length line + 1))%nat) by lia.
      destruct E as [E|E]; [now left|right; split; [exact E|discriminate]].
Qed.

Lemma line_begin_crlf_at : forall content pre line post p,
  is_line_at_crlf content pre line post p ->
  line_begin LF content p = N.of_nat (length pre).
Proof.
  intros content pre line post p Hat.
  destruct (crlf_line_lf _ _ _ _ _ Hat) as [[_ H]|[post' [_ H]]]; exact (line_begin_at _ _ _ _ _ _ H).
Qed.

Lemma nth_error_last_app : forall (a : bytes) c b, nth_error (a ++ c :: b) (length a) = Some c.
Proof. intros a c b. rewrite nth_error_app2 by lia. now rewrite Nat.sub_diag. Qed.

Lemma line_end_crlf_at : forall content pre line post p,
  is_line_at_crlf content pre line post p ->
  line_end LF content p = N.of_nat (length pre + length line).
Proof.
  intros content pre line post p Hat.
  pose proof Hat as (Hc & Hpre & HlC & HlL & _).
  destruct (crlf_line_lf _ _ _ _ _ Hat) as [[-> H]|[post' [-> H]]];
    unfold line_end; rewrite (first_nl_at _ _ _ _ _ _ H).
  - (* last line, no terminator: the byte before the end is not a CR *)
    destruct (N.ltb 0 (N.of_nat (length pre + length line))) eqn:E0; [|reflexivity].
    apply N.ltb_lt in E0.
    assert (Hn : exists c, nth_error content (N.to_nat (N.of_nat (length pre + length line) - 1)) = Some c /\
                           byte_eqb c CR = false).
    { rewrite Hc, app_nil_r.
      destruct (rev line) as [|c rl] eqn:Er.
      - apply (f_equal (@rev byte)) in Er. rewrite rev_involutive in Er. cbn [rev] in Er. subst line.
        cbn [length] in *. rewrite app_nil_r.
        destruct Hpre as [->|[pre' ->]]; [cbn [length] in E0; lia|].
        exists LF. split; [|reflexivity].
        replace (pre' ++ [CR; LF]) with ((pre' ++ [CR]) ++ [LF]) by now rewrite <- app_assoc.
        replace (N.to_nat _) with (length (pre' ++ [CR])) by (rewrite !app_length; cbn [length]; lia).
        apply nth_error_last_app.
      - apply (f_equal (@rev byte)) in Er. rewrite rev_involutive in Er. cbn [rev] in Er. subst line.
        exists c. split.
        + rewrite app_assoc.
          replace (N.to_nat _) with (length (pre ++ rev rl)) by (rewrite !app_length; cbn [length]; lia).
          apply nth_error_last_app.
        + apply (has_false_In CR _ HlC). apply in_or_app. right. now left. }
    destruct Hn as [c [-> Hcr]]. now rewrite other_half_LF, Hcr.
  - (* the byte before the LF is the CR *)
    rewrite app_length. cbn [length].
    destruct (N.ltb 0 (N.of_nat (length pre + (length line + 1)))) eqn:E0; [|apply N.ltb_ge in E0; lia].
    assert (Hn : nth_error content (N.to_nat (N.of_nat (length pre + (length line + 1)) - 1)) = Some CR).
    { rewrite Hc, app_assoc.
      replace (N.to_nat _) with (length (pre ++ line)) by (rewrite app_length; lia).
      apply nth_error_last_app. }
    rewrite Hn. cbn. lia.
Qed.

Lemma crlf_line_no_nl : forall content pre line post p,
  is_line_at_crlf content pre line post p -> forall c, In c line -> is_nl c = false.
Proof.
  intros content pre line post p (_ & _ & HlC & HlL & _) c Hin.
  rewrite is_nl_cases. apply orb_false_iff. split.
  - now apply (has_false_In LF line).
  - now apply (has_false_In CR line).
Qed.

Theorem line_text_crlf : forall content pre line post p, crlf_file content = true ->
  is_line_at_crlf content pre line post p ->
  source_substring content p = shown line.
Proof.
  intros content pre line post p Hf Hat.
  apply (line_text_core LF content pre line post p).
  - now destruct Hat.
  - now apply detect_nl_crlf.
  - now apply (line_begin_crlf_at content pre line post p).
  - now apply (line_end_crlf_at content pre line post p).
  - now apply (crlf_line_no_nl content pre line post p).
Qed.

Theorem caret_crlf : forall content pre line post p, crlf_file content = true ->
  is_line_at_crlf content pre line post p ->
  caret_offset content p = N.of_nat (N.to_nat p - length pre - lead_blanks line).
Proof.
  intros content pre line post p Hf Hat.
  apply (caret_core LF content pre line post p).
  - now destruct Hat.
  - now apply detect_nl_crlf.
  - now apply (line_begin_crlf_at content pre line post p).
  - now apply (line_end_crlf_at content pre line post p).
  - now apply (crlf_line_no_nl content pre line post p).
Qed.
