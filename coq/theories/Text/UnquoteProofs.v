(* UnquoteProofs.v — proofs about Text/Unquote.v (properties C02 / C13):
   UTF-8 decode/encode round trip, the two phases of unquoteBytes agree with the
   rewriting loop alone, every admissible spelling of a string value unquotes to the
   value's UTF-8 bytes, scanner-accepted string tokens always unquote. *)
From Coq Require Import List ZArith NArith Bool Arith.
From Coq Require Import Strings.Byte.
From Coq Require Import ZifyN ZifyNat Lia.
Import ListNotations.
From JS Require Import Common.Wire Text.Unquote Json.Scanner Json.Grammar.
Local Open Scope N_scope.

#[local] Ltac Zify.zify_post_hook ::= Z.div_mod_to_equations.

#[local] Arguments N.div : simpl never.
#[local] Arguments N.modulo : simpl never.
#[local] Arguments N.mul : simpl never.
#[local] Arguments N.add : simpl never.
#[local] Arguments N.sub : simpl never.
#[local] Arguments N.leb : simpl never.
#[local] Arguments N.ltb : simpl never.
#[local] Arguments N.eqb : simpl never.

(* ---------- bytes and numbers ---------- *)
Lemma bN_ofN : forall n, n < 256 -> Unquote.bN (ofN n) = n.
Proof.
  intros n Hn. unfold Unquote.bN, ofN.
  destruct (Byte.of_N n) as [b|] eqn:E.
  - apply Byte.to_of_N. exact E.
  - apply Byte.of_N_None_iff in E. lia.
Qed.

Lemma ofN_bN : forall c, ofN (Unquote.bN c) = c.
Proof. intros c. unfold Unquote.bN, ofN. rewrite Byte.of_to_N. reflexivity. Qed.

Lemma bN_lt : forall c, Unquote.bN c < 256.
Proof. intros c. unfold Unquote.bN. pose proof (Byte.to_N_bounded c). lia. Qed.

Lemma bN_same : Scanner.bN = Unquote.bN.
Proof. reflexivity. Qed.

Ltac nb :=
  repeat match goal with
  | H : N.eqb _ _ = true |- _ => apply N.eqb_eq in H
  | H : N.eqb _ _ = false |- _ => apply N.eqb_neq in H
  | H : N.leb _ _ = true |- _ => apply N.leb_le in H
  | H : N.leb _ _ = false |- _ => apply N.leb_gt in H
  | H : N.ltb _ _ = true |- _ => apply N.ltb_lt in H
  | H : N.ltb _ _ = false |- _ => apply N.ltb_ge in H
  | H : andb _ _ = true |- _ => apply andb_true_iff in H; destruct H
  | H : orb _ _ = false |- _ => apply orb_false_iff in H; destruct H
  | H : negb _ = true |- _ => apply negb_true_iff in H
  | H : negb _ = false |- _ => apply negb_false_iff in H
  end.

Lemma eqb_t : forall a b, a = b -> N.eqb a b = true.
Proof. intros; apply N.eqb_eq; assumption. Qed.
Lemma eqb_f : forall a b, a <> b -> N.eqb a b = false.
Proof. intros; apply N.eqb_neq; assumption. Qed.
Lemma leb_t : forall a b, a <= b -> N.leb a b = true.
Proof. intros; apply N.leb_le; assumption. Qed.
Lemma leb_f : forall a b, b < a -> N.leb a b = false.
Proof. intros; apply N.leb_gt; assumption. Qed.
Lemma ltb_t : forall a b, a < b -> N.ltb a b = true.
Proof. intros; apply N.ltb_lt; assumption. Qed.
Lemma ltb_f : forall a b, b <= a -> N.ltb a b = false.
Proof. intros; apply N.ltb_ge; assumption. Qed.

Lemma in_rng_t : forall lo hi b, lo <= Unquote.bN b -> Unquote.bN b <= hi -> in_rng lo hi b = true.
Proof. intros lo hi b H1 H2. unfold in_rng. rewrite !leb_t by assumption. reflexivity. Qed.

Lemma scalar_cases : forall r, scalar r = true -> r < 55296 \/ (57343 < r /\ r <= 1114111).
Proof.
  intros r H. unfold scalar, max_rune in H. apply orb_true_iff in H. destruct H as [H|H]; nb; lia.
Qed.

(* ---------- decode after encode ---------- *)
Theorem decode_encode : forall r rest, scalar r = true ->
  decode_rune (encode_rune r ++ rest) = (r, length (encode_rune r)).
Proof.
  intros r rest Hs. apply scalar_cases in Hs.
  unfold encode_rune.
  destruct (N.leb r 127) eqn:E1; nb.
  { cbn [app length]. unfold decode_rune. rewrite bN_ofN by lia. rewrite ltb_t by lia. reflexivity. }
  destruct (N.leb r 2047) eqn:E2; nb.
  { cbn [app length]. unfold decode_rune. rewrite !bN_ofN by lia.
    rewrite ltb_f by lia. rewrite ltb_f by lia. rewrite ltb_t by lia.
    rewrite in_rng_t by (rewrite bN_ofN by lia; lia).
    f_equal. lia. }
  replace (N.ltb max_rune r || is_surrogate r)%bool with false.
  2:{ symmetry. apply orb_false_iff. unfold max_rune, is_surrogate. split.
      - apply ltb_f. lia.
      - destruct Hs as [Hs|Hs]; [rewrite (leb_f 55296 r) by lia; reflexivity|].
        rewrite (ltb_f r 57344) by lia. apply andb_false_r. }
  destruct (N.leb r 65535) eqn:E3; nb.
  { unfold encode3. cbn [app length]. unfold decode_rune. rewrite !bN_ofN by lia.
    rewrite ltb_f by lia. rewrite ltb_f by lia. rewrite ltb_f by lia. rewrite ltb_t by lia.
    rewrite in_rng_t.
    2:{ rewrite bN_ofN by lia. destruct (N.eqb_spec (224 + r / 4096) 224); lia. }
    2:{ rewrite bN_ofN by lia. destruct (N.eqb_spec (224 + r / 4096) 237); lia. }
    rewrite in_rng_t by (rewrite bN_ofN by lia; lia).
    f_equal. lia. }
  cbn [app length]. unfold decode_rune. rewrite !bN_ofN by lia.
  rewrite ltb_f by lia. rewrite ltb_f by lia. rewrite ltb_f by lia. rewrite ltb_f by lia. rewrite ltb_t by lia.
  rewrite in_rng_t.
  2:{ rewrite bN_ofN by lia. destruct (N.eqb_spec (240 + r / 262144) 240); lia. }
  2:{ rewrite bN_ofN by lia. destruct (N.eqb_spec (240 + r / 262144) 244); lia. }
  rewrite in_rng_t by (rewrite bN_ofN by lia; lia).
  rewrite in_rng_t by (rewrite bN_ofN by lia; lia).
  f_equal. lia.
Qed.

(* ---------- decode_rune: what a result says about the input ---------- *)
Definition cont (b : byte) : Prop := 128 <= Unquote.bN b <= 191.

Lemma in_rng_e : forall lo hi b, in_rng lo hi b = true -> lo <= Unquote.bN b <= hi.
Proof. intros lo hi b H. unfold in_rng in H. nb. lia. Qed.

Lemma decode_shape : forall c r rr size, 128 <= Unquote.bN c -> decode_rune (c :: r) = (rr, size) ->
  (rr = rune_error /\ size = 1%nat) \/
  (exists b1 t, r = b1 :: t /\ size = 2%nat /\ 194 <= Unquote.bN c < 224 /\ cont b1 /\
     rr = (Unquote.bN c mod 32) * 64 + (Unquote.bN b1) mod 64) \/
  (exists b1 b2 t, r = b1 :: b2 :: t /\ size = 3%nat /\ 224 <= Unquote.bN c < 240 /\ cont b1 /\ cont b2 /\
     (Unquote.bN c = 224 -> 160 <= Unquote.bN b1) /\ (Unquote.bN c = 237 -> Unquote.bN b1 <= 159) /\
     rr = (Unquote.bN c mod 16) * 4096 + ((Unquote.bN b1) mod 64) * 64 + (Unquote.bN b2) mod 64) \/
  (exists b1 b2 b3 t, r = b1 :: b2 :: b3 :: t /\ size = 4%nat /\ 240 <= Unquote.bN c < 245 /\
     cont b1 /\ cont b2 /\ cont b3 /\
     (Unquote.bN c = 240 -> 144 <= Unquote.bN b1) /\ (Unquote.bN c = 244 -> Unquote.bN b1 <= 143) /\
     rr = (Unquote.bN c mod 8) * 262144 + ((Unquote.bN b1) mod 64) * 4096 + ((Unquote.bN b2) mod 64) * 64 + (Unquote.bN b3) mod 64).
Proof.
  intros c r rr size Hc H. unfold decode_rune in H. cbv zeta in H.
  rewrite (ltb_f (Unquote.bN c) 128) in H by lia.
  destruct (N.ltb (Unquote.bN c) 194) eqn:E1; [left; inversion H; auto|].
  destruct (N.ltb (Unquote.bN c) 224) eqn:E2.
  { destruct r as [|b1 t]; [left; inversion H; auto|].
    destruct (in_rng 128 191 b1) eqn:R1; [|left; inversion H; auto].
    right; left. exists b1, t. apply in_rng_e in R1. nb. inversion H. unfold cont. repeat split; auto; lia. }
  destruct (N.ltb (Unquote.bN c) 240) eqn:E3.
  { destruct r as [|b1 [|b2 t]]; try (left; inversion H; auto; fail).
    match type of H with (if ?x then _ else _) = _ => destruct x eqn:R1 end; [|left; inversion H; auto].
    destruct (in_rng 128 191 b2) eqn:R2; [|left; inversion H; auto].
    right; right; left. exists b1, b2, t. apply in_rng_e in R1. apply in_rng_e in R2. nb. inversion H.
    unfold cont. 
    destruct (N.eqb_spec (Unquote.bN c) 224); destruct (N.eqb_spec (Unquote.bN c) 237); repeat split; auto; lia. }
  destruct (N.ltb (Unquote.bN c) 245) eqn:E4; [|left; inversion H; auto].
  destruct r as [|b1 [|b2 [|b3 t]]]; try (left; inversion H; auto; fail).
  match type of H with (if ?x then _ else _) = _ => destruct x eqn:R1 end; [|left; inversion H; auto].
  destruct (in_rng 128 191 b2) eqn:R2; [|left; inversion H; auto].
  destruct (in_rng 128 191 b3) eqn:R3; [|left; inversion H; auto].
  right; right; right. exists b1, b2, b3, t. apply in_rng_e in R1. apply in_rng_e in R2. apply in_rng_e in R3.
  nb. inversion H. unfold cont.
  destruct (N.eqb_spec (Unquote.bN c) 240); destruct (N.eqb_spec (Unquote.bN c) 244); repeat split; auto; lia.
Qed.

Lemma decode_size_pos : forall c r rr size, decode_rune (c :: r) = (rr, size) -> (1 <= size)%nat.
Proof.
  intros c r rr size H.
  destruct (N.ltb (Unquote.bN c) 128) eqn:E.
  - unfold decode_rune in H. cbv zeta in H. rewrite E in H. inversion H. lia.
  - nb. apply decode_shape in H; [|lia].
    destruct H as [[_ H]|[(b1 & t & _ & H & _)|[(b1 & b2 & t & _ & H & _)|(b1 & b2 & b3 & t & _ & H & _)]]]; lia.
Qed.

(* encode after decode: a decoded rune that is not the error marker re-encodes to the bytes read *)
Lemma encode_decode : forall c r rr size, 128 <= Unquote.bN c -> decode_rune (c :: r) = (rr, size) ->
  (N.eqb rr rune_error && Nat.eqb size 1)%bool = false ->
  encode_rune rr = firstn size (c :: r).
Proof.
  intros c r rr size Hc H Hne. apply decode_shape in H; [|assumption].
  pose proof (bN_lt c) as Bc.
  destruct H as [[H1 H2]|[(b1 & t & Hr & Hsz & Hc2 & C1 & Hrr)|[(b1 & b2 & t & Hr & Hsz & Hc2 & C1 & C2 & Hlo & Hhi & Hrr)|(b1 & b2 & b3 & t & Hr & Hsz & Hc2 & C1 & C2 & C3 & Hlo & Hhi & Hrr)]]].
  - subst. rewrite N.eqb_refl in Hne. discriminate Hne.
  - subst r size. unfold cont in *. cbn [firstn]. unfold encode_rune.
    rewrite (leb_f rr 127) by lia. rewrite (leb_t rr 2047) by lia.
    replace (192 + rr / 64) with (Unquote.bN c) by lia.
    replace (128 + rr mod 64) with (Unquote.bN b1) by lia.
    rewrite !ofN_bN. reflexivity.
  - subst r size. unfold cont in *. cbn [firstn]. unfold encode_rune.
    assert (2048 <= rr) by lia. assert (rr <= 65535) by lia.
    assert (rr < 55296 \/ 57343 < rr) by lia.
    rewrite (leb_f rr 127) by lia. rewrite (leb_f rr 2047) by lia.
    replace (N.ltb max_rune rr || is_surrogate rr)%bool with false.
    2:{ symmetry. apply orb_false_iff. unfold max_rune, is_surrogate. split.
        - apply ltb_f. lia.
        - destruct H1 as [Hs|Hs]; [rewrite (leb_f 55296 rr) by lia; reflexivity|].
          rewrite (ltb_f rr 57344) by lia. apply andb_false_r. }
    rewrite (leb_t rr 65535) by lia. unfold encode3.
    replace (224 + rr / 4096) with (Unquote.bN c) by lia.
    replace (128 + (rr / 64) mod 64) with (Unquote.bN b1) by lia.
    replace (128 + rr mod 64) with (Unquote.bN b2) by lia.
    rewrite !ofN_bN. reflexivity.
  - subst r size. unfold cont in *. cbn [firstn]. unfold encode_rune.
    assert (65536 <= rr) by lia. assert (rr <= 1114111) by lia.
    rewrite (leb_f rr 127) by lia. rewrite (leb_f rr 2047) by lia.
    replace (N.ltb max_rune rr || is_surrogate rr)%bool with false.
    2:{ symmetry. apply orb_false_iff. unfold max_rune, is_surrogate. split.
        - apply ltb_f. lia.
        - rewrite (ltb_f rr 57344) by lia. apply andb_false_r. }
    rewrite (leb_f rr 65535) by lia.
    replace (240 + rr / 262144) with (Unquote.bN c) by lia.
    replace (128 + (rr / 4096) mod 64) with (Unquote.bN b1) by lia.
    replace (128 + (rr / 64) mod 64) with (Unquote.bN b2) by lia.
    replace (128 + rr mod 64) with (Unquote.bN b3) by lia.
    rewrite !ofN_bN. reflexivity.
Qed.

(* ---------- one iteration of the rewriting loop ---------- *)
Inductive sres := Done (o : option bytes) | Next (s acc : bytes).

Definition step (s acc : bytes) : sres :=
  match s with
  | [] => Done (Some (frev acc))
  | c :: r =>
    let n := Unquote.bN c in
    if N.eqb n 92 then
      match r with
      | [] => Done None
      | e :: r2 =>
        let m := Unquote.bN e in
        if (N.eqb m 34 || N.eqb m 92 || N.eqb m 47 || N.eqb m 39)%bool then Next r2 (e :: acc)
        else if N.eqb m 98 then Next r2 (x08 :: acc)
        else if N.eqb m 102 then Next r2 (x0c :: acc)
        else if N.eqb m 110 then Next r2 (x0a :: acc)
        else if N.eqb m 114 then Next r2 (x0d :: acc)
        else if N.eqb m 116 then Next r2 (x09 :: acc)
        else if N.eqb m 117 then
          match getu4 s with
          | None => Done None
          | Some rr =>
            let s6 := skipn 6 s in
            if is_surrogate rr then
              let dec := match getu4 s6 with Some rr1 => utf16_decode rr rr1 | None => rune_error end in
              if N.eqb dec rune_error
              then Next s6 (rev_append (encode_rune rune_error) acc)
              else Next (skipn 6 s6) (rev_append (encode_rune dec) acc)
            else Next s6 (rev_append (encode_rune rr) acc)
          end
        else Done None
      end
    else if (N.eqb n 34 || N.ltb n 32)%bool then Done None
    else if N.ltb n 128 then Next r (c :: acc)
    else let '(rr, size) := decode_rune s in
         Next (skipn size s) (rev_append (encode_rune rr) acc)
  end.

Definition continue (f : nat) (x : sres) : option bytes :=
  match x with Done o => o | Next s acc => slow f s acc end.

Ltac dif := match goal with |- (if ?b then _ else _) = _ => destruct b end.

Lemma slow_step : forall f s acc, slow (S f) s acc = continue f (step s acc).
Proof.
  intros f s acc. destruct s as [|c r]; [reflexivity|].
  cbn [slow step]. dif.
  - destruct r as [|e r2]; [reflexivity|].
    repeat (dif; [reflexivity|]). dif; [|reflexivity].
    destruct (getu4 (c :: e :: r2)) as [rr|]; [|reflexivity].
    dif; [|reflexivity]. dif; reflexivity.
  - dif; [reflexivity|]. dif; [reflexivity|].
    destruct (decode_rune (c :: r)) as [rr size]. reflexivity.
Qed.

Lemma step_shrink : forall s acc s' acc', step s acc = Next s' acc' -> (length s' < length s)%nat.
Proof.
  intros s acc s' acc' H. destruct s as [|c r]; [discriminate H|].
  unfold step in H. cbv zeta in H.
  destruct (N.eqb (Unquote.bN c) 92).
  - destruct r as [|e r2]; [discriminate H|].
    repeat match type of H with
    | (if ?b then Next r2 _ else _) = _ => destruct b; [inversion H; subst; cbn [length]; lia|]
    end.
    match type of H with (if ?b then _ else _) = _ => destruct b; [|discriminate H] end.
    destruct (getu4 (c :: e :: r2)) as [rr|]; [|discriminate H].
    assert (L : (length (skipn 6 (c :: e :: r2)) < length (c :: e :: r2))%nat).
    { rewrite skipn_length. cbn [length]. lia. }
    assert (L2 : (length (skipn 6 (skipn 6 (c :: e :: r2))) < length (c :: e :: r2))%nat).
    { rewrite skipn_length. lia. }
    repeat match type of H with
    | (if ?b then _ else _) = _ => destruct b
    end; inversion H; subst; assumption.
  - repeat match type of H with
    | (if ?b then _ else _) = _ => destruct b; [try discriminate H; inversion H; subst; cbn [length]; lia|]
    end.
    destruct (decode_rune (c :: r)) as [rr size] eqn:E. apply decode_size_pos in E.
    inversion H; subst. rewrite skipn_length. cbn [length]. lia.
Qed.

Lemma slow_fuel : forall f g s acc, (length s < f)%nat -> (length s < g)%nat -> slow f s acc = slow g s acc.
Proof.
  induction f as [|f IH]; intros g s acc Hf Hg; [lia|]. destruct g as [|g]; [lia|].
  rewrite !slow_step. destruct (step s acc) as [o|s' acc'] eqn:E; [reflexivity|].
  apply step_shrink in E. cbn [continue]. apply IH; lia.
Qed.

(* ---------- the fast scan changes nothing ---------- *)
Lemma skipn_add : forall (A : Type) (a b : nat) (l : list A), skipn (a + b) l = skipn b (skipn a l).
Proof.
  intros A a. induction a as [|a IH]; intros b l; [reflexivity|].
  destruct l as [|x l]; [cbn; destruct b; reflexivity|]. cbn [Nat.add skipn]. apply IH.
Qed.

Lemma firstn_add : forall (A : Type) (a b : nat) (l : list A),
  firstn (a + b) l = firstn a l ++ firstn b (skipn a l).
Proof.
  intros A a. induction a as [|a IH]; intros b l; [reflexivity|].
  destruct l as [|x l]; [cbn; destruct b; reflexivity|]. cbn [Nat.add skipn firstn app]. f_equal. apply IH.
Qed.

Lemma rev_append_app : forall (A : Type) (x y acc : list A),
  rev_append (x ++ y) acc = rev_append y (rev_append x acc).
Proof. intros A x. induction x as [|a x IH]; intros y acc; [reflexivity|]. cbn. apply IH. Qed.

Lemma fast_S : forall f c r, fast (S f) (c :: r) =
  if (N.eqb (Unquote.bN c) 92 || N.eqb (Unquote.bN c) 34 || N.ltb (Unquote.bN c) 32)%bool then O
  else if N.ltb (Unquote.bN c) 128 then S (fast f r)
  else let '(rr, size) := decode_rune (c :: r) in
       if (N.eqb rr rune_error && Nat.eqb size 1)%bool then O
       else (size + fast f (skipn size (c :: r)))%nat.
Proof. reflexivity. Qed.

Lemma step_plain : forall c r acc, Unquote.bN c <> 92 -> Unquote.bN c <> 34 -> 32 <= Unquote.bN c < 128 ->
  step (c :: r) acc = Next r (c :: acc).
Proof.
  intros c r acc H1 H2 H3. unfold step. cbv zeta.
  rewrite eqb_f by assumption. rewrite eqb_f by assumption. rewrite ltb_f by lia. rewrite ltb_t by lia.
  reflexivity.
Qed.

Lemma step_multi : forall c r acc rr size, 128 <= Unquote.bN c -> decode_rune (c :: r) = (rr, size) ->
  step (c :: r) acc = Next (skipn size (c :: r)) (rev_append (encode_rune rr) acc).
Proof.
  intros c r acc rr size H1 H2. unfold step. cbv zeta.
  rewrite eqb_f by lia. rewrite eqb_f by lia. rewrite ltb_f by lia. rewrite ltb_f by lia.
  rewrite H2. reflexivity.
Qed.

Lemma fast_slow : forall f s acc, (length s < f)%nat ->
  slow f s acc = slow f (skipn (fast f s) s) (rev_append (firstn (fast f s) s) acc).
Proof.
  induction f as [|f IH]; intros s acc Hl; [lia|].
  destruct s as [|c r]; [reflexivity|].
  rewrite fast_S. cbn [length] in Hl.
  destruct (N.eqb (Unquote.bN c) 92 || N.eqb (Unquote.bN c) 34 || N.ltb (Unquote.bN c) 32)%bool eqn:E1; [reflexivity|].
  nb.
  destruct (N.ltb (Unquote.bN c) 128) eqn:E2; nb.
  - cbn [skipn firstn rev_append].
    rewrite slow_step. rewrite step_plain by lia. cbn [continue].
    rewrite IH by lia. apply slow_fuel; rewrite skipn_length; lia.
  - destruct (decode_rune (c :: r)) as [rr size] eqn:E3.
    destruct (N.eqb rr rune_error && Nat.eqb size 1)%bool eqn:E4; [reflexivity|].
    rewrite slow_step. rewrite (step_multi c r acc rr size) by (lia || assumption). cbn [continue].
    rewrite (encode_decode c r rr size) by (lia || assumption).
    pose proof (decode_size_pos _ _ _ _ E3) as Hp.
    assert (L : (length (skipn size (c :: r)) < f)%nat) by (rewrite skipn_length; cbn [length]; lia).
    rewrite IH by assumption.
    rewrite skipn_add, firstn_add, rev_append_app.
    apply slow_fuel; rewrite skipn_length; lia.
Qed.

Lemma in_quotes_quote : forall s, in_quotes (quote s) = true.
Proof.
  intros s. unfold in_quotes, quote, frev. rewrite rev_append_rev, app_nil_r, rev_unit. reflexivity.
Qed.

Lemma inner_quote : forall s, inner (quote s) = s.
Proof. intros s. unfold inner, quote. apply removelast_last. Qed.

Theorem two_phase : forall s, unquote_bytes (quote s) = slow (S (length s)) s [].
Proof.
  intros s. unfold unquote_bytes. rewrite in_quotes_quote, inner_quote. cbv zeta.
  rewrite (fast_slow (S (length s)) s []) by lia. unfold frev.
  destruct (Nat.eqb (fast (S (length s)) s) (length s)) eqn:E; [|reflexivity].
  apply Nat.eqb_eq in E. rewrite E. rewrite skipn_all, firstn_all. cbn [slow]. unfold frev.
  rewrite !rev_append_rev, !app_nil_r, rev_involutive. reflexivity.
Qed.

(* ---------- spellings ---------- *)
Lemma hexv_hexdig : forall u d, d < 16 -> hexv (hexdig u d) = Some d.
Proof.
  intros u d Hd. unfold hexv, hexdig. cbv zeta.
  destruct (N.ltb d 10) eqn:E; nb.
  - rewrite bN_ofN by lia. rewrite leb_t by lia. rewrite leb_t by lia. cbn [andb]. f_equal. lia.
  - destruct u.
    + rewrite bN_ofN by lia. rewrite (leb_f (55 + d) 57) by lia. rewrite andb_false_r.
      rewrite (leb_f 97 (55 + d)) by lia. cbn [andb].
      rewrite leb_t by lia. rewrite leb_t by lia. cbn [andb]. f_equal. lia.
    + rewrite bN_ofN by lia. rewrite (leb_f (87 + d) 57) by lia. rewrite andb_false_r.
      rewrite leb_t by lia. rewrite leb_t by lia. cbn [andb]. f_equal. lia.
Qed.

Lemma getu4_u4 : forall up off r s, r <= 65535 -> getu4 (u4 up off r ++ s) = Some r.
Proof.
  intros up off r s Hr. unfold u4. cbn [app]. unfold getu4.
  rewrite !hexv_hexdig by lia.
  replace (N.eqb (Unquote.bN x5c) 92 && N.eqb (Unquote.bN x75) 117)%bool with true by reflexivity.
  f_equal. lia.
Qed.

Lemma skipn_u4 : forall up off r s, skipn 6 (u4 up off r ++ s) = s.
Proof. reflexivity. Qed.

Lemma step_u : forall c e r2 acc, Unquote.bN c = 92 -> Unquote.bN e = 117 ->
  step (c :: e :: r2) acc =
  match getu4 (c :: e :: r2) with
  | None => Done None
  | Some rr =>
    let s6 := skipn 6 (c :: e :: r2) in
    if is_surrogate rr then
      let dec := match getu4 s6 with Some rr1 => utf16_decode rr rr1 | None => rune_error end in
      if N.eqb dec rune_error
      then Next s6 (rev_append (encode_rune rune_error) acc)
      else Next (skipn 6 s6) (rev_append (encode_rune dec) acc)
    else Next s6 (rev_append (encode_rune rr) acc)
  end.
Proof. intros c e r2 acc Hc He. unfold step. cbv zeta. rewrite Hc, He. reflexivity. Qed.

Lemma step_u4 : forall up off r s acc,
  step (u4 up off r ++ s) acc =
  match getu4 (u4 up off r ++ s) with
  | None => Done None
  | Some rr =>
    if is_surrogate rr then
      let dec := match getu4 s with Some rr1 => utf16_decode rr rr1 | None => rune_error end in
      if N.eqb dec rune_error
      then Next s (rev_append (encode_rune rune_error) acc)
      else Next (skipn 6 s) (rev_append (encode_rune dec) acc)
    else Next s (rev_append (encode_rune rr) acc)
  end.
Proof. intros up off r s acc. unfold u4. cbn [app]. rewrite step_u by reflexivity. reflexivity. Qed.

Lemma skipn_len_app : forall (A : Type) (a b : list A), skipn (length a) (a ++ b) = b.
Proof. intros A a b. induction a as [|x a IH]; [reflexivity|]. cbn. exact IH. Qed.

Lemma encode_head : forall r, scalar r = true -> 128 <= r ->
  exists c t, encode_rune r = c :: t /\ 128 <= Unquote.bN c.
Proof.
  intros r Hs Hr. pose proof (decode_encode r [] Hs) as D. rewrite app_nil_r in D.
  destruct (encode_rune r) as [|c t] eqn:E.
  - cbn in D. inversion D as [D1]. rewrite <- D1 in E. vm_compute in E. discriminate E.
  - exists c, t. split; [reflexivity|].
    destruct (N.ltb (Unquote.bN c) 128) eqn:L; nb; [|lia].
    unfold decode_rune in D. cbv zeta in D. rewrite ltb_t in D by assumption. inversion D. lia.
Qed.

Lemma step_spell : forall r sp a b acc, scalar r = true -> spell r sp = Some a ->
  step (a ++ b) acc = Next b (rev_append (encode_rune r) acc).
Proof.
  intros r sp a b acc Hs Hsp. destruct sp as [|alt|up]; cbn [spell] in Hsp.
  - (* literal *)
    destruct (N.eqb r 34 || N.eqb r 92 || N.ltb r 32)%bool eqn:E; [discriminate Hsp|].
    inversion Hsp as [Ha]. clear Hsp. nb.
    destruct (N.ltb r 128) eqn:E2; nb.
    + unfold encode_rune. rewrite leb_t by lia. cbn [app rev_append].
      apply step_plain; rewrite bN_ofN by lia; lia.
    + destruct (encode_head r Hs E2) as (c & t & Ec & Hc).
      pose proof (decode_encode r b Hs) as D. rewrite Ec in D. rewrite Ec. cbn [app length] in *.
      rewrite (step_multi _ _ _ _ _ Hc D). cbn [skipn]. rewrite skipn_len_app, Ec. reflexivity.
  - (* two-byte escape *)
    unfold short_of in Hsp.
    repeat match type of Hsp with
    | (if N.eqb r ?k then _ else _) = _ =>
      destruct (N.eqb_spec r k) as [?Hk|?Hk]; [subst r; try destruct alt; inversion Hsp; reflexivity|]
    end.
    discriminate Hsp.
  - (* \uXXXX *)
    cbv zeta in Hsp. destruct (N.leb r 65535) eqn:E; nb.
    + assert (Ha : a = u4 up 0 r) by (injection Hsp as Ha; symmetry; exact Ha). subst a. clear Hsp.
      rewrite step_u4, getu4_u4 by assumption.
      replace (is_surrogate r) with false; [reflexivity|].
      symmetry. unfold is_surrogate. apply scalar_cases in Hs.
      destruct Hs as [Hs|Hs]; [rewrite (leb_f 55296 r) by lia; reflexivity|].
      rewrite (ltb_f r 57344) by lia. apply andb_false_r.
    + apply scalar_cases in Hs.
      assert (Ha : a = u4 up 0 (55296 + (r - 65536) / 1024) ++ u4 up 4 (56320 + (r - 65536) mod 1024))
        by (injection Hsp as Ha; symmetry; exact Ha).
      subst a. clear Hsp. rewrite <- app_assoc. rewrite step_u4, getu4_u4 by lia.
      replace (is_surrogate (55296 + (r - 65536) / 1024)) with true.
      2:{ symmetry. unfold is_surrogate. rewrite leb_t by lia. rewrite ltb_t by lia. reflexivity. }
      cbv zeta. rewrite getu4_u4 by lia. rewrite skipn_u4.
      replace (utf16_decode (55296 + (r - 65536) / 1024) (56320 + (r - 65536) mod 1024)) with r.
      2:{ unfold utf16_decode. rewrite leb_t by lia. rewrite ltb_t by lia. rewrite leb_t by lia.
          rewrite ltb_t by lia. cbn [andb]. lia. }
      unfold rune_error at 1. rewrite eqb_f by lia. reflexivity.
Qed.

Lemma slow_spelled : forall rs sps body acc f, forallb scalar rs = true -> spell_all rs sps = Some body ->
  (length body < f)%nat -> slow f body acc = Some (frev (rev_append (utf8 rs) acc)).
Proof.
  induction rs as [|r rs IH]; intros sps body acc f Hs Hsp Hf.
  - destruct sps; [|discriminate Hsp]. inversion Hsp. subst body.
    destruct f as [|f]; [cbn in Hf; lia|]. reflexivity.
  - destruct sps as [|sp sps]; [discriminate Hsp|]. cbn [spell_all] in Hsp.
    destruct (spell r sp) as [a|] eqn:Ea; [|discriminate Hsp].
    destruct (spell_all rs sps) as [b|] eqn:Eb; [|discriminate Hsp].
    inversion Hsp. subst body. clear Hsp.
    cbn [forallb] in Hs. apply andb_true_iff in Hs. destruct Hs as [Hr Hrs].
    destruct f as [|f]; [lia|].
    rewrite slow_step. pose proof (step_spell r sp a b acc Hr Ea) as St. rewrite St.
    apply step_shrink in St. cbn [continue].
    rewrite (IH sps b _ f Hrs Eb) by lia.
    cbn [utf8 flat_map]. rewrite rev_append_app. reflexivity.
Qed.

Theorem unquote_spelled : forall rs sps body, forallb scalar rs = true -> spell_all rs sps = Some body ->
  unquote_bytes (quote body) = Some (utf8 rs).
Proof.
  intros rs sps body Hs Hsp. rewrite two_phase.
  rewrite (slow_spelled rs sps body [] _ Hs Hsp) by lia.
  unfold frev. rewrite !rev_append_rev, !app_nil_r, rev_involutive. reflexivity.
Qed.

Lemma unquote_quote_some : forall body t, unquote_bytes (quote body) = Some t -> unquote (quote body) = t.
Proof. intros body t H. unfold unquote. rewrite in_quotes_quote, H. reflexivity. Qed.

Corollary unquote_respelling : forall rs s1 s2 b1 b2, forallb scalar rs = true ->
  spell_all rs s1 = Some b1 -> spell_all rs s2 = Some b2 -> unquote (quote b1) = unquote (quote b2).
Proof.
  intros rs s1 s2 b1 b2 Hs H1 H2.
  rewrite (unquote_quote_some _ _ (unquote_spelled rs s1 b1 Hs H1)).
  rewrite (unquote_quote_some _ _ (unquote_spelled rs s2 b2 Hs H2)). reflexivity.
Qed.

Corollary unquote_length : forall rs sps body, forallb scalar rs = true -> spell_all rs sps = Some body ->
  length (unquote (quote body)) = length (utf8 rs).
Proof.
  intros rs sps body Hs H. rewrite (unquote_quote_some _ _ (unquote_spelled rs sps body Hs H)). reflexivity.
Qed.

(* ---------- tokens the JSON scanner accepts ---------- *)
Lemma lex_cons : forall c r, lex_string_body (c :: r) =
  if N.eqb (Unquote.bN c) 34 then Some r
  else if N.eqb (Unquote.bN c) 92 then
    match r with
    | e :: r' =>
      if (N.eqb (Unquote.bN e) 98 || N.eqb (Unquote.bN e) 102 || N.eqb (Unquote.bN e) 110 || N.eqb (Unquote.bN e) 114
          || N.eqb (Unquote.bN e) 116 || N.eqb (Unquote.bN e) 92 || N.eqb (Unquote.bN e) 47 || N.eqb (Unquote.bN e) 34)%bool
      then lex_string_body r'
      else if N.eqb (Unquote.bN e) 117 then
        match r' with
        | h1 :: h2 :: h3 :: h4 :: r'' =>
          if (is_hex h1 && is_hex h2 && is_hex h3 && is_hex h4)%bool then lex_string_body r'' else None
        | _ => None
        end
      else None
    | [] => None
    end
  else if N.ltb (Unquote.bN c) 32 then None
  else lex_string_body r.
Proof. reflexivity. Qed.

Lemma lex_hi : forall b t, 128 <= Unquote.bN b -> lex_string_body (b :: t) = lex_string_body t.
Proof.
  intros b t H. rewrite lex_cons. rewrite eqb_f by lia. rewrite eqb_f by lia. rewrite ltb_f by lia. reflexivity.
Qed.

Lemma lex_u : forall c e r', Unquote.bN c = 92 -> Unquote.bN e = 117 ->
  lex_string_body (c :: e :: r') =
  match r' with
  | h1 :: h2 :: h3 :: h4 :: r'' =>
    if (is_hex h1 && is_hex h2 && is_hex h3 && is_hex h4)%bool then lex_string_body r'' else None
  | _ => None
  end.
Proof. intros c e r' Hc He. rewrite lex_cons. rewrite Hc, He. reflexivity. Qed.

Lemma is_hex_hexv : forall h, is_hex h = true -> exists d, hexv h = Some d.
Proof.
  intros h H. unfold is_hex in H. unfold hexv. cbv zeta in *. change Scanner.bN with Unquote.bN in H.
  destruct (N.leb 48 (Unquote.bN h) && N.leb (Unquote.bN h) 57)%bool; [eexists; reflexivity|].
  destruct (N.leb 97 (Unquote.bN h) && N.leb (Unquote.bN h) 102)%bool; [eexists; reflexivity|].
  destruct (N.leb 65 (Unquote.bN h) && N.leb (Unquote.bN h) 70)%bool; [eexists; reflexivity|].
  discriminate H.
Qed.

Lemma hexv_is_hex : forall h d, hexv h = Some d -> is_hex h = true.
Proof.
  intros h d H. unfold is_hex. unfold hexv in H. cbv zeta in *. change Scanner.bN with Unquote.bN.
  destruct (N.leb 48 (Unquote.bN h) && N.leb (Unquote.bN h) 57)%bool; [reflexivity|].
  destruct (N.leb 97 (Unquote.bN h) && N.leb (Unquote.bN h) 102)%bool; [reflexivity|].
  destruct (N.leb 65 (Unquote.bN h) && N.leb (Unquote.bN h) 70)%bool; [reflexivity|].
  discriminate H.
Qed.

Lemma lex_getu4 : forall s rr, getu4 s = Some rr -> lex_string_body (s ++ [x22]) = Some [] ->
  lex_string_body (skipn 6 s ++ [x22]) = Some [].
Proof.
  intros s rr G H.
  destruct s as [|b [|u [|h1 [|h2 [|h3 [|h4 t]]]]]]; try discriminate G.
  unfold getu4 in G.
  destruct (N.eqb (Unquote.bN b) 92 && N.eqb (Unquote.bN u) 117)%bool eqn:E; [|discriminate G]. nb.
  destruct (hexv h1) as [d1|] eqn:E1; [|discriminate G].
  destruct (hexv h2) as [d2|] eqn:E2; [|discriminate G].
  destruct (hexv h3) as [d3|] eqn:E3; [|discriminate G].
  destruct (hexv h4) as [d4|] eqn:E4; [|discriminate G].
  cbn [app] in H. rewrite lex_u in H by assumption.
  rewrite (hexv_is_hex _ _ E1), (hexv_is_hex _ _ E2), (hexv_is_hex _ _ E3), (hexv_is_hex _ _ E4) in H.
  cbn [andb skipn] in *. exact H.
Qed.

Lemma step_simple_esc : forall c e r2 acc, Unquote.bN c = 92 ->
  In (Unquote.bN e) [98; 102; 110; 114; 116; 92; 47; 34] -> exists x, step (c :: e :: r2) acc = Next r2 x.
Proof.
  intros c e r2 acc Hc Hin. cbn [In] in Hin.
  repeat (destruct Hin as [Hin|Hin]; [eexists; unfold step; cbv zeta; rewrite Hc, <- Hin; reflexivity|]).
  contradiction.
Qed.

Definition step_ok (x : sres) : Prop :=
  match x with Done o => o <> None | Next s' _ => lex_string_body (s' ++ [x22]) = Some [] end.

Lemma step_lex : forall s acc, lex_string_body (s ++ [x22]) = Some [] -> step_ok (step s acc).
Proof.
  intros s acc H. destruct s as [|c r]; [cbn; discriminate|].
  cbn [app] in H. rewrite lex_cons in H.
  destruct (N.eqb (Unquote.bN c) 34) eqn:E34.
  { destruct r; discriminate H. }
  destruct (N.eqb (Unquote.bN c) 92) eqn:E92.
  { nb. destruct r as [|e r2].
    { cbn [app] in H. vm_compute in H. discriminate H. }
    cbn [app] in H.
    match type of H with (if ?P then _ else _) = _ => destruct P eqn:EP end.
    { assert (Hin : In (Unquote.bN e) [98; 102; 110; 114; 116; 92; 47; 34]).
      { cbn [In]. repeat (apply orb_true_iff in EP; destruct EP as [EP|EP]); nb; rewrite EP; tauto. }
      destruct (step_simple_esc c e r2 acc E92 Hin) as [x Hx]. rewrite Hx. exact H. }
    destruct (N.eqb (Unquote.bN e) 117) eqn:E117; [|discriminate H]. nb.
    rewrite step_u by assumption.
    destruct r2 as [|h1 [|h2 [|h3 [|h4 r'']]]]; cbn [app] in H; try discriminate H.
    { replace (is_hex x22) with false in H by reflexivity. rewrite andb_false_r in H. discriminate H. }
    destruct (is_hex h1 && is_hex h2 && is_hex h3 && is_hex h4)%bool eqn:EH; [|discriminate H]. nb.
    destruct (is_hex_hexv h1) as [d1 D1]; [assumption|].
    destruct (is_hex_hexv h2) as [d2 D2]; [assumption|].
    destruct (is_hex_hexv h3) as [d3 D3]; [assumption|].
    destruct (is_hex_hexv h4) as [d4 D4]; [assumption|].
    unfold getu4 at 1. rewrite D1, D2, D3, D4. rewrite E92, E117. cbn [skipn]. cbv zeta.
    replace (N.eqb 92 92 && N.eqb 117 117)%bool with true by reflexivity.
    destruct (is_surrogate _); [|exact H].
    destruct (getu4 r'') as [rr1|] eqn:G.
    - match goal with |- step_ok (if ?b then _ else _) => destruct b end; [exact H|].
      cbn [step_ok]. apply (lex_getu4 _ _ G H).
    - rewrite N.eqb_refl. exact H. }
  destruct (N.ltb (Unquote.bN c) 32) eqn:E32; [discriminate H|]. nb.
  destruct (N.ltb (Unquote.bN c) 128) eqn:E128; nb.
  { rewrite step_plain by lia. exact H. }
  destruct (decode_rune (c :: r)) as [rr size] eqn:D.
  rewrite (step_multi _ _ _ _ _ E128 D). cbn [step_ok].
  apply decode_shape in D; [|assumption].
  destruct D as [[_ D]|[(b1 & t & Hr & D & _ & C1 & _)|[(b1 & b2 & t & Hr & D & _ & C1 & C2 & _)|(b1 & b2 & b3 & t & Hr & D & _ & C1 & C2 & C3 & _)]]];
    subst size; try subst r; cbn [skipn]; unfold cont in *; cbn [app] in H.
  - exact H.
  - rewrite lex_hi in H by lia. exact H.
  - rewrite !lex_hi in H by lia. exact H.
  - rewrite !lex_hi in H by lia. exact H.
Qed.

Lemma slow_lex : forall f s acc, (length s < f)%nat -> lex_string_body (s ++ [x22]) = Some [] ->
  exists t, slow f s acc = Some t.
Proof.
  induction f as [|f IH]; intros s acc Hf H; [lia|].
  rewrite slow_step. pose proof (step_lex s acc H) as Ok.
  destruct (step s acc) as [o|s' acc'] eqn:E; cbn [step_ok continue] in *.
  - destruct o as [t|]; [exists t; reflexivity|contradiction].
  - apply step_shrink in E. apply IH; [lia|exact Ok].
Qed.

Theorem unquote_scanner_ok : forall b, lex_string_body (b ++ [x22]) = Some [] ->
  exists t, unquote_bytes (quote b) = Some t.
Proof. intros b H. rewrite two_phase. apply slow_lex; [lia|exact H]. Qed.

(* ---------- plain bodies, unquoted text ---------- *)
Lemma fast_plain : forall f body, (length body < f)%nat ->
  forallb (fun c => (N.leb 32 (Unquote.bN c) && N.ltb (Unquote.bN c) 128 && negb (N.eqb (Unquote.bN c) 34) && negb (N.eqb (Unquote.bN c) 92))%bool) body = true ->
  fast f body = length body.
Proof.
  induction f as [|f IH]; intros body Hf H; [lia|].
  destruct body as [|c r]; [reflexivity|].
  cbn [forallb] in H. apply andb_true_iff in H. destruct H as [Hc Hr]. nb.
  rewrite fast_S. rewrite eqb_f by assumption. rewrite eqb_f by assumption. rewrite ltb_f by lia.
  cbn [orb]. rewrite ltb_t by lia. cbn [length] in *. rewrite IH by (lia || assumption). reflexivity.
Qed.

Theorem unquote_plain : forall body, forallb (fun c => (N.leb 32 (bN c) && N.ltb (bN c) 128 && negb (N.eqb (bN c) 34) && negb (N.eqb (bN c) 92))%bool) body = true ->
  unquote (quote body) = body.
Proof.
  intros body H. apply unquote_quote_some. unfold unquote_bytes.
  rewrite in_quotes_quote, inner_quote. cbv zeta.
  rewrite fast_plain by (lia || exact H). rewrite Nat.eqb_refl. reflexivity.
Qed.

Theorem unquote_not_quoted : forall b, in_quotes b = false -> unquote b = b.
Proof. intros b H. unfold unquote. rewrite H. reflexivity. Qed.

(* ---------- non-vacuity ---------- *)
Example spelled_example : exists sps1 sps2 b1 b2,
  spell_all [34; 233; 128512; 10; 65]%N sps1 = Some b1 /\
  spell_all [34; 233; 128512; 10; 65]%N sps2 = Some b2 /\ b1 <> b2 /\
  unquote (quote b1) = unquote (quote b2).
Proof.
  exists [SShort false; SLit; SLit; SShort false; SLit].
  exists [SHex []; SHex [true; false; true; false]; SHex [false; false; true; true; true; false; true; false];
          SHex [true; true; true; true]; SLit].
  eexists. eexists.
  split; [vm_compute; reflexivity|]. split; [vm_compute; reflexivity|].
  split; [intro H; discriminate H|]. vm_compute. reflexivity.
Qed.
