(* RegexType.v — property C18 (regex half): how notations/regex/regex.go extracts the
   pattern of a /P/ token: the content must start with '/', the pattern runs up to the first
   '/' that is not escaped by a preceding (unpaired) backslash, Len = |P| + 2.
   No proofs in this file. *)
From Coq Require Import List NArith Bool Arith.
From Coq Require Import Strings.Byte.
Import ListNotations.
From JS Require Import Common.Wire.

Definition is_slash (c : byte) : bool := N.eqb (Byte.to_N c) 47.
Definition is_bslash (c : byte) : bool := N.eqb (Byte.to_N c) 92.

(* the loop of doCompile over content[1:]: returns the pattern when a closing '/' is found *)
Fixpoint scan_pattern (escaped : bool) (bs : bytes) (acc : bytes) : option bytes :=
  match bs with
  | [] => None
  | c :: r =>
    if is_bslash c then scan_pattern (negb escaped) r (c :: acc)
    else if is_slash c then (if escaped then scan_pattern false r (c :: acc) else Some (frev acc))
    else scan_pattern false r (c :: acc)
  end.

Inductive rx_result :=
| RxOk (pattern : bytes)
| RxEmptyContent            (* ErrEmptySchema (after fix 30cdc83) *)
| RxBadStart                (* ErrRegexUnexpectedStart at 0 *)
| RxNoEnd.                  (* ErrRegexUnexpectedEnd at the last byte *)

Definition extract (content : bytes) : rx_result :=
  match content with
  | [] => RxEmptyContent
  | c :: r =>
    if is_slash c then
      match scan_pattern false r [] with
      | Some p => RxOk p            (* also the empty pattern "//" (fix: the closing slash is remembered, not inferred from the pattern) *)
      | None => RxNoEnd
      end
    else RxBadStart
  end.

Definition regex_len (content : bytes) : option nat :=
  match extract content with RxOk p => Some (length p + 2) | _ => None end.

(* a '/' at position i of p is escaped iff it is preceded by an odd run of backslashes *)
Fixpoint has_unescaped_slash (escaped : bool) (p : bytes) : bool :=
  match p with
  | [] => false
  | c :: r =>
    if is_bslash c then has_unescaped_slash (negb escaped) r
    else if is_slash c then (if escaped then has_unescaped_slash false r else true)
    else has_unescaped_slash false r
  end.
Fixpoint ends_escaped (escaped : bool) (p : bytes) : bool :=
  match p with
  | [] => escaped
  | c :: r => if is_bslash c then ends_escaped (negb escaped) r else ends_escaped false r
  end.

(* wire: hex of the content -> "<len> <hex pattern>" | ERR *)
Definition regex_model_line (line : bytes) : bytes :=
  match unhex (match line with [x2d] => [] | _ => line end) with
  | Some content =>
    match extract content with
    | RxOk p => print_nat (length p + 2) ++ [sp] ++ (match p with [] => [x2d] | _ => hex p end)
    | _ => [x45; x52; x52]
    end
  | None => [x42; x41; x44]
  end.
