(* Render.v — executable model of /repo/errors/document.go: how a DocumentError with a byte
   index is turned into line number, source line and caret.
   Go indexes slices without tests; here every such access is explicit and a failing one
   is the outcome [RPanic] (so "rendering never panics" is a statement with content).
   Positions are N (no Peano numbers of data-dependent size).  No proofs in this file. *)
From Coq Require Import List NArith ZArith Bool Arith.
From Coq Require Import Strings.Byte.
Import ListNotations.
From JS Require Import Common.Wire.

Definition bN (c : byte) : N := Byte.to_N c.
Definition is_nl (c : byte) : bool := (N.eqb (bN c) 10 || N.eqb (bN c) 13)%bool.
Definition is_blank (c : byte) : bool :=
  (N.eqb (bN c) 32 || N.eqb (bN c) 9 || N.eqb (bN c) 10 || N.eqb (bN c) 13)%bool.

(* detectNewLineSymbol: the last new-line byte of the first run of new-line bytes; '\n' if none *)
Fixpoint detect_nl_aux (found : bool) (nl : byte) (bs : bytes) : byte :=
  match bs with
  | [] => nl
  | c :: r => if is_nl c then detect_nl_aux true c r
              else if found then nl else detect_nl_aux false nl r
  end.
Definition detect_nl (content : bytes) : byte := detect_nl_aux false x0a content.

(* lineBeginning: one past the last [nl] strictly before index p (0 if none).
   Go walks backwards from p; content[p] must exist. *)
Fixpoint last_nl_end (nl : byte) (bs : bytes) (pos acc : N) : N :=
  match bs with
  | [] => acc
  | c :: r => last_nl_end nl r (N.succ pos) (if byte_eqb c nl then N.succ pos else acc)
  end.
Definition line_begin (nl : byte) (content : bytes) (p : N) : N :=
  last_nl_end nl (firstn (N.to_nat p) content) 0 0.

(* lineEnd: first [nl] at or after p (or the length); one less when the byte before is the
   other half of a CRLF / LFCR pair *)
Fixpoint first_nl_from (nl : byte) (bs : bytes) (pos : N) : N :=
  match bs with
  | [] => pos
  | c :: r => if byte_eqb c nl then pos else first_nl_from nl r (N.succ pos)
  end.
Definition other_half (nl c : byte) : bool :=
  ((N.eqb (bN nl) 10 && N.eqb (bN c) 13) || (N.eqb (bN nl) 13 && N.eqb (bN c) 10))%bool.
Definition line_end (nl : byte) (content : bytes) (p : N) : N :=
  let i := first_nl_from nl (skipn (N.to_nat p) content) p in
  if N.ltb 0 i then
    match nth_error content (N.to_nat (i - 1)) with
    | Some c => if other_half nl c then (i - 1)%N else i
    | None => i
    end
  else i.

(* Line(): 1 + number of [nl] bytes strictly before p *)
Definition count_nl (nl : byte) (bs : bytes) : N :=
  fold_left (fun n c => if byte_eqb c nl then N.succ n else n) bs 0%N.
Definition line_no (content : bytes) (p : N) : N :=
  match content with
  | [] => 0
  | _ => N.succ (count_nl (detect_nl content) (firstn (N.to_nat p) content))
  end.

(* bytes.TrimSpacesFromLeft: drops leading blanks; an all-blank slice is returned unchanged *)
Fixpoint drop_blank (bs : bytes) : bytes :=
  match bs with c :: r => if is_blank c then drop_blank r else bs | [] => [] end.
Definition trim_spaces_from_left (bs : bytes) : bytes :=
  match drop_blank bs with [] => bs | r => r end.
(* bytes.CountSpacesFromLeft: number of leading blanks; 0 for an all-blank slice *)
Fixpoint count_blank_aux (bs : bytes) (n : N) : option N :=
  match bs with
  | [] => None
  | c :: r => if is_blank c then count_blank_aux r (N.succ n) else Some n
  end.
Definition count_spaces_from_left (bs : bytes) : N :=
  match count_blank_aux bs 0 with Some n => n | None => 0%N end.

(* indentation (errors/document.go, seventh-round fix): the number of blanks the line begins with - all of it for a line of
   blanks only (TrimSpacesFromLeft / CountSpacesFromLeft treat such a line as having no blanks at all, and the count ran
   on into the following lines) *)
Fixpoint indentation (bs : bytes) : nat :=
  match bs with c :: r => if is_blank c then S (indentation r) else O | [] => O end.

Definition slice (content : bytes) (b e : N) : bytes :=
  firstn (N.to_nat (e - b)) (skipn (N.to_nat b) content).

Definition max_length : N := 200.
Definition dots : bytes := [x2e; x2e; x2e].

(* SourceSubString *)
Definition source_substring (content : bytes) (p : N) : bytes :=
  match content with
  | [] => []
  | _ =>
    let nl := detect_nl content in
    let b := line_begin nl content p in
    let e := line_end nl content p in
    (* fix 129ea9b: the indentation is removed first, only the visible text counts against the 200 bytes *)
    let line := slice content b e in
    let t := skipn (indentation line) line in
    if Nat.ltb 200 (length t) then firstn 197 t ++ dots else t
  end.

(* pointerToTheErrorCharacter: number of '-' before '^' (after the fix: clamped at 0) *)
Definition caret_offset (content : bytes) (p : N) : N :=
  let nl := detect_nl content in
  let b := line_begin nl content p in
  let e := line_end nl content p in
  let spaces := N.of_nat (indentation (slice content b e)) in
  Z.to_N (Z.of_N p - Z.of_N b - Z.of_N spaces).

Inductive rendered :=
| ROk (line : N) (text : bytes) (caret : N)
| RPanic.

(* String() for an error that has an index: every slice access of the Go code reads
   content[p]; p beyond the content is an index-out-of-range panic. An empty content makes
   lineBeginning read content[0]. *)
Definition render (content : bytes) (p : N) : rendered :=
  if N.ltb p (N.of_nat (length content))
  then ROk (line_no content p) (source_substring content p) (caret_offset content p)
  else RPanic.

(* ---------- wire:  "<hex content> <position>"  ->  "<line>|<hex text>|<caret>" ---------- *)
Definition render_model_line (line : bytes) : bytes :=
  match split_on sp line with
  | [h; ps] =>
    match unhex (match h with [x2d] => [] | _ => h end), parse_N ps with
    | Some content, Some p =>
      match render content p with
      | ROk l t c => print_N l ++ [bar] ++ hex t ++ [bar] ++ print_N c
      | RPanic => [x50; x41; x4e; x49; x43]
      end
    | _, _ => [x42; x41; x44]
    end
  | _ => [x42; x41; x44]
  end.
