(* FormatsProofs.v — proofs about the date and uuid format rules of Formats.v (property C02). *)
From Coq Require Import List NArith ZArith Bool Arith Lia.
From Coq Require Import ZifyBool ZifyNat ZifyN.
From Coq Require Import Strings.Byte.
Import ListNotations.
From JS Require Import Common.Wire Text.Formats.

Ltac Zify.zify_post_hook ::= Z.div_mod_to_equations.

(* ------------------------------------------------------------------ *)
(* bytes *)

Lemma fmt_to_N_inj : forall a b, Byte.to_N a = Byte.to_N b -> a = b.
Proof.
  intros a b H.
  assert (Hx : Byte.of_N (Byte.to_N a) = Byte.of_N (Byte.to_N b)) by (rewrite H; reflexivity).
  rewrite !Byte.of_to_N in Hx. congruence.
Qed.

Lemma fmt_byte_eqb_true : forall a b, byte_eqb a b = true -> a = b.
Proof. intros a b H. unfold byte_eqb in H. apply N.eqb_eq in H. apply fmt_to_N_inj. exact H. Qed.

Lemma digit_byte_to_N : forall k, (k < 10)%N -> Byte.to_N (digit_byte k) = (48 + k)%N.
Proof.
  intros k Hk. unfold digit_byte.
  destruct (Byte.of_N (48 + k)) as [b|] eqn:E.
  - apply Byte.to_of_N. exact E.
  - apply Byte.of_N_None_iff in E. lia.
Qed.

Lemma dig_digit_byte : forall k, (k < 10)%N -> dig (digit_byte k) = k.
Proof. intros k Hk. unfold dig, bN. rewrite digit_byte_to_N by exact Hk. lia. Qed.

Lemma is_digit_digit_byte : forall k, (k < 10)%N -> is_digit (digit_byte k) = true.
Proof. intros k Hk. unfold is_digit, bN. rewrite digit_byte_to_N by exact Hk. lia. Qed.

Lemma is_digit_dig : forall c, is_digit c = true -> (dig c < 10)%N /\ c = digit_byte (dig c).
Proof.
  intros c H. unfold is_digit, bN in H.
  assert (Hr : (48 <= Byte.to_N c <= 57)%N) by lia.
  assert (Hd : (dig c < 10)%N) by (unfold dig, bN; lia).
  split; [exact Hd|].
  apply fmt_to_N_inj. rewrite digit_byte_to_N by exact Hd. unfold dig, bN. lia.
Qed.

Lemma is_dash_eq : forall c, is_dash c = true -> c = x2d.
Proof.
  intros c H. unfold is_dash, bN in H. apply N.eqb_eq in H.
  apply fmt_to_N_inj. rewrite H. reflexivity.
Qed.

(* ------------------------------------------------------------------ *)
(* date *)

Lemma days_in_le : forall y m, (days_in y m <= 31)%N.
Proof.
  intros y m. unfold days_in.
  destruct (N.eqb m 2); [destruct (leap y); lia|].
  destruct (N.eqb m 4 || N.eqb m 6 || N.eqb m 9 || N.eqb m 11)%bool; lia.
Qed.

Lemma four_digits : forall a b c d, (a < 10 -> b < 10 -> c < 10 -> d < 10 ->
  let n := a * 1000 + b * 100 + c * 10 + d in
  n / 1000 = a /\ (n / 100) mod 10 = b /\ (n / 10) mod 10 = c /\ n mod 10 = d)%N.
Proof. intros a b c d Ha Hb Hc Hd n. subst n. repeat split; lia. Qed.

Lemma two_digits : forall a b, (a < 10 -> b < 10 ->
  let n := a * 10 + b in n / 10 = a /\ n mod 10 = b)%N.
Proof. intros a b Ha Hb n. subst n. split; lia. Qed.

Lemma four_recompose : forall n, (n <= 9999 ->
  n / 1000 < 10 /\ (n / 100) mod 10 < 10 /\ (n / 10) mod 10 < 10 /\ n mod 10 < 10 /\
  n / 1000 * 1000 + (n / 100) mod 10 * 100 + (n / 10) mod 10 * 10 + n mod 10 = n)%N.
Proof. intros n Hn. repeat split; lia. Qed.

Lemma two_recompose : forall n, (n <= 99 ->
  n / 10 < 10 /\ n mod 10 < 10 /\ n / 10 * 10 + n mod 10 = n)%N.
Proof. intros n Hn. repeat split; lia. Qed.

Theorem date_ok_iff : forall s, date_ok s = true <-> exists y m d, valid_ymd y m d = true /\ s = fmt_date y m d.
Proof.
  intro s. split.
  - intro H. unfold date_ok in H.
    do 10 (destruct s as [|? s]; [discriminate H|]).
    destruct s; [|discriminate H].
    rename b into y1, b0 into y2, b1 into y3, b2 into y4, b3 into d1, b4 into m1,
           b5 into m2, b6 into d2, b7 into a1, b8 into a2.
    repeat rewrite andb_true_iff in H.
    destruct H as [[[[[[[[[[Hy1 Hy2] Hy3] Hy4] Hd1] Hm1] Hm2] Hd2] Ha1] Ha2] Hv].
    apply is_digit_dig in Hy1, Hy2, Hy3, Hy4, Hm1, Hm2, Ha1, Ha2.
    apply is_dash_eq in Hd1, Hd2. subst d1 d2.
    destruct Hy1 as [Ly1 Ey1], Hy2 as [Ly2 Ey2], Hy3 as [Ly3 Ey3], Hy4 as [Ly4 Ey4],
             Hm1 as [Lm1 Em1], Hm2 as [Lm2 Em2], Ha1 as [La1 Ea1], Ha2 as [La2 Ea2].
    eexists _, _, _. split; [exact Hv|].
    unfold fmt_date, four, two. cbn [app].
    destruct (four_digits _ _ _ _ Ly1 Ly2 Ly3 Ly4) as (E1 & E2 & E3 & E4).
    destruct (two_digits _ _ Lm1 Lm2) as (E5 & E6).
    destruct (two_digits _ _ La1 La2) as (E7 & E8).
    cbv zeta in E1, E2, E3, E4, E5, E6, E7, E8.
    rewrite E1, E2, E3, E4, E5, E6, E7, E8.
    rewrite <- Ey1, <- Ey2, <- Ey3, <- Ey4, <- Em1, <- Em2, <- Ea1, <- Ea2.
    reflexivity.
  - intros (y & m & d & Hv & ->).
    assert (Hv' := Hv). unfold valid_ymd in Hv'.
    repeat rewrite andb_true_iff in Hv'.
    destruct Hv' as [[[[Hy Hm1] Hm2] Hd1] Hd2].
    pose proof (days_in_le y m) as Hdi.
    assert (Ly : (y <= 9999)%N) by lia.
    assert (Lm : (m <= 99)%N) by lia.
    assert (Ld : (d <= 99)%N) by lia.
    destruct (four_recompose y Ly) as (A1 & A2 & A3 & A4 & A5).
    destruct (two_recompose m Lm) as (B1 & B2 & B3).
    destruct (two_recompose d Ld) as (C1 & C2 & C3).
    unfold fmt_date, four, two. cbn [app]. unfold date_ok.
    rewrite !is_digit_digit_byte by assumption.
    rewrite !dig_digit_byte by assumption.
    rewrite A5, B3, C3, Hv.
    reflexivity.
Qed.

Theorem date_ok_length : forall s, date_ok s = true -> length s = 10.
Proof.
  intros s H. unfold date_ok in H.
  do 10 (destruct s as [|? s]; [discriminate H|]).
  destruct s; [reflexivity|discriminate H].
Qed.

(* ------------------------------------------------------------------ *)
(* uuid *)

Theorem canonical36_length : forall b, canonical36 b = true -> length b = 36.
Proof.
  intros b H. unfold canonical36 in H.
  do 36 (destruct b as [|? b]; [discriminate H|]).
  destruct b; [reflexivity|discriminate H].
Qed.

Lemma bytes_eqb_true : forall a b, bytes_eqb a b = true -> a = b.
Proof.
  unfold bytes_eqb. induction a as [|x a IH]; intros [|y b] H; cbn in H; try discriminate.
  - reflexivity.
  - apply andb_true_iff in H. destruct H as [Hl H].
    apply andb_true_iff in H. destruct H as [Hx H].
    apply fmt_byte_eqb_true in Hx. subst y. f_equal. apply IH.
    apply andb_true_iff. split; assumption.
Qed.

Lemma bytes_eqb_refl : forall a, bytes_eqb a a = true.
Proof.
  unfold bytes_eqb. induction a as [|x a IH]; [reflexivity|].
  cbn [length combine forallb fst snd]. apply andb_true_iff in IH. destruct IH as [Hl Hf].
  rewrite Hf. cbn [Nat.eqb]. rewrite Hl. unfold byte_eqb. rewrite N.eqb_refl. reflexivity.
Qed.

Lemma firstn_app_exact : forall (p c : bytes) n, length p = n -> firstn n (p ++ c) = p.
Proof.
  induction p as [|x p IH]; intros c n H; subst n.
  - reflexivity.
  - cbn [length firstn app]. f_equal. apply IH. reflexivity.
Qed.

Lemma skipn_app_exact : forall (p c : bytes) n, length p = n -> skipn n (p ++ c) = c.
Proof.
  induction p as [|x p IH]; intros c n H; subst n.
  - reflexivity.
  - cbn [length skipn app]. apply IH. reflexivity.
Qed.

Lemma last_split : forall n (l : bytes) c, length l = S n -> nth_error l n = Some c ->
  l = firstn n l ++ [c].
Proof.
  induction n as [|n IH]; intros l c Hl Hn.
  - destruct l as [|x [|y l]]; try discriminate. cbn in Hn. injection Hn as ->. reflexivity.
  - destruct l as [|x l]; [discriminate|]. cbn [length] in Hl. cbn [nth_error] in Hn.
    cbn [firstn app]. f_equal. apply IH; [lia|exact Hn].
Qed.

Lemma nth_error_last : forall (l : bytes) c n, length l = n -> nth_error (l ++ [c]) n = Some c.
Proof.
  induction l as [|x l IH]; intros c n H; subst n.
  - reflexivity.
  - cbn [length app nth_error]. apply IH. reflexivity.
Qed.

Theorem uuid_ok_shapes : forall b, uuid_ok b = true <->
  canonical36 b = true \/
  (exists p c, length p = 9 /\ map lower p = urn_prefix /\ canonical36 c = true /\ b = p ++ c) \/
  (exists c, canonical36 c = true /\ b = [x7b] ++ c ++ [x7d]) \/
  (length b = 32 /\ forallb is_hex b = true).
Proof.
  intro b. split.
  - unfold uuid_ok. cbv zeta.
    destruct (Nat.eqb (length b) 36) eqn:E36; [intro H; left; exact H|].
    destruct (Nat.eqb (length b) 45) eqn:E45.
    { intro H. right; left. apply andb_true_iff in H. destruct H as [Hp Hc].
      apply bytes_eqb_true in Hp. apply Nat.eqb_eq in E45.
      exists (firstn 9 b), (skipn 9 b). repeat split.
      - rewrite firstn_length. lia.
      - exact Hp.
      - exact Hc.
      - symmetry. apply firstn_skipn. }
    destruct (Nat.eqb (length b) 38) eqn:E38.
    { intro H. right; right; left. apply andb_true_iff in H. destruct H as [Ho Hc].
      apply Nat.eqb_eq in E38.
      destruct b as [|o r]; [discriminate Ho|].
      destruct (nth_error (o :: r) 37) as [c|] eqn:En; [|discriminate Ho].
      apply andb_true_iff in Ho. destruct Ho as [Ho Hz].
      apply N.eqb_eq in Ho, Hz.
      assert (o = x7b) by (apply fmt_to_N_inj; unfold bN in Ho; rewrite Ho; reflexivity).
      assert (c = x7d) by (apply fmt_to_N_inj; unfold bN in Hz; rewrite Hz; reflexivity).
      subst o c. cbn [skipn] in Hc. cbn [nth_error] in En. cbn [length] in E38.
      exists (firstn 36 r). split; [exact Hc|].
      cbn [app]. f_equal. apply last_split; [lia|exact En]. }
    destruct (Nat.eqb (length b) 32) eqn:E32; [|discriminate].
    intro H. right; right; right. apply Nat.eqb_eq in E32. split; assumption.
  - intros [H | [(p & c & Hp & Hm & Hc & ->) | [(c & Hc & ->) | [Hl Hh]]]].
    + unfold uuid_ok. cbv zeta. rewrite (canonical36_length b H). cbn [Nat.eqb]. exact H.
    + pose proof (canonical36_length c Hc) as Lc.
      unfold uuid_ok. cbv zeta. rewrite app_length, Hp, Lc.
      cbn [Nat.add Nat.eqb].
      rewrite firstn_app_exact by exact Hp. rewrite skipn_app_exact by exact Hp.
      rewrite Hm, Hc, bytes_eqb_refl. reflexivity.
    + pose proof (canonical36_length c Hc) as Lc.
      unfold uuid_ok. cbv zeta. cbn [app].
      replace (length (x7b :: c ++ [x7d])) with 38
        by (cbn [length]; rewrite app_length, Lc; reflexivity).
      cbn [Nat.eqb skipn].
      change (nth_error (x7b :: c ++ [x7d]) 37) with (nth_error (c ++ [x7d]) 36).
      rewrite (nth_error_last c x7d 36 Lc).
      rewrite (firstn_app_exact c [x7d] 36 Lc). rewrite Hc. reflexivity.
    + unfold uuid_ok. cbv zeta. rewrite Hl. cbn [Nat.eqb]. exact Hh.
Qed.
