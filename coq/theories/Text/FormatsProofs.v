(* FormatsProofs.v — proofs about the date, uuid and datetime format rules of Formats.v (property C02). *)
From Coq Require Import List NArith ZArith Bool Arith Lia.
From Coq Require Import ZifyBool ZifyNat ZifyN.
From Coq Require Import Strings.Byte.
Import ListNotations.
From JS Require Import Common.Wire Text.Formats.

Ltac Zify.zify_post_hook ::= Z.div_mod_to_equations.

(* ------------------------------------------------------------------ *)
(* bytes *)

Lemma fmt_to_N_inj : forall a b, Byte.to_N a = Byte.to_N b -> a = b.
Proof.
  intros a b H.
  assert (Hx : Byte.of_N (Byte.to_N a) = Byte.of_N (Byte.to_N b)) by (rewrite H; reflexivity).
  rewrite !Byte.of_to_N in Hx. congruence.
Qed.

Lemma fmt_byte_eqb_true : forall a b, byte_eqb a b = true -> a = b.
Proof. intros a b H. unfold byte_eqb in H. apply N.eqb_eq in H. apply fmt_to_N_inj. exact H. Qed.

Lemma digit_byte_to_N : forall k, (k < 10)%N -> Byte.to_N (digit_byte k) = (48 + k)%N.
Proof.
  intros k Hk. unfold digit_byte.
  destruct (Byte.of_N (48 + k)) as [b|] eqn:E.
  - apply Byte.to_of_N. exact E.
  - apply Byte.of_N_None_iff in E. lia.
Qed.

Lemma dig_digit_byte : forall k, (k < 10)%N -> dig (digit_byte k) = k.
Proof. intros k Hk. unfold dig, bN. rewrite digit_byte_to_N by exact Hk. lia. Qed.

Lemma is_digit_digit_byte : forall k, (k < 10)%N -> is_digit (digit_byte k) = true.
Proof. intros k Hk. unfold is_digit, bN. rewrite digit_byte_to_N by exact Hk. lia. Qed.

Lemma is_digit_dig : forall c, is_digit c = true -> (dig c < 10)%N /\ c = digit_byte (dig c).
Proof.
  intros c H. unfold is_digit, bN in H.
  assert (Hr : (48 <= Byte.to_N c <= 57)%N) by lia.
  assert (Hd : (dig c < 10)%N) by (unfold dig, bN; lia).
  split; [exact Hd|].
  apply fmt_to_N_inj. rewrite digit_byte_to_N by exact Hd. unfold dig, bN. lia.
Qed.

Lemma is_dash_eq : forall c, is_dash c = true -> c = x2d.
Proof.
  intros c H. unfold is_dash, bN in H. apply N.eqb_eq in H.
  apply fmt_to_N_inj. rewrite H. reflexivity.
Qed.

(* ------------------------------------------------------------------ *)
(* date *)

Lemma days_in_le : forall y m, (days_in y m <= 31)%N.
Proof.
  intros y m. unfold days_in.
  destruct (N.eqb m 2); [destruct (leap y); lia|].
  destruct (N.eqb m 4 || N.eqb m 6 || N.eqb m 9 || N.eqb m 11)%bool; lia.
Qed.

Lemma four_digits : forall a b c d, (a < 10 -> b < 10 -> c < 10 -> d < 10 ->
  let n := a * 1000 + b * 100 + c * 10 + d in
  n / 1000 = a /\ (n / 100) mod 10 = b /\ (n / 10) mod 10 = c /\ n mod 10 = d)%N.
Proof. intros a b c d Ha Hb Hc Hd n. subst n. repeat split; lia. Qed.

Lemma two_digits : forall a b, (a < 10 -> b < 10 ->
  let n := a * 10 + b in n / 10 = a /\ n mod 10 = b)%N.
Proof. intros a b Ha Hb n. subst n. split; lia. Qed.

Lemma four_recompose : forall n, (n <= 9999 ->
  n / 1000 < 10 /\ (n / 100) mod 10 < 10 /\ (n / 10) mod 10 < 10 /\ n mod 10 < 10 /\
  n / 1000 * 1000 + (n / 100) mod 10 * 100 + (n / 10) mod 10 * 10 + n mod 10 = n)%N.
Proof. intros n Hn. repeat split; lia. Qed.

Lemma two_recompose : forall n, (n <= 99 ->
  n / 10 < 10 /\ n mod 10 < 10 /\ n / 10 * 10 + n mod 10 = n)%N.
Proof. intros n Hn. repeat split; lia. Qed.

Theorem date_ok_iff : forall s, date_ok s = true <-> exists y m d, valid_ymd y m d = true /\ s = fmt_date y m d.
Proof.
  intro s. split.
  - intro H. unfold date_ok in H.
    do 10 (destruct s as [|? s]; [discriminate H|]).
    destruct s; [|discriminate H].
    rename b into y1, b0 into y2, b1 into y3, b2 into y4, b3 into d1, b4 into m1,
           b5 into m2, b6 into d2, b7 into a1, b8 into a2.
    repeat rewrite andb_true_iff in H.
    destruct H as [[[[[[[[[[Hy1 Hy2] Hy3] Hy4] Hd1] Hm1] Hm2] Hd2] Ha1] Ha2] Hv].
    apply is_digit_dig in Hy1, Hy2, Hy3, Hy4, Hm1, Hm2, Ha1, Ha2.
    apply is_dash_eq in Hd1, Hd2. subst d1 d2.
    destruct Hy1 as [Ly1 Ey1], Hy2 as [Ly2 Ey2], Hy3 as [Ly3 Ey3], Hy4 as [Ly4 Ey4],
             Hm1 as [Lm1 Em1], Hm2 as [Lm2 Em2], Ha1 as [La1 Ea1], Ha2 as [La2 Ea2].
    eexists _, _, _. split; [exact Hv|].
    unfold fmt_date, four, two. cbn [app].
    destruct (four_digits _ _ _ _ Ly1 Ly2 Ly3 Ly4) as (E1 & E2 & E3 & E4).
    destruct (two_digits _ _ Lm1 Lm2) as (E5 & E6).
    destruct (two_digits _ _ La1 La2) as (E7 & E8).
    cbv zeta in E1, E2, E3, E4, E5, E6, E7, E8.
    rewrite E1, E2, E3, E4, E5, E6, E7, E8.
    rewrite <- Ey1, <- Ey2, <- Ey3, <- Ey4, <- Em1, <- Em2, <- Ea1, <- Ea2.
    reflexivity.
  - intros (y & m & d & Hv & ->).
    assert (Hv' := Hv). unfold valid_ymd in Hv'.
    repeat rewrite andb_true_iff in Hv'.
    destruct Hv' as [[[[Hy Hm1] Hm2] Hd1] Hd2].
    pose proof (days_in_le y m) as Hdi.
    assert (Ly : (y <= 9999)%N) by lia.
    assert (Lm : (m <= 99)%N) by lia.
    assert (Ld : (d <= 99)%N) by lia.
    destruct (four_recompose y Ly) as (A1 & A2 & A3 & A4 & A5).
    destruct (two_recompose m Lm) as (B1 & B2 & B3).
    destruct (two_recompose d Ld) as (C1 & C2 & C3).
    unfold fmt_date, four, two. cbn [app]. unfold date_ok.
    rewrite !is_digit_digit_byte by assumption.
    rewrite !dig_digit_byte by assumption.
    rewrite A5, B3, C3, Hv.
    reflexivity.
Qed.

Theorem date_ok_length : forall s, date_ok s = true -> length s = 10.
Proof.
  intros s H. unfold date_ok in H.
  do 10 (destruct s as [|? s]; [discriminate H|]).
  destruct s; [reflexivity|discriminate H].
Qed.

(* ------------------------------------------------------------------ *)
(* uuid *)

Theorem canonical36_length : forall b, canonical36 b = true -> length b = 36.
Proof.
  intros b H. unfold canonical36 in H.
  do 36 (destruct b as [|? b]; [discriminate H|]).
  destruct b; [reflexivity|discriminate H].
Qed.

Lemma bytes_eqb_true : forall a b, bytes_eqb a b = true -> a = b.
Proof.
  unfold bytes_eqb. induction a as [|x a IH]; intros [|y b] H; cbn in H; try discriminate.
  - reflexivity.
  - apply andb_true_iff in H. destruct H as [Hl H].
    apply andb_true_iff in H. destruct H as [Hx H].
    apply fmt_byte_eqb_true in Hx. subst y. f_equal. apply IH.
    apply andb_true_iff. split; assumption.
Qed.

Lemma bytes_eqb_refl : forall a, bytes_eqb a a = true.
Proof.
  unfold bytes_eqb. induction a as [|x a IH]; [reflexivity|].
  cbn [length combine forallb fst snd]. apply andb_true_iff in IH. destruct IH as [Hl Hf].
  rewrite Hf. cbn [Nat.eqb]. rewrite Hl. unfold byte_eqb. rewrite N.eqb_refl. reflexivity.
Qed.

Lemma firstn_app_exact : forall (p c : bytes) n, length p = n -> firstn n (p ++ c) = p.
Proof.
  induction p as [|x p IH]; intros c n H; subst n.
  - reflexivity.
  - cbn [length firstn app]. f_equal. apply IH. reflexivity.
Qed.

Lemma skipn_app_exact : forall (p c : bytes) n, length p = n -> skipn n (p ++ c) = c.
Proof.
  induction p as [|x p IH]; intros c n H; subst n.
  - reflexivity.
  - cbn [length skipn app]. apply IH. reflexivity.
Qed.

Lemma last_split : forall n (l : bytes) c, length l = S n -> nth_error l n = Some c ->
  l = firstn n l ++ [c].
Proof.
  induction n as [|n IH]; intros l c Hl Hn.
  - destruct l as [|x [|y l]]; try discriminate. cbn in Hn. injection Hn as ->. reflexivity.
  - destruct l as [|x l]; [discriminate|]. cbn [length] in Hl. cbn [nth_error] in Hn.
    cbn [firstn app]. f_equal. apply IH; [lia|exact Hn].
Qed.

Lemma nth_error_last : forall (l : bytes) c n, length l = n -> nth_error (l ++ [c]) n = Some c.
Proof.
  induction l as [|x l IH]; intros c n H; subst n.
  - reflexivity.
  - cbn [length app nth_error]. apply IH. reflexivity.
Qed.

Theorem uuid_ok_shapes : forall b, uuid_ok b = true <->
  canonical36 b = true \/
  (exists p c, length p = 9 /\ map lower p = urn_prefix /\ canonical36 c = true /\ b = p ++ c) \/
  (exists c, canonical36 c = true /\ b = [x7b] ++ c ++ [x7d]) \/
  (length b = 32 /\ forallb is_hex b = true).
Proof.
  intro b. split.
  - unfold uuid_ok. cbv zeta.
    destruct (Nat.eqb (length b) 36) eqn:E36; [intro H; left; exact H|].
    destruct (Nat.eqb (length b) 45) eqn:E45.
    { intro H. right; left. apply andb_true_iff in H. destruct H as [Hp Hc].
      apply bytes_eqb_true in Hp. apply Nat.eqb_eq in E45.
      exists (firstn 9 b), (skipn 9 b). repeat split.
      - rewrite firstn_length. lia.
      - exact Hp.
      - exact Hc.
      - symmetry. apply firstn_skipn. }
    destruct (Nat.eqb (length b) 38) eqn:E38.
    { intro H. right; right; left. apply andb_true_iff in H. destruct H as [Ho Hc].
      apply Nat.eqb_eq in E38.
      destruct b as [|o r]; [discriminate Ho|].
      destruct (nth_error (o :: r) 37) as [c|] eqn:En; [|discriminate Ho].
      apply andb_true_iff in Ho. destruct Ho as [Ho Hz].
      apply N.eqb_eq in Ho, Hz.
      assert (o = x7b) by (apply fmt_to_N_inj; unfold bN in Ho; rewrite Ho; reflexivity).
      assert (c = x7d) by (apply fmt_to_N_inj; unfold bN in Hz; rewrite Hz; reflexivity).
      subst o c. cbn [skipn] in Hc. cbn [nth_error] in En. cbn [length] in E38.
      exists (firstn 36 r). split; [exact Hc|].
      cbn [app]. f_equal. apply last_split; [lia|exact En]. }
    destruct (Nat.eqb (length b) 32) eqn:E32; [|discriminate].
    intro H. right; right; right. apply Nat.eqb_eq in E32. split; assumption.
  - intros [H | [(p & c & Hp & Hm & Hc & ->) | [(c & Hc & ->) | [Hl Hh]]]].
    + unfold uuid_ok. cbv zeta. rewrite (canonical36_length b H). cbn [Nat.eqb]. exact H.
    + pose proof (canonical36_length c Hc) as Lc.
      unfold uuid_ok. cbv zeta. rewrite app_length, Hp, Lc.
      cbn [Nat.add Nat.eqb].
      rewrite firstn_app_exact by exact Hp. rewrite skipn_app_exact by exact Hp.
      rewrite Hm, Hc, bytes_eqb_refl. reflexivity.
    + pose proof (canonical36_length c Hc) as Lc.
      unfold uuid_ok. cbv zeta. cbn [app].
      replace (length (x7b :: c ++ [x7d])) with 38
        by (cbn [length]; rewrite app_length, Lc; reflexivity).
      cbn [Nat.eqb skipn].
      change (nth_error (x7b :: c ++ [x7d]) 37) with (nth_error (c ++ [x7d]) 36).
      rewrite (nth_error_last c x7d 36 Lc).
      rewrite (firstn_app_exact c [x7d] 36 Lc). rewrite Hc. reflexivity.
    + unfold uuid_ok. cbv zeta. rewrite Hl. cbn [Nat.eqb]. exact Hh.
Qed.

(* ------------------------------------------------------------------ *)
(* datetime: the rule of Formats.v is exactly RFC 3339 date-time as stated in FormatsSpec.v *)
From JS Require Import Text.FormatsSpec.

Lemma bN_eqb_byte : forall c b, N.eqb (bN c) (Byte.to_N b) = true -> c = b.
Proof. intros c b H. apply N.eqb_eq in H. apply fmt_to_N_inj. exact H. Qed.

(* the model's 2DIGIT reader (Formats.two_digits; [two_digits] here is the arithmetic lemma above) *)
Lemma two_digits_some : forall a b mx n, Formats.two_digits a b mx = Some n ->
  (n <= mx)%N /\ [a; b] = two n.
Proof.
  intros a b mx n H. unfold Formats.two_digits in H.
  destruct (is_digit a) eqn:Ea; [|discriminate H].
  destruct (is_digit b) eqn:Eb; [|discriminate H].
  cbn [andb] in H. cbv zeta in H.
  destruct (N.leb (dig a * 10 + dig b) mx) eqn:El; [|discriminate H].
  injection H as <-.
  apply is_digit_dig in Ea, Eb. destruct Ea as [La Ea], Eb as [Lb Eb].
  split; [lia|].
  destruct (two_digits _ _ La Lb) as (E1 & E2). cbv zeta in E1, E2.
  unfold two. rewrite E1, E2, <- Ea, <- Eb. reflexivity.
Qed.

Lemma two_digits_two : forall n mx, (n <= mx)%N -> (mx <= 99)%N ->
  Formats.two_digits (digit_byte (n / 10)) (digit_byte (n mod 10)) mx = Some n.
Proof.
  intros n mx Hn Hm.
  assert (Ln : (n <= 99)%N) by lia.
  destruct (two_recompose n Ln) as (A1 & A2 & A3).
  unfold Formats.two_digits.
  rewrite !is_digit_digit_byte by assumption.
  rewrite !dig_digit_byte by assumption.
  cbn [andb]. cbv zeta. rewrite A3.
  replace (N.leb n mx) with true by lia. reflexivity.
Qed.

(* time-offset *)
Lemma zone_offset_iff : forall z off, zone_offset z = Some off <-> zone_spec z off.
Proof.
  intros z off. split.
  - intro H.
    destruct z as [|a [|h1 [|h2 [|c [|m1 [|m2 [|g r]]]]]]]; unfold zone_offset in H; cbv beta iota in H;
      try discriminate H.
    + destruct (N.eqb (bN a) 90) eqn:E1.
      * cbn [orb] in H. injection H as <-.
        apply (bN_eqb_byte a x5a) in E1. subst a. constructor.
      * destruct (N.eqb (bN a) 122) eqn:E2; cbn [orb] in H; [|discriminate H].
        injection H as <-. apply (bN_eqb_byte a x7a) in E2. subst a. constructor.
    + destruct (N.eqb (bN c) 58) eqn:Ec; [|rewrite andb_false_r in H; discriminate H].
      rewrite andb_true_r in H.
      apply (bN_eqb_byte c x3a) in Ec. subst c.
      destruct (Formats.two_digits h1 h2 23) as [oh|] eqn:Eh;
        [|destruct (N.eqb (bN a) 43 || N.eqb (bN a) 45)%bool; discriminate H].
      destruct (Formats.two_digits m1 m2 59) as [om|] eqn:Em;
        [|destruct (N.eqb (bN a) 43 || N.eqb (bN a) 45)%bool; discriminate H].
      apply two_digits_some in Eh, Em. destruct Eh as [Lh Eh], Em as [Lm Em].
      change [a; h1; h2; x3a; m1; m2] with ([a] ++ [h1; h2] ++ [x3a] ++ [m1; m2]).
      rewrite Eh, Em.
      destruct (N.eqb (bN a) 45) eqn:E45.
      * rewrite orb_true_r in H. injection H as <-.
        apply (bN_eqb_byte a x2d) in E45. subst a. constructor; assumption.
      * rewrite orb_false_r in H.
        destruct (N.eqb (bN a) 43) eqn:E43; [|discriminate H].
        injection H as <-.
        apply (bN_eqb_byte a x2b) in E43. subst a. constructor; assumption.
  - intro H. destruct H as [| |oh om Hh Hm|oh om Hh Hm].
    + reflexivity.
    + reflexivity.
    + unfold two. cbn [app]. unfold zone_offset. cbv beta iota.
      rewrite (two_digits_two oh 23 Hh) by lia. rewrite (two_digits_two om 59 Hm) by lia.
      reflexivity.
    + unfold two. cbn [app]. unfold zone_offset. cbv beta iota.
      rewrite (two_digits_two oh 23 Hh) by lia. rewrite (two_digits_two om 59 Hm) by lia.
      reflexivity.
Qed.

Lemma zone_spec_head : forall z off, zone_spec z off ->
  exists c r, z = c :: r /\ is_digit c = false /\ N.eqb (bN c) 46 = false.
Proof.
  intros z off H. destruct H; eexists _, _; (split; [reflexivity|split; reflexivity]).
Qed.

(* time-secfrac *)
Lemma drop_digits_split : forall r, exists f, all_digits f /\ r = f ++ drop_digits r.
Proof.
  induction r as [|c r IH].
  - exists []. split; [constructor|reflexivity].
  - cbn [drop_digits]. destruct (is_digit c) eqn:E.
    + destruct IH as (f & Hf & Hr). exists (c :: f). split; [constructor; assumption|].
      cbn [app]. f_equal. exact Hr.
    + exists []. split; [constructor|reflexivity].
Qed.

Lemma drop_digits_app : forall f z c r, all_digits f -> z = c :: r -> is_digit c = false ->
  drop_digits (f ++ z) = z.
Proof.
  induction f as [|x f IH]; intros z c r Hf -> Hc.
  - cbn [app drop_digits]. rewrite Hc. reflexivity.
  - inversion Hf as [|? ? Hx Hf']; subst. cbn [app drop_digits]. rewrite Hx.
    apply (IH _ c r Hf' eq_refl Hc).
Qed.

(* [time-secfrac] time-offset behind the seconds *)
Lemma after_seconds_zone_iff : forall rest z off,
  (after_seconds rest = Some z /\ zone_offset z = Some off) <->
  (exists frac, frac_spec frac /\ zone_spec z off /\ rest = frac ++ z).
Proof.
  intros rest z off. split.
  - intros [Ha Hz]. apply zone_offset_iff in Hz.
    destruct rest as [|c r]; [discriminate Ha|].
    unfold after_seconds in Ha.
    destruct (N.eqb (bN c) 46) eqn:Ec.
    + apply (bN_eqb_byte c x2e) in Ec. subst c.
      destruct r as [|d r]; [discriminate Ha|].
      destruct (is_digit d) eqn:Ed; [|discriminate Ha].
      injection Ha as Ha. cbn [drop_digits] in Ha. rewrite Ed in Ha.
      destruct (drop_digits_split r) as (f & Hf & Hr). rewrite Ha in Hr.
      exists (x2e :: d :: f). split; [|split; [exact Hz|]].
      * right. exists (d :: f). split; [discriminate|]. split; [constructor; assumption|reflexivity].
      * cbn [app]. rewrite Hr at 1. reflexivity.
    + injection Ha as <-. exists []. split; [left; reflexivity|]. split; [exact Hz|reflexivity].
  - intros (frac & Hf & Hz & ->).
    destruct (zone_spec_head z off Hz) as (c & r & Ez & Hd & Hp).
    split; [|apply zone_offset_iff; exact Hz].
    destruct Hf as [->|(f & Hne & Hf & ->)].
    + cbn [app]. rewrite Ez. unfold after_seconds. rewrite Hp. reflexivity.
    + destruct f as [|d f]; [congruence|].
      cbn [app]. unfold after_seconds.
      replace (N.eqb (bN x2e) 46) with true by reflexivity.
      inversion Hf as [|? ? Hx Hf']; subst d f. rewrite Hx.
      f_equal. apply (drop_digits_app (_ :: _) z c r Hf Ez Hd).
Qed.

(* the leap second test *)
Lemma leap_second_test : forall ss x,
  (negb (N.eqb ss 60) || Z.eqb (Z.modulo (Z.modulo x 1440 + 1440) 1440) 1439)%bool = true <->
  (ss = 60%N -> (x mod 1440 = 1439)%Z).
Proof.
  intros ss x.
  assert (E : (Z.modulo (Z.modulo x 1440 + 1440) 1440 = Z.modulo x 1440)%Z).
  { pose proof (Z.mod_pos_bound x 1440 eq_refl) as B.
    rewrite <- Z.add_mod_idemp_r by discriminate. rewrite Z.mod_same by discriminate.
    rewrite Z.add_0_r. apply Z.mod_mod. discriminate. }
  rewrite E.
  destruct (N.eqb ss 60) eqn:Es; cbn [negb orb].
  - apply N.eqb_eq in Es. rewrite Z.eqb_eq. split; [intros H _; exact H|intro H; exact (H Es)].
  - apply N.eqb_neq in Es. split; [intros _ H; contradiction|reflexivity].
Qed.

Lemma fmt_date_length : forall y m d, length (fmt_date y m d) = 10.
Proof. reflexivity. Qed.

Theorem datetime_ok_iff : forall s, datetime_ok s = true <-> DateTime s.
Proof.
  intro s. split.
  - intro H. unfold datetime_ok in H.
    destruct (Nat.ltb (length s) 20) eqn:EL; [discriminate H|].
    destruct (skipn 10 s) as [|t [|h1 [|h2 [|c1 [|m1 [|m2 [|c2 [|s1 [|s2 rest]]]]]]]]] eqn:ES;
      try discriminate H.
    match type of H with (if ?c then _ else _) = _ => destruct c eqn:EC; [|discriminate H] end.
    repeat rewrite andb_true_iff in EC. destruct EC as [[[Ht Hc1] Hc2] Hd].
    destruct (Formats.two_digits h1 h2 23) as [hh|] eqn:Ehh; [|discriminate H].
    destruct (Formats.two_digits m1 m2 59) as [mi|] eqn:Emi; [|discriminate H].
    destruct (Formats.two_digits s1 s2 60) as [ss|] eqn:Ess; [|discriminate H].
    destruct (after_seconds rest) as [z|] eqn:EA; [|discriminate H].
    destruct (zone_offset z) as [off|] eqn:EZ; [|discriminate H].
    pose proof (proj1 (leap_second_test _ _) H) as Hleap.
    destruct (proj1 (after_seconds_zone_iff rest z off) (conj EA EZ)) as (frac & Hfrac & Hzone & Hrest).
    apply date_ok_iff in Hd. destruct Hd as (y & m & d & Hv & Hdate).
    apply two_digits_some in Ehh, Emi, Ess.
    destruct Ehh as [Lhh Ehh], Emi as [Lmi Emi], Ess as [Lss Ess].
    apply (bN_eqb_byte c1 x3a) in Hc1. apply (bN_eqb_byte c2 x3a) in Hc2. subst c1 c2.
    exists y, m, d, t, hh, mi, ss, frac, z, off.
    split; [exact Hv|]. split.
    { apply orb_true_iff in Ht. destruct Ht as [Ht|Ht].
      - left. apply (bN_eqb_byte t x54). exact Ht.
      - right. apply (bN_eqb_byte t x74). exact Ht. }
    split; [exact Lhh|]. split; [exact Lmi|]. split; [exact Lss|].
    split; [exact Hfrac|]. split; [exact Hzone|]. split; [exact Hleap|].
    rewrite <- (firstn_skipn 10 s) at 1. rewrite ES, Hdate, Hrest, <- Ehh, <- Emi, <- Ess.
    reflexivity.
  - intros (y & m & d & t & hh & mi & ss & frac & z & off & Hv & Ht & Lhh & Lmi & Lss & Hfrac & Hzone & Hleap & ->).
    unfold datetime_ok.
    match goal with |- context [fmt_date y m d ++ ?x] => set (tl := x) end.
    rewrite (firstn_app_exact (fmt_date y m d) tl 10 (fmt_date_length y m d)).
    rewrite (skipn_app_exact (fmt_date y m d) tl 10 (fmt_date_length y m d)).
    subst tl.
    destruct (zone_spec_head z off Hzone) as (zc & zr & Ez & _ & _).
    replace (Nat.ltb _ 20) with false.
    2:{ symmetry. apply Nat.ltb_ge. rewrite app_length, fmt_date_length. unfold two. cbn [app length].
        rewrite app_length, Ez. cbn [length]. lia. }
    unfold two. cbn [app].
    replace (N.eqb (bN x3a) 58) with true by reflexivity.
    replace (N.eqb (bN t) 84 || N.eqb (bN t) 116)%bool with true
      by (destruct Ht as [->| ->]; reflexivity).
    replace (date_ok (fmt_date y m d)) with true
      by (symmetry; apply date_ok_iff; exists y, m, d; split; [exact Hv|reflexivity]).
    cbn [andb].
    rewrite (two_digits_two hh 23 Lhh) by lia.
    rewrite (two_digits_two mi 59 Lmi) by lia.
    rewrite (two_digits_two ss 60 Lss) by lia.
    destruct (proj2 (after_seconds_zone_iff (frac ++ z) z off)) as [EA EZ].
    { exists frac. split; [exact Hfrac|]. split; [exact Hzone|reflexivity]. }
    rewrite EA, EZ. apply leap_second_test. exact Hleap.
Qed.

Theorem datetime_ok_min_length : forall s, datetime_ok s = true -> 20 <= length s.
Proof.
  intros s H. unfold datetime_ok in H.
  destruct (Nat.ltb (length s) 20) eqn:EL; [discriminate H|].
  apply Nat.ltb_ge. exact EL.
Qed.

Theorem datetime_date_part : forall s, datetime_ok s = true -> date_ok (firstn 10 s) = true.
Proof.
  intros s H. unfold datetime_ok in H.
  destruct (Nat.ltb (length s) 20); [discriminate H|].
  destruct (skipn 10 s) as [|t [|h1 [|h2 [|c1 [|m1 [|m2 [|c2 [|s1 [|s2 rest]]]]]]]]];
    try discriminate H.
  match type of H with (if ?c then _ else _) = _ => destruct c eqn:EC; [|discriminate H] end.
  apply andb_true_iff in EC. destruct EC as [_ Hd]. exact Hd.
Qed.

(* the same two facts read off the specification *)
Corollary DateTime_min_length : forall s, DateTime s -> 20 <= length s.
Proof. intros s H. apply datetime_ok_min_length. apply datetime_ok_iff. exact H. Qed.

Corollary DateTime_date_part : forall s, DateTime s ->
  exists y m d, valid_ymd y m d = true /\ firstn 10 s = fmt_date y m d.
Proof.
  intros s H. apply date_ok_iff. apply datetime_date_part. apply datetime_ok_iff. exact H.
Qed.

(* examples (string literals without importing String, whose [length] would shadow List.length) *)
From Coq Require String.
Import String.StringSyntax.
Section DatetimeExamples.
Local Open Scope string_scope.

(* a second of 60 is accepted exactly as the last second of a day of UTC *)
Example datetime_leap_second_utc_examples :
  datetime_ok (of_string "2016-12-31T23:59:60Z") = true /\
  datetime_ok (of_string "2016-12-31T15:59:60.7-08:00") = true /\
  datetime_ok (of_string "2017-01-01T08:59:60+09:00") = true /\
  datetime_ok (of_string "2016-12-31T23:59:60+01:00") = false.
Proof. vm_compute. repeat split; reflexivity. Qed.

(* the specification on its own, without the rule: witnesses for one text *)
Example DateTime_witnesses : DateTime (of_string "2016-12-31T15:59:60.7-08:00").
Proof.
  exists 2016%N, 12%N, 31%N, x54, 15%N, 59%N, 60%N, [x2e; x37],
         ([x2d] ++ two 8 ++ [x3a] ++ two 0), (- Z.of_N (8 * 60 + 0))%Z.
  split; [reflexivity|]. split; [left; reflexivity|].
  split; [lia|]. split; [lia|]. split; [lia|].
  split; [right; exists [x37]; split; [discriminate|split; [repeat constructor|reflexivity]]|].
  split; [apply ZoneMinus; lia|].
  split; [intros _; reflexivity|reflexivity].
Qed.

(* and through the theorem: texts the specification excludes *)
Example DateTime_refused :
  ~ DateTime (of_string "2016-12-31T23:59:60+01:00") /\
  ~ DateTime (of_string "2020-01-01T00:00:60Z") /\
  ~ DateTime (of_string "2020-01-01T00:00:00.Z") /\
  ~ DateTime (of_string "2020-01-01T00:00:00+24:00") /\
  ~ DateTime (of_string "2021-02-29T00:00:00Z") /\
  ~ DateTime (of_string "2020-01-01T00:00:00Zx") /\
  ~ DateTime (of_string "2020-01-01T00:00:00.123Z9").
Proof.
  repeat split; intro H; apply datetime_ok_iff in H; vm_compute in H; discriminate H.
Qed.
End DatetimeExamples.
