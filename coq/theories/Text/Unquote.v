(* Unquote.v — /repo/bytes/json.go (unquoteBytes, getu4) and Bytes.Unquote / InQuotes of
   /repo/bytes/bytes.go, with Go's utf8.DecodeRune / utf8.EncodeRune / utf16 surrogate
   decoding written out.  Every rule that looks at a string value (minLength, maxLength,
   regex, enum, const, the formats, object keys) looks at [unquote tok].
   The two phases of the Go code are kept: the scan for "unusual" bytes that returns the
   input slice unchanged, and the rewriting loop that starts where the scan stopped.
   Runes are [N]; getu4's -1 is [None].  No proofs in this file. *)
From Coq Require Import List NArith Bool Arith.
From Coq Require Import Strings.Byte.
Import ListNotations.
From JS Require Import Common.Wire.
Local Open Scope N_scope.

Definition bN (b : byte) : N := Byte.to_N b.
Definition ofN (n : N) : byte := match Byte.of_N n with Some b => b | None => x00 end.

Definition rune_error : N := 65533.         (* U+FFFD, utf8.RuneError = unicode.ReplacementChar *)
Definition max_rune : N := 1114111.         (* U+10FFFF *)
Definition in_rng (lo hi : N) (b : byte) : bool := (N.leb lo (bN b) && N.leb (bN b) hi)%bool.

(* utf8.DecodeRune: (rune, width); width 0 only for the empty input.  first[] and
   acceptRanges[] of unicode/utf8 written as ranges of the lead byte. *)
Definition decode_rune (p : bytes) : N * nat :=
  match p with
  | [] => (rune_error, 0%nat)
  | p0 :: r =>
    let n0 := bN p0 in
    if N.ltb n0 128 then (n0, 1%nat)
    else if N.ltb n0 194 then (rune_error, 1%nat)                          (* 80..C1 *)
    else if N.ltb n0 224 then                                             (* C2..DF *)
      match r with
      | b1 :: _ =>
        if in_rng 128 191 b1 then ((n0 mod 32) * 64 + (bN b1) mod 64, 2%nat) else (rune_error, 1%nat)
      | _ => (rune_error, 1%nat)
      end
    else if N.ltb n0 240 then                                             (* E0..EF *)
      let lo := if N.eqb n0 224 then 160 else 128 in
      let hi := if N.eqb n0 237 then 159 else 191 in
      match r with
      | b1 :: b2 :: _ =>
        if in_rng lo hi b1 then
          if in_rng 128 191 b2 then ((n0 mod 16) * 4096 + ((bN b1) mod 64) * 64 + (bN b2) mod 64, 3%nat)
          else (rune_error, 1%nat)
        else (rune_error, 1%nat)
      | _ => (rune_error, 1%nat)
      end
    else if N.ltb n0 245 then                                             (* F0..F4 *)
      let lo := if N.eqb n0 240 then 144 else 128 in
      let hi := if N.eqb n0 244 then 143 else 191 in
      match r with
      | b1 :: b2 :: b3 :: _ =>
        if in_rng lo hi b1 then
          if in_rng 128 191 b2 then
            if in_rng 128 191 b3 then
              ((n0 mod 8) * 262144 + ((bN b1) mod 64) * 4096 + ((bN b2) mod 64) * 64 + (bN b3) mod 64, 4%nat)
            else (rune_error, 1%nat)
          else (rune_error, 1%nat)
        else (rune_error, 1%nat)
      | _ => (rune_error, 1%nat)
      end
    else (rune_error, 1%nat)                                              (* F5..FF *)
  end.

Definition is_surrogate (r : N) : bool := (N.leb 55296 r && N.ltb r 57344)%bool.      (* D800..DFFF *)

(* utf8.EncodeRune (runes here are never negative) *)
Definition encode3 (r : N) : bytes :=
  [ofN (224 + r / 4096); ofN (128 + (r / 64) mod 64); ofN (128 + r mod 64)].
Definition encode_rune (r : N) : bytes :=
  if N.leb r 127 then [ofN r]
  else if N.leb r 2047 then [ofN (192 + r / 64); ofN (128 + r mod 64)]
  else if (N.ltb max_rune r || is_surrogate r)%bool then encode3 rune_error
  else if N.leb r 65535 then encode3 r
  else [ofN (240 + r / 262144); ofN (128 + (r / 4096) mod 64); ofN (128 + (r / 64) mod 64); ofN (128 + r mod 64)].

(* utf16.DecodeRune *)
Definition utf16_decode (r1 r2 : N) : N :=
  if (N.leb 55296 r1 && N.ltb r1 56320 && N.leb 56320 r2 && N.ltb r2 57344)%bool
  then (r1 - 55296) * 1024 + (r2 - 56320) + 65536
  else rune_error.

(* getu4 *)
Definition hexv (c : byte) : option N :=
  let n := bN c in
  if (N.leb 48 n && N.leb n 57)%bool then Some (n - 48)
  else if (N.leb 97 n && N.leb n 102)%bool then Some (n - 87)
  else if (N.leb 65 n && N.leb n 70)%bool then Some (n - 55)
  else None.
Definition getu4 (s : bytes) : option N :=
  match s with
  | b :: u :: h1 :: h2 :: h3 :: h4 :: _ =>
    if (N.eqb (bN b) 92 && N.eqb (bN u) 117)%bool then
      match hexv h1, hexv h2, hexv h3, hexv h4 with
      | Some a, Some b, Some c, Some d => Some (((a * 16 + b) * 16 + c) * 16 + d)
      | _, _, _, _ => None
      end
    else None
  | _ => None
  end.

(* first loop: index of the first "unusual" byte (backslash, quote, control byte,
   invalid UTF-8), or the length *)
Fixpoint fast (fuel : nat) (s : bytes) : nat :=
  match fuel with
  | O => O
  | S f =>
    match s with
    | [] => O
    | c :: r =>
      let n := bN c in
      if (N.eqb n 92 || N.eqb n 34 || N.ltb n 32)%bool then O
      else if N.ltb n 128 then S (fast f r)
      else let '(rr, size) := decode_rune s in
           if (N.eqb rr rune_error && Nat.eqb size 1)%bool then O
           else (size + fast f (skipn size s))%nat
    end
  end.

(* second loop; [acc] is the output so far, reversed.  None = "return" with ok=false *)
Fixpoint slow (fuel : nat) (s : bytes) (acc : bytes) : option bytes :=
  match fuel with
  | O => None
  | S f =>
    match s with
    | [] => Some (frev acc)
    | c :: r =>
      let n := bN c in
      if N.eqb n 92 then
        match r with
        | [] => None
        | e :: r2 =>
          let m := bN e in
          if (N.eqb m 34 || N.eqb m 92 || N.eqb m 47 || N.eqb m 39)%bool then slow f r2 (e :: acc)
          else if N.eqb m 98 then slow f r2 (x08 :: acc)
          else if N.eqb m 102 then slow f r2 (x0c :: acc)
          else if N.eqb m 110 then slow f r2 (x0a :: acc)
          else if N.eqb m 114 then slow f r2 (x0d :: acc)
          else if N.eqb m 116 then slow f r2 (x09 :: acc)
          else if N.eqb m 117 then
            match getu4 s with
            | None => None
            | Some rr =>
              let s6 := skipn 6 s in
              if is_surrogate rr then
                let dec := match getu4 s6 with Some rr1 => utf16_decode rr rr1 | None => rune_error end in
                if N.eqb dec rune_error
                then slow f s6 (rev_append (encode_rune rune_error) acc)
                else slow f (skipn 6 s6) (rev_append (encode_rune dec) acc)
              else slow f s6 (rev_append (encode_rune rr) acc)
            end
          else None
        end
      else if (N.eqb n 34 || N.ltb n 32)%bool then None
      else if N.ltb n 128 then slow f r (c :: acc)
      else let '(rr, size) := decode_rune s in
           slow f (skipn size s) (rev_append (encode_rune rr) acc)
    end
  end.

Definition in_quotes (b : bytes) : bool :=
  match b with
  | q :: r => (N.eqb (bN q) 34 && match frev r with l :: _ => N.eqb (bN l) 34 | [] => false end)%bool
  | [] => false
  end.

(* s[1:len(s)-1] *)
Definition inner (b : bytes) : bytes := match b with _ :: r => removelast r | [] => [] end.

Definition unquote_bytes (b : bytes) : option bytes :=
  if in_quotes b then
    let s := inner b in
    let r := fast (S (length s)) s in
    if Nat.eqb r (length s) then Some s
    else slow (S (length s)) (skipn r s) (frev (firstn r s))
  else None.

(* Bytes.Unquote *)
Definition unquote (b : bytes) : bytes :=
  if in_quotes b then match unquote_bytes b with Some t => t | None => b end else b.

(* ---------- specification side: spellings of a string value ----------
   A string value is a list of Unicode scalar values.  Each may be spelled
   - literally (its UTF-8 bytes) unless it is a quote, a backslash or below U+0020,
   - by a two-byte escape when it has one,
   - by \uXXXX with any mixture of hex digit cases, as a surrogate pair above U+FFFF. *)
Definition scalar (r : N) : bool := ((N.ltb r 55296) || (N.ltb 57343 r && N.leb r max_rune))%bool.

Inductive spelling := SLit | SShort (alt : bool) | SHex (upper : list bool).

Definition hexdig (upper : bool) (d : N) : byte :=
  ofN (if N.ltb d 10 then 48 + d else if upper then 55 + d else 87 + d).
Definition nthb (l : list bool) (i : nat) : bool := nth i l false.
Definition u4 (upper : list bool) (off : nat) (r : N) : bytes :=
  [x5c; x75; hexdig (nthb upper off) (r / 4096); hexdig (nthb upper (1 + off)) ((r / 256) mod 16);
   hexdig (nthb upper (2 + off)) ((r / 16) mod 16); hexdig (nthb upper (3 + off)) (r mod 16)].

Definition short_of (r : N) (alt : bool) : option bytes :=
  if N.eqb r 34 then Some [x5c; x22]
  else if N.eqb r 92 then Some [x5c; x5c]
  else if N.eqb r 47 then Some [x5c; x2f]
  else if N.eqb r 39 then (if alt then Some [x5c; x27] else None)   (* \' : taken by unquoteBytes, never produced by a scanner-accepted text *)
  else if N.eqb r 8 then Some [x5c; x62]
  else if N.eqb r 12 then Some [x5c; x66]
  else if N.eqb r 10 then Some [x5c; x6e]
  else if N.eqb r 13 then Some [x5c; x72]
  else if N.eqb r 9 then Some [x5c; x74]
  else None.

Definition spell (r : N) (sp : spelling) : option bytes :=
  match sp with
  | SLit => if (N.eqb r 34 || N.eqb r 92 || N.ltb r 32)%bool then None else Some (encode_rune r)
  | SShort alt => short_of r alt
  | SHex upper =>
    if N.leb r 65535 then Some (u4 upper 0 r)
    else let v := r - 65536 in Some (u4 upper 0 (55296 + v / 1024) ++ u4 upper 4 (56320 + v mod 1024))
  end.

Fixpoint spell_all (rs : list N) (sps : list spelling) : option bytes :=
  match rs, sps with
  | [], [] => Some []
  | r :: rs', sp :: sps' =>
    match spell r sp, spell_all rs' sps' with
    | Some a, Some b => Some (a ++ b)
    | _, _ => None
    end
  | _, _ => None
  end.

Definition utf8 (rs : list N) : bytes := flat_map encode_rune rs.
Definition quote (body : bytes) : bytes := x22 :: body ++ [x22].

(* ---------- wire:  "<hex of the token>" (or "-" for empty)  ->  hex of Unquote(token) ---------- *)
Definition unquote_model_line (line : bytes) : bytes :=
  match unhex (match line with [x2d] => [] | _ => line end) with
  | Some s => match hex (unquote s) with [] => [x2d] | h => h end
  | None => [x42; x41; x44]
  end.
