(* FormatsSpec.v — the declarative specification of the datetime format rule (property C02), written from
   RFC 3339 section 5.6 ("Internet Date/Time Format"), not from the code:

     date-fullyear = 4DIGIT          date-month = 2DIGIT ; 01-12        date-mday = 2DIGIT ; 01-28/29/30/31 by month/year
     time-hour     = 2DIGIT ; 00-23  time-minute = 2DIGIT ; 00-59       time-second = 2DIGIT ; 00-58/59/60 by leap second rules
     time-secfrac  = "." 1*DIGIT
     time-numoffset = ("+" / "-") time-hour ":" time-minute
     time-offset   = "Z" / time-numoffset
     partial-time  = time-hour ":" time-minute ":" time-second [time-secfrac]
     full-date     = date-fullyear "-" date-month "-" date-mday
     full-time     = partial-time time-offset
     date-time     = full-date "T" full-time
   with the note of 5.6 that "T" and "Z" may be lower case, and the leap second rule of 5.7 read as: a second of 60 is
   only the last second (23:59:60) of a day of UTC, i.e. local time minus offset is 23:59 modulo a day.
   (5.7 further says leap seconds are inserted at the end of a month; neither this specification nor the rule look at
   the day of the month for a second of 60.)
   [fmt_date y m d] with [valid_ymd y m d] is full-date ([date_ok_iff] in FormatsProofs.v); [two n] is the 2DIGIT text of n <= 99.
   No proofs in this file. *)
From Coq Require Import List NArith ZArith Bool.
From Coq Require Import Strings.Byte.
Import ListNotations.
From JS Require Import Common.Wire Text.Formats.

(* time-offset: Z / z, or sign hour ":" minute; its value in minutes east of UTC *)
Inductive zone_spec : bytes -> Z -> Prop :=
| ZoneZ : zone_spec [x5a] 0%Z
| Zonez : zone_spec [x7a] 0%Z
| ZonePlus  : forall oh om, (oh <= 23)%N -> (om <= 59)%N ->
    zone_spec ([x2b] ++ two oh ++ [x3a] ++ two om) (Z.of_N (oh * 60 + om))
| ZoneMinus : forall oh om, (oh <= 23)%N -> (om <= 59)%N ->
    zone_spec ([x2d] ++ two oh ++ [x3a] ++ two om) (- Z.of_N (oh * 60 + om)).

Definition all_digits (f : bytes) : Prop := Forall (fun c => is_digit c = true) f.

(* time-secfrac, optional *)
Definition frac_spec (frac : bytes) : Prop :=
  frac = [] \/ exists f, f <> [] /\ all_digits f /\ frac = x2e :: f.

Definition DateTime (s : bytes) : Prop :=
  exists y m d t hh mi ss frac z off,
    valid_ymd y m d = true /\ (t = x54 \/ t = x74) /\
    (hh <= 23)%N /\ (mi <= 59)%N /\ (ss <= 60)%N /\
    frac_spec frac /\
    zone_spec z off /\
    (ss = 60%N -> ((Z.of_N (hh * 60 + mi) - off) mod 1440 = 1439)%Z) /\
    s = fmt_date y m d ++ [t] ++ two hh ++ [x3a] ++ two mi ++ [x3a] ++ two ss ++ frac ++ z.
