(* RegexTypeProofs.v — proofs about the /P/ token extraction of RegexType.v (property C18). *)
From Coq Require Import List NArith Bool Arith Lia.
From Coq Require Import Strings.Byte.
Import ListNotations.
From JS Require Import Common.Wire Text.RegexType.

(* ------------------------------------------------------------------ *)
(* bytes: the two tests identify their byte *)

Lemma is_slash_x2f : is_slash x2f = true.
Proof. reflexivity. Qed.

Lemma is_bslash_x2f : is_bslash x2f = false.
Proof. reflexivity. Qed.

Lemma is_slash_eq : forall c, is_slash c = true -> c = x2f.
Proof.
  intros c H. unfold is_slash in H. apply N.eqb_eq in H.
  assert (E : Byte.of_N (Byte.to_N c) = Byte.of_N 47) by (rewrite H; reflexivity).
  rewrite Byte.of_to_N in E. simpl in E. congruence.
Qed.

Lemma frev_rev : forall {A} (l : list A), frev l = rev l.
Proof. intros. unfold frev. symmetry. apply rev_alt. Qed.

(* ------------------------------------------------------------------ *)
(* the scanning loop *)

Lemma scan_pattern_sound : forall bs e acc q,
  scan_pattern e bs acc = Some q ->
  exists p' rest, q = rev acc ++ p' /\ bs = p' ++ [x2f] ++ rest /\
    has_unescaped_slash e p' = false /\ ends_escaped e p' = false.
Proof.
  induction bs as [|c r IH]; intros e acc q H; simpl in H.
  - discriminate.
  - destruct (is_bslash c) eqn:Hb.
    + apply IH in H. destruct H as (p' & rest & Hq & Hr & Hu & He).
      exists (c :: p'), rest. simpl. rewrite Hb.
      repeat split; auto.
      * rewrite Hq. simpl. rewrite <- app_assoc. reflexivity.
      * rewrite Hr. reflexivity.
    + destruct (is_slash c) eqn:Hs.
      * destruct e.
        -- apply IH in H. destruct H as (p' & rest & Hq & Hr & Hu & He).
           exists (c :: p'), rest. simpl. rewrite Hb, Hs.
           repeat split; auto.
           ++ rewrite Hq. simpl. rewrite <- app_assoc. reflexivity.
           ++ rewrite Hr. reflexivity.
        -- inversion H; subst q. exists [], r. simpl.
           repeat split; auto.
           ++ rewrite frev_rev, app_nil_r. reflexivity.
           ++ rewrite (is_slash_eq c Hs). reflexivity.
      * apply IH in H. destruct H as (p' & rest & Hq & Hr & Hu & He).
        exists (c :: p'), rest. simpl. rewrite Hb, Hs.
        repeat split; auto.
        -- rewrite Hq. simpl. rewrite <- app_assoc. reflexivity.
        -- rewrite Hr. reflexivity.
Qed.

Lemma scan_pattern_complete : forall p e acc rest,
  has_unescaped_slash e p = false -> ends_escaped e p = false ->
  scan_pattern e (p ++ [x2f] ++ rest) acc = Some (rev acc ++ p).
Proof.
  induction p as [|c r IH]; intros e acc rest Hu He; simpl in *.
  - subst e. rewrite frev_rev, app_nil_r. reflexivity.
  - destruct (is_bslash c) eqn:Hb.
    + rewrite (IH _ (c :: acc) rest Hu He). simpl. rewrite <- app_assoc. reflexivity.
    + destruct (is_slash c) eqn:Hs.
      * destruct e; [|discriminate].
        rewrite (IH _ (c :: acc) rest Hu He). simpl. rewrite <- app_assoc. reflexivity.
      * rewrite (IH _ (c :: acc) rest Hu He). simpl. rewrite <- app_assoc. reflexivity.
Qed.

(* ------------------------------------------------------------------ *)
(* extract *)

(* what is extracted is exactly the text between the opening '/' and the first '/' that is
   not escaped by an unpaired backslash *)
Theorem extract_sound : forall content p, extract content = RxOk p ->
  exists rest, content = [x2f] ++ p ++ [x2f] ++ rest /\
    has_unescaped_slash false p = false /\ ends_escaped false p = false.
Proof.
  intros content p H. unfold extract in H.
  destruct content as [|c r]; [discriminate|].
  destruct (is_slash c) eqn:Hs; [|discriminate].
  destruct (scan_pattern false r []) as [q|] eqn:Hscan; [|discriminate].
  apply scan_pattern_sound in Hscan.
  destruct Hscan as (p' & rest & Hq & Hr & Hu & He). simpl in Hq. subst q.
  inversion H; subst p.
  exists rest. rewrite (is_slash_eq c Hs), Hr.
  repeat split; auto.
Qed.

(* (since the fix "the regex type // is the empty pattern" also for p = []) *)
Theorem extract_complete : forall p rest,
  has_unescaped_slash false p = false -> ends_escaped false p = false ->
  extract ([x2f] ++ p ++ [x2f] ++ rest) = RxOk p.
Proof.
  intros p rest Hu He.
  change (extract ([x2f] ++ p ++ [x2f] ++ rest))
    with (match scan_pattern false (p ++ [x2f] ++ rest) [] with
          | Some q => RxOk q | None => RxNoEnd end).
  rewrite (scan_pattern_complete p false [] rest Hu He). simpl. reflexivity.
Qed.

Theorem regex_len_is_token_length : forall content p, extract content = RxOk p ->
  regex_len content = Some (length ([x2f] ++ p ++ [x2f])).
Proof.
  intros content p H. unfold regex_len. rewrite H.
  simpl. rewrite app_length. simpl. f_equal. lia.
Qed.

(* what follows the token is irrelevant *)
Theorem extract_deterministic_prefix : forall p rest rest',
  extract ([x2f] ++ p ++ [x2f] ++ rest) = RxOk p ->
  extract ([x2f] ++ p ++ [x2f] ++ rest') = RxOk p.
Proof.
  intros p rest rest' H.
  destruct (extract_sound _ _ H) as (r0 & _ & Hu & He).
  apply extract_complete; assumption.
Qed.

(* the token is unique: the decomposition of extract_sound determines p *)
Theorem extract_token_unique : forall p1 p2 rest1 rest2,
  [x2f] ++ p1 ++ [x2f] ++ rest1 = [x2f] ++ p2 ++ [x2f] ++ rest2 ->
  has_unescaped_slash false p1 = false -> ends_escaped false p1 = false ->
  has_unescaped_slash false p2 = false -> ends_escaped false p2 = false ->
  p1 = p2.
Proof.
  intros p1 p2 rest1 rest2 Heq U1 E1 U2 E2.
  pose proof (extract_complete p1 rest1 U1 E1) as H1.
  pose proof (extract_complete p2 rest2 U2 E2) as H2.
  rewrite Heq in H1. congruence.
Qed.
