(* Property C01 — rule-free validation is exactly "same shape as the example": the
   operational validator model accepts a document iff it has the example's shape (no bound
   on depth or size), for every schema, unconditionally.  No known finding any more: the
   former finding C01-nullable-container (a nullable object/array refused null) was repaired
   by commit 3827ce7; a nullable container now accepts null and a non-nullable one refuses it
   with its lexeme error.  The verdict does not depend on the order of the document's
   properties; KeysAreOptionalByDefault only makes unmarked keys optional.
   Only statements; proofs live in Schema/ShapeProofs.v. *)
From Coq Require Import List NArith Bool Arith Permutation.
From Coq Require Import Strings.Byte.
Import ListNotations.
From JS Require Import Common.Wire Schema.Shape Schema.ShapeProofs.

Theorem C01_validate_iff_shape : forall n v, validate n v = None <-> shape_ok n v = true.
Proof. exact validate_iff_shape. Qed.
Print Assumptions C01_validate_iff_shape.

(* the former finding C01-nullable-container, repaired by commit 3827ce7 *)
Theorem C01_nullable_container_accepts_null : forall ms items an,
  validate (SObj ms true an) JNull = None /\ validate (SArr items true an) JNull = None.
Proof. exact nullable_container_accepts_null. Qed.
Print Assumptions C01_nullable_container_accepts_null.

Theorem C01_non_nullable_container_rejects_null : forall ms items,
  validate (SObj ms false false) JNull = Some E_LEX_OBJECT /\ validate (SArr items false false) JNull = Some E_LEX_ARRAY.
Proof. exact non_nullable_container_rejects_null. Qed.
Print Assumptions C01_non_nullable_container_rejects_null.

Theorem C01_validate_shape_disagree_only_nullable : forall n v,
  (validate n v = None -> shape_ok n v = true).
Proof. exact validate_shape_disagree_only_nullable. Qed.
Print Assumptions C01_validate_shape_disagree_only_nullable.

Theorem C01_shape_ok_perm : forall ms nl an dms dms', Permutation dms dms' ->
  shape_ok (SObj ms nl an) (JObj dms) = shape_ok (SObj ms nl an) (JObj dms').
Proof. exact shape_ok_perm. Qed.
Print Assumptions C01_shape_ok_perm.

Theorem C01_validate_perm : forall ms nl an dms dms', Permutation dms dms' ->
  (validate (SObj ms nl an) (JObj dms) = None <-> validate (SObj ms nl an) (JObj dms') = None).
Proof. exact validate_perm. Qed.
Print Assumptions C01_validate_perm.

Theorem C01_keys_optional_by_default : forall w, compile true w = compile false (mark_unmarked w).
Proof. exact keys_optional_by_default. Qed.
Print Assumptions C01_keys_optional_by_default.

Theorem C01_literal_cases : forall k nl v, is_container v = false ->
  (validate (SLit k nl false) v = None <-> lit_kind_ok k nl v = true).
Proof. exact literal_cases. Qed.
Print Assumptions C01_literal_cases.

Theorem C01_empty_array_only_empty : forall nl xs,
  validate (SArr [] nl false) (JArr xs) = None <-> xs = [].
Proof. exact empty_array_only_empty. Qed.
Print Assumptions C01_empty_array_only_empty.

Theorem C01_array_elements_by_min_index : forall items nl xs,
  (validate (SArr items nl false) (JArr xs) = None <->
   forall i x, nth_error xs i = Some x ->
     exists child, nth_error items (Nat.min i (length items - 1)) = Some child /\ items <> [] /\
                   validate child x = None).
Proof. exact array_elements_by_min_index. Qed.
Print Assumptions C01_array_elements_by_min_index.

(* non-vacuity: {"a": [ {"b": 1, "c": "s" /* optional */} ]}  (object > array > object) *)
Example C01_example :
  let w := WObj [([x61], None,
                  WArr [WObj [([x62], None, WLit KInt false false);
                              ([x63], Some true, WLit KStr false false)] false false] false false)]
                false false in
  let n := compile false w in
  let doc inner := JObj [([x61], JArr inner)] in
  (* accepted: {"a":[{"b":1},{"c":"s","b":2}]} *)
  validate n (doc [JObj [([x62], JInt)]; JObj [([x63], JStr); ([x62], JInt)]]) = None /\
  shape_ok n (doc [JObj [([x62], JInt)]; JObj [([x63], JStr); ([x62], JInt)]]) = true /\
  (* missing key: {"a":[{"c":"s"}]} *)
  validate n (doc [JObj [([x63], JStr)]]) = Some 205 /\
  shape_ok n (doc [JObj [([x63], JStr)]]) = false /\
  (* unknown key: {"a":[{"b":1,"d":1}]} *)
  validate n (doc [JObj [([x62], JInt); ([x64], JInt)]]) = Some 206 /\
  shape_ok n (doc [JObj [([x62], JInt); ([x64], JInt)]]) = false /\
  (* wrong kind: {"a":[{"b":"s"}]} *)
  validate n (doc [JObj [([x62], JStr)]]) = Some 210 /\
  shape_ok n (doc [JObj [([x62], JStr)]]) = false.
Proof. vm_compute. repeat split; reflexivity. Qed.

(* non-vacuity, nullable containers (fix 3827ce7): {"a": [1] /* nullable */} /* nullable */ *)
Example C01_example_nullable :
  let n := SObj [([x61], true, SArr [SLit KInt false false] true false)] true false in
  no_nullable_container n = false /\
  (* null at the root and null at the nullable array are accepted *)
  validate n JNull = None /\ shape_ok n JNull = true /\
  validate n (JObj [([x61], JNull)]) = None /\ shape_ok n (JObj [([x61], JNull)]) = true /\
  validate n (JObj [([x61], JArr [JInt; JInt])]) = None /\
  (* another literal: invalid value type; a container of the other kind: or-rule-set error *)
  validate n JStr = Some 210 /\ shape_ok n JStr = false /\
  validate n (JArr []) = Some 204 /\ shape_ok n (JArr []) = false /\
  validate n (JObj [([x61], JObj [])]) = Some 204 /\ shape_ok n (JObj [([x61], JObj [])]) = false.
Proof. vm_compute. repeat split; reflexivity. Qed.

(* the event-level model of the validator (Schema/Machine.v: the lexical events of the document
   fed to the tree of leaf validators, Tree.FeedLeaves) returns on every rule-free schema exactly
   what the recursive model [validate] returns - the verdict and the error code.
   Proof in Schema/MachineProofs.v. *)
From JS Require Schema.Machine Schema.MachineSpec Schema.MachineProofs.

Theorem C01_event_machine_equals_model : forall n v,
  Machine.machine_validate [] (Machine.of_snode n) v = validate n v.
Proof. exact MachineProofs.machine_eq_validate. Qed.
Print Assumptions C01_event_machine_equals_model.

(* ------------------------------------------------------------------------------------------------
   From the schema TEXT to the verdict (Schema/E2E.v: scan -> load -> w_of_node -> compile -> validate),
   for plain JSON schema texts of any depth, width and layout (blanks, tabs, CR, LF in every gap).
   Proofs in Schema/E2EProofs.v on top of SchemaScan/LoaderProofs.v.  Hypothesis [no_exponent]: the
   schema scanner refuses an exponent part in a number. *)
From JS Require Json.Grammar Schema.E2E Schema.E2EProofs SchemaScan.Loader SchemaScan.LoaderProofs.

Theorem C01_text_to_verdict_plain_json : forall optd w1 v w2 w d,
  Json.Grammar.all_blank w1 = true -> Json.Grammar.wf v = true -> Json.Grammar.all_blank w2 = true ->
  LoaderProofs.no_exponent v = true -> LoaderProofs.distinct_keys v = true ->
  E2EProofs.w_of_jv v = Some w ->
  E2E.e2e_validate optd (w1 ++ Json.Grammar.render v ++ w2) d = E2E.EVerdict (validate (compile optd w) d).
Proof. exact E2EProofs.e2e_plain_json. Qed.
Print Assumptions C01_text_to_verdict_plain_json.

Theorem C01_text_accepts_iff_shape : forall optd w1 v w2 w d,
  Json.Grammar.all_blank w1 = true -> Json.Grammar.wf v = true -> Json.Grammar.all_blank w2 = true ->
  LoaderProofs.no_exponent v = true -> LoaderProofs.distinct_keys v = true ->
  E2EProofs.w_of_jv v = Some w ->
  (E2E.e2e_validate optd (w1 ++ Json.Grammar.render v ++ w2) d = E2E.EVerdict None <->
   shape_ok (compile optd w) d = true).
Proof. exact E2EProofs.e2e_plain_json_accepts_iff_shape. Qed.
Print Assumptions C01_text_accepts_iff_shape.

(* the written schema of such a text always exists *)
Theorem C01_text_schema_exists : forall v,
  Json.Grammar.wf v = true -> LoaderProofs.no_exponent v = true -> exists w, E2EProofs.w_of_jv v = Some w.
Proof. exact E2EProofs.w_of_jv_total. Qed.
Print Assumptions C01_text_schema_exists.

Theorem C01_duplicate_key_in_schema_text : forall optd w1 v w2 p d,
  Json.Grammar.all_blank w1 = true -> Json.Grammar.wf v = true -> Json.Grammar.all_blank w2 = true ->
  LoaderProofs.no_exponent v = true ->
  LoaderProofs.dup_pos (LoaderProofs.len w1) v = Some p ->
  E2E.e2e_validate optd (w1 ++ Json.Grammar.render v ++ w2) d = E2E.ELoad 402%N p.
Proof. exact E2EProofs.e2e_duplicate_key. Qed.
Print Assumptions C01_duplicate_key_in_schema_text.

(* a 3-level schema text with blanks and line breaks:
     LF SP { LF "a" SP : TAB [ LF { "k" : SP "s" , SP "z" LF : null TAB } CR LF ] LF , SP "b" : 1 CR LF } TAB LF
   one document accepted, one refused (wrong kind of "k": 210), one with a missing required key (206);
   the same text with "b" renamed to "a" is refused by the loader (402) at the second "a" *)
Example C01_text_three_levels :
  let sp := [x20] in let tab := [x09] in let nl := [x0a] in let crlf := [x0d; x0a] in
  let key c := [x22; c; x22] in
  let inner := Json.Grammar.JObj [ ([], key x6b, [], sp, Json.Grammar.JTok [x22; x73; x22], []);
                                   (sp, key x7a, nl, [], Json.Grammar.JTok [x6e; x75; x6c; x6c], tab) ] in
  let arr := Json.Grammar.JArr [ (nl, inner, crlf) ] in
  let v := Json.Grammar.JObj [ (nl, key x61, sp, tab, arr, nl); (sp, key x62, [], [], Json.Grammar.JTok [x31], crlf) ] in
  let vdup := Json.Grammar.JObj [ (nl, key x61, sp, tab, arr, nl); (sp, key x61, [], [], Json.Grammar.JTok [x31], crlf) ] in
  let w1 := nl ++ sp in let w2 := tab ++ nl in
  let text := w1 ++ Json.Grammar.render v ++ w2 in
  let item := JObj [([x6b], JStr); ([x7a], JNull)] in
  Json.Grammar.all_blank w1 = true /\ Json.Grammar.wf v = true /\ Json.Grammar.all_blank w2 = true /\
  LoaderProofs.no_exponent v = true /\ LoaderProofs.distinct_keys v = true /\
  E2EProofs.w_of_jv v =
    Some (WObj [ ([x61], None, WArr [WObj [([x6b], None, WLit KStr false false); ([x7a], None, WLit KNull false false)]
                                          false false] false false);
                 ([x62], None, WLit KInt false false) ] false false) /\
  E2E.e2e_validate false text (JObj [([x61], JArr [item; item]); ([x62], JInt)]) = E2E.EVerdict None /\
  E2E.e2e_validate false text (JObj [([x61], JArr [JObj [([x6b], JInt); ([x7a], JNull)]]); ([x62], JInt)])
    = E2E.EVerdict (Some 210) /\
  E2E.e2e_validate false text (JObj [([x61], JArr []); ([x63], JInt)]) = E2E.EVerdict (Some 206) /\
  LoaderProofs.dup_pos (LoaderProofs.len w1) vdup = Some 40%N /\
  E2E.e2e_validate false (w1 ++ Json.Grammar.render vdup ++ w2) (JObj []) = E2E.ELoad 402%N 40%N.
Proof. vm_compute. repeat split; reflexivity. Qed.

(* ------------------------------------------------------------------ from BOTH texts
   Schema.Validate on a plain JSON schema text and a JSON document text, each of any size and layout: the pipeline of
   the four models (schema scanner, loader, JSON scanner, event-level validator machine: E2E.validate_texts) returns
   exactly the verdict of the recursive validator on the trees the two texts spell; proofs in Schema/E2ETextsProofs.v
   (document side: Schema/E2EDocProofs.v). *)
From Coq Require Import String.
From JS Require Schema.E2EDocProofs Schema.E2ETextsProofs.

Theorem C01_validate_from_both_texts : forall optd w1 v w2 w u1 d u2 j,
  Json.Grammar.all_blank w1 = true -> Json.Grammar.wf v = true -> Json.Grammar.all_blank w2 = true ->
  LoaderProofs.no_exponent v = true -> LoaderProofs.distinct_keys v = true -> E2EProofs.w_of_jv v = Some w ->
  Json.Grammar.all_blank u1 = true -> Json.Grammar.wf d = true -> Json.Grammar.all_blank u2 = true ->
  E2EDocProofs.jval_of_jv d = Some j ->
  E2E.validate_texts optd (w1 ++ Json.Grammar.render v ++ w2) (u1 ++ Json.Grammar.render d ++ u2) =
  E2E.TVerdict (validate (compile optd w) j).
Proof. exact E2ETextsProofs.validate_texts_plain_json. Qed.
Print Assumptions C01_validate_from_both_texts.

Theorem C01_both_texts_accept_iff_shape : forall optd w1 v w2 w u1 d u2 j,
  Json.Grammar.all_blank w1 = true -> Json.Grammar.wf v = true -> Json.Grammar.all_blank w2 = true ->
  LoaderProofs.no_exponent v = true -> LoaderProofs.distinct_keys v = true -> E2EProofs.w_of_jv v = Some w ->
  Json.Grammar.all_blank u1 = true -> Json.Grammar.wf d = true -> Json.Grammar.all_blank u2 = true ->
  E2EDocProofs.jval_of_jv d = Some j ->
  (E2E.validate_texts optd (w1 ++ Json.Grammar.render v ++ w2) (u1 ++ Json.Grammar.render d ++ u2) = E2E.TVerdict None <->
   shape_ok (compile optd w) j = true).
Proof. exact E2ETextsProofs.validate_texts_accepts_iff_shape. Qed.
Print Assumptions C01_both_texts_accept_iff_shape.

(* on such a schema text a well-formed document text is stuck (json.Guess has no kind for a token) exactly when it
   has a numeral 0e.. / -0e.. or an exponent the library's number type refuses; otherwise there is a verdict *)
Theorem C01_both_texts_stuck_iff : forall optd w1 v w2 w u1 d u2,
  Json.Grammar.all_blank w1 = true -> Json.Grammar.wf v = true -> Json.Grammar.all_blank w2 = true ->
  LoaderProofs.no_exponent v = true -> LoaderProofs.distinct_keys v = true -> E2EProofs.w_of_jv v = Some w ->
  Json.Grammar.all_blank u1 = true -> Json.Grammar.wf d = true -> Json.Grammar.all_blank u2 = true ->
  (E2E.validate_texts optd (w1 ++ Json.Grammar.render v ++ w2) (u1 ++ Json.Grammar.render d ++ u2) = E2E.TStuck <->
   (E2EDocProofs.no_zero_int_exp d && E2EDocProofs.exps_fit d)%bool = false).
Proof. exact E2ETextsProofs.validate_texts_stuck_iff. Qed.
Print Assumptions C01_both_texts_stuck_iff.

(* the 3-level schema text of C01_text_three_levels (an object with an array of objects, blanks and line breaks at
   the gaps) against document TEXTS in other layouts (SP TAB CR LF at the gaps, leading TAB, trailing LF):
     accepted: the keys in another order, two items in the array, the integer written -2E+3, a string with an escaped
               solidus and an escaped quote, an empty string;
     refused:  a number where the example has a string (210); an empty array where it has an object (E_LEX_OBJECT);
     stuck:    the accepted text with the numeral 0e1 (json.Guess has no kind for it);
     not JSON: a trailing comma (DocumentError 301 at its offset). *)
Example C01_both_texts_three_levels :
  let sp := [x20] in let tab := [x09] in let nl := [x0a] in let crlf := [x0d; x0a] in
  let key c := [x22; c; x22] in
  let T s := Json.Grammar.JTok (of_string s) in
  let inner := Json.Grammar.JObj [ ([], key x6b, [], sp, Json.Grammar.JTok [x22; x73; x22], []);
                                   (sp, key x7a, nl, [], Json.Grammar.JTok [x6e; x75; x6c; x6c], tab) ] in
  let arr := Json.Grammar.JArr [ (nl, inner, crlf) ] in
  let v := Json.Grammar.JObj [ (nl, key x61, sp, tab, arr, nl); (sp, key x62, [], [], Json.Grammar.JTok [x31], crlf) ] in
  let stext := (nl ++ sp) ++ Json.Grammar.render v ++ (tab ++ nl) in
  let item1 := Json.Grammar.JObj [ ([], key x7a, tab, [], T "null"%string, sp); ([], key x6b, [], sp, T """x\/\""y"""%string, sp) ] in
  let item2 := Json.Grammar.JObj [ (sp, key x6b, sp, sp, T """"""%string, sp); (sp, key x7a, sp, sp, T "null"%string, sp) ] in
  let doc b := Json.Grammar.JObj [ (crlf, key x62, sp, [], T b, sp);
                                   (nl, key x61, [], sp, Json.Grammar.JArr [ (sp, item1, nl); (sp, item2, sp) ], sp) ] in
  let dtext b := tab ++ Json.Grammar.render (doc b) ++ nl in
  let bad := Json.Grammar.JObj [ (sp, key x61, sp, sp,
                                  Json.Grammar.JArr [ (sp, Json.Grammar.JObj [ (sp, key x6b, sp, tab, T "7"%string, sp);
                                                                               (sp, key x7a, [], [], T "null"%string, sp) ], sp) ], sp);
                                 (sp, key x62, [], [], T "1"%string, sp) ] in
  (Json.Grammar.wf v = true /\ Json.Grammar.wf (doc "-2E+3"%string) = true /\ Json.Grammar.wf bad = true /\
   Json.Grammar.wf (doc "0e1"%string) = true) /\
  E2EDocProofs.jval_of_jv (doc "-2E+3"%string) =
    Some (JObj [([x62], JInt); ([x61], JArr [JObj [([x7a], JNull); ([x6b], JStr)]; JObj [([x6b], JStr); ([x7a], JNull)]])]) /\
  E2E.validate_texts false stext (dtext "-2E+3"%string) = E2E.TVerdict None /\
  E2E.validate_texts false stext (Json.Grammar.render bad) = E2E.TVerdict (Some 210) /\
  E2E.validate_texts false stext (sp ++ Json.Grammar.render (Json.Grammar.JArr0 sp)) = E2E.TVerdict (Some E_LEX_OBJECT) /\
  E2E.validate_texts false stext (dtext "0e1"%string) = E2E.TStuck /\
  E2E.validate_texts false stext (of_string "{""a"":[],""b"":1,}"%string) = E2E.TDoc 301 14%N.
Proof. vm_compute. repeat split; reflexivity. Qed.
