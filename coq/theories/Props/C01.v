(* Property C01 — rule-free validation is exactly "same shape as the example": the
   operational validator model accepts a document iff it has the example's shape (no bound
   on depth or size), for every schema, unconditionally.  No known finding any more: the
   former finding C01-nullable-container (a nullable object/array refused null) was repaired
   by commit 3827ce7; a nullable container now accepts null and a non-nullable one refuses it
   with its lexeme error.  The verdict does not depend on the order of the document's
   properties; KeysAreOptionalByDefault only makes unmarked keys optional.
   Only statements; proofs live in Schema/ShapeProofs.v. *)
From Coq Require Import List NArith Bool Arith Permutation.
From Coq Require Import Strings.Byte.
Import ListNotations.
From JS Require Import Common.Wire Schema.Shape Schema.ShapeProofs.

Theorem C01_validate_iff_shape : forall n v, validate n v = None <-> shape_ok n v = true.
Proof. exact validate_iff_shape. Qed.
Print Assumptions C01_validate_iff_shape.

(* the former finding C01-nullable-container, repaired by commit 3827ce7 *)
Theorem C01_nullable_container_accepts_null : forall ms items an,
  validate (SObj ms true an) JNull = None /\ validate (SArr items true an) JNull = None.
Proof. exact nullable_container_accepts_null. Qed.
Print Assumptions C01_nullable_container_accepts_null.

Theorem C01_non_nullable_container_rejects_null : forall ms items,
  validate (SObj ms false false) JNull = Some E_LEX_OBJECT /\ validate (SArr items false false) JNull = Some E_LEX_ARRAY.
Proof. exact non_nullable_container_rejects_null. Qed.
Print Assumptions C01_non_nullable_container_rejects_null.

Theorem C01_validate_shape_disagree_only_nullable : forall n v,
  (validate n v = None -> shape_ok n v = true).
Proof. exact validate_shape_disagree_only_nullable. Qed.
Print Assumptions C01_validate_shape_disagree_only_nullable.

Theorem C01_shape_ok_perm : forall ms nl an dms dms', Permutation dms dms' ->
  shape_ok (SObj ms nl an) (JObj dms) = shape_ok (SObj ms nl an) (JObj dms').
Proof. exact shape_ok_perm. Qed.
Print Assumptions C01_shape_ok_perm.

Theorem C01_validate_perm : forall ms nl an dms dms', Permutation dms dms' ->
  (validate (SObj ms nl an) (JObj dms) = None <-> validate (SObj ms nl an) (JObj dms') = None).
Proof. exact validate_perm. Qed.
Print Assumptions C01_validate_perm.

Theorem C01_keys_optional_by_default : forall w, compile true w = compile false (mark_unmarked w).
Proof. exact keys_optional_by_default. Qed.
Print Assumptions C01_keys_optional_by_default.

Theorem C01_literal_cases : forall k nl v, is_container v = false ->
  (validate (SLit k nl false) v = None <-> lit_kind_ok k nl v = true).
Proof. exact literal_cases. Qed.
Print Assumptions C01_literal_cases.

Theorem C01_empty_array_only_empty : forall nl xs,
  validate (SArr [] nl false) (JArr xs) = None <-> xs = [].
Proof. exact empty_array_only_empty. Qed.
Print Assumptions C01_empty_array_only_empty.

Theorem C01_array_elements_by_min_index : forall items nl xs,
  (validate (SArr items nl false) (JArr xs) = None <->
   forall i x, nth_error xs i = Some x ->
     exists child, nth_error items (Nat.min i (length items - 1)) = Some child /\ items <> [] /\
                   validate child x = None).
Proof. exact array_elements_by_min_index. Qed.
Print Assumptions C01_array_elements_by_min_index.

(* non-vacuity: {"a": [ {"b": 1, "c": "s" /* optional */} ]}  (object > array > object) *)
Example C01_example :
  let w := WObj [([x61], None,
                  WArr [WObj [([x62], None, WLit KInt false false);
                              ([x63], Some true, WLit KStr false false)] false false] false false)]
                false false in
  let n := compile false w in
  let doc inner := JObj [([x61], JArr inner)] in
  (* accepted: {"a":[{"b":1},{"c":"s","b":2}]} *)
  validate n (doc [JObj [([x62], JInt)]; JObj [([x63], JStr); ([x62], JInt)]]) = None /\
  shape_ok n (doc [JObj [([x62], JInt)]; JObj [([x63], JStr); ([x62], JInt)]]) = true /\
  (* missing key: {"a":[{"c":"s"}]} *)
  validate n (doc [JObj [([x63], JStr)]]) = Some 205 /\
  shape_ok n (doc [JObj [([x63], JStr)]]) = false /\
  (* unknown key: {"a":[{"b":1,"d":1}]} *)
  validate n (doc [JObj [([x62], JInt); ([x64], JInt)]]) = Some 206 /\
  shape_ok n (doc [JObj [([x62], JInt); ([x64], JInt)]]) = false /\
  (* wrong kind: {"a":[{"b":"s"}]} *)
  validate n (doc [JObj [([x62], JStr)]]) = Some 210 /\
  shape_ok n (doc [JObj [([x62], JStr)]]) = false.
Proof. vm_compute. repeat split; reflexivity. Qed.

(* non-vacuity, nullable containers (fix 3827ce7): {"a": [1] /* nullable */} /* nullable */ *)
Example C01_example_nullable :
  let n := SObj [([x61], true, SArr [SLit KInt false false] true false)] true false in
  no_nullable_container n = false /\
  (* null at the root and null at the nullable array are accepted *)
  validate n JNull = None /\ shape_ok n JNull = true /\
  validate n (JObj [([x61], JNull)]) = None /\ shape_ok n (JObj [([x61], JNull)]) = true /\
  validate n (JObj [([x61], JArr [JInt; JInt])]) = None /\
  (* another literal: invalid value type; a container of the other kind: or-rule-set error *)
  validate n JStr = Some 210 /\ shape_ok n JStr = false /\
  validate n (JArr []) = Some 204 /\ shape_ok n (JArr []) = false /\
  validate n (JObj [([x61], JObj [])]) = Some 204 /\ shape_ok n (JObj [([x61], JObj [])]) = false.
Proof. vm_compute. repeat split; reflexivity. Qed.

(* the event-level model of the validator (Schema/Machine.v: the lexical events of the document
   fed to the tree of leaf validators, Tree.FeedLeaves) returns on every rule-free schema exactly
   what the recursive model [validate] returns - the verdict and the error code.
   Proof in Schema/MachineProofs.v. *)
From JS Require Schema.Machine Schema.MachineSpec Schema.MachineProofs.

Theorem C01_event_machine_equals_model : forall n v,
  Machine.machine_validate [] (Machine.of_snode n) v = validate n v.
Proof. exact MachineProofs.machine_eq_validate. Qed.
Print Assumptions C01_event_machine_equals_model.
