(* Property C10 — the exact-decimal number type scans every RFC 8259 numeral (bar the one
   refused shape) to a canonical form with the exact rational value, and comparison,
   min/max, integer and precision tests on canonical forms are exact.
   Only statements; proofs live in Num/NumProofs.v. *)
From Coq Require Import List ZArith NArith QArith Bool.
From Coq Require Import Strings.Byte.
Import ListNotations.
From JS Require Import Common.Wire Num.NumModel Num.NumSpec Num.NumProofs.

Theorem C10_scan_render_value : forall u, wf_numeral u = true -> exp_fits u = true -> zero_int_then_exp u = false ->
  exists n, scan (render u) = Some n /\ canonical n /\ Qeq (number_value n) (numeral_value u).
Proof. exact scan_render_value. Qed.
Print Assumptions C10_scan_render_value.

Theorem C10_canonical_unique : forall n m, canonical n -> canonical m ->
  Qeq (number_value n) (number_value m) -> n = m.
Proof. exact canonical_unique. Qed.
Print Assumptions C10_canonical_unique.

Theorem C10_cmp_exact : forall n m, canonical n -> canonical m ->
  cmp n m = Qcompare (number_value n) (number_value m).
Proof. exact cmp_exact. Qed.
Print Assumptions C10_cmp_exact.

Theorem C10_min_ok_exact : forall ex b v, canonical b -> canonical v ->
  min_ok ex b v = if ex then Qcmp_bool_lt (number_value b) (number_value v) else Qcmp_bool_le (number_value b) (number_value v).
Proof. exact min_ok_exact. Qed.
Print Assumptions C10_min_ok_exact.

Theorem C10_max_ok_exact : forall ex b v, canonical b -> canonical v ->
  max_ok ex b v = if ex then Qcmp_bool_lt (number_value v) (number_value b) else Qcmp_bool_le (number_value v) (number_value b).
Proof. exact max_ok_exact. Qed.
Print Assumptions C10_max_ok_exact.

Theorem C10_integer_iff : forall n, canonical n ->
  (n_exp n = 0%nat <-> exists z : Z, Qeq (number_value n) (inject_Z z)).
Proof. exact integer_iff. Qed.
Print Assumptions C10_integer_iff.

Theorem C10_precision_iff : forall p n, canonical n ->
  (precision_ok p n = true <-> exists z : Z, Qeq (number_value n * inject_Z (10 ^ Z.of_nat p)) (inject_Z z)).
Proof. exact precision_iff. Qed.
Print Assumptions C10_precision_iff.

(* known finding C10-zero-int-exponent: "0e1" is a well-formed numeral the scanner refuses *)
Theorem C10_zero_int_exp_refuted : exists u, wf_numeral u = true /\ exp_fits u = true /\ scan (render u) = None.
Proof. exact zero_int_exp_refuted. Qed.
Print Assumptions C10_zero_int_exp_refuted.

Theorem C10_neg_zero_is_zero : forall u, wf_numeral u = true -> exp_fits u = true -> zero_int_then_exp u = false ->
  Qeq (numeral_value u) 0 -> scan (render u) = Some (mknum false [] 0).
Proof. exact neg_zero_is_zero. Qed.
Print Assumptions C10_neg_zero_is_zero.

(* non-vacuity: -12.340e1 meets the hypotheses and scans to -1234 / 10^1 *)
Example C10_example :
  let u := mknumeral true [x31; x32] (Some [x33; x34; x30]) (Some (false, ENone, [x31])) in
  render u = [x2d; x31; x32; x2e; x33; x34; x30; x65; x31] /\
  wf_numeral u = true /\ exp_fits u = true /\ zero_int_then_exp u = false /\
  scan (render u) = Some (mknum true [x31; x32; x33; x34] 1).
Proof. vm_compute. repeat split; reflexivity. Qed.

(* bytes.ParseUint (exponents of numerals, and the parameters of minLength, maxLength, minItems,
   maxItems, precision) is exact for digit strings of ANY length: what it returns is the number
   the digits spell, and it refuses - instead of wrapping modulo 2^64, the defect repaired by
   c58a671 - exactly when that number does not fit 64 bits. *)
Theorem C10_parse_uint_exact : forall bs n, NumSpec.all_digits bs = true ->
  NumModel.parse_uint bs = Some n -> n = NumSpec.dec bs /\ (n < NumModel.two64)%N.
Proof. exact NumProofs.parse_uint_exact. Qed.
Print Assumptions C10_parse_uint_exact.

Theorem C10_parse_uint_refuses_overflow : forall bs, NumSpec.all_digits bs = true ->
  (NumModel.two64 <= NumSpec.dec bs)%N -> NumModel.parse_uint bs = None.
Proof. exact NumProofs.parse_uint_refuses_overflow. Qed.
Print Assumptions C10_parse_uint_refuses_overflow.
