(* Property C10 — the exact-decimal number type scans every RFC 8259 numeral (bar the one
   refused shape) to a canonical form with the exact rational value, and comparison,
   min/max, integer and precision tests on canonical forms are exact.
   Only statements; proofs live in Num/NumProofs.v. *)
From Coq Require Import List ZArith NArith QArith Bool.
From Coq Require Import Strings.Byte.
Import ListNotations.
From JS Require Import Common.Wire Num.NumModel Num.NumSpec Num.NumProofs.

(* exp_fits u: the library can represent the numeral - its exponent digits fit Go's int
   (exp_in_int u, ParseInt) and the signed exponent e does not add more than
   max_exponent_zeros = 10000 zeros to the written digits (setExp, fix dbc9afe):
   e <= 10000 + (fraction digits written)  and  -e <= 10000 + (integer digits written).
   The bound is exact: see C10_scan_refuses_large_exponent at the end of this file. *)
Theorem C10_scan_render_value : forall u, wf_numeral u = true -> exp_fits u = true -> zero_int_then_exp u = false ->
  exists n, scan (render u) = Some n /\ canonical n /\ Qeq (number_value n) (numeral_value u).
Proof. exact scan_render_value. Qed.
Print Assumptions C10_scan_render_value.

Theorem C10_canonical_unique : forall n m, canonical n -> canonical m ->
  Qeq (number_value n) (number_value m) -> n = m.
Proof. exact canonical_unique. Qed.
Print Assumptions C10_canonical_unique.

Theorem C10_cmp_exact : forall n m, canonical n -> canonical m ->
  cmp n m = Qcompare (number_value n) (number_value m).
Proof. exact cmp_exact. Qed.
Print Assumptions C10_cmp_exact.

Theorem C10_min_ok_exact : forall ex b v, canonical b -> canonical v ->
  min_ok ex b v = if ex then Qcmp_bool_lt (number_value b) (number_value v) else Qcmp_bool_le (number_value b) (number_value v).
Proof. exact min_ok_exact. Qed.
Print Assumptions C10_min_ok_exact.

Theorem C10_max_ok_exact : forall ex b v, canonical b -> canonical v ->
  max_ok ex b v = if ex then Qcmp_bool_lt (number_value v) (number_value b) else Qcmp_bool_le (number_value v) (number_value b).
Proof. exact max_ok_exact. Qed.
Print Assumptions C10_max_ok_exact.

Theorem C10_integer_iff : forall n, canonical n ->
  (n_exp n = 0%nat <-> exists z : Z, Qeq (number_value n) (inject_Z z)).
Proof. exact integer_iff. Qed.
Print Assumptions C10_integer_iff.

Theorem C10_precision_iff : forall p n, canonical n ->
  (precision_ok p n = true <-> exists z : Z, Qeq (number_value n * inject_Z (10 ^ Z.of_nat p)) (inject_Z z)).
Proof. exact precision_iff. Qed.
Print Assumptions C10_precision_iff.

(* known finding C10-zero-int-exponent: "0e1" is a well-formed numeral the scanner refuses *)
Theorem C10_zero_int_exp_refuted : exists u, wf_numeral u = true /\ exp_fits u = true /\ scan (render u) = None.
Proof. exact zero_int_exp_refuted. Qed.
Print Assumptions C10_zero_int_exp_refuted.

Theorem C10_neg_zero_is_zero : forall u, wf_numeral u = true -> exp_fits u = true -> zero_int_then_exp u = false ->
  Qeq (numeral_value u) 0 -> scan (render u) = Some (mknum false [] 0).
Proof. exact neg_zero_is_zero. Qed.
Print Assumptions C10_neg_zero_is_zero.

(* non-vacuity: -12.340e1 meets the hypotheses and scans to -1234 / 10^1 *)
Example C10_example :
  let u := mknumeral true [x31; x32] (Some [x33; x34; x30]) (Some (false, ENone, [x31])) in
  render u = [x2d; x31; x32; x2e; x33; x34; x30; x65; x31] /\
  wf_numeral u = true /\ exp_fits u = true /\ zero_int_then_exp u = false /\
  scan (render u) = Some (mknum true [x31; x32; x33; x34] 1).
Proof. vm_compute. repeat split; reflexivity. Qed.

(* bytes.ParseUint (exponents of numerals, and the parameters of minLength, maxLength, minItems,
   maxItems, precision) is exact for digit strings of ANY length: what it returns is the number
   the digits spell, and it refuses - instead of wrapping modulo 2^64, the defect repaired by
   c58a671 - exactly when that number does not fit 64 bits. *)
Theorem C10_parse_uint_exact : forall bs n, NumSpec.all_digits bs = true ->
  NumModel.parse_uint bs = Some n -> n = NumSpec.dec bs /\ (n < NumModel.two64)%N.
Proof. exact NumProofs.parse_uint_exact. Qed.
Print Assumptions C10_parse_uint_exact.

Theorem C10_parse_uint_refuses_overflow : forall bs, NumSpec.all_digits bs = true ->
  (NumModel.two64 <= NumSpec.dec bs)%N -> NumModel.parse_uint bs = None.
Proof. exact NumProofs.parse_uint_refuses_overflow. Qed.
Print Assumptions C10_parse_uint_refuses_overflow.

(* known finding C10-integer-by-spelling: "whether it counts as integer depends only on its
   normalised decimal expansion" is false of Guess.IsInteger (model is_integer): 1.0 and 1.0e0
   scan to the same canonical number, yet only the second counts as integer - a dot without an
   exponent decides before the value is looked at.  (The repository's own tests pin it:
   internal/json/guess_test.go lists 1.0 under float and 0.0e1 under integer.) *)
Theorem C10_integer_by_spelling_refuted : exists a b,
  scan a = scan b /\ scan a <> None /\ is_integer a = false /\ is_integer b = true.
Proof.
  exists [x31; x2e; x30], [x31; x2e; x30; x65; x30]. vm_compute. repeat split; discriminate.
Qed.
Print Assumptions C10_integer_by_spelling_refuted.

(* what does hold: apart from that one spelling class the classification is the one of the value *)
Theorem C10_integer_class_of_value : forall bs n, dot_without_exp bs = false -> scan bs = Some n ->
  is_integer bs = Nat.eqb (n_exp n) 0 /\ is_float bs = negb (Nat.eqb (n_exp n) 0).
Proof.
  intros bs n Hd Hs. unfold is_integer, is_float. rewrite Hd, Hs. split; reflexivity.
Qed.
Print Assumptions C10_integer_class_of_value.

(* the bound in exp_fits is exact, not a convenience: a well-formed numeral whose exponent fits
   Go's int but breaks the bound is refused: the library never expands more than 10000 zeros.
   (No zero_int_then_exp side condition: that shape is refused whatever its exponent.) *)
Theorem C10_scan_refuses_large_exponent : forall u, wf_numeral u = true -> exp_in_int u = true ->
  exp_fits u = false -> scan (render u) = None.
Proof. exact scan_refuses_large_exponent. Qed.
Print Assumptions C10_scan_refuses_large_exponent.

(* non-vacuity: 1.5e10002 and 15e-10003 are well formed, fit Go's int, break the bound by one, and are refused *)
Example C10_large_exponent_example :
  let u := mknumeral false [x31] (Some [x35]) (Some (false, ENone, [x31; x30; x30; x30; x32])) in
  let v := mknumeral false [x31; x35] None (Some (false, EMinus, [x31; x30; x30; x30; x33])) in
  wf_numeral u = true /\ exp_in_int u = true /\ exp_fits u = false /\ scan (render u) = None /\
  wf_numeral v = true /\ exp_in_int v = true /\ exp_fits v = false /\ scan (render v) = None.
Proof. vm_compute. repeat split; reflexivity. Qed.
