(* Property C09 — the recursion checker (check_recusrion.go, modelled in Schema/Recursion.v)
   reports "infinite recursion" exactly for the types that have no finite inhabitant:
   an error is reported only if no finite inhabitant exists, no error only if one exists,
   and the depth-first search always finishes within its fuel bound.
   Only statements; proofs live in Schema/RecursionProofs.v. *)
From Coq Require Import List Arith Bool.
Import ListNotations.
From JS Require Import Schema.Recursion Schema.RecursionProofs.

Theorem C09_reject_sound : forall g root,
  check_recursion g root = Some false -> ~ Inhabited g root.
Proof. exact reject_sound. Qed.
Print Assumptions C09_reject_sound.

Theorem C09_accept_sound : forall g root,
  check_recursion g root = Some true -> Inhabited g root.
Proof. exact accept_sound. Qed.
Print Assumptions C09_accept_sound.

Theorem C09_check_iff_inhabited : forall g root b,
  check_recursion g root = Some b -> (b = true <-> Inhabited g root).
Proof. exact check_iff_inhabited. Qed.
Print Assumptions C09_check_iff_inhabited.

Theorem C09_check_terminates : forall g root, check_recursion g root <> None.
Proof. exact check_terminates. Qed.
Print Assumptions C09_check_terminates.

Theorem C09_check_fuel_mono : forall f g vis t b,
  check f g vis t = Some b -> forall f', f <= f' -> check f' g vis t = Some b.
Proof. exact check_fuel_mono. Qed.
Print Assumptions C09_check_fuel_mono.

(* ---------- examples ---------- *)
(* (1) 0 -> {"x": @0} : rejected (from a reference to the type, and from its body) *)
Example C09_ex1_ref : check_recursion [(0, TObj [(false, TRef [0])])] (TRef [0]) = Some false.
Proof. vm_compute. reflexivity. Qed.
Example C09_ex1_body :
  check_recursion [(0, TObj [(false, TRef [0])])] (TObj [(false, TRef [0])]) = Some false.
Proof. vm_compute. reflexivity. Qed.

(* (2) 0 -> {"x": @0 (optional)} : accepted *)
Example C09_ex2_ref : check_recursion [(0, TObj [(true, TRef [0])])] (TRef [0]) = Some true.
Proof. vm_compute. reflexivity. Qed.
Example C09_ex2_body :
  check_recursion [(0, TObj [(true, TRef [0])])] (TObj [(true, TRef [0])]) = Some true.
Proof. vm_compute. reflexivity. Qed.

(* (3) 0 -> {"x": @1 | @0}, 1 -> {"y": leaf} : accepted *)
Example C09_ex3_ref :
  check_recursion [(0, TObj [(false, TRef [1; 0])]); (1, TObj [(false, TLeaf)])] (TRef [0])
  = Some true.
Proof. vm_compute. reflexivity. Qed.
Example C09_ex3_body :
  check_recursion [(0, TObj [(false, TRef [1; 0])]); (1, TObj [(false, TLeaf)])]
                  (TObj [(false, TRef [1; 0])]) = Some true.
Proof. vm_compute. reflexivity. Qed.

(* (4) 0 -> {"x": @1}, 1 -> {"y": @0} : rejected *)
Example C09_ex4_ref :
  check_recursion [(0, TObj [(false, TRef [1])]); (1, TObj [(false, TRef [0])])] (TRef [0])
  = Some false.
Proof. vm_compute. reflexivity. Qed.
Example C09_ex4_body :
  check_recursion [(0, TObj [(false, TRef [1])]); (1, TObj [(false, TRef [0])])]
                  (TObj [(false, TRef [1])]) = Some false.
Proof. vm_compute. reflexivity. Qed.

(* ---------- the repaired checker (fix 9a9fdc3): the root walk, then every named type as a root of its own ---------- *)
Theorem C09_check_all_iff_inhabited : forall g root b,
  check_all g root = Some b ->
  (b = true <-> (Inhabited g root /\ forall n body, lookup g n = Some body -> Inhabited g body)).
Proof. exact check_all_iff_inhabited. Qed.
Print Assumptions C09_check_all_iff_inhabited.

Theorem C09_check_all_terminates : forall g root, check_all g root <> None.
Proof. exact check_all_terminates. Qed.
Print Assumptions C09_check_all_terminates.

(* a required loop behind an optional property is found although the root has an inhabitant *)
Example C09_ex_loop_behind_optional :
  check_all [(0, TObj [(true, TRef [1])]); (1, TObj [(false, TRef [1])])] (TRef [0]) = Some false.
Proof. vm_compute. reflexivity. Qed.
Example C09_ex_optional_loop_accepted :
  check_all [(0, TObj [(true, TRef [1])]); (1, TObj [(true, TRef [1])])] (TRef [0]) = Some true.
Proof. vm_compute. reflexivity. Qed.

(* ---------- from the schema TEXTS (Schema/RecursionE2E.v): scanner -> loader -> the graph the checker sees -> check_all.
   Whenever the pipeline reaches a verdict it is the inhabitation verdict of the graph the texts were loaded into; the
   pipeline itself is run against Schema.Check on the texts of every generated graph by the C09 check. ---------- *)
From JS Require Schema.RecursionE2E Schema.RecursionE2EProofs.
Theorem C09_verdict_from_texts : forall optd root types v,
  RecursionE2E.rec_e2e optd root types = RecursionE2E.RVerdict v ->
  exists o r g,
    RecursionE2E.load_tnode optd (map fst types) 0 root = inr (o, r) /\
    RecursionE2E.load_env optd (map fst types) 0 (map snd types) = inr g /\
    exists b, v = Some b /\
      (b = true <-> (Inhabited g r /\ forall n body, lookup g n = Some body -> Inhabited g body)).
Proof. exact RecursionE2EProofs.rec_e2e_verdict. Qed.
Print Assumptions C09_verdict_from_texts.
