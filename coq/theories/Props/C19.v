(* Property C19 — ordered maps behave as insertion-ordered maps under any operation
   sequence.  Only statements; proofs live in Omap/OmapProofs.v and Omap/OmapConc.v. *)
From Coq Require Import List ZArith Bool Sorted.
Import ListNotations.
From JS Require Import Gen.OmapLocks Omap.Omap Omap.OmapSpec Omap.OmapProofs Omap.OmapLaws Omap.OmapBirth Omap.OmapConc.

Section C19.
Context {V : Type} (zero : V).

(* every history, any length, any callbacks: same outputs (iteration traces, lookups,
   Len, marshalled pairs) as the reference, corresponding final state, invariant kept *)
Theorem C19_refines : forall ops : list (@op V),
  snd (run zero empty ops) = snd (s_run zero [] ops) /\
  abs zero (fst (run zero empty ops)) = fst (s_run zero [] ops) /\
  Inv (fst (run zero empty ops)).
Proof. exact (omap_refines_reference zero). Qed.

(* one step from any state satisfying the invariant *)
Theorem C19_step : forall m o m' x, Inv m -> step zero m o = (m', x) ->
  Inv m' /\ s_step zero (abs zero m) o = (abs zero m', x).
Proof. exact (step_refines zero). Qed.

Theorem C19_iteration_keys_distinct : forall m, Inv m -> NoDup (map fst (abs zero m)).
Proof. exact (abs_keys_nodup zero). Qed.

Theorem C19_delete_absent_is_identity : forall m k, Inv m -> m_has m k = false ->
  abs zero (m_delete m k) = abs zero m.
Proof. exact (delete_absent_identity zero). Qed.

Theorem C19_filter_visits_each_once : forall m f m' tr, Inv m -> m_filter zero m f = (m', tr) ->
  Inv m' /\ tr = abs zero m /\ s_filter (abs zero m) f = abs zero m'.
Proof. exact (filter_ok zero). Qed.

Theorem C19_map_visits_each_once : forall m f m' tr ok, Inv m -> m_map zero m f = (m', tr, ok) ->
  Inv m' /\ s_map (abs zero m) f = (abs zero m', tr, ok).
Proof. exact (map_ok zero). Qed.

Theorem C19_len_is_iterated : forall m, Inv m -> m_len m = length (m_pairs zero m).
Proof. exact (len_is_iterated zero). Qed.

(* "iteration follows first insertion of the live keys", law by law (Omap/OmapLaws.v):
   a new key is iterated last, an existing key keeps its place whatever value is set,
   a key deleted and set again moves to the end, lookups see the last write, and a
   second Filter with the same predicate removes nothing and visits exactly the survivors *)
Theorem C19_new_key_goes_last : forall (m : @omap V) k v, Inv m -> m_has m k = false ->
  abs zero (m_set m k v) = abs zero m ++ [(k, v)].
Proof. exact (m_set_new_key_goes_last zero). Qed.

Theorem C19_existing_key_keeps_place : forall (m : @omap V) k v, Inv m -> m_has m k = true ->
  map fst (abs zero (m_set m k v)) = map fst (abs zero m).
Proof. exact (m_set_existing_key_keeps_place zero). Qed.

Theorem C19_delete_then_set_moves_last : forall (m : @omap V) k v, Inv m ->
  abs zero (m_set (m_delete m k) k v) = s_delete (abs zero m) k ++ [(k, v)].
Proof. exact (m_delete_then_set_moves_last zero). Qed.

Theorem C19_get_after_set : forall (m : @omap V) k v k', Inv m ->
  m_get (m_set m k v) k' = if Nat.eqb k k' then Some v else m_get m k'.
Proof. exact (m_get_after_set zero). Qed.

Theorem C19_get_after_delete : forall (m : @omap V) k, Inv m -> m_get (m_delete m k) k = None.
Proof. exact (m_get_after_delete zero). Qed.

Theorem C19_filter_twice : forall (m : @omap V) f m1 t1 m2 t2, Inv m ->
  m_filter zero m f = (m1, t1) -> m_filter zero m1 f = (m2, t2) ->
  abs zero m2 = abs zero m1 /\ t2 = abs zero m1.
Proof. exact (m_filter_twice zero). Qed.

(* what must not change: Update and Map rewrite values, never keys or their order *)
Theorem C19_update_keeps_keys : forall (m : @omap V) k f, Inv m ->
  map fst (abs zero (m_update zero m k f)) = map fst (abs zero m).
Proof. exact (m_update_keeps_keys zero). Qed.

Theorem C19_map_keeps_keys : forall (m : @omap V) f m1 tr ok, Inv m -> m_map zero m f = (m1, tr, ok) ->
  map fst (abs zero m1) = map fst (abs zero m).
Proof. exact (m_map_keeps_keys zero). Qed.

(* two live keys never swap places: if b is iterated after a, it still is after Set of any key,
   Update of any key, and Delete of a third key *)
Theorem C19_order_stable_set : forall (m : @omap V) a b k v, Inv m ->
  before a b (abs zero m) -> before a b (abs zero (m_set m k v)).
Proof. exact (m_order_stable_set zero). Qed.

Theorem C19_order_stable_update : forall (m : @omap V) a b k f, Inv m ->
  before a b (abs zero m) -> before a b (abs zero (m_update zero m k f)).
Proof. exact (m_order_stable_update zero). Qed.

Theorem C19_order_stable_delete : forall (m : @omap V) a b k, Inv m -> k <> a -> k <> b ->
  before a b (abs zero m) -> before a b (abs zero (m_delete m k)).
Proof. exact (m_order_stable_delete zero). Qed.

Theorem C19_order_stable_filter : forall (m : @omap V) f m1 tr a b va vb, Inv m ->
  m_filter zero m f = (m1, tr) ->
  s_get (abs zero m) a = Some va -> f a va = true ->
  s_get (after a (abs zero m)) b = Some vb -> f b vb = true ->
  before a b (abs zero m1).
Proof. exact (m_order_stable_filter zero). Qed.

Theorem C19_before_strict : forall (m : @omap V) a b, Inv m -> before a b (abs zero m) ->
  a <> b /\ m_has m a = true /\ m_has m b = true.
Proof. exact (m_before_strict zero). Qed.

(* whole histories: stamp every step with its index and remember, per key, the index of the Set
   that inserted it while absent (Omap/OmapBirth.v, [t_step]).  After ANY history the iterated keys
   of the model of the Go type are in strictly increasing order of those births: iteration order
   is (latest) insertion order of the live keys and nothing else ever changes it. *)
Theorem C19_iteration_is_birth_order : forall ops : list (@op V),
  let st := t_run zero 0 ([], b0) ops in
  abs zero (fst (run zero empty ops)) = fst st /\
  StronglySorted lt (map (snd st) (map fst (fst st))).
Proof. exact (birth_sorted zero). Qed.

(* ... and a birth stamp is what its name says: the position in the history of a Set of that key *)
Theorem C19_births_are_sets : forall ops : list (@op V),
  let st := t_run zero 0 ([], b0) ops in
  forall x, In x (map fst (fst st)) -> exists v, nth_error ops (snd st x) = Some (OSet x v).
Proof. exact (births_are_sets zero). Qed.

Theorem C19_before_trans : forall (m : @omap V) a b c, Inv m ->
  before a b (abs zero m) -> before b c (abs zero m) -> before a c (abs zero m).
Proof. exact (m_before_trans zero). Qed.

Theorem C19_any_interleaving : forall (threads : list (list (@op V))) h, interleaving threads h ->
  snd (run zero empty h) = snd (s_run zero [] h) /\
  abs zero (fst (run zero empty h)) = fst (s_run zero [] h) /\
  Inv (fst (run zero empty h)).
Proof. exact (every_interleaving_refines zero). Qed.
End C19.

(* lock discipline, recomputed from the Go source on every run *)
Theorem C19_lock_discipline : forallb method_ok omap_methods = true.
Proof. vm_compute. reflexivity. Qed.
Theorem C19_api_complete : api_complete = true.
Proof. vm_compute. reflexivity. Qed.

(* non-vacuity: a reachable non-trivial state satisfying the invariant *)
Example C19_inv_reachable :
  let m := fst (run 0%Z empty [OSet 1 5%Z; OSet 0 2%Z; OSet 2 9%Z; ODelete 0]) in
  Inv m /\ abs 0%Z m = [(1, 5%Z); (2, 9%Z)].
Proof. split; [apply (C19_refines 0%Z)|reflexivity]. Qed.

Example C19_before_somewhere :
  let m := fst (run 0%Z empty [OSet 1 5%Z; OSet 0 2%Z; OSet 2 9%Z]) in
  before 1 2 (abs 0%Z m) /\ ~ before 2 1 (abs 0%Z m).
Proof. split; [reflexivity|discriminate]. Qed.

(* births on a concrete history: 0 is deleted and set again, so it is born at step 4 and comes last *)
Example C19_births_somewhere :
  let st := t_run 0%Z 0 ([], b0) [OSet 1 5%Z; OSet 0 2%Z; OSet 2 9%Z; ODelete 0; OSet 0 7%Z; OSet 1 6%Z] in
  map fst (fst st) = [1; 2; 0] /\ map (snd st) [1; 2; 0] = [0; 2; 4].
Proof. split; reflexivity. Qed.

Print Assumptions C19_refines.
Print Assumptions C19_step.
Print Assumptions C19_filter_visits_each_once.
Print Assumptions C19_map_visits_each_once.
Print Assumptions C19_any_interleaving.
Print Assumptions C19_new_key_goes_last.
Print Assumptions C19_existing_key_keeps_place.
Print Assumptions C19_delete_then_set_moves_last.
Print Assumptions C19_get_after_set.
Print Assumptions C19_get_after_delete.
Print Assumptions C19_filter_twice.
Print Assumptions C19_update_keeps_keys.
Print Assumptions C19_map_keeps_keys.
Print Assumptions C19_order_stable_set.
Print Assumptions C19_order_stable_update.
Print Assumptions C19_order_stable_delete.
Print Assumptions C19_order_stable_filter.
Print Assumptions C19_before_strict.
Print Assumptions C19_before_trans.
Print Assumptions C19_iteration_is_birth_order.
Print Assumptions C19_births_are_sets.
Print Assumptions C19_lock_discipline.
Print Assumptions C19_api_complete.
