(* Property C19 — ordered maps behave as insertion-ordered maps under any operation
   sequence.  Only statements; proofs live in Omap/OmapProofs.v and Omap/OmapConc.v. *)
From Coq Require Import List ZArith Bool.
Import ListNotations.
From JS Require Import Gen.OmapLocks Omap.Omap Omap.OmapSpec Omap.OmapProofs Omap.OmapConc.

Section C19.
Context {V : Type} (zero : V).

(* every history, any length, any callbacks: same outputs (iteration traces, lookups,
   Len, marshalled pairs) as the reference, corresponding final state, invariant kept *)
Theorem C19_refines : forall ops : list (@op V),
  snd (run zero empty ops) = snd (s_run zero [] ops) /\
  abs zero (fst (run zero empty ops)) = fst (s_run zero [] ops) /\
  Inv (fst (run zero empty ops)).
Proof. exact (omap_refines_reference zero). Qed.

(* one step from any state satisfying the invariant *)
Theorem C19_step : forall m o m' x, Inv m -> step zero m o = (m', x) ->
  Inv m' /\ s_step zero (abs zero m) o = (abs zero m', x).
Proof. exact (step_refines zero). Qed.

Theorem C19_iteration_keys_distinct : forall m, Inv m -> NoDup (map fst (abs zero m)).
Proof. exact (abs_keys_nodup zero). Qed.

Theorem C19_delete_absent_is_identity : forall m k, Inv m -> m_has m k = false ->
  abs zero (m_delete m k) = abs zero m.
Proof. exact (delete_absent_identity zero). Qed.

Theorem C19_filter_visits_each_once : forall m f m' tr, Inv m -> m_filter zero m f = (m', tr) ->
  Inv m' /\ tr = abs zero m /\ s_filter (abs zero m) f = abs zero m'.
Proof. exact (filter_ok zero). Qed.

Theorem C19_map_visits_each_once : forall m f m' tr ok, Inv m -> m_map zero m f = (m', tr, ok) ->
  Inv m' /\ s_map (abs zero m) f = (abs zero m', tr, ok).
Proof. exact (map_ok zero). Qed.

Theorem C19_len_is_iterated : forall m, Inv m -> m_len m = length (m_pairs zero m).
Proof. exact (len_is_iterated zero). Qed.

Theorem C19_any_interleaving : forall (threads : list (list (@op V))) h, interleaving threads h ->
  snd (run zero empty h) = snd (s_run zero [] h) /\
  abs zero (fst (run zero empty h)) = fst (s_run zero [] h) /\
  Inv (fst (run zero empty h)).
Proof. exact (every_interleaving_refines zero). Qed.
End C19.

(* lock discipline, recomputed from the Go source on every run *)
Theorem C19_lock_discipline : forallb method_ok omap_methods = true.
Proof. vm_compute. reflexivity. Qed.
Theorem C19_api_complete : api_complete = true.
Proof. vm_compute. reflexivity. Qed.

(* non-vacuity: a reachable non-trivial state satisfying the invariant *)
Example C19_inv_reachable :
  let m := fst (run 0%Z empty [OSet 1 5%Z; OSet 0 2%Z; OSet 2 9%Z; ODelete 0]) in
  Inv m /\ abs 0%Z m = [(1, 5%Z); (2, 9%Z)].
Proof. split; [apply (C19_refines 0%Z)|reflexivity]. Qed.

Print Assumptions C19_refines.
Print Assumptions C19_step.
Print Assumptions C19_filter_visits_each_once.
Print Assumptions C19_map_visits_each_once.
Print Assumptions C19_any_interleaving.
Print Assumptions C19_lock_discipline.
Print Assumptions C19_api_complete.
