(* Property C16, proved part — on the rule-free fragment the AST mirrors the schema text:
   one node per example value in source order (with key and token kind), the root carries
   its key and exactly the written rules, and an object's children are its properties in
   declaration order. *)
From Coq Require Import List Bool.
From Coq Require Import Strings.Byte.
Import ListNotations.
From JS Require Import Common.Wire Schema.Shape Schema.Ast Schema.AstProofs.

Theorem C16_ast_preorder : forall key mark w,
  preorder (ast_of key mark w) = values_in_order key w.
Proof. exact ast_preorder. Qed.
Print Assumptions C16_ast_preorder.

Theorem C16_ast_size_is_node_count : forall key mark w,
  ast_size (ast_of key mark w) = count_nodes w.
Proof. exact ast_size_is_node_count. Qed.
Print Assumptions C16_ast_size_is_node_count.

Theorem C16_ast_root : forall key mark w,
  match ast_of key mark w with
  | ANode k _ _ rs _ =>
    k = key /\
    rs = rules_of mark (match w with WLit _ nl _ | WObj _ nl _ | WArr _ nl _ => nl end)
                       (match w with WLit _ _ an | WObj _ _ an | WArr _ _ an => an end)
  end.
Proof. exact ast_root. Qed.
Print Assumptions C16_ast_root.

Theorem C16_ast_children_keys : forall key mark ms nl an,
  match ast_of key mark (WObj ms nl an) with
  | ANode _ _ _ _ ch =>
    map (fun a => match a with ANode k _ _ _ _ => k end) ch = map (fun m => Some (fst (fst m))) ms
  end.
Proof. exact ast_children_keys. Qed.
Print Assumptions C16_ast_children_keys.

(* 3-level schema: { "a": [ {"c": 1 (optional:false), "d": null} , "s" ] (optional:true), "b": true (nullable) } *)
Example C16_three_levels :
  let ka := [x61] in let kb := [x62] in let kc := [x63] in let kd := [x64] in
  let w := WObj [ (ka, Some true,
                     WArr [ WObj [ (kc, Some false, WLit KInt false false);
                                   (kd, None, WLit KNull false true) ] true false;
                            WLit KStr false false ] false false);
                  (kb, None, WLit KBool true false) ] false false in
  ast_of None None w =
    ANode None TObject StObject []
      [ ANode (Some ka) TArray StArray [ROptional true]
          [ ANode None TObject StObject [RNullable]
              [ ANode (Some kc) TNumber StInteger [ROptional false] [];
                ANode (Some kd) TNull StAny [RAny] [] ];
            ANode None TString StString [] [] ];
        ANode (Some kb) TBoolean StBoolean [RNullable] [] ]
  /\ preorder (ast_of None None w) =
       [ (None, TObject); (Some ka, TArray); (None, TObject); (Some kc, TNumber);
         (Some kd, TNull); (None, TString); (Some kb, TBoolean) ]
  /\ ast_size (ast_of None None w) = 7.
Proof. vm_compute. repeat split. Qed.

(* ------------------------------------------------------------------------------------------------
   Property C16 on the model of the Go loader itself (SchemaScan/Loader.v, checked against the library
   by differential tests): on a JSON text — a value tree of any depth, width and layout — the loaded
   tree and the AST are the mirror image of the text; a repeated key is refused at its second
   occurrence; the rules of a node are reported as written, in the order written.
   FINDING: the schema scanner refuses an exponent part in a number (load "1e5" = LError 301 1), hence the
   hypothesis [no_exponent]. *)
From Coq Require Import NArith.
From JS Require Json.Grammar Json.GrammarProofs SchemaScan.SchemaScanner SchemaScan.Loader SchemaScan.SchemaProofs
                SchemaScan.LoaderProofs.

Theorem C16_load_mirrors_plain_json : forall w1 v w2,
  Json.Grammar.all_blank w1 = true -> Json.Grammar.wf v = true -> Json.Grammar.all_blank w2 = true ->
  SchemaProofs.plain (w1 ++ Json.Grammar.render v ++ w2) = true ->
  LoaderProofs.no_exponent v = true ->
  LoaderProofs.distinct_keys v = true ->
  Loader.load (w1 ++ Json.Grammar.render v ++ w2) = Loader.LTree (Some (LoaderProofs.mirror v)).
Proof. exact LoaderProofs.load_mirrors_plain_json. Qed.
Print Assumptions C16_load_mirrors_plain_json.

(* the same without the condition on '/', '#', '@' *)
Theorem C16_load_mirrors_json : forall w1 v w2,
  Json.Grammar.all_blank w1 = true -> Json.Grammar.wf v = true -> Json.Grammar.all_blank w2 = true ->
  LoaderProofs.no_exponent v = true ->
  LoaderProofs.distinct_keys v = true ->
  Loader.load (w1 ++ Json.Grammar.render v ++ w2) = Loader.LTree (Some (LoaderProofs.mirror v)).
Proof. exact LoaderProofs.load_mirrors_json. Qed.
Print Assumptions C16_load_mirrors_json.

(* the events the schema scanner delivers on such a text, offsets included *)
Theorem C16_scan_plain_json : forall w1 v w2,
  Json.Grammar.all_blank w1 = true -> Json.Grammar.wf v = true -> Json.Grammar.all_blank w2 = true ->
  LoaderProofs.no_exponent v = true ->
  SchemaScanner.scan false (w1 ++ Json.Grammar.render v ++ w2) =
  (LoaderProofs.text_events w1 v w2, SchemaScanner.Done).
Proof. exact LoaderProofs.scan_plain_json. Qed.
Print Assumptions C16_scan_plain_json.

Theorem C16_ast_mirrors_plain_json : forall w1 v w2,
  Json.Grammar.all_blank w1 = true -> Json.Grammar.wf v = true -> Json.Grammar.all_blank w2 = true ->
  SchemaProofs.plain (w1 ++ Json.Grammar.render v ++ w2) = true ->
  LoaderProofs.no_exponent v = true ->
  LoaderProofs.distinct_keys v = true ->
  Loader.finish Loader.to_ast (Loader.load_state Loader.env0 (w1 ++ Json.Grammar.render v ++ w2)) =
  (Some (Some (LoaderProofs.ast_mirror [] v)), Loader.LTree None).
Proof. exact LoaderProofs.ast_mirrors_plain_json. Qed.
Print Assumptions C16_ast_mirrors_plain_json.

Theorem C16_loader_model_plain_json : forall w1 v w2,
  Json.Grammar.all_blank w1 = true -> Json.Grammar.wf v = true -> Json.Grammar.all_blank w2 = true ->
  SchemaProofs.plain (w1 ++ Json.Grammar.render v ++ w2) = true ->
  LoaderProofs.no_exponent v = true ->
  LoaderProofs.distinct_keys v = true ->
  Loader.loader_model Loader.env0 (w1 ++ Json.Grammar.render v ++ w2) =
  [x41; colon] ++ Loader.print_ast (LoaderProofs.ast_mirror [] v).
Proof. exact LoaderProofs.loader_model_plain_json. Qed.
Print Assumptions C16_loader_model_plain_json.

Theorem C16_ast_node_count_plain_json : forall w1 v w2 a,
  Json.Grammar.all_blank w1 = true -> Json.Grammar.wf v = true -> Json.Grammar.all_blank w2 = true ->
  SchemaProofs.plain (w1 ++ Json.Grammar.render v ++ w2) = true ->
  LoaderProofs.no_exponent v = true ->
  LoaderProofs.distinct_keys v = true ->
  fst (Loader.finish Loader.to_ast (Loader.load_state Loader.env0 (w1 ++ Json.Grammar.render v ++ w2))) = Some (Some a) ->
  LoaderProofs.ast_size a = LoaderProofs.count_values v.
Proof. exact LoaderProofs.ast_node_count_plain_json. Qed.
Print Assumptions C16_ast_node_count_plain_json.

Theorem C16_ast_preorder_plain_json : forall w1 v w2 a,
  Json.Grammar.all_blank w1 = true -> Json.Grammar.wf v = true -> Json.Grammar.all_blank w2 = true ->
  SchemaProofs.plain (w1 ++ Json.Grammar.render v ++ w2) = true ->
  LoaderProofs.no_exponent v = true ->
  LoaderProofs.distinct_keys v = true ->
  fst (Loader.finish Loader.to_ast (Loader.load_state Loader.env0 (w1 ++ Json.Grammar.render v ++ w2))) = Some (Some a) ->
  LoaderProofs.ast_preorder a = LoaderProofs.jv_preorder [] v.
Proof. exact LoaderProofs.ast_preorder_plain_json. Qed.
Print Assumptions C16_ast_preorder_plain_json.

(* the first key, in source order, that repeats an earlier key of its own object is refused (402) at
   its opening quote; [dup_pos] computes that offset over the value tree *)
Theorem C16_duplicate_key_refused : forall w1 v w2 d,
  Json.Grammar.all_blank w1 = true -> Json.Grammar.wf v = true -> Json.Grammar.all_blank w2 = true ->
  LoaderProofs.no_exponent v = true ->
  LoaderProofs.dup_pos (LoaderProofs.len w1) v = Some d ->
  Loader.load (w1 ++ Json.Grammar.render v ++ w2) = Loader.LError 402%N d.
Proof. exact LoaderProofs.duplicate_key_refused_json. Qed.
Print Assumptions C16_duplicate_key_refused.

(* the same, spelled out for the top-level object: member j is the first whose key equals an earlier one *)
Theorem C16_duplicate_key_refused_first : forall w1 pre w1j k w2j w3j x w4j post w2,
  let ms := pre ++ (w1j, k, w2j, w3j, x, w4j) :: post in
  Json.Grammar.all_blank w1 = true -> Json.Grammar.wf (Json.Grammar.JObj ms) = true ->
  Json.Grammar.all_blank w2 = true -> LoaderProofs.no_exponent (Json.Grammar.JObj ms) = true ->
  LoaderProofs.keys_fresh [] (map LoaderProofs.key_of pre) = true ->
  forallb (fun m => LoaderProofs.distinct_keys (LoaderProofs.mem_value m)) pre = true ->
  existsb (fun s => Loader.beq s (Loader.unquote k)) (map LoaderProofs.key_of pre) = true ->
  Loader.load (w1 ++ Json.Grammar.render (Json.Grammar.JObj ms) ++ w2) =
  Loader.LError 402%N (LoaderProofs.len w1 + 1 +
                     LoaderProofs.len (flat_map (fun m => Json.GrammarProofs.rmem m ++ [x2c]) pre) +
                     LoaderProofs.len w1j)%N.
Proof. exact LoaderProofs.duplicate_key_refused_first. Qed.
Print Assumptions C16_duplicate_key_refused_first.

(* no duplicate key anywhere  <->  [dup_pos] finds nothing *)
Theorem C16_distinct_keys_iff_no_duplicate : forall v p,
  LoaderProofs.dup_pos p v = None <-> LoaderProofs.distinct_keys v = true.
Proof.
  intros v p. split; [apply LoaderProofs.dup_none_distinct|apply LoaderProofs.distinct_dup_none].
Qed.
Print Assumptions C16_distinct_keys_iff_no_duplicate.

(* rules as written: same names, same values, same order, nothing dropped *)
Theorem C16_rules_in_written_order : forall es m,
  LoaderProofs.add_all es [] = Loader.Ok m -> Forall LoaderProofs.written_entry es ->
  m = es /\ Loader.written_rules m m = map LoaderProofs.name_and_value es.
Proof. exact LoaderProofs.rules_in_written_order. Qed.
Print Assumptions C16_rules_in_written_order.

Theorem C16_rule_duplicate_refused : forall e m,
  (Loader.base_add e m = Loader.Fail (Loader.FErr 501%N) <-> exists e', In e' m /\ Loader.ce_t e' = Loader.ce_t e) /\
  (Loader.base_add e m = Loader.Ok (m ++ [e]) <-> ~ exists e', In e' m /\ Loader.ce_t e' = Loader.ce_t e) /\
  (forall f, Loader.base_add e m = Loader.Fail f -> f = Loader.FErr 501%N).
Proof. exact LoaderProofs.base_add_fails_iff_present. Qed.
Print Assumptions C16_rule_duplicate_refused.

(* the same through [annot_of]: the a_rules of a node whose constraints were added one by one *)
Theorem C16_rules_in_written_order_annot : forall (l : list (Loader.ctype * Loader.cval * Loader.rval)) d,
  LoaderProofs.add_all (map (fun x => let '(t, v, w) := x in Loader.mkce t v (Some w)) l) [] = Loader.Ok (Loader.nd_cs d) ->
  (forall t v w, In (t, v, w) l -> t <> Loader.CTypesList /\ t <> Loader.COr) ->
  Loader.a_rules (Loader.annot_of d) = map (fun x => let '(t, _, w) := x in (Loader.ctype_name t, w)) l.
Proof. exact LoaderProofs.rules_in_written_order_annot. Qed.
Print Assumptions C16_rules_in_written_order_annot.

(* successive additions go through exactly when the rule types are pairwise distinct *)
Theorem C16_rules_added_iff_distinct : forall es,
  (exists m, LoaderProofs.add_all es [] = Loader.Ok m) <-> NoDup (map Loader.ce_t es).
Proof. exact LoaderProofs.add_all_ok_iff_distinct. Qed.
Print Assumptions C16_rules_added_iff_distinct.

(* what [distinct_keys] says of an object: its keys, as the loader stores them, are pairwise different,
   and so it is in every member value *)
Theorem C16_distinct_keys_obj : forall ms,
  LoaderProofs.distinct_keys (Json.Grammar.JObj ms) = true <->
  NoDup (map LoaderProofs.key_of ms) /\ forall m, In m ms -> LoaderProofs.distinct_keys (LoaderProofs.mem_value m) = true.
Proof. exact LoaderProofs.distinct_keys_obj. Qed.
Print Assumptions C16_distinct_keys_obj.

(* a 3-level tree with every kind of layout:
     LF SP { LF "a" SP : TAB [ SP 1 CR LF , LF { "k" : SP "s\n" , SP "z" LF : null TAB } , -0.5 SP ] LF ,
             SP "b" : { SP } , LF "c" : SP [ LF ] CR LF } TAB LF
   it meets the hypotheses of C16_load_mirrors_plain_json, and the model computes the mirror image *)
Example C16_loader_three_levels :
  let sp := [x20] in let tab := [x09] in let nl := [x0a] in let crlf := [x0d; x0a] in
  let key c := [x22; c; x22] in
  let tok1 := Json.Grammar.JTok [x31] in
  let tokS := Json.Grammar.JTok [x22; x73; x5c; x6e; x22] in
  let tokNull := Json.Grammar.JTok [x6e; x75; x6c; x6c] in
  let tokNeg := Json.Grammar.JTok [x2d; x30; x2e; x35] in
  let inner := Json.Grammar.JObj [ ([], key x6b, [], sp, tokS, []); (sp, key x7a, nl, [], tokNull, tab) ] in
  let arr := Json.Grammar.JArr [ (sp, tok1, crlf); (nl, inner, []); ([], tokNeg, sp) ] in
  let v := Json.Grammar.JObj [ (nl, key x61, sp, tab, arr, nl);
                               (sp, key x62, [], [], Json.Grammar.JObj0 sp, []);
                               (nl, key x63, [], sp, Json.Grammar.JArr0 nl, crlf) ] in
  let w1 := nl ++ sp in let w2 := tab ++ nl in
  Json.Grammar.all_blank w1 = true /\ Json.Grammar.wf v = true /\ Json.Grammar.all_blank w2 = true /\
  SchemaProofs.plain (w1 ++ Json.Grammar.render v ++ w2) = true /\
  LoaderProofs.no_exponent v = true /\ LoaderProofs.distinct_keys v = true /\
  Loader.load (w1 ++ Json.Grammar.render v ++ w2) = Loader.LTree (Some (LoaderProofs.mirror v)) /\
  LoaderProofs.mirror v =
    Loader.NObj
      [ ([x61], false,
         Loader.NArr [ Loader.NLit [x31] LoaderProofs.no_annot;
                       Loader.NObj [ ([x6b], false, Loader.NLit [x22; x73; x5c; x6e; x22] LoaderProofs.no_annot);
                                     ([x7a], false, Loader.NLit [x6e; x75; x6c; x6c] LoaderProofs.no_annot) ]
                                   LoaderProofs.no_annot;
                       Loader.NLit [x2d; x30; x2e; x35] LoaderProofs.no_annot ] LoaderProofs.no_annot);
        ([x62], false, Loader.NObj [] LoaderProofs.no_annot);
        ([x63], false, Loader.NArr [] LoaderProofs.no_annot) ] LoaderProofs.no_annot /\
  LoaderProofs.ast_preorder (LoaderProofs.ast_mirror [] v) =
    [ ([], []); ([x61], []); ([], [x31]); ([], []); ([x6b], [x22; x73; x5c; x6e; x22]);
      ([x7a], [x6e; x75; x6c; x6c]); ([], [x2d; x30; x2e; x35]); ([x62], []); ([x63], []) ] /\
  LoaderProofs.count_values v = 9.
Proof. vm_compute. repeat split. Qed.
