(* Property C16, proved part — on the rule-free fragment the AST mirrors the schema text:
   one node per example value in source order (with key and token kind), the root carries
   its key and exactly the written rules, and an object's children are its properties in
   declaration order. *)
From Coq Require Import List Bool.
From Coq Require Import Strings.Byte.
Import ListNotations.
From JS Require Import Common.Wire Schema.Shape Schema.Ast Schema.AstProofs.

Theorem C16_ast_preorder : forall key mark w,
  preorder (ast_of key mark w) = values_in_order key w.
Proof. exact ast_preorder. Qed.
Print Assumptions C16_ast_preorder.

Theorem C16_ast_size_is_node_count : forall key mark w,
  ast_size (ast_of key mark w) = count_nodes w.
Proof. exact ast_size_is_node_count. Qed.
Print Assumptions C16_ast_size_is_node_count.

Theorem C16_ast_root : forall key mark w,
  match ast_of key mark w with
  | ANode k _ _ rs _ =>
    k = key /\
    rs = rules_of mark (match w with WLit _ nl _ | WObj _ nl _ | WArr _ nl _ => nl end)
                       (match w with WLit _ _ an | WObj _ _ an | WArr _ _ an => an end)
  end.
Proof. exact ast_root. Qed.
Print Assumptions C16_ast_root.

Theorem C16_ast_children_keys : forall key mark ms nl an,
  match ast_of key mark (WObj ms nl an) with
  | ANode _ _ _ _ ch =>
    map (fun a => match a with ANode k _ _ _ _ => k end) ch = map (fun m => Some (fst (fst m))) ms
  end.
Proof. exact ast_children_keys. Qed.
Print Assumptions C16_ast_children_keys.

(* 3-level schema: { "a": [ {"c": 1 (optional:false), "d": null} , "s" ] (optional:true), "b": true (nullable) } *)
Example C16_three_levels :
  let ka := [x61] in let kb := [x62] in let kc := [x63] in let kd := [x64] in
  let w := WObj [ (ka, Some true,
                     WArr [ WObj [ (kc, Some false, WLit KInt false false);
                                   (kd, None, WLit KNull false true) ] true false;
                            WLit KStr false false ] false false);
                  (kb, None, WLit KBool true false) ] false false in
  ast_of None None w =
    ANode None TObject StObject []
      [ ANode (Some ka) TArray StArray [ROptional true]
          [ ANode None TObject StObject [RNullable]
              [ ANode (Some kc) TNumber StInteger [ROptional false] [];
                ANode (Some kd) TNull StAny [RAny] [] ];
            ANode None TString StString [] [] ];
        ANode (Some kb) TBoolean StBoolean [RNullable] [] ]
  /\ preorder (ast_of None None w) =
       [ (None, TObject); (Some ka, TArray); (None, TObject); (Some kc, TNumber);
         (Some kd, TNull); (None, TString); (Some kb, TBoolean) ]
  /\ ast_size (ast_of None None w) = 7.
Proof. vm_compute. repeat split. Qed.
