(* Property C15, proved part — on the rule-free validator model a schema accepts its own
   example (the document Example() returns for a plain-JSON schema), under both
   key-optionality configurations.  The example builder for user types is not modelled;
   that part of C15 is decided by generated cases (lib/check_c15.py). *)
From Coq Require Import List Bool.
From JS Require Import Schema.Shape Schema.ShapeProofs Schema.ShapeSelf.

Theorem C15_plain_example_accepted : forall optd w, keys_distinct w = true ->
  validate (compile optd w) (example_value w) = None.
Proof. exact self_valid_all. Qed.
Print Assumptions C15_plain_example_accepted.

Theorem C15_plain_example_has_shape : forall optd w, keys_distinct w = true ->
  shape_ok (compile optd w) (example_value w) = true.
Proof. exact example_has_shape. Qed.
Print Assumptions C15_plain_example_has_shape.
