(* Property C15, proved part — on the rule-free validator model a schema accepts its own
   example (the document Example() returns for a plain-JSON schema), under both
   key-optionality configurations.  The example builder for user types is not modelled;
   that part of C15 is decided by generated cases (lib/check_c15.py). *)
From Coq Require Import List Bool.
From JS Require Import Schema.Shape Schema.ShapeProofs Schema.ShapeSelf.

Theorem C15_plain_example_accepted : forall optd w, keys_distinct w = true ->
  validate (compile optd w) (example_value w) = None.
Proof. exact self_valid_all. Qed.
Print Assumptions C15_plain_example_accepted.

Theorem C15_plain_example_has_shape : forall optd w, keys_distinct w = true ->
  shape_ok (compile optd w) (example_value w) = true.
Proof. exact example_has_shape. Qed.
Print Assumptions C15_plain_example_has_shape.

(* The example builder for user types (Schema/Example.v, the model of exampleBuilder.Build after
   fix 6ca17f0): what the strict builder returns for a node is accepted by the set semantics of
   that node over the type graph (Schema/MachineSpec.v), provided object keys are pairwise
   distinct; on the plain-JSON fragment the builder returns [example_value]. *)
From Coq Require Import Arith.
From JS Require Import Common.Wire Schema.Machine Schema.MachineSpec Schema.Example Schema.ExampleProofs.
Import ListNotations.

Theorem C15_example_accepted_by_type_graph : forall F g path n ex, mwf g n = true -> mclosed g n = true ->
  build F true g path n = BVal ex -> exists F0, forall F', F0 <= F' -> maccepts F' g n ex = true.
Proof. exact build_strict_sound. Qed.
Print Assumptions C15_example_accepted_by_type_graph.

Theorem C15_plain_example_is_the_example : forall optd w, exists F0, forall F, F0 <= F ->
  build F true [] [] (of_snode (compile optd w)) = BVal (ShapeSelf.example_value w).
Proof. exact build_plain. Qed.
Print Assumptions C15_plain_example_is_the_example.
