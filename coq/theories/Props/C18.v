(* Property C18 (regex half) — the /P/ token of a regex type: the pattern is exactly the text
   between the opening '/' and the first '/' that is not escaped by an unpaired backslash,
   and the token length is |P| + 2.
   Only statements; proofs live in Text/RegexTypeProofs.v. *)
From Coq Require Import List NArith Bool Arith String.
From Coq Require Import Strings.Byte.
Import ListNotations.
From JS Require Import Common.Wire Text.RegexType Text.RegexTypeProofs.

Theorem C18_extract_sound : forall content p, extract content = RxOk p ->
  exists rest, content = [x2f] ++ p ++ [x2f] ++ rest /\
    has_unescaped_slash false p = false /\ ends_escaped false p = false.
Proof. exact extract_sound. Qed.
Print Assumptions C18_extract_sound.

(* since the fix 2b68297 also for the empty pattern: the token // *)
Theorem C18_extract_complete : forall p rest,
  has_unescaped_slash false p = false -> ends_escaped false p = false ->
  extract ([x2f] ++ p ++ [x2f] ++ rest) = RxOk p.
Proof. exact extract_complete. Qed.
Print Assumptions C18_extract_complete.

Theorem C18_regex_len_is_token_length : forall content p, extract content = RxOk p ->
  regex_len content = Some (List.length ([x2f] ++ p ++ [x2f])).
Proof. exact regex_len_is_token_length. Qed.
Print Assumptions C18_regex_len_is_token_length.

Theorem C18_extract_deterministic_prefix : forall p rest rest',
  extract ([x2f] ++ p ++ [x2f] ++ rest) = RxOk p ->
  extract ([x2f] ++ p ++ [x2f] ++ rest') = RxOk p.
Proof. exact extract_deterministic_prefix. Qed.
Print Assumptions C18_extract_deterministic_prefix.

(* non-vacuity (Coq strings have no backslash escapes: "\/" is the two bytes 5c 2f) *)
Example C18_escaped_slash :
  extract (of_string "/a\/b/ x"%string) = RxOk (of_string "a\/b"%string).
Proof. vm_compute. reflexivity. Qed.
Example C18_paired_backslash :
  extract (of_string "/a\\/ x"%string) = RxOk (of_string "a\\"%string).
Proof. vm_compute. reflexivity. Qed.
Example C18_empty_pattern : extract (of_string "// x"%string) = RxOk [] /\ regex_len (of_string "// x"%string) = Some 2.
Proof. vm_compute. split; reflexivity. Qed.
Example C18_no_end : extract (of_string "/a"%string) = RxNoEnd.
Proof. vm_compute. reflexivity. Qed.
Example C18_empty_pattern_alone : extract (of_string "//"%string) = RxOk [].
Proof. vm_compute. reflexivity. Qed.
Example C18_empty_content : extract (of_string ""%string) = RxEmptyContent.
Proof. vm_compute. reflexivity. Qed.
Example C18_bad_start : extract (of_string "a/"%string) = RxBadStart.
Proof. vm_compute. reflexivity. Qed.

(* Property C18 (enum rule half) — comments in an enum rule are ignored: they are blanks.
   [EnumProofs.decomment bs] replaces every byte of a // comment (the line break that ends it included)
   and of a /* */ comment by a space; it is Some when no comment stands before the opening bracket
   (the library refuses that: ErrEnumArrayExpected), every '/' outside strings begins a comment and
   every block comment is closed (an open one at the end is refused: ErrUnexpectedEOF).  If the text
   without comments is accepted, the text with them is accepted, and the value, item and array events
   ([EnumProofs.keep]: LiteralBegin/End, ArrayItemBegin/End, ArrayBegin/End) are the same, spans included:
   Values() reads the same literals in the same order.  Proof in Enum/EnumProofs.v (section 8).
   Not proved here: the byte-level equality of the literal slices of the two texts as a theorem (the
   bytes of a literal are never comment bytes; shown on the example below) and hence enum_check = VOk
   for the text with comments as a theorem. *)
From JS Require Enum.EnumScanner Enum.EnumProofs.

Theorem C18_enum_comments_are_ignored : forall bs bs' evs',
  EnumProofs.decomment bs = Some bs' ->
  EnumScanner.scan false bs' = (evs', EnumScanner.Eos) ->
  exists evs, EnumScanner.scan false bs = (evs, EnumScanner.Eos) /\
              filter EnumProofs.keep evs = filter EnumProofs.keep evs'.
Proof. exact EnumProofs.enum_comments_are_blanks. Qed.
Print Assumptions C18_enum_comments_are_ignored.

(* a comment in every gap of a 4-value rule (number, string containing a comment opener, true, null; LF and
   CR LF endings, an empty comment, a two-line block comment, a last comment without a line break):
   Check accepts it and the literals are the written ones, in source order; the same for the blanked text *)
Example C18_enum_comments_example :
  EnumScanner.enum_check EnumProofs.comments_example = EnumScanner.VOk /\
  EnumProofs.literal_tokens EnumProofs.comments_example (fst (EnumScanner.scan false EnumProofs.comments_example)) =
    [Some [x31]; Some [x22; x78; x2f; x2a; x79; x22]; Some [x74; x72; x75; x65]; Some [x6e; x75; x6c; x6c]].
Proof. exact (conj EnumProofs.enum_comments_example_check EnumProofs.enum_comments_example_tokens). Qed.
Example C18_enum_comments_example_blanked :
  match EnumProofs.decomment EnumProofs.comments_example with
  | Some bs' => EnumScanner.enum_check bs' = EnumScanner.VOk /\
     EnumProofs.literal_tokens bs' (fst (EnumScanner.scan false bs')) =
     EnumProofs.literal_tokens EnumProofs.comments_example (fst (EnumScanner.scan false EnumProofs.comments_example))
  | None => False
  end.
Proof. exact EnumProofs.enum_comments_example_blanked. Qed.
