(* Property C18 (regex half) — the /P/ token of a regex type: the pattern is exactly the text
   between the opening '/' and the first '/' that is not escaped by an unpaired backslash,
   and the token length is |P| + 2.
   Only statements; proofs live in Text/RegexTypeProofs.v. *)
From Coq Require Import List NArith Bool Arith String.
From Coq Require Import Strings.Byte.
Import ListNotations.
From JS Require Import Common.Wire Text.RegexType Text.RegexTypeProofs.

Theorem C18_extract_sound : forall content p, extract content = RxOk p ->
  exists rest, content = [x2f] ++ p ++ [x2f] ++ rest /\
    has_unescaped_slash false p = false /\ ends_escaped false p = false.
Proof. exact extract_sound. Qed.
Print Assumptions C18_extract_sound.

(* since the fix 2b68297 also for the empty pattern: the token // *)
Theorem C18_extract_complete : forall p rest,
  has_unescaped_slash false p = false -> ends_escaped false p = false ->
  extract ([x2f] ++ p ++ [x2f] ++ rest) = RxOk p.
Proof. exact extract_complete. Qed.
Print Assumptions C18_extract_complete.

Theorem C18_regex_len_is_token_length : forall content p, extract content = RxOk p ->
  regex_len content = Some (List.length ([x2f] ++ p ++ [x2f])).
Proof. exact regex_len_is_token_length. Qed.
Print Assumptions C18_regex_len_is_token_length.

Theorem C18_extract_deterministic_prefix : forall p rest rest',
  extract ([x2f] ++ p ++ [x2f] ++ rest) = RxOk p ->
  extract ([x2f] ++ p ++ [x2f] ++ rest') = RxOk p.
Proof. exact extract_deterministic_prefix. Qed.
Print Assumptions C18_extract_deterministic_prefix.

(* non-vacuity (Coq strings have no backslash escapes: "\/" is the two bytes 5c 2f) *)
Example C18_escaped_slash :
  extract (of_string "/a\/b/ x"%string) = RxOk (of_string "a\/b"%string).
Proof. vm_compute. reflexivity. Qed.
Example C18_paired_backslash :
  extract (of_string "/a\\/ x"%string) = RxOk (of_string "a\\"%string).
Proof. vm_compute. reflexivity. Qed.
Example C18_empty_pattern : extract (of_string "// x"%string) = RxOk [] /\ regex_len (of_string "// x"%string) = Some 2.
Proof. vm_compute. split; reflexivity. Qed.
Example C18_no_end : extract (of_string "/a"%string) = RxNoEnd.
Proof. vm_compute. reflexivity. Qed.
Example C18_empty_pattern_alone : extract (of_string "//"%string) = RxOk [].
Proof. vm_compute. reflexivity. Qed.
Example C18_empty_content : extract (of_string ""%string) = RxEmptyContent.
Proof. vm_compute. reflexivity. Qed.
Example C18_bad_start : extract (of_string "a/"%string) = RxBadStart.
Proof. vm_compute. reflexivity. Qed.
