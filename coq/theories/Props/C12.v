(* Property C12 — sync.Once under concurrency: n goroutines call Do on one once-cell and are
   interleaved by an arbitrary schedule (a list of thread ids, one critical step each).
   However they interleave, the protected body runs at most once, everybody who returns
   returns the body's result, when all have returned it ran exactly once, and some schedule
   lets all of them return.
   Model: Api/Objects.v (Section Once).  Only statements; proofs live in Api/ObjectsProofs.v.
   The result type and the body's result are universally quantified. *)
From Coq Require Import List NArith Bool Arith.
Import ListNotations.
From JS Require Import Api.Objects Api.ObjectsProofs.

Theorem C12_once_at_most_once :
  forall (result : Type) (body : result) (n : nat) (schedule : list nat),
  runs result (orun result body (oinit result n) schedule) <= 1.
Proof. exact once_at_most_once. Qed.
Print Assumptions C12_once_at_most_once.

Theorem C12_once_same_result :
  forall (result : Type) (body : result) (n : nat) (schedule : list nat) (t : nat) (r : result),
  nth_error (threads result (orun result body (oinit result n) schedule)) t
    = Some (TReturned result r) -> r = body.
Proof. exact once_same_result. Qed.
Print Assumptions C12_once_same_result.

Theorem C12_once_exactly_once_when_done :
  forall (result : Type) (body : result) (n : nat) (schedule : list nat), 0 < n ->
  all_returned result (orun result body (oinit result n) schedule) ->
  runs result (orun result body (oinit result n) schedule) = 1.
Proof. exact once_exactly_once_when_done. Qed.
Print Assumptions C12_once_exactly_once_when_done.

Theorem C12_once_can_finish :
  forall (result : Type) (body : result) (n : nat),
  exists schedule, all_returned result (orun result body (oinit result n) schedule).
Proof. exact once_can_finish. Qed.
Print Assumptions C12_once_can_finish.

(* non-vacuity: three goroutines; 1 enters, 0 and 2 arrive meanwhile (2 blocks on the mutex),
   1 finishes, the others return its result *)
Example C12_examples :
  orun nat 7 (oinit nat 3) [1; 0; 2; 2; 1; 2; 0]
  = mkos nat (CDone nat 7) [TReturned nat 7; TReturned nat 7; TReturned nat 7] 1 /\
  orun nat 7 (oinit nat 3) [1; 0; 2; 2]
  = mkos nat (CRunning nat 1) [TWaiting nat; TInside nat; TWaiting nat] 0.
Proof. vm_compute. split; reflexivity. Qed.
