(* Property C07, part A — message templates and argument lists agree at every error
   construction site and every error code has a template.  The tables are translated from
   the Go source by tools/tabx on every run; the statements are finite and decided by
   computation inside the kernel (vm_compute), then lifted to "for every site in the table"
   with forallb_forall. *)
From Coq Require Import List String ZArith Bool.
Import ListNotations.
From JS Require Import Gen.ErrTables Err.ErrTables.

Lemma C07_codes_computed : forallb code_has_template err_codes = true.
Proof. vm_compute. reflexivity. Qed.
Lemma C07_format_sites_computed : forallb format_site_ok err_format_sites = true.
Proof. vm_compute. reflexivity. Qed.
Lemma C07_bare_sites_computed : forallb bare_site_ok err_bare_sites = true.
Proof. vm_compute. reflexivity. Qed.

Theorem C07_every_code_has_template :
  forall name v, In (name, v) err_codes -> exists t, template_of name = Some t.
Proof.
  intros name v H. pose proof (proj1 (forallb_forall _ _) C07_codes_computed _ H) as Hc.
  unfold code_has_template in Hc. simpl in Hc. destruct (template_of name) as [t|]; [eauto|discriminate].
Qed.

(* errors.Format(code, a1..an).Error() does not panic: the template exists and has exactly n
   placeholders (Errorf.Error panics otherwise) *)
Theorem C07_site_arity :
  forall file line code nargs, In (file, line, code, nargs) err_format_sites ->
  exists t, template_of code = Some t /\ count_placeholders t = nargs.
Proof.
  intros file line code nargs H.
  pose proof (proj1 (forallb_forall _ _) C07_format_sites_computed _ H) as Hc.
  unfold format_site_ok in Hc. destruct (template_of code) as [t|]; [|discriminate].
  exists t. split; [reflexivity|]. apply Z.eqb_eq. exact Hc.
Qed.

(* a bare ErrorCode used as an error value renders through ErrorCode.Error, which panics
   when the template has placeholders *)
Theorem C07_bare_codes_have_no_placeholders :
  forall file line code, In (file, line, code) err_bare_sites ->
  exists t, template_of code = Some t /\ count_placeholders t = 0%Z.
Proof.
  intros file line code H.
  pose proof (proj1 (forallb_forall _ _) C07_bare_sites_computed _ H) as Hc.
  unfold bare_site_ok in Hc. destruct (template_of code) as [t|]; [|discriminate].
  exists t. split; [reflexivity|]. apply Z.eqb_eq. exact Hc.
Qed.

Theorem C07_codes_distinct : nodup_z (map snd err_codes) = true.
Proof. vm_compute. reflexivity. Qed.
Theorem C07_templates_keyed_by_declared_codes : forallb template_key_declared err_templates = true.
Proof. vm_compute. reflexivity. Qed.

(* non-vacuity: the tables are not empty *)
Example C07_tables_nonempty :
  (50 <? Z.of_nat (List.length err_codes))%Z = true /\ (50 <? Z.of_nat (List.length err_format_sites))%Z = true /\
  (50 <? Z.of_nat (List.length err_bare_sites))%Z = true.
Proof. vm_compute. auto. Qed.

Print Assumptions C07_every_code_has_template.
Print Assumptions C07_site_arity.
Print Assumptions C07_bare_codes_have_no_placeholders.

(* ---------- part B: the enum-rule scanner and its consumers never end in an internal panic
   (empty stack, slice out of range, json.Guess on an unclassifiable literal, a foreign
   error); model Enum/EnumScanner.v ---------- *)
From JS Require Enum.EnumScanner Enum.EnumProofs.

Theorem C07_enum_scanner_no_panic :
  (forall lc bs, snd (EnumScanner.scan lc bs) <> EnumScanner.Panic) /\
  (forall bs, fst (EnumScanner.enum_len bs) <> EnumScanner.VPanic) /\
  (forall bs, EnumScanner.enum_check bs <> EnumScanner.VPanic).
Proof.
  exact (conj EnumProofs.enum_scan_no_panic
          (conj EnumProofs.enum_len_no_panic EnumProofs.enum_check_no_panic)).
Qed.
Print Assumptions C07_enum_scanner_no_panic.

(* Property C07, part B — the schema scanner (model SchemaScan/SchemaScanner.v of
   notations/jschema/internal/scanner/scanner.go and scanner_annotations.go) never ends in a panic
   that is not a DocumentError, whatever the bytes and the mode (plain / lengthComputing); nor does
   Schema.Len.  Proofs live in SchemaScan/SchemaProofs.v (an invariant over the step function, the
   stack of open events, returnToStep and the context stack). *)
From Coq Require Import NArith.
From JS Require Common.Wire SchemaScan.SchemaScanner SchemaScan.SchemaProofs.

Theorem C07_schema_scanner_no_panic : forall (lc : bool) (bs : Wire.bytes),
  snd (SchemaScanner.scan lc bs) <> SchemaScanner.Panic.
Proof. exact SchemaProofs.schema_scan_no_panic. Qed.
Print Assumptions C07_schema_scanner_no_panic.

Theorem C07_schema_len_no_panic : forall bs : Wire.bytes,
  SchemaScanner.schema_len bs <> SchemaScanner.VPanic.
Proof. exact SchemaProofs.schema_len_no_panic. Qed.
Print Assumptions C07_schema_len_no_panic.
