(* Property C14 — Len (Document.Len, model doc_len): for a JSON document followed by text that
   cannot continue it, Len is the length of the document without its trailing blanks; the same
   for a document alone; with no leading document Len reports an error.
   Only statements; proofs live in Json/EventsProofs.v. *)
From Coq Require Import List NArith Bool Arith String.
From Coq Require Import Strings.Byte.
Import ListNotations.
From JS Require Import Common.Wire Json.Scanner Json.Grammar Json.ScannerProofs Json.EventsProofs.

(* trim_trailing_blanks bs = rev (trim_blank_rev (rev bs));
   ends_closed bs: the last non-blank byte of bs is ] } or a double quote *)
Theorem C14_len_of_document_then_foreign : forall doc sep rest c,
  check false doc = VOk ->
  all_blank sep = true -> is_blank c = false ->
  (sep <> [] \/ ends_closed doc = true) ->
  fst (doc_len true (doc ++ sep ++ c :: rest)) = VOk /\
  snd (doc_len true (doc ++ sep ++ c :: rest)) = N.of_nat (List.length (trim_trailing_blanks doc)).
Proof. exact len_of_document_then_foreign. Qed.
Print Assumptions C14_len_of_document_then_foreign.

Theorem C14_len_of_document_alone : forall doc, check false doc = VOk ->
  doc_len true doc = (VOk, N.of_nat (List.length (trim_trailing_blanks doc))) /\
  doc_len false doc = (VOk, N.of_nat (List.length (trim_trailing_blanks doc))).
Proof. exact len_of_document_alone. Qed.
Print Assumptions C14_len_of_document_alone.

Theorem C14_len_error_when_no_document : forall bs, check true bs <> VOk ->
  exists c p, fst (doc_len true bs) = VErr c p.
Proof. exact len_error_when_no_document. Qed.
Print Assumptions C14_len_error_when_no_document.

(* the verdict of Len is the verdict of Check *)
Theorem C14_doc_len_verdict : forall allow bs, fst (doc_len allow bs) = check allow bs.
Proof. exact doc_len_fst. Qed.
Print Assumptions C14_doc_len_verdict.

(* non-vacuity *)
Example C14_examples :
  doc_len true (of_string "{} x"%string) = (VOk, 2%N) /\
  doc_len true (of_string "1x"%string) = (VOk, 1%N) /\
  doc_len true (of_string "[1] "%string ++ [x0a] ++ of_string " GET"%string) = (VOk, 3%N) /\
  doc_len true (of_string " ""a"" "%string) = (VOk, 4%N) /\
  doc_len false (of_string " 12  "%string) = (VOk, 3%N) /\
  trim_trailing_blanks (of_string " 12  "%string) = of_string " 12"%string /\
  ends_closed (of_string "[1] "%string) = true /\ ends_closed (of_string "12"%string) = false /\
  (* the side condition of C14_len_of_document_then_foreign matters: a byte that continues the
     literal is not foreign *)
  doc_len true (of_string "12"%string) = (VOk, 2%N) /\
  fst (doc_len true (of_string "1e"%string)) <> VOk /\
  fst (doc_len true (of_string "x"%string)) <> VOk /\
  fst (doc_len true (of_string "  "%string)) = VErr code_empty_json 0%N.
Proof. vm_compute. repeat split; try reflexivity; discriminate. Qed.

(* ---------- Enum.Len (rules/enum/enum.go; model EnumScanner.enum_len) ---------- *)
From JS Require Enum.EnumScanner Enum.EnumProofs.

(* what Len returns is a prefix length: not longer than the text; when positive it ends on a
   byte that is not a blank; it is positive exactly when the text is not blank (a blank or empty
   text has Len 0: EnumProofs.enum_len_prefix_counterexample) *)
Theorem C14_enum_len_prefix : forall bs n, EnumScanner.enum_len bs = (EnumScanner.VOk, n) ->
  (N.to_nat n <= List.length bs)%nat /\
  ((0 < n)%N -> forall c, nth_error bs (N.to_nat n - 1) = Some c -> EnumScanner.is_blank c = false) /\
  ((0 < n)%N <-> forallb EnumScanner.is_blank bs = false).
Proof. exact EnumProofs.enum_len_prefix. Qed.
Print Assumptions C14_enum_len_prefix.

(* Len of that prefix is the same number *)
Theorem C14_enum_len_stable : forall bs n, EnumScanner.enum_len bs = (EnumScanner.VOk, n) ->
  EnumScanner.enum_len (firstn (N.to_nat n) bs) = (EnumScanner.VOk, n).
Proof. exact EnumProofs.enum_len_stable. Qed.
Print Assumptions C14_enum_len_stable.

(* after the fixes a0479cf and 3cd814f a slash after the array that does not begin // or /* ends the
   rule, also when it is the last byte of the text: Len of "[1, 2]" LF "/cats" is 6 (and Len of those
   6 bytes is 6), Len of "[1] /" is 3; inside the array ("[1,/") a slash at the very end is still the
   unfinished opener (ErrUnexpectedEOF at the slash), as it is for Check everywhere *)
Example C14_enum_len_slash_examples :
  EnumScanner.enum_len [x5b; x31; x2c; x20; x32; x5d; x0a; x2f; x63; x61; x74; x73] = (EnumScanner.VOk, 6%N) /\
  EnumScanner.enum_len (firstn 6 [x5b; x31; x2c; x20; x32; x5d; x0a; x2f; x63; x61; x74; x73]) = (EnumScanner.VOk, 6%N) /\
  EnumScanner.enum_len [x5b; x31; x5d; x20; x2f] = (EnumScanner.VOk, 3%N) /\
  EnumScanner.enum_len [x5b; x31; x2c; x2f] = (EnumScanner.VErr EnumScanner.code_unexpected_eof 3%N, 0%N) /\
  EnumScanner.enum_check [x5b; x31; x5d; x20; x2f] = EnumScanner.VErr EnumScanner.code_unexpected_eof 4%N.
Proof. vm_compute. repeat split; reflexivity. Qed.

(* Property C14 for Schema.Len (model SchemaScanner.schema_len, after the fixes 555884d and c67ddfe).
   What Len returns is a prefix length: positive, not longer than the text, not ending in a blank.
   (Before the fix c67ddfe Len was 0 for an empty text, a text of blanks, a text that is only a
   comment, or a lone '/'; these are now the error 202, see the examples.)
   Proofs in SchemaScan/SchemaProofs.v. *)
From JS Require SchemaScan.SchemaScanner SchemaScan.SchemaProofs.

Theorem C14_schema_len_prefix : forall (bs : Wire.bytes) n,
  SchemaScanner.schema_len bs = SchemaScanner.VLen n ->
  (0 < n)%N /\ (N.to_nat n <= List.length bs)%nat /\
  (forall c, nth_error bs (N.to_nat n - 1) = Some c -> SchemaScanner.is_blank c = false).
Proof. exact SchemaProofs.schema_len_prefix. Qed.
Print Assumptions C14_schema_len_prefix.

Theorem C14_schema_len_positive_always : forall (bs : Wire.bytes) n,
  SchemaScanner.schema_len bs = SchemaScanner.VLen n -> (0 < n)%N.
Proof. exact SchemaProofs.schema_len_positive_always. Qed.
Print Assumptions C14_schema_len_positive_always.

(* kept: now a special case of C14_schema_len_positive_always *)
Theorem C14_schema_len_positive : forall (pre : Wire.bytes) c (r : Wire.bytes) n,
  forallb SchemaScanner.is_blank pre = true -> SchemaScanner.is_blank c = false ->
  SchemaScanner.ch c 35 = false -> SchemaScanner.ch c 47 = false ->
  SchemaScanner.schema_len (pre ++ c :: r) = SchemaScanner.VLen n -> (0 < n)%N.
Proof. exact SchemaProofs.schema_len_positive. Qed.
Print Assumptions C14_schema_len_positive.

Example C14_schema_len_examples :
  SchemaScanner.schema_len [] = SchemaScanner.VErr 202 0 /\
  SchemaScanner.schema_len (of_string "  "%string) = SchemaScanner.VErr 202 0 /\
  SchemaScanner.schema_len (of_string "#abc"%string) = SchemaScanner.VErr 202 0 /\
  SchemaScanner.schema_len (of_string "/"%string) = SchemaScanner.VErr 303 0 /\
  SchemaScanner.schema_len [x0a; x0a] = SchemaScanner.VErr 202 0 /\
  SchemaScanner.schema_len ([x0a] ++ of_string "1"%string) = SchemaScanner.VLen 2 /\
  SchemaScanner.schema_len (of_string "12 x"%string) = SchemaScanner.VLen 2 /\
  SchemaScanner.schema_len (of_string "12x"%string) = SchemaScanner.VLen 2 /\
  SchemaScanner.schema_len (of_string "{} // {a: 1}  "%string ++ [x0a] ++ of_string "GET"%string) = SchemaScanner.VLen 12.
Proof. vm_compute. repeat split; reflexivity. Qed.

(* Property C14, Len against the scan of the returned prefix (proofs and counterexamples in
   SchemaScan/SchemaLenProofs.v).
   - Len fails with the DocumentError of the length-mode scan when that error comes BEFORE any EndTop
     event (an error after EndTop is never seen: "1 x ##a" has Len 1 while the scan ends in Err 301
     at 5), and with its own error 202 at 0 when the scan stopped or ended well but nothing except
     blanks was found.
   - "Len of the returned prefix is the same number" is FALSE with a trailing comment:
       "1 # comment" LF "GET"      Len 11, Len of the prefix 1;   "1#" LF "11"   Len 2, then 1
     and holds on every text of at most 5 bytes over SchemaLenProofs.alpha without '#'.
   - "the returned prefix is accepted by the plain scanner" is FALSE:
       "1 // {#c" LF "} #d" LF "x" Len 13, the plain scanner rejects the prefix at 10 (the
                                   length-mode scanner accepts it, with Len 10)
     and holds on every text of at most 5 bytes over SchemaLenProofs.alpha; for the length-mode scanner
     no counterexample is known and it holds on the same texts.
   - The two counterexamples caused by hasTrailingCharacters ("1*" LF "11", "1x" LF "/*a*/ y") are
     gone with the fix 555884d. *)
From JS Require SchemaScan.SchemaLenProofs.

Theorem C14_schema_len_error_iff : forall (bs : Wire.bytes) c p,
  SchemaScanner.schema_len bs = SchemaScanner.VErr c p <->
  (SchemaLenProofs.has_endtop (fst (SchemaScanner.scan true bs)) = false /\
   snd (SchemaScanner.scan true bs) = SchemaScanner.Err c p) \/
  ((SchemaLenProofs.has_endtop (fst (SchemaScanner.scan true bs)) = true \/
    snd (SchemaScanner.scan true bs) = SchemaScanner.Done) /\
   SchemaLenProofs.nothing_found bs = true /\ c = SchemaScanner.code_empty_schema /\ p = 0%N).
Proof. exact SchemaLenProofs.schema_len_error_iff. Qed.
Print Assumptions C14_schema_len_error_iff.

Theorem C14_schema_len_value_iff : forall bs : Wire.bytes,
  (exists n, SchemaScanner.schema_len bs = SchemaScanner.VLen n) <->
  ((SchemaLenProofs.has_endtop (fst (SchemaScanner.scan true bs)) = true \/
    snd (SchemaScanner.scan true bs) = SchemaScanner.Done) /\
   SchemaLenProofs.nothing_found bs = false).
Proof. exact SchemaLenProofs.schema_len_value_iff. Qed.
Print Assumptions C14_schema_len_value_iff.

(* bounded forms of the two false statements *)
Theorem C14_schema_len_stable : forall (bs : Wire.bytes) n, SchemaLenProofs.short bs ->
  SchemaLenProofs.no_hash bs = true ->
  SchemaScanner.schema_len bs = SchemaScanner.VLen n ->
  SchemaScanner.schema_len (firstn (N.to_nat n) bs) = SchemaScanner.VLen n.
Proof. exact SchemaLenProofs.schema_len_stable_bounded. Qed.
Print Assumptions C14_schema_len_stable.

Theorem C14_schema_len_prefix_is_complete : forall (bs : Wire.bytes) n, SchemaLenProofs.short bs ->
  SchemaScanner.schema_len bs = SchemaScanner.VLen n ->
  snd (SchemaScanner.scan false (firstn (N.to_nat n) bs)) = SchemaScanner.Done.
Proof. exact SchemaLenProofs.schema_len_prefix_complete_bounded. Qed.
Print Assumptions C14_schema_len_prefix_is_complete.

Theorem C14_schema_len_prefix_accepted_in_length_mode : forall (bs : Wire.bytes) n,
  SchemaLenProofs.short bs -> SchemaScanner.schema_len bs = SchemaScanner.VLen n ->
  snd (SchemaScanner.scan true (firstn (N.to_nat n) bs)) = SchemaScanner.Done /\
  exists m, SchemaScanner.schema_len (firstn (N.to_nat n) bs) = SchemaScanner.VLen m /\ (m <= n)%N.
Proof. exact SchemaLenProofs.schema_len_prefix_accepted_bounded. Qed.
Print Assumptions C14_schema_len_prefix_accepted_in_length_mode.

(* the counterexamples that survive the repairs, and the two that are gone *)
Example C14_schema_len_stable_false :
  SchemaScanner.schema_len SchemaLenProofs.cex_comment = SchemaScanner.VLen 11 /\
  SchemaScanner.schema_len (firstn 11 SchemaLenProofs.cex_comment) = SchemaScanner.VLen 1.
Proof. exact SchemaLenProofs.schema_len_stable_false. Qed.
Example C14_schema_len_error_after_endtop :
  snd (SchemaScanner.scan true SchemaLenProofs.cex_error_after_endtop) = SchemaScanner.Err 301 6 /\
  SchemaScanner.schema_len SchemaLenProofs.cex_error_after_endtop = SchemaScanner.VLen 1 /\
  SchemaScanner.schema_len [] = SchemaScanner.VErr 202 0 /\
  snd (SchemaScanner.scan true []) = SchemaScanner.Done.
Proof. exact SchemaLenProofs.schema_len_error_iff_false. Qed.
Example C14_schema_len_prefix_not_complete :
  SchemaScanner.schema_len SchemaLenProofs.cex_annotation_popped = SchemaScanner.VLen 13 /\
  snd (SchemaScanner.scan false (firstn 13 SchemaLenProofs.cex_annotation_popped)) = SchemaScanner.Err 301 10 /\
  snd (SchemaScanner.scan true (firstn 13 SchemaLenProofs.cex_annotation_popped)) = SchemaScanner.Done /\
  SchemaScanner.schema_len (firstn 13 SchemaLenProofs.cex_annotation_popped) = SchemaScanner.VLen 10.
Proof. exact SchemaLenProofs.schema_len_prefix_complete_false. Qed.
Example C14_schema_len_repaired_a :
  SchemaScanner.schema_len SchemaLenProofs.cex_trailing_then_newline = SchemaScanner.VLen 1 /\
  snd (SchemaScanner.scan false (firstn 1 SchemaLenProofs.cex_trailing_then_newline)) = SchemaScanner.Done /\
  SchemaScanner.schema_len (firstn 1 SchemaLenProofs.cex_trailing_then_newline) = SchemaScanner.VLen 1.
Proof. exact SchemaLenProofs.repaired_a. Qed.
Example C14_schema_len_repaired_c :
  SchemaScanner.schema_len SchemaLenProofs.cex_trailing_then_annotation = SchemaScanner.VLen 1 /\
  snd (SchemaScanner.scan true (firstn 1 SchemaLenProofs.cex_trailing_then_annotation)) = SchemaScanner.Done /\
  SchemaScanner.schema_len (firstn 1 SchemaLenProofs.cex_trailing_then_annotation) = SchemaScanner.VLen 1.
Proof. exact SchemaLenProofs.repaired_c. Qed.

(* Len after an inline annotation object (fix 0ff4f91): in length mode a foreign byte after the object
   of an inline annotation of the top-level value ends the schema, like after the value itself;
   "1 // {min: 1}x" and "1 // {min: 1} foo" have Len 13 (they were errors), the returned prefix is
   "1 // {min: 1}", for which C14_schema_len_prefix holds (it holds for every text) *)
Example C14_schema_len_after_annotation_object :
  SchemaScanner.schema_len SchemaLenProofs.len_after_annotation_1 = SchemaScanner.VLen 13 /\
  SchemaScanner.schema_len SchemaLenProofs.len_after_annotation_2 = SchemaScanner.VLen 13 /\
  snd (SchemaScanner.scan true SchemaLenProofs.len_after_annotation_1) = SchemaScanner.Done /\
  snd (SchemaScanner.scan false SchemaLenProofs.len_after_annotation_1) = SchemaScanner.Err 301 13 /\
  snd (SchemaScanner.scan false (firstn 13 SchemaLenProofs.len_after_annotation_1)) = SchemaScanner.Done /\
  SchemaScanner.schema_len (firstn 13 SchemaLenProofs.len_after_annotation_1) = SchemaScanner.VLen 13.
Proof. exact SchemaLenProofs.schema_len_after_annotation_object. Qed.

(* A slash that cannot begin an annotation ends the schema in length mode (fix a0479cf): after "{}" and
   a line break, a slash followed by any byte other than '/' and '*' ends the schema, whatever follows
   (proof by symbolic execution of the model in SchemaScan/SchemaLenProofs.v); and the examples
   "{}" LF "/abc/" = 2, "{"id": 1}" LF LF "/cats/{id}" = 9, "[1, 2]" LF "// x" = 6 (annotations are banned
   after a non-empty array, so after the line break every slash ends the schema), "[1, 2] // x" =
   error 304 at 7, "1 /" = 1 (fix 3cd814f; it was error 303 at 2) *)
Theorem C14_schema_len_foreign_slash : forall x (rest : Wire.bytes),
  SchemaScanner.ch x 47 = false -> SchemaScanner.ch x 42 = false ->
  SchemaScanner.schema_len (x7b :: x7d :: x0a :: x2f :: x :: rest) = SchemaScanner.VLen 2.
Proof. exact SchemaLenProofs.schema_len_foreign_slash. Qed.
Print Assumptions C14_schema_len_foreign_slash.

Example C14_schema_len_trailer_with_slash :
  SchemaScanner.schema_len (SchemaLenProofs.bytes_of [123; 125; 10; 47; 97; 98; 99; 47]%N) = SchemaScanner.VLen 2 /\
  SchemaScanner.schema_len (SchemaLenProofs.bytes_of [123; 34; 105; 100; 34; 58; 32; 49; 125; 10; 10; 47; 99; 97; 116; 115; 47; 123; 105; 100; 125]%N) = SchemaScanner.VLen 9 /\
  SchemaScanner.schema_len (SchemaLenProofs.bytes_of [91; 49; 44; 32; 50; 93; 10; 47; 47; 32; 120]%N) = SchemaScanner.VLen 6 /\
  SchemaScanner.schema_len (SchemaLenProofs.bytes_of [91; 49; 44; 32; 50; 93; 32; 47; 47; 32; 120]%N) = SchemaScanner.VErr 304 7 /\
  SchemaScanner.schema_len (SchemaLenProofs.bytes_of [49; 32; 47]%N) = SchemaScanner.VLen 1.
Proof. exact SchemaLenProofs.schema_len_trailer_with_slash. Qed.

(* CRLF layout (fix 542fa4b) and a ### comment opened after the text of an inline annotation
   (fix 0196ace); examples evaluated in SchemaScan/SchemaLenProofs.v.  For texts without / # @ nothing
   changes: C06_schema_scanner_agrees_with_json_scanner still holds with the same statement. *)
Example C14_schema_crlf_layout :
  snd (SchemaScanner.scan false SchemaLenProofs.crlf_text) = SchemaScanner.Done /\
  snd (SchemaScanner.scan false SchemaLenProofs.lf_text) = SchemaScanner.Done /\
  SchemaLenProofs.ev_types (filter SchemaLenProofs.not_newline (fst (SchemaScanner.scan false SchemaLenProofs.crlf_text))) =
  SchemaLenProofs.ev_types (filter SchemaLenProofs.not_newline (fst (SchemaScanner.scan false SchemaLenProofs.lf_text))) /\
  List.length (fst (SchemaScanner.scan false SchemaLenProofs.crlf_text)) =
    Datatypes.S (List.length (fst (SchemaScanner.scan false SchemaLenProofs.lf_text))) /\
  map (fun e => (SchemaScanner.ev_code (SchemaScanner.e_type e), SchemaScanner.e_begin e, SchemaScanner.e_end e))
      (firstn 4 (skipn 10 (fst (SchemaScanner.scan false SchemaLenProofs.crlf_text)))) =
    [(13, 8, 11); (20, 12, 12); (20, 13, 13); (4, 14, 14)]%N.
Proof. exact SchemaLenProofs.crlf_layout. Qed.

Example C14_schema_annotation_then_block_comment :
  map (fun e => (SchemaScanner.ev_code (SchemaScanner.e_type e), SchemaScanner.e_begin e, SchemaScanner.e_end e))
      (fst (SchemaScanner.scan false SchemaLenProofs.annotation_then_block_comment)) =
    [(0, 0, 0); (1, 0, 0); (12, 2, 3); (14, 5, 5); (15, 5, 6); (13, 2, 6); (20, 18, 18)]%N /\
  snd (SchemaScanner.scan false SchemaLenProofs.annotation_then_block_comment) = SchemaScanner.Done /\
  SchemaScanner.scan true SchemaLenProofs.annotation_then_block_comment =
    SchemaScanner.scan false SchemaLenProofs.annotation_then_block_comment /\
  SchemaScanner.schema_len SchemaLenProofs.annotation_then_block_comment = SchemaScanner.VLen 18.
Proof. exact SchemaLenProofs.annotation_then_block_comment_scan. Qed.

(* A text of annotations only has no schema (fix 2bf15a3): "Len returns an error when the text does not
   begin with a schema".  [SchemaLenProofs.nothing_found bs] in C14_schema_len_error_iff /
   C14_schema_len_value_iff now means: no value begins outside an annotation among the events Length()
   requests (SchemaLenProofs.no_example), OR the computed prefix holds nothing but blanks. *)
Theorem C14_schema_len_needs_example : forall (bs : Wire.bytes) n,
  SchemaScanner.schema_len bs = SchemaScanner.VLen n ->
  SchemaScanner.has_example 0
    (SchemaScanner.upto_end_top (SchemaScanner.drop_leading_newlines (fst (SchemaScanner.scan true bs)))) = true.
Proof. exact SchemaLenProofs.schema_len_needs_example. Qed.
Print Assumptions C14_schema_len_needs_example.

Theorem C14_schema_len_no_example : forall bs : Wire.bytes, SchemaLenProofs.no_example bs = true ->
  (forall n, SchemaScanner.schema_len bs <> SchemaScanner.VLen n) /\
  ((SchemaLenProofs.has_endtop (fst (SchemaScanner.scan true bs)) = true \/
    snd (SchemaScanner.scan true bs) = SchemaScanner.Done) ->
   SchemaScanner.schema_len bs = SchemaScanner.VErr SchemaScanner.code_empty_schema 0).
Proof. exact SchemaLenProofs.schema_len_no_example. Qed.
Print Assumptions C14_schema_len_no_example.

(* "// x" ; "/* x */" ; "// x" LF "1" ; "{}" LF "/" ; "1 // {min: 0}" LF "/" ; "[1] /" (was 304 at 4) ; "1 /" *)
Example C14_schema_len_annotations_only :
  SchemaScanner.schema_len (SchemaLenProofs.bytes_of [47; 47; 32; 120]%N) = SchemaScanner.VErr 202 0 /\
  SchemaScanner.schema_len (SchemaLenProofs.bytes_of [47; 42; 32; 120; 32; 42; 47]%N) = SchemaScanner.VErr 202 0 /\
  SchemaScanner.schema_len (SchemaLenProofs.bytes_of [47; 47; 32; 120; 10; 49]%N) = SchemaScanner.VLen 6 /\
  SchemaScanner.schema_len (SchemaLenProofs.bytes_of [123; 125; 10; 47]%N) = SchemaScanner.VLen 2 /\
  SchemaScanner.schema_len (SchemaLenProofs.bytes_of [49; 32; 47; 47; 32; 123; 109; 105; 110; 58; 32; 48; 125; 10; 47]%N) = SchemaScanner.VLen 13 /\
  SchemaScanner.schema_len (SchemaLenProofs.bytes_of [91; 49; 93; 32; 47]%N) = SchemaScanner.VLen 3 /\
  snd (SchemaScanner.scan true (SchemaLenProofs.bytes_of [49; 32; 47]%N)) = SchemaScanner.Done /\
  snd (SchemaScanner.scan false (SchemaLenProofs.bytes_of [49; 32; 47]%N)) = SchemaScanner.Err 303 2 /\
  SchemaScanner.schema_len (SchemaLenProofs.bytes_of [47]%N) = SchemaScanner.VErr 303 0 /\
  snd (SchemaScanner.scan true (SchemaLenProofs.bytes_of [32; 47]%N)) = SchemaScanner.Err 303 1.
Proof. exact SchemaLenProofs.schema_len_annotations_only. Qed.
