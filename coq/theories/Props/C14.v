(* Property C14 — Len (Document.Len, model doc_len): for a JSON document followed by text that
   cannot continue it, Len is the length of the document without its trailing blanks; the same
   for a document alone; with no leading document Len reports an error.
   Only statements; proofs live in Json/EventsProofs.v. *)
From Coq Require Import List NArith Bool Arith String.
From Coq Require Import Strings.Byte.
Import ListNotations.
From JS Require Import Common.Wire Json.Scanner Json.Grammar Json.ScannerProofs Json.EventsProofs.

(* trim_trailing_blanks bs = rev (trim_blank_rev (rev bs));
   ends_closed bs: the last non-blank byte of bs is ] } or a double quote *)
Theorem C14_len_of_document_then_foreign : forall doc sep rest c,
  check false doc = VOk ->
  all_blank sep = true -> is_blank c = false ->
  (sep <> [] \/ ends_closed doc = true) ->
  fst (doc_len true (doc ++ sep ++ c :: rest)) = VOk /\
  snd (doc_len true (doc ++ sep ++ c :: rest)) = N.of_nat (List.length (trim_trailing_blanks doc)).
Proof. exact len_of_document_then_foreign. Qed.
Print Assumptions C14_len_of_document_then_foreign.

Theorem C14_len_of_document_alone : forall doc, check false doc = VOk ->
  doc_len true doc = (VOk, N.of_nat (List.length (trim_trailing_blanks doc))) /\
  doc_len false doc = (VOk, N.of_nat (List.length (trim_trailing_blanks doc))).
Proof. exact len_of_document_alone. Qed.
Print Assumptions C14_len_of_document_alone.

Theorem C14_len_error_when_no_document : forall bs, check true bs <> VOk ->
  exists c p, fst (doc_len true bs) = VErr c p.
Proof. exact len_error_when_no_document. Qed.
Print Assumptions C14_len_error_when_no_document.

(* the verdict of Len is the verdict of Check *)
Theorem C14_doc_len_verdict : forall allow bs, fst (doc_len allow bs) = check allow bs.
Proof. exact doc_len_fst. Qed.
Print Assumptions C14_doc_len_verdict.

(* non-vacuity *)
Example C14_examples :
  doc_len true (of_string "{} x"%string) = (VOk, 2%N) /\
  doc_len true (of_string "1x"%string) = (VOk, 1%N) /\
  doc_len true (of_string "[1] "%string ++ [x0a] ++ of_string " GET"%string) = (VOk, 3%N) /\
  doc_len true (of_string " ""a"" "%string) = (VOk, 4%N) /\
  doc_len false (of_string " 12  "%string) = (VOk, 3%N) /\
  trim_trailing_blanks (of_string " 12  "%string) = of_string " 12"%string /\
  ends_closed (of_string "[1] "%string) = true /\ ends_closed (of_string "12"%string) = false /\
  (* the side condition of C14_len_of_document_then_foreign matters: a byte that continues the
     literal is not foreign *)
  doc_len true (of_string "12"%string) = (VOk, 2%N) /\
  fst (doc_len true (of_string "1e"%string)) <> VOk /\
  fst (doc_len true (of_string "x"%string)) <> VOk /\
  fst (doc_len true (of_string "  "%string)) = VErr code_empty_json 0%N.
Proof. vm_compute. repeat split; try reflexivity; discriminate. Qed.

(* ---------- Enum.Len (rules/enum/enum.go; model EnumScanner.enum_len) ---------- *)
From JS Require Enum.EnumScanner Enum.EnumProofs.

(* what Len returns is a prefix length: not longer than the text; when positive it ends on a
   byte that is not a blank; it is positive exactly when the text is not blank (a blank or empty
   text has Len 0: EnumProofs.enum_len_prefix_counterexample) *)
Theorem C14_enum_len_prefix : forall bs n, EnumScanner.enum_len bs = (EnumScanner.VOk, n) ->
  (N.to_nat n <= List.length bs)%nat /\
  ((0 < n)%N -> forall c, nth_error bs (N.to_nat n - 1) = Some c -> EnumScanner.is_blank c = false) /\
  ((0 < n)%N <-> forallb EnumScanner.is_blank bs = false).
Proof. exact EnumProofs.enum_len_prefix. Qed.
Print Assumptions C14_enum_len_prefix.

(* Len of that prefix is the same number *)
Theorem C14_enum_len_stable : forall bs n, EnumScanner.enum_len bs = (EnumScanner.VOk, n) ->
  EnumScanner.enum_len (firstn (N.to_nat n) bs) = (EnumScanner.VOk, n).
Proof. exact EnumProofs.enum_len_stable. Qed.
Print Assumptions C14_enum_len_stable.

(* Property C14 for Schema.Len (model SchemaScanner.schema_len).  What Len returns is a prefix
   length: not longer than the text and, when positive, not ending in a blank.
   "Positive" does NOT hold for every text: Len is 0 for an empty text, a text of blanks, a text that
   is only a comment, or a lone '/' (see the examples below).  The requested statement is therefore
   split: C14_schema_len_prefix is the requested one without (0 < n) (and with the last-byte clause
   guarded by 0 < n); C14_schema_len_positive gives (0 < n) for every text that begins, after blanks,
   with a byte other than '#' and '/', i.e. with a value.
   Proofs in SchemaScan/SchemaProofs.v. *)
From JS Require SchemaScan.SchemaScanner SchemaScan.SchemaProofs.

Theorem C14_schema_len_prefix : forall (bs : Wire.bytes) n,
  SchemaScanner.schema_len bs = SchemaScanner.VLen n ->
  (N.to_nat n <= List.length bs)%nat /\
  (forall c, nth_error bs (N.to_nat n - 1) = Some c -> (0 < n)%N -> SchemaScanner.is_blank c = false).
Proof. exact SchemaProofs.schema_len_prefix. Qed.
Print Assumptions C14_schema_len_prefix.

Theorem C14_schema_len_positive : forall (pre : Wire.bytes) c (r : Wire.bytes) n,
  forallb SchemaScanner.is_blank pre = true -> SchemaScanner.is_blank c = false ->
  SchemaScanner.ch c 35 = false -> SchemaScanner.ch c 47 = false ->
  SchemaScanner.schema_len (pre ++ c :: r) = SchemaScanner.VLen n -> (0 < n)%N.
Proof. exact SchemaProofs.schema_len_positive. Qed.
Print Assumptions C14_schema_len_positive.

Example C14_schema_len_examples :
  SchemaScanner.schema_len [] = SchemaScanner.VLen 0 /\
  SchemaScanner.schema_len (of_string "  "%string) = SchemaScanner.VLen 0 /\
  SchemaScanner.schema_len (of_string "#abc"%string) = SchemaScanner.VLen 0 /\
  SchemaScanner.schema_len (of_string "/"%string) = SchemaScanner.VLen 0 /\
  SchemaScanner.schema_len [x0a; x0a] = SchemaScanner.VLen 0 /\
  SchemaScanner.schema_len (of_string "12 x"%string) = SchemaScanner.VLen 2 /\
  SchemaScanner.schema_len (of_string "{} // {a: 1}  "%string ++ [x0a] ++ of_string "GET"%string) = SchemaScanner.VLen 12.
Proof. vm_compute. repeat split; reflexivity. Qed.
