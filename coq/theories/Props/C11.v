(* Property C11 — the public objects (Schema, Document, Enum, Regex) behave like pure functions
   of their immutable source: whatever operations ran before, on this or on other objects, an
   operation returns the pure function [eval] of its object's source (once-cells only cache
   it), and a value handed to the caller (Example()) is never changed by later API calls.  The
   pre-fix Example(), which handed out the pooled buffer itself, is refuted.
   Model: Api/Objects.v (Sections Objects and Pool).  Only statements; proofs live in
   Api/ObjectsProofs.v.  The result / operation-kind / source / byte types, the equality test
   on operation kinds and the pure function [eval] are universally quantified. *)
From Coq Require Import List NArith Bool Arith.
Import ListNotations.
From JS Require Import Api.Objects Api.ObjectsProofs.

(* run any list of operations (object id, operation kind) on freshly created objects with
   sources srcs: every result is the pure value for that object's source (None: no such
   object), and every cell filled on the way holds the pure value *)
Theorem C11_history_independent :
  forall (result opkind : Type) (opkind_eqb : opkind -> opkind -> bool),
  (forall a b, opkind_eqb a b = true <-> a = b) ->
  forall (source : Type) (eval : opkind -> source -> result)
         (srcs : list source) (ops : list (objid * opkind)),
  snd (run result opkind opkind_eqb source eval (fresh result opkind source srcs) ops)
  = map (fun op => option_map (eval (snd op)) (nth_error srcs (fst op))) ops
  /\ world_ok result opkind opkind_eqb source eval
       (fst (run result opkind opkind_eqb source eval (fresh result opkind source srcs) ops)).
Proof. exact history_independent. Qed.
Print Assumptions C11_history_independent.

(* an operation after any history h returns what it returns on fresh objects *)
Theorem C11_same_as_fresh :
  forall (result opkind : Type) (opkind_eqb : opkind -> opkind -> bool),
  (forall a b, opkind_eqb a b = true <-> a = b) ->
  forall (source : Type) (eval : opkind -> source -> result)
         (srcs : list source) (h : list (objid * opkind)) (op : objid * opkind),
  snd (step result opkind opkind_eqb source eval
         (fst (run result opkind opkind_eqb source eval (fresh result opkind source srcs) h)) op)
  = snd (step result opkind opkind_eqb source eval (fresh result opkind source srcs) op).
Proof. exact same_as_fresh. Qed.
Print Assumptions C11_same_as_fresh.

(* repaired Example(): whatever buffers the pool hands out (adversarial choices), what the
   caller already holds keeps its contents, and every returned reference reads, at the end,
   the data of its own call *)
Theorem C11_returned_values_stable :
  forall (byte_t : Type) (calls : list (choice * buffer byte_t)) (m : mem byte_t),
  mem_ok byte_t m ->
  let '(m', rs) := run_examples byte_t (example_copy byte_t) m calls in
  mem_ok byte_t m' /\
  (forall b d, In b (handed byte_t m) -> read byte_t m b = Some d -> read byte_t m' b = Some d) /\
  Forall2 (fun r cd => read byte_t m' r = Some (snd cd)) rs calls.
Proof. exact returned_values_stable. Qed.
Print Assumptions C11_returned_values_stable.

(* the defective variant: the value returned by the first call is changed by the second *)
Theorem C11_alias_refuted : exists (calls : list (choice * buffer bool)),
  let '(m', rs) := run_examples bool (example_alias bool) (mem0 bool) calls in
  exists r d, nth_error rs 0 = Some r /\ nth_error calls 0 = Some (None, d) /\ read bool m' r <> Some d.
Proof. exact alias_refuted. Qed.
Print Assumptions C11_alias_refuted.

(* non-vacuity: the initial memory satisfies the invariant, and on the refuting call sequence
   the repaired Example() keeps the first value *)
Example C11_examples :
  mem_ok bool (mem0 bool) /\
  (let '(m', rs) := run_examples bool (example_copy bool) (mem0 bool)
                      [(None, [true]); (Some 0, [false])] in
   rs = [1; 2] /\ read bool m' 1 = Some [true] /\ read bool m' 2 = Some [false]) /\
  (let '(m', rs) := run_examples bool (example_alias bool) (mem0 bool)
                      [(None, [true]); (Some 0, [false])] in
   rs = [0; 0] /\ read bool m' 0 = Some [false]).
Proof.
  split.
  - unfold mem_ok; simpl. repeat split; try (intros b Hb; contradiction). constructor.
  - vm_compute. repeat split; reflexivity.
Qed.
