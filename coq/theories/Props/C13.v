(* Property C13, proved part (document half) — re-spelling a document without changing its
   JSON value leaves the verdict unchanged:
   * property order: the validator model's verdict is invariant under any permutation of an
     object's members (C01 development);
   * whitespace: being an accepted JSON text does not depend on the blanks chosen at the
     structural gaps - the set of accepted texts is exactly the renderings of value trees
     with arbitrary blanks (C05 development), so two renderings of the same tree that differ
     only in their blanks are both accepted.
   * string escapes: every admissible spelling of a string value (literal UTF-8, two-byte
     escapes, \uXXXX in either case, surrogate pairs) is decoded by bytes.Unquote to the same
     bytes (Text/Unquote.v, UnquoteProofs.v): C13_escape_respelling below.
   The schema half (line ends, indentation, comments, annotation forms, quoted rule names,
   trailing commas, rule order) is decided by equality across random compositions of the
   rewrites (lib/check_c13.py); the schema scanner is not modelled. *)
From Coq Require Import List Bool Permutation.
From Coq Require Import Strings.Byte.
Import ListNotations.
From JS Require Import Common.Wire Schema.Shape Schema.ShapeProofs Json.Scanner Json.Grammar Json.GrammarProofs Json.ScannerProofs.

Theorem C13_document_property_order : forall ms nl an dms dms', Permutation dms dms' ->
  (validate (SObj ms nl an) (Shape.JObj dms) = None <-> validate (SObj ms nl an) (Shape.JObj dms') = None).
Proof. exact validate_perm. Qed.
Print Assumptions C13_document_property_order.

Theorem C13_shape_property_order : forall ms nl an dms dms', Permutation dms dms' ->
  shape_ok (SObj ms nl an) (Shape.JObj dms) = shape_ok (SObj ms nl an) (Shape.JObj dms').
Proof. exact shape_ok_perm. Qed.
Print Assumptions C13_shape_property_order.

(* surrounding blanks never matter for acceptance *)
Theorem C13_document_outer_whitespace : forall w1 w1' w2 w2' v,
  all_blank w1 = true -> all_blank w1' = true -> all_blank w2 = true -> all_blank w2' = true -> Grammar.wf v = true ->
  check false (w1 ++ Grammar.render v ++ w2) = VOk /\ check false (w1' ++ Grammar.render v ++ w2') = VOk.
Proof.
  intros w1 w1' w2 w2' v H1 H1' H2 H2' Hv. split; apply check_strict_iff, rfc8259_iff_JsonText.
  - exists w1, v, w2. repeat split; assumption.
  - exists w1', v, w2'. repeat split; assumption.
Qed.
Print Assumptions C13_document_outer_whitespace.

(* every well-formed layout of a value tree is accepted: the verdict "is a JSON text" cannot
   depend on which blanks the layout carries *)
Theorem C13_any_layout_accepted : forall v, Grammar.wf v = true -> check false (Grammar.render v) = VOk.
Proof.
  intros v Hv. apply check_strict_iff, rfc8259_iff_JsonText.
  exists [], v, []. rewrite app_nil_r. repeat split; auto.
Qed.
Print Assumptions C13_any_layout_accepted.

(* ---------- string escapes (proofs in Text/UnquoteProofs.v) ---------- *)
From Coq Require Import NArith.
From JS Require Text.Unquote Text.UnquoteProofs.

(* two spellings of the same string value (literal bytes, two-byte escapes, \uXXXX in any
   hex case, surrogate pairs) are indistinguishable after Unquote, hence to every rule *)
Theorem C13_escape_respelling : forall rs s1 s2 b1 b2, forallb Unquote.scalar rs = true ->
  Unquote.spell_all rs s1 = Some b1 -> Unquote.spell_all rs s2 = Some b2 ->
  Unquote.unquote (Unquote.quote b1) = Unquote.unquote (Unquote.quote b2).
Proof. exact UnquoteProofs.unquote_respelling. Qed.
Print Assumptions C13_escape_respelling.

Theorem C13_utf8_roundtrip : forall r rest, Unquote.scalar r = true ->
  Unquote.decode_rune (Unquote.encode_rune r ++ rest) = (r, List.length (Unquote.encode_rune r)).
Proof. exact UnquoteProofs.decode_encode. Qed.
Print Assumptions C13_utf8_roundtrip.

(* schema half, plain JSON schemas: the layout of the schema TEXT does not matter.  Two texts that spell
   value trees with the same mirror image (same tokens, same keys, same nesting; blanks, tabs and line
   breaks chosen freely) give the same result of the whole pipeline (Schema/E2E.v) on every document.
   Proof in Schema/E2EProofs.v. *)
From JS Require Json.Grammar Schema.Shape Schema.E2E Schema.E2EProofs SchemaScan.Loader SchemaScan.LoaderProofs.

Theorem C13_schema_layout_invariant_plain_json : forall optd w1 v w2 w1' v' w2' d,
  Json.Grammar.all_blank w1 = true -> Json.Grammar.wf v = true -> Json.Grammar.all_blank w2 = true ->
  LoaderProofs.no_exponent v = true -> LoaderProofs.distinct_keys v = true ->
  Json.Grammar.all_blank w1' = true -> Json.Grammar.wf v' = true -> Json.Grammar.all_blank w2' = true ->
  LoaderProofs.no_exponent v' = true -> LoaderProofs.distinct_keys v' = true ->
  LoaderProofs.mirror v = LoaderProofs.mirror v' ->
  E2E.e2e_validate optd (w1 ++ Json.Grammar.render v ++ w2) d =
  E2E.e2e_validate optd (w1' ++ Json.Grammar.render v' ++ w2') d.
Proof. exact E2EProofs.e2e_layout_invariant. Qed.
Print Assumptions C13_schema_layout_invariant_plain_json.

(* schema half, user comments: the gaps of a plain-JSON schema text may hold blanks, line comments
   ('#', a body without line break that does not begin with '#', then LF, CR or CRLF) and block comments
   ('###' ... '###', line breaks allowed inside) in EVERY gap position of the grammar (before and after the
   root value, after '{' and '[', between a key and its colon, between the colon and the value, after a
   value before ',' '}' ']', inside empty '{ }' and '[ ]'); the last gap may also end inside a line comment
   (no final line break), never inside a block comment or after '##' (ErrUnexpectedEOF).  Whatever stands
   in the comments, the loader builds the tree of the value: comments are transparent.
     LoaderProofs.is_gap / is_gap_end : the gap machine (is_gap_end: the last gap);
     LoaderProofs.wfg is_gap v       : Json.Grammar.wf with is_gap in place of all_blank;
   no condition on the tokens is needed ('#', '/', '@' may occur inside strings).
   Proofs in SchemaScan/LoaderProofs.v and Schema/E2EProofs.v. *)
Theorem C13_schema_comments_are_transparent : forall w1 v w2,
  LoaderProofs.is_gap w1 = true -> LoaderProofs.wfg LoaderProofs.is_gap v = true ->
  LoaderProofs.is_gap_end w2 = true ->
  LoaderProofs.no_exponent v = true -> LoaderProofs.distinct_keys v = true ->
  Loader.load (w1 ++ Json.Grammar.render v ++ w2) = Loader.LTree (Some (LoaderProofs.mirror v)).
Proof. exact LoaderProofs.load_mirrors_json_with_comments. Qed.
Print Assumptions C13_schema_comments_are_transparent.

(* user comments do not change the verdict of any document: a commented layout and a comment-free layout
   of the same value (same mirror image) give the same result of the whole pipeline *)
Theorem C13_comments_do_not_change_verdicts : forall optd w1 v w2 w1' v' w2' d,
  LoaderProofs.is_gap w1 = true -> LoaderProofs.wfg LoaderProofs.is_gap v = true ->
  LoaderProofs.is_gap_end w2 = true ->
  LoaderProofs.no_exponent v = true -> LoaderProofs.distinct_keys v = true ->
  Json.Grammar.all_blank w1' = true -> Json.Grammar.wf v' = true -> Json.Grammar.all_blank w2' = true ->
  LoaderProofs.no_exponent v' = true -> LoaderProofs.distinct_keys v' = true ->
  LoaderProofs.mirror v = LoaderProofs.mirror v' ->
  E2E.e2e_validate optd (w1 ++ Json.Grammar.render v ++ w2) d =
  E2E.e2e_validate optd (w1' ++ Json.Grammar.render v' ++ w2') d.
Proof. exact E2EProofs.e2e_comments_do_not_change_verdicts. Qed.
Print Assumptions C13_comments_do_not_change_verdicts.

(* the same between two commented layouts, and the verdict itself *)
Theorem C13_comments_invariant : forall optd w1 v w2 w1' v' w2' d,
  LoaderProofs.is_gap w1 = true -> LoaderProofs.wfg LoaderProofs.is_gap v = true ->
  LoaderProofs.is_gap_end w2 = true ->
  LoaderProofs.no_exponent v = true -> LoaderProofs.distinct_keys v = true ->
  LoaderProofs.is_gap w1' = true -> LoaderProofs.wfg LoaderProofs.is_gap v' = true ->
  LoaderProofs.is_gap_end w2' = true ->
  LoaderProofs.no_exponent v' = true -> LoaderProofs.distinct_keys v' = true ->
  LoaderProofs.mirror v = LoaderProofs.mirror v' ->
  E2E.e2e_validate optd (w1 ++ Json.Grammar.render v ++ w2) d =
  E2E.e2e_validate optd (w1' ++ Json.Grammar.render v' ++ w2') d.
Proof. exact E2EProofs.e2e_comments_invariant. Qed.
Print Assumptions C13_comments_invariant.

(* non-vacuity: a value of three levels with a gap holding a blank, a line comment (with '#', '/', '@'
   in it), a block comment over two lines and a CRLF in EVERY gap position; the last gap ends inside a
   line comment.  The text satisfies the hypotheses and the loader returns the mirror of the value, the
   same tree as for the comment-free text *)
Definition c13_gap : Wire.bytes :=
  [x20; x23; x20; x63; x23; x2f; x40; x0a; x23; x23; x23; x20; x61; x0a; x62; x20; x23; x23; x20; x23; x23; x23; x0d; x0a; x23; x0d].
Definition c13_value (c : Wire.bytes) : Json.Grammar.jv :=
  Json.Grammar.JObj
    [(c, [x22; x6b; x22], c, c,
      Json.Grammar.JArr
        [(c, Json.Grammar.JObj [(c, [x22; x7a; x22], c, c, Json.Grammar.JTok [x6e; x75; x6c; x6c], c)], c);
         (c, Json.Grammar.JObj0 c, c); (c, Json.Grammar.JArr0 c, c); (c, Json.Grammar.JTok [x31; x32], c)], c)].
Example C13_comments_in_every_gap :
  LoaderProofs.is_gap c13_gap = true /\
  LoaderProofs.wfg LoaderProofs.is_gap (c13_value c13_gap) = true /\
  LoaderProofs.is_gap_end (c13_gap ++ [x23; x20; x65; x6e; x64]) = true /\
  Loader.load (c13_gap ++ Json.Grammar.render (c13_value c13_gap) ++ c13_gap ++ [x23; x20; x65; x6e; x64]) =
    Loader.LTree (Some (LoaderProofs.mirror (c13_value c13_gap))) /\
  Loader.load (Json.Grammar.render (c13_value [])) = Loader.LTree (Some (LoaderProofs.mirror (c13_value c13_gap))) /\
  (* a gap may not end inside a block comment, nor after ## *)
  LoaderProofs.is_gap_end [x23; x23; x23; x20; x61] = false /\
  Loader.load ([x31; x20; x23; x23; x23; x20; x61]) = Loader.LError 303 6 /\
  Loader.load ([x31; x20; x23; x23]) = Loader.LError 303 3.
Proof. vm_compute. repeat split; reflexivity. Qed.

(* block comments after the fix 7ac9eeb: the third '#' belongs to the opener and is not the first '#' of
   the end.  "######" is the shortest block comment and "### ###", "#####a ###" (body "##a ") are complete;
   "#####" and "####" open a block comment that never ends: "1 #####" LF is refused with ErrUnexpectedEOF
   at its last byte (offset 7); "#######" is a gap only at the end of the text ("######" then the line
   comment "#") *)
Example C13_block_comment_opener :
  LoaderProofs.is_gap [x23; x23; x23; x23; x23; x23] = true /\
  LoaderProofs.is_gap [x23; x23; x23; x20; x23; x23; x23] = true /\
  LoaderProofs.is_gap [x23; x23; x23; x23; x23; x61; x20; x23; x23; x23] = true /\
  LoaderProofs.is_gap_end [x23; x23; x23; x23; x23] = false /\
  LoaderProofs.is_gap_end [x23; x23; x23; x23] = false /\
  LoaderProofs.is_gap [x23; x23; x23; x23; x23; x23; x23] = false /\
  LoaderProofs.is_gap_end [x23; x23; x23; x23; x23; x23; x23] = true /\
  Loader.load ([x31; x20; x23; x23; x23; x23; x23; x0a]) = Loader.LError 303 7 /\
  Loader.load ([x31; x20; x23; x23; x23; x23; x0a]) = Loader.LError 303 6 /\
  Loader.load ([x31; x20; x23; x23; x23; x23; x23; x23; x0a]) = Loader.load [x31] /\
  Loader.load ([x5b; x23; x23; x23; x23; x23; x61; x20; x23; x23; x23; x31; x5d]) = Loader.load [x5b; x31; x5d].
Proof. vm_compute. repeat split; reflexivity. Qed.

(* a block comment inside the rules of an inline annotation (the model sets the annotation mode back to
   inline after it): "1 // {min: 1 ### c ### }" LF scans to the end and loads the same node as
   "1 // {min: 1 }" LF *)
From JS Require SchemaScan.SchemaScanner.
Example C13_block_comment_inside_inline_annotation :
  let a1 := [x31; x20; x2f; x2f; x20; x7b; x6d; x69; x6e; x3a; x20; x31; x20; x23; x23; x23; x20; x63; x20; x23; x23; x23; x20; x7d; x0a] in
  let a2 := [x31; x20; x2f; x2f; x20; x7b; x6d; x69; x6e; x3a; x20; x31; x20; x7d; x0a] in
  snd (SchemaScanner.scan false a1) = SchemaScanner.Done /\
  snd (SchemaScanner.scan false a2) = SchemaScanner.Done /\
  Loader.load a1 = Loader.load a2 /\
  (exists n, Loader.load a1 = Loader.LTree (Some n)).
Proof. vm_compute. repeat split; try reflexivity. eexists; reflexivity. Qed.
