(* Property C08, table part — every rule applies exactly to the kinds of node the statement
   names, format types exclude length/regex rules, the set of rule names is the expected one.
   Decided by computation over tables translated from the Go source on every run. *)
From Coq Require Import List String Bool.
Import ListNotations.
From JS Require Import Gen.RuleTables Schema.RuleTables.
Open Scope string_scope.

Theorem C08_matrix : forall r, In r constraint_types -> row_ok r = true.
Proof.
  apply (proj1 (forallb_forall row_ok constraint_types)). vm_compute. reflexivity.
Qed.

Theorem C08_matrix_entry : forall r row, In r constraint_types -> lookup_row r compat = Some row ->
  row = map (spec_applies r) all_kinds.
Proof.
  intros r row Hin Hl. pose proof (C08_matrix r Hin) as H. unfold row_ok in H. rewrite Hl in H.
  revert H. generalize (map (spec_applies r) all_kinds). clear.
  induction row as [|x row IH]; intros [|y l] H; simpl in H; try discriminate; [reflexivity|].
  apply andb_true_iff in H. destruct H as [H1 H2]. apply Bool.eqb_prop in H1. subst. f_equal. apply IH, H2.
Qed.

Theorem C08_every_constraint_has_a_row : forall r, In r constraint_types -> exists row, lookup_row r compat = Some row.
Proof.
  intros r Hin. pose proof (C08_matrix r Hin) as H. unfold row_ok in H.
  destruct (lookup_row r compat) as [row|]; [eauto|discriminate].
Qed.

Theorem C08_formats_exclude_length_and_regex :
  forall f r, In f formats -> In r excluded_by_formats -> pair_banned f r = true.
Proof.
  intros f r Hf Hr.
  assert (H : forallb (fun f => forallb (pair_banned f) excluded_by_formats) formats = true) by (vm_compute; reflexivity).
  rewrite forallb_forall in H. specialize (H f Hf). rewrite forallb_forall in H. exact (H r Hr).
Qed.

Theorem C08_rule_names : same_set simple_rule_names expected_simple_rules = true.
Proof. vm_compute. reflexivity. Qed.

Example C08_tables_nonempty : List.length compat = 26 /\ List.length constraint_types = 26.
Proof. vm_compute. auto. Qed.

Print Assumptions C08_matrix.
Print Assumptions C08_matrix_entry.
Print Assumptions C08_formats_exclude_length_and_regex.
Print Assumptions C08_rule_names.
