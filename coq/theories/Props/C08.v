(* Property C08, table part — every rule applies exactly to the kinds of node the statement
   names, format types exclude length/regex rules, the set of rule names is the expected one.
   Decided by computation over tables translated from the Go source on every run. *)
From Coq Require Import List String Bool.
Import ListNotations.
From JS Require Import Gen.RuleTables Schema.RuleTables.
Open Scope string_scope.

Theorem C08_matrix : forall r, In r constraint_types -> row_ok r = true.
Proof.
  apply (proj1 (forallb_forall row_ok constraint_types)). vm_compute. reflexivity.
Qed.

Theorem C08_matrix_entry : forall r row, In r constraint_types -> lookup_row r compat = Some row ->
  row = map (spec_applies r) all_kinds.
Proof.
  intros r row Hin Hl. pose proof (C08_matrix r Hin) as H. unfold row_ok in H. rewrite Hl in H.
  revert H. generalize (map (spec_applies r) all_kinds). clear.
  induction row as [|x row IH]; intros [|y l] H; simpl in H; try discriminate; [reflexivity|].
  apply andb_true_iff in H. destruct H as [H1 H2]. apply Bool.eqb_prop in H1. subst. f_equal. apply IH, H2.
Qed.

Theorem C08_every_constraint_has_a_row : forall r, In r constraint_types -> exists row, lookup_row r compat = Some row.
Proof.
  intros r Hin. pose proof (C08_matrix r Hin) as H. unfold row_ok in H.
  destruct (lookup_row r compat) as [row|]; [eauto|discriminate].
Qed.

Theorem C08_formats_exclude_length_and_regex :
  forall f r, In f formats -> In r excluded_by_formats -> pair_banned f r = true.
Proof.
  intros f r Hf Hr.
  assert (H : forallb (fun f => forallb (pair_banned f) excluded_by_formats) formats = true) by (vm_compute; reflexivity).
  rewrite forallb_forall in H. specialize (H f Hf). rewrite forallb_forall in H. exact (H r Hr).
Qed.

Theorem C08_rule_names : same_set simple_rule_names expected_simple_rules = true.
Proof. vm_compute. reflexivity. Qed.

Example C08_tables_nonempty : List.length compat = 26 /\ List.length constraint_types = 26.
Proof. vm_compute. auto. Qed.

Print Assumptions C08_matrix.
Print Assumptions C08_matrix_entry.
Print Assumptions C08_formats_exclude_length_and_regex.
Print Assumptions C08_rule_names.


(* ------------------------------------------------------------------------------------------------
   Property C08, pipeline part — what Check does with the RULES of one annotated node
   (model Schema/RulePipeline.v, validated against the library by difftest; proofs Schema/RulePipelineProofs.v). *)
From Coq Require Import Permutation ZArith.
From JS Require Import Schema.RulePipeline Schema.RulePipelineProofs.

(* the verdict is the same for every order in which the rules are written *)
Theorem C08_verdict_order_independent : forall n rules rules',
  Permutation rules rules' -> is_ok (check_node n rules) = is_ok (check_node n rules').
Proof. exact verdict_permutation. Qed.

(* Check succeeds iff the statement holds — for rule values of the right JSON kind, outside the three classes
   on which the library departs from the statement (in_scope) *)
Theorem C08_check_iff_statement : forall n rules,
  well_formed_values rules = true -> in_scope n rules = true ->
  (is_ok (check_node n rules) = true <-> spec_ok n rules = true).
Proof. exact check_iff_spec. Qed.

(* the three excluded classes are real: on each, Check and the statement disagree *)
Theorem C08_statement_refuted_false_const :
  well_formed_values [("const", VBool false)] = true /\
  is_ok (check_node ex_empty_object [("const", VBool false)]) = true /\
  spec_ok ex_empty_object [("const", VBool false)] = false /\
  is_ok (check_node ex_integer [("type", VStr "any"); ("const", VBool false)]) = true /\
  spec_ok ex_integer [("type", VStr "any"); ("const", VBool false)] = false /\
  check_node ex_integer [("type", VStr "any"); ("const", VBool true)] = Err ErrUnexpectedConstraint.
Proof. exact check_iff_spec_refuted_false_const. Qed.

Theorem C08_statement_refuted_empty_array :
  well_formed_values [("maxItems", VNum (1%Z, 0))] = true /\
  check_node ex_empty_array [("maxItems", VNum (1%Z, 0))] = Err ErrIncorrectConstraintValueForEmptyArray /\
  spec_ok ex_empty_array [("maxItems", VNum (1%Z, 0))] = true.
Proof. exact check_iff_spec_refuted_empty_array. Qed.

Theorem C08_statement_refuted_container :
  check_node ex_object [("type", VStr "any")] = Err ErrInvalidNestedElementsFoundForTypeAny /\
  spec_ok ex_object [("type", VStr "any")] = true /\
  check_node ex_empty_object [("type", VStr "@o")] = Err ErrInvalidChildNodeTogetherWithTypeReference /\
  spec_ok ex_empty_object [("type", VStr "@o")] = true /\
  check_node ex_empty_object [("or", VOrList true 2 true)] = Err ErrInvalidChildNodeTogetherWithOrRule /\
  spec_ok ex_empty_object [("or", VOrList true 2 true)] = true.
Proof. exact check_iff_spec_refuted_container. Qed.

Print Assumptions C08_verdict_order_independent.
Print Assumptions C08_check_iff_statement.
Print Assumptions C08_statement_refuted_false_const.
Print Assumptions C08_statement_refuted_empty_array.
Print Assumptions C08_statement_refuted_container.
