(* Property C02 — the format and numeric rules decide exactly what their specification says:
   date  = YYYY-MM-DD of a proleptic Gregorian date, uuid = one of the four accepted shapes,
   minimum / maximum / precision = exact rational comparison.
   Only statements; proofs live in Text/FormatsProofs.v and Num/NumProofs.v. *)
From Coq Require Import List ZArith NArith QArith Bool Arith String.
From Coq Require Import Strings.Byte.
Import ListNotations.
From JS Require Import Common.Wire Num.NumModel Num.NumSpec Num.NumProofs.
From JS Require Import Text.Formats Text.FormatsProofs.

Theorem C02_date_ok_iff : forall s, date_ok s = true <->
  exists y m d, valid_ymd y m d = true /\ s = fmt_date y m d.
Proof. exact date_ok_iff. Qed.
Print Assumptions C02_date_ok_iff.

Theorem C02_date_ok_length : forall s, date_ok s = true -> List.length s = 10%nat.
Proof. exact date_ok_length. Qed.
Print Assumptions C02_date_ok_length.

Theorem C02_uuid_ok_shapes : forall b, uuid_ok b = true <->
  canonical36 b = true \/
  (exists p c, List.length p = 9%nat /\ map lower p = urn_prefix /\ canonical36 c = true /\ b = p ++ c) \/
  (exists c, canonical36 c = true /\ b = [x7b] ++ c ++ [x7d]) \/
  (List.length b = 32%nat /\ forallb is_hex b = true).
Proof. exact uuid_ok_shapes. Qed.
Print Assumptions C02_uuid_ok_shapes.

Theorem C02_canonical36_length : forall b, canonical36 b = true -> List.length b = 36%nat.
Proof. exact canonical36_length. Qed.
Print Assumptions C02_canonical36_length.

(* numeric rules (proved for property C10, restated here under their C02 names) *)
Theorem C02_min_exact : forall ex b v, canonical b -> canonical v ->
  min_ok ex b v = if ex then Qcmp_bool_lt (number_value b) (number_value v)
                  else Qcmp_bool_le (number_value b) (number_value v).
Proof. exact min_ok_exact. Qed.
Print Assumptions C02_min_exact.

Theorem C02_max_exact : forall ex b v, canonical b -> canonical v ->
  max_ok ex b v = if ex then Qcmp_bool_lt (number_value v) (number_value b)
                  else Qcmp_bool_le (number_value v) (number_value b).
Proof. exact max_ok_exact. Qed.
Print Assumptions C02_max_exact.

Theorem C02_precision_iff : forall p n, canonical n ->
  (precision_ok p n = true <->
   exists z : Z, Qeq (Qmult (number_value n) (inject_Z (Z.pow 10 (Z.of_nat p)))) (inject_Z z)).
Proof. exact precision_iff. Qed.
Print Assumptions C02_precision_iff.

(* non-vacuity *)
Example C02_date_leap : date_ok (of_string "2020-02-29"%string) = true.
Proof. vm_compute. reflexivity. Qed.
Example C02_date_not_leap : date_ok (of_string "2021-02-29"%string) = false.
Proof. vm_compute. reflexivity. Qed.
Example C02_date_month13 : date_ok (of_string "2020-13-01"%string) = false.
Proof. vm_compute. reflexivity. Qed.
Example C02_date_year0 : date_ok (of_string "0000-01-01"%string) = true.
Proof. vm_compute. reflexivity. Qed.
Example C02_date_century : date_ok (of_string "1900-02-29"%string) = false /\
                           date_ok (of_string "2000-02-29"%string) = true.
Proof. vm_compute. split; reflexivity. Qed.
Example C02_date_short : date_ok (of_string "2020-2-29"%string) = false.
Proof. vm_compute. reflexivity. Qed.

Example C02_uuid_canonical : uuid_ok (of_string "123e4567-E89B-12d3-a456-426614174000"%string) = true.
Proof. vm_compute. reflexivity. Qed.
Example C02_uuid_urn : uuid_ok (of_string "URN:uuid:123e4567-e89b-12d3-a456-426614174000"%string) = true.
Proof. vm_compute. reflexivity. Qed.
Example C02_uuid_braces : uuid_ok (of_string "{123e4567-e89b-12d3-a456-426614174000}"%string) = true.
Proof. vm_compute. reflexivity. Qed.
Example C02_uuid_hex32 : uuid_ok (of_string "123e4567e89b12d3a456426614174000"%string) = true.
Proof. vm_compute. reflexivity. Qed.
Example C02_uuid_nonhex : uuid_ok (of_string "123e4567-e89b-12d3-a456-42661417400g"%string) = false.
Proof. vm_compute. reflexivity. Qed.
Example C02_uuid_bad_prefix : uuid_ok (of_string "urn:uuix:123e4567-e89b-12d3-a456-426614174000"%string) = false.
Proof. vm_compute. reflexivity. Qed.

(* ---------- string values: what minLength / maxLength / regex / enum / const see ----------
   Every rule that looks at a string value looks at Unquote(token) (Text/Unquote.v).
   Proofs live in Text/UnquoteProofs.v. *)
From JS Require Text.Unquote Text.UnquoteProofs Json.Scanner Json.Grammar.

(* the length the rules measure is the length of the decoded value (its UTF-8 bytes),
   whatever escapes the token uses to spell it *)
Theorem C02_length_is_decoded_length : forall rs sps body,
  forallb Unquote.scalar rs = true -> Unquote.spell_all rs sps = Some body ->
  List.length (Unquote.unquote (Unquote.quote body)) = List.length (Unquote.utf8 rs).
Proof. exact UnquoteProofs.unquote_length. Qed.
Print Assumptions C02_length_is_decoded_length.

(* a token the JSON scanner accepts as a string never makes unquoteBytes fail *)
Theorem C02_string_tokens_always_unquote : forall b,
  Grammar.lex_string_body (b ++ [x22]) = Some [] ->
  exists t, Unquote.unquote_bytes (Unquote.quote b) = Some t.
Proof. exact UnquoteProofs.unquote_scanner_ok. Qed.
Print Assumptions C02_string_tokens_always_unquote.

(* ---------- datetime: the rule is exactly RFC 3339 date-time ----------
   The specification [DateTime] (Text/FormatsSpec.v) is written from RFC 3339 section 5.6; proofs live in
   Text/FormatsProofs.v. *)
From JS Require Import Text.FormatsSpec.

Theorem C02_datetime_ok_iff : forall s, datetime_ok s = true <-> DateTime s.
Proof. exact datetime_ok_iff. Qed.
Print Assumptions C02_datetime_ok_iff.

(* the time-offset reader alone: Some offset (minutes east of UTC) exactly on the time-offset texts *)
Theorem C02_zone_offset_iff : forall z off, zone_offset z = Some off <-> zone_spec z off.
Proof. exact zone_offset_iff. Qed.
Print Assumptions C02_zone_offset_iff.

Theorem C02_datetime_ok_min_length : forall s, datetime_ok s = true -> (20 <= List.length s)%nat.
Proof. exact datetime_ok_min_length. Qed.
Print Assumptions C02_datetime_ok_min_length.

Theorem C02_datetime_date_part : forall s, datetime_ok s = true -> date_ok (firstn 10 s) = true.
Proof. exact datetime_date_part. Qed.
Print Assumptions C02_datetime_date_part.

(* non-vacuity *)
Example C02_datetime_leap_second_utc :
  datetime_ok (of_string "2016-12-31T23:59:60Z"%string) = true /\
  datetime_ok (of_string "2016-12-31T15:59:60.7-08:00"%string) = true /\
  datetime_ok (of_string "2017-01-01T08:59:60+09:00"%string) = true /\
  datetime_ok (of_string "2016-12-31T23:59:60+01:00"%string) = false.
Proof. exact datetime_leap_second_utc_examples. Qed.
Example C02_datetime_plain : datetime_ok (of_string "2020-01-01T00:00:00Z"%string) = true /\
                             datetime_ok (of_string "2020-01-01t00:00:00.123456789z"%string) = true /\
                             datetime_ok (of_string "2020-01-01T23:59:59-00:00"%string) = true.
Proof. vm_compute. repeat split; reflexivity. Qed.
Example C02_datetime_second60_midday : datetime_ok (of_string "2020-01-01T00:00:60Z"%string) = false.
Proof. vm_compute. reflexivity. Qed.
Example C02_datetime_empty_fraction : datetime_ok (of_string "2020-01-01T00:00:00.Z"%string) = false.
Proof. vm_compute. reflexivity. Qed.
Example C02_datetime_offset24 : datetime_ok (of_string "2020-01-01T00:00:00+24:00"%string) = false.
Proof. vm_compute. reflexivity. Qed.
Example C02_datetime_not_leap : datetime_ok (of_string "2021-02-29T00:00:00Z"%string) = false.
Proof. vm_compute. reflexivity. Qed.
Example C02_datetime_trailing : datetime_ok (of_string "2020-01-01T00:00:00Zx"%string) = false /\
                                datetime_ok (of_string "2020-01-01T00:00:00.123Z9"%string) = false.
Proof. vm_compute. split; reflexivity. Qed.
Example C02_datetime_no_zone : datetime_ok (of_string "2020-01-01T00:00:00"%string) = false /\
                               datetime_ok (of_string "2020-01-01T00:00:00.5"%string) = false.
Proof. vm_compute. split; reflexivity. Qed.
Example C02_datetime_spec_witnesses : DateTime (of_string "2016-12-31T15:59:60.7-08:00"%string).
Proof. exact DateTime_witnesses. Qed.
Example C02_datetime_spec_refuses : ~ DateTime (of_string "2016-12-31T23:59:60+01:00"%string).
Proof. exact (proj1 DateTime_refused). Qed.
