(* Property C17 (rendering half) — an error with a byte index is rendered without panic on
   every in-range position, slice bounds hold, the new-line byte is detected correctly on
   LF / CR / CRLF files, and line number, shown source text and caret offset are the ones
   the specification (Text/RenderSpec.v) prescribes.
   Only statements; proofs live in Text/RenderProofs.v. *)
From Coq Require Import List ZArith NArith Bool.
From Coq Require Import Strings.Byte.
Import ListNotations.
From JS Require Import Common.Wire Text.Render Text.RenderSpec Text.RenderProofs.

Theorem C17_render_total : forall content p, (p < N.of_nat (length content))%N -> render content p <> RPanic.
Proof. exact render_total. Qed.
Print Assumptions C17_render_total.

Theorem C17_slice_bounds : forall content p, (p < N.of_nat (length content))%N ->
  let nl := detect_nl content in
  (line_begin nl content p <= p /\ line_begin nl content p <= line_end nl content p /\ line_end nl content p <= N.of_nat (length content))%N.
Proof. exact slice_bounds. Qed.
Print Assumptions C17_slice_bounds.

Theorem C17_detect_nl_lf : forall content, lf_file content = true -> detect_nl content = LF.
Proof. exact detect_nl_lf. Qed.
Print Assumptions C17_detect_nl_lf.

Theorem C17_detect_nl_cr : forall content, cr_file content = true -> detect_nl content = CR.
Proof. exact detect_nl_cr. Qed.
Print Assumptions C17_detect_nl_cr.

Theorem C17_detect_nl_crlf : forall content, crlf_file content = true -> detect_nl content = LF.
Proof. exact detect_nl_crlf. Qed.
Print Assumptions C17_detect_nl_crlf.

Theorem C17_line_number_lf : forall content p, lf_file content = true -> (p < N.of_nat (length content))%N ->
  line_no content p = N.succ (count_byte LF (firstn (N.to_nat p) content)).
Proof. exact line_number_lf. Qed.
Print Assumptions C17_line_number_lf.

Theorem C17_line_number_cr : forall content p, cr_file content = true -> (p < N.of_nat (length content))%N ->
  line_no content p = N.succ (count_byte CR (firstn (N.to_nat p) content)).
Proof. exact line_number_cr. Qed.
Print Assumptions C17_line_number_cr.

Theorem C17_line_number_crlf : forall content p, crlf_file content = true -> (p < N.of_nat (length content))%N ->
  line_no content p = N.succ (count_byte LF (firstn (N.to_nat p) content)).
Proof. exact line_number_crlf. Qed.
Print Assumptions C17_line_number_crlf.

Theorem C17_line_text_lf : forall content pre line post p, lf_file content = true -> is_line_at LF content pre line post p ->
  (lead_blanks (firstn 197 line) < length (firstn 197 line))%nat ->
  source_substring content p = shown line.
Proof. exact line_text_lf. Qed.
Print Assumptions C17_line_text_lf.

Theorem C17_caret_lf : forall content pre line post p, lf_file content = true -> is_line_at LF content pre line post p ->
  (lead_blanks line < length line)%nat ->
  caret_offset content p = N.of_nat (N.to_nat p - length pre - lead_blanks line).
Proof. exact caret_lf. Qed.
Print Assumptions C17_caret_lf.

Theorem C17_line_text_cr : forall content pre line post p, cr_file content = true -> is_line_at CR content pre line post p ->
  (lead_blanks (firstn 197 line) < length (firstn 197 line))%nat ->
  source_substring content p = shown line.
Proof. exact line_text_cr. Qed.
Print Assumptions C17_line_text_cr.

Theorem C17_caret_cr : forall content pre line post p, cr_file content = true -> is_line_at CR content pre line post p ->
  (lead_blanks line < length line)%nat ->
  caret_offset content p = N.of_nat (N.to_nat p - length pre - lead_blanks line).
Proof. exact caret_cr. Qed.
Print Assumptions C17_caret_cr.

(* "ab\n  cd e\nxyz", position 6 (the 'd' on line 2): line 2, shown text "cd e", caret offset 1 *)
Example C17_example :
  render [x61; x62; x0a; x20; x20; x63; x64; x20; x65; x0a; x78; x79; x7a] 6
  = ROk 2 [x63; x64; x20; x65] 1.
Proof. vm_compute. reflexivity. Qed.

(* Property C17 (parsing half) — the position Document.Check (strict mode) reports for a JSON
   text is the offset of the first byte that cannot continue the text; an input that merely
   ends early is reported at its last byte.  Proofs live in Json/ViableProofs.v. *)
From JS Require Json.Scanner Json.Grammar Json.ViableProofs.

Theorem C17_parse_error_at_first_non_viable_byte : forall bs c p,
  Scanner.check false bs = Scanner.VErr c p ->
     (c = Scanner.code_invalid_character /\ (N.to_nat p < length bs)%nat /\
      ViableProofs.viable (firstn (N.to_nat p) bs) /\ ~ ViableProofs.viable (firstn (S (N.to_nat p)) bs))
  \/ (c = Scanner.code_unexpected_eof /\ bs <> [] /\ p = N.of_nat (length bs - 1) /\
      ViableProofs.viable bs /\ Grammar.rfc8259 bs = false)
  \/ (c = Scanner.code_empty_json /\ p = 0%N /\ Grammar.all_blank bs = true).
Proof. exact ViableProofs.error_position_viable_prefix. Qed.
Print Assumptions C17_parse_error_at_first_non_viable_byte.

Theorem C17_non_viable_rejected_at_first : forall bs n, (n < length bs)%nat ->
  ViableProofs.viable (firstn n bs) -> ~ ViableProofs.viable (firstn (S n) bs) ->
  Scanner.check false bs = Scanner.VErr Scanner.code_invalid_character (N.of_nat n).
Proof. exact ViableProofs.non_viable_rejected_at_first. Qed.
Print Assumptions C17_non_viable_rejected_at_first.

Theorem C17_early_end_reported_at_last_byte : forall bs, ViableProofs.viable bs ->
  Grammar.rfc8259 bs = false -> Grammar.all_blank bs = false ->
  Scanner.check false bs = Scanner.VErr Scanner.code_unexpected_eof (N.of_nat (length bs - 1)).
Proof. exact ViableProofs.viable_incomplete_reported_at_end. Qed.
Print Assumptions C17_early_end_reported_at_last_byte.

(* Property C17 (schema scanning) — a DocumentError of the schema scanner points inside the text:
   at the byte being read, or at the last byte when the text ends early.  Proof in
   SchemaScan/SchemaProofs.v. *)
From JS Require SchemaScan.SchemaScanner SchemaScan.SchemaProofs.

Theorem C17_schema_error_position_inside : forall (lc : bool) (bs : Wire.bytes) c p,
  snd (SchemaScanner.scan lc bs) = SchemaScanner.Err c p -> bs <> [] ->
  (N.to_nat p < List.length bs)%nat.
Proof. exact SchemaProofs.schema_error_position_inside. Qed.
Print Assumptions C17_schema_error_position_inside.
