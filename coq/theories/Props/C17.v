(* Property C17 (rendering half) — an error with a byte index is rendered without panic on
   every in-range position, slice bounds hold, the new-line byte is detected correctly on
   LF / CR / CRLF files, and line number, shown source text and caret offset are the ones
   the specification (Text/RenderSpec.v) prescribes.
   Only statements; proofs live in Text/RenderProofs.v. *)
From Coq Require Import List ZArith NArith Bool.
From Coq Require Import Strings.Byte.
Import ListNotations.
From JS Require Import Common.Wire Text.Render Text.RenderSpec Text.RenderProofs.

Theorem C17_render_total : forall content p, (p < N.of_nat (length content))%N -> render content p <> RPanic.
Proof. exact render_total. Qed.
Print Assumptions C17_render_total.

Theorem C17_slice_bounds : forall content p, (p < N.of_nat (length content))%N ->
  let nl := detect_nl content in
  (line_begin nl content p <= p /\ line_begin nl content p <= line_end nl content p /\ line_end nl content p <= N.of_nat (length content))%N.
Proof. exact slice_bounds. Qed.
Print Assumptions C17_slice_bounds.

Theorem C17_detect_nl_lf : forall content, lf_file content = true -> detect_nl content = LF.
Proof. exact detect_nl_lf. Qed.
Print Assumptions C17_detect_nl_lf.

Theorem C17_detect_nl_cr : forall content, cr_file content = true -> detect_nl content = CR.
Proof. exact detect_nl_cr. Qed.
Print Assumptions C17_detect_nl_cr.

Theorem C17_detect_nl_crlf : forall content, crlf_file content = true -> detect_nl content = LF.
Proof. exact detect_nl_crlf. Qed.
Print Assumptions C17_detect_nl_crlf.

Theorem C17_line_number_lf : forall content p, lf_file content = true -> (p < N.of_nat (length content))%N ->
  line_no content p = N.succ (count_byte LF (firstn (N.to_nat p) content)).
Proof. exact line_number_lf. Qed.
Print Assumptions C17_line_number_lf.

Theorem C17_line_number_cr : forall content p, cr_file content = true -> (p < N.of_nat (length content))%N ->
  line_no content p = N.succ (count_byte CR (firstn (N.to_nat p) content)).
Proof. exact line_number_cr. Qed.
Print Assumptions C17_line_number_cr.

Theorem C17_line_number_crlf : forall content p, crlf_file content = true -> (p < N.of_nat (length content))%N ->
  line_no content p = N.succ (count_byte LF (firstn (N.to_nat p) content)).
Proof. exact line_number_crlf. Qed.
Print Assumptions C17_line_number_crlf.

(* shown text and caret: no condition on the line - a line of blanks only (or an empty one) is shown as the
   empty text ([shown line = []], RenderProofs.shown_all_blank) and the caret offset is 0 up to the end of the
   blanks (natural-number subtraction) *)
Theorem C17_line_text_lf : forall content pre line post p, lf_file content = true -> is_line_at LF content pre line post p ->
  source_substring content p = shown line.
Proof. exact line_text_lf. Qed.
Print Assumptions C17_line_text_lf.

Theorem C17_caret_lf : forall content pre line post p, lf_file content = true -> is_line_at LF content pre line post p ->
  caret_offset content p = N.of_nat (N.to_nat p - length pre - lead_blanks line).
Proof. exact caret_lf. Qed.
Print Assumptions C17_caret_lf.

Theorem C17_line_text_cr : forall content pre line post p, cr_file content = true -> is_line_at CR content pre line post p ->
  source_substring content p = shown line.
Proof. exact line_text_cr. Qed.
Print Assumptions C17_line_text_cr.

Theorem C17_caret_cr : forall content pre line post p, cr_file content = true -> is_line_at CR content pre line post p ->
  caret_offset content p = N.of_nat (N.to_nat p - length pre - lead_blanks line).
Proof. exact caret_cr. Qed.
Print Assumptions C17_caret_cr.

(* CRLF files: the line is what stands between two CR LF pairs (RenderSpec.is_line_at_crlf); a position on the
   CR or on the LF that ends the line belongs to it *)
Theorem C17_line_text_crlf : forall content pre line post p, crlf_file content = true ->
  is_line_at_crlf content pre line post p ->
  source_substring content p = shown line.
Proof. exact line_text_crlf. Qed.
Print Assumptions C17_line_text_crlf.

Theorem C17_caret_crlf : forall content pre line post p, crlf_file content = true ->
  is_line_at_crlf content pre line post p ->
  caret_offset content p = N.of_nat (N.to_nat p - length pre - lead_blanks line).
Proof. exact caret_crlf. Qed.
Print Assumptions C17_caret_crlf.

(* "ab\n  cd e\nxyz", position 6 (the 'd' on line 2): line 2, shown text "cd e", caret offset 1 *)
Example C17_example :
  render [x61; x62; x0a; x20; x20; x63; x64; x20; x65; x0a; x78; x79; x7a] 6
  = ROk 2 [x63; x64; x20; x65] 1.
Proof. vm_compute. reflexivity. Qed.

(* a line of blanks only (seventh-round fix): "a\n  \nb", position 3 (the second blank of line 2): line 2, nothing
   shown, caret offset 0 - and the same whether or not lines follow ("a\n  ", position 3); before the fix the blanks
   were shown and, with lines following, counted together with the blanks of the next lines *)
Example C17_example_blank_line :
  render [x61; x0a; x20; x20; x0a; x62] 3 = ROk 2 [] 0 /\
  render [x61; x0a; x20; x20] 3 = ROk 2 [] 0 /\
  (* on the first blank, and on the LF that ends the line *)
  render [x61; x0a; x20; x20; x0a; x62] 2 = ROk 2 [] 0 /\
  render [x61; x0a; x20; x20; x0a; x62] 4 = ROk 2 [] 0 /\
  (* CRLF: "a\r\n\t\t\r\nb" on the second tab, on the CR and on the LF of line 2; CR: "a\r  \rb" *)
  render [x61; x0d; x0a; x09; x09; x0d; x0a; x62] 4 = ROk 2 [] 0 /\
  render [x61; x0d; x0a; x09; x09; x0d; x0a; x62] 5 = ROk 2 [] 0 /\
  render [x61; x0d; x0a; x09; x09; x0d; x0a; x62] 6 = ROk 2 [] 1 /\
  render [x61; x0d; x20; x20; x0d; x62] 3 = ROk 2 [] 0 /\
  (* "\t\n", positions 0 and 1 *)
  render [x09; x0a] 0 = ROk 1 [] 0 /\
  render [x09; x0a] 1 = ROk 1 [] 0.
Proof. vm_compute. repeat split; reflexivity. Qed.

(* Property C17 (parsing half) — the position Document.Check (strict mode) reports for a JSON
   text is the offset of the first byte that cannot continue the text; an input that merely
   ends early is reported at its last byte.  Proofs live in Json/ViableProofs.v. *)
From JS Require Json.Scanner Json.Grammar Json.ViableProofs.

Theorem C17_parse_error_at_first_non_viable_byte : forall bs c p,
  Scanner.check false bs = Scanner.VErr c p ->
     (c = Scanner.code_invalid_character /\ (N.to_nat p < length bs)%nat /\
      ViableProofs.viable (firstn (N.to_nat p) bs) /\ ~ ViableProofs.viable (firstn (S (N.to_nat p)) bs))
  \/ (c = Scanner.code_unexpected_eof /\ bs <> [] /\ p = N.of_nat (length bs - 1) /\
      ViableProofs.viable bs /\ Grammar.rfc8259 bs = false)
  \/ (c = Scanner.code_empty_json /\ p = 0%N /\ Grammar.all_blank bs = true).
Proof. exact ViableProofs.error_position_viable_prefix. Qed.
Print Assumptions C17_parse_error_at_first_non_viable_byte.

Theorem C17_non_viable_rejected_at_first : forall bs n, (n < length bs)%nat ->
  ViableProofs.viable (firstn n bs) -> ~ ViableProofs.viable (firstn (S n) bs) ->
  Scanner.check false bs = Scanner.VErr Scanner.code_invalid_character (N.of_nat n).
Proof. exact ViableProofs.non_viable_rejected_at_first. Qed.
Print Assumptions C17_non_viable_rejected_at_first.

Theorem C17_early_end_reported_at_last_byte : forall bs, ViableProofs.viable bs ->
  Grammar.rfc8259 bs = false -> Grammar.all_blank bs = false ->
  Scanner.check false bs = Scanner.VErr Scanner.code_unexpected_eof (N.of_nat (length bs - 1)).
Proof. exact ViableProofs.viable_incomplete_reported_at_end. Qed.
Print Assumptions C17_early_end_reported_at_last_byte.

(* Property C17 (schema scanning) — a DocumentError of the schema scanner points inside the text:
   at the byte being read, or at the last byte when the text ends early.  Proof in
   SchemaScan/SchemaProofs.v. *)
From JS Require SchemaScan.SchemaScanner SchemaScan.SchemaProofs.

Theorem C17_schema_error_position_inside : forall (lc : bool) (bs : Wire.bytes) c p,
  snd (SchemaScanner.scan lc bs) = SchemaScanner.Err c p -> bs <> [] ->
  (N.to_nat p < List.length bs)%nat.
Proof. exact SchemaProofs.schema_error_position_inside. Qed.
Print Assumptions C17_schema_error_position_inside.

(* Property C17, "the last byte when the input ends early", for the openers (fixes 0219b8c, ca80efc):
   an accepted text never ends after the first byte of // or /*, after ##, or inside a ### comment;
   when the bytes are consumed, nothing is open and the step is one of these four, the text is refused
   at its last byte with ErrUnexpectedEOF (303).  Proofs in SchemaScan/SchemaProofs.v. *)
Theorem C17_schema_accepted_text_not_inside_opener : forall (lc : bool) (bs : Wire.bytes),
  snd (SchemaScanner.scan lc bs) = SchemaScanner.Done ->
  SchemaProofs.r_out (SchemaScanner.run (SchemaScanner.new_scanner lc) 0%N None bs []) = SchemaScanner.Done /\
  SchemaScanner.unfinished_step
    (SchemaScanner.s_step (SchemaProofs.r_sc (SchemaScanner.run (SchemaScanner.new_scanner lc) 0%N None bs []))) = false.
Proof. exact SchemaProofs.scan_done_not_unfinished. Qed.
Print Assumptions C17_schema_accepted_text_not_inside_opener.

Theorem C17_schema_text_ending_inside_opener : forall (lc : bool) (bs : Wire.bytes),
  SchemaProofs.r_out (SchemaScanner.run (SchemaScanner.new_scanner lc) 0%N None bs []) = SchemaScanner.Done ->
  SchemaScanner.s_stk (SchemaProofs.r_sc (SchemaScanner.run (SchemaScanner.new_scanner lc) 0%N None bs [])) = [] ->
  SchemaScanner.unfinished_step
    (SchemaScanner.s_step (SchemaProofs.r_sc (SchemaScanner.run (SchemaScanner.new_scanner lc) 0%N None bs []))) = true ->
  snd (SchemaScanner.scan lc bs) =
  SchemaScanner.Err SchemaScanner.code_unexpected_eof (N.of_nat (List.length bs) - 1)%N.
Proof. exact SchemaProofs.scan_ends_inside_opener. Qed.
Print Assumptions C17_schema_text_ending_inside_opener.

(* a concrete family: blanks followed by the first byte of an annotation opener, or by ## *)
Theorem C17_schema_blank_then_slash : forall (lc : bool) (pre : Wire.bytes),
  forallb SchemaScanner.is_blank pre = true ->
  snd (SchemaScanner.scan lc (pre ++ [x2f])) =
  SchemaScanner.Err SchemaScanner.code_unexpected_eof (N.of_nat (List.length pre)).
Proof. exact SchemaProofs.scan_blank_then_slash. Qed.
Print Assumptions C17_schema_blank_then_slash.

Theorem C17_schema_blank_then_two_hashes : forall (lc : bool) (pre : Wire.bytes),
  forallb SchemaScanner.is_blank pre = true ->
  snd (SchemaScanner.scan lc (pre ++ [x23; x23])) =
  SchemaScanner.Err SchemaScanner.code_unexpected_eof (N.of_nat (List.length pre) + 1)%N.
Proof. exact SchemaProofs.scan_blank_then_two_hashes. Qed.
Print Assumptions C17_schema_blank_then_two_hashes.

(* "an accepted text followed by a blank and '/' is refused with 303 at the '/'" is false in general
   (inside an annotation text or a comment, after a non-empty array, after an inline annotation that
   ended with its line, in length mode after an annotation object): *)
Example C17_schema_blank_slash_after_accepted_text :
  snd (SchemaScanner.scan false (SchemaProofs.of_codes [49]%N ++ [x20; x2f])) = SchemaScanner.Err 303 2 /\
  snd (SchemaScanner.scan false (SchemaProofs.of_codes [49; 32; 47; 47; 32; 97; 98; 99]%N)) = SchemaScanner.Done /\
  snd (SchemaScanner.scan false (SchemaProofs.of_codes [49; 32; 47; 47; 32; 97; 98; 99]%N ++ [x20; x2f])) = SchemaScanner.Done /\
  snd (SchemaScanner.scan false (SchemaProofs.of_codes [49; 32; 35; 32; 99]%N ++ [x20; x2f])) = SchemaScanner.Done /\
  snd (SchemaScanner.scan false (SchemaProofs.of_codes [91; 49; 44; 50; 93]%N)) = SchemaScanner.Done /\
  snd (SchemaScanner.scan false (SchemaProofs.of_codes [91; 49; 44; 50; 93]%N ++ [x20; x2f])) = SchemaScanner.Err 304 6 /\
  snd (SchemaScanner.scan false (SchemaProofs.of_codes [49; 32; 47; 47; 32; 97; 98; 99; 10]%N)) = SchemaScanner.Done /\
  snd (SchemaScanner.scan false (SchemaProofs.of_codes [49; 32; 47; 47; 32; 97; 98; 99; 10]%N ++ [x20; x2f])) = SchemaScanner.Err 301 10 /\
  snd (SchemaScanner.scan true (SchemaProofs.of_codes [49; 32; 47; 47; 32; 123; 97; 58; 49; 125]%N)) = SchemaScanner.Done /\
  snd (SchemaScanner.scan true (SchemaProofs.of_codes [49; 32; 47; 47; 32; 123; 97; 58; 49; 125]%N ++ [x20; x2f])) = SchemaScanner.Done /\
  snd (SchemaScanner.scan false (SchemaProofs.of_codes [49; 32; 47; 47; 32; 123; 97; 58; 49; 125]%N ++ [x20; x2f])) = SchemaScanner.Err 301 11.
Proof. exact SchemaProofs.blank_slash_after_accepted_text. Qed.

(* Property C17 (enum-rule scanner; rules/enum/scanner.go, model Enum/EnumScanner.v, after the fix
   0219b8c) — a text that ends right after the first byte of an annotation opener, // or /* , is
   refused with ErrUnexpectedEOF at that byte.  Proofs in Enum/EnumProofs.v.
   [EnumProofs.r_sc (EnumScanner.run lc bs sc0 0 bs [])] is the scanner structure when Next() stops
   reading ([r_out] = Done: the text has been read to its end); StAnyAnnotationStart is the step
   function switchToAnnotation installs, i.e. unfinishedAnnotationStart = true. *)
From JS Require Enum.EnumScanner Enum.EnumProofs.

(* an accepted text never ends in that state ... *)
Theorem C17_enum_accepted_text_not_in_opener : forall lc bs evs,
  EnumScanner.scan lc bs = (evs, EnumScanner.Eos) ->
  EnumScanner.s_step (EnumProofs.r_sc (EnumScanner.run lc bs EnumScanner.sc0 0%N bs [])) <>
  EnumScanner.StAnyAnnotationStart.
Proof. exact EnumProofs.enum_scan_eos_not_in_opener. Qed.
Print Assumptions C17_enum_accepted_text_not_in_opener.

(* ... a text read to its end in that state is refused at its last byte, after the events
   delivered so far *)
Theorem C17_enum_opener_eof_position : forall lc bs,
  let r := EnumScanner.run lc bs EnumScanner.sc0 0%N bs [] in
  EnumProofs.r_out r = EnumScanner.Done ->
  EnumScanner.s_step (EnumProofs.r_sc r) = EnumScanner.StAnyAnnotationStart ->
  bs <> [] /\
  EnumScanner.scan lc bs =
    (rev (EnumProofs.r_evs r),
     EnumScanner.Err EnumScanner.code_unexpected_eof (N.of_nat (length bs) - 1)%N).
Proof. exact EnumProofs.enum_scan_opener_eof. Qed.
Print Assumptions C17_enum_opener_eof_position.

(* the concrete consequence: after a text the scanner accepts (Check mode; not a blank text, after
   which the array is still to come: EnumProofs.enum_scan_opener_side_conditions), a new line and a
   single '/' are refused at the '/'.  With a space instead of the new line the same holds when
   the accepted text does not end inside an inline annotation, where '/' is annotation text
   ("[]//" and "[]// /" are both accepted): EnumProofs.enum_scan_opener_after_space_refused. *)
Theorem C17_enum_text_ending_in_opener_refused : forall bs,
  snd (EnumScanner.scan false bs) = EnumScanner.Eos -> forallb EnumScanner.is_blank bs = false ->
  snd (EnumScanner.scan false (bs ++ [x0a; x2f])) =
  EnumScanner.Err EnumScanner.code_unexpected_eof (N.of_nat (length bs) + 1)%N.
Proof. exact EnumProofs.enum_scan_opener_after_newline_refused. Qed.
Print Assumptions C17_enum_text_ending_in_opener_refused.

Theorem C17_enum_text_ending_in_opener_refused_space : forall bs,
  snd (EnumScanner.scan false bs) = EnumScanner.Eos -> forallb EnumScanner.is_blank bs = false ->
  EnumScanner.s_stack (EnumProofs.r_sc (EnumScanner.run false bs EnumScanner.sc0 0%N bs [])) = [] ->
  snd (EnumScanner.scan false (bs ++ [x20; x2f])) =
  EnumScanner.Err EnumScanner.code_unexpected_eof (N.of_nat (length bs) + 1)%N.
Proof. exact EnumProofs.enum_scan_opener_after_space_refused. Qed.
Print Assumptions C17_enum_text_ending_in_opener_refused_space.

Theorem C17_enum_text_ending_in_opener_refused_space_plain : forall bs,
  snd (EnumScanner.scan false bs) = EnumScanner.Eos -> forallb EnumScanner.is_blank bs = false ->
  EnumProofs.no_comment bs = true ->
  snd (EnumScanner.scan false (bs ++ [x20; x2f])) =
  EnumScanner.Err EnumScanner.code_unexpected_eof (N.of_nat (length bs) + 1)%N.
Proof. exact EnumProofs.enum_scan_opener_after_space_refused_plain. Qed.
Print Assumptions C17_enum_text_ending_in_opener_refused_space_plain.
