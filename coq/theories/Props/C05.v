(* Property C05 — the JSON scanner (Document.Check) accepts exactly the RFC 8259 texts of the
   reference recogniser, never panics, and reports errors inside the input.
   Only statements; proofs live in Json/ScannerProofs.v. *)
From Coq Require Import List NArith Bool Arith String.
From Coq Require Import Strings.Byte.
Import ListNotations.
From JS Require Import Common.Wire Json.Scanner Json.Grammar Json.ScannerProofs.

Theorem C05_check_strict_iff : forall bs, check false bs = VOk <-> rfc8259 bs = true.
Proof. exact check_strict_iff. Qed.
Print Assumptions C05_check_strict_iff.

Theorem C05_check_trailing_iff : forall bs, check true bs = VOk <-> rfc8259_prefix bs = true.
Proof. exact check_trailing_iff. Qed.
Print Assumptions C05_check_trailing_iff.

Theorem C05_scan_no_panic : forall allow bs, snd (scan allow bs) <> Panic.
Proof. exact scan_no_panic. Qed.
Print Assumptions C05_scan_no_panic.

Theorem C05_check_no_panic : forall allow bs, check allow bs <> VPanic.
Proof. exact check_no_panic. Qed.
Print Assumptions C05_check_no_panic.

Theorem C05_check_error_position : forall allow bs c p, check allow bs = VErr c p ->
  (N.to_nat p < List.length bs) \/ (p = 0%N /\ c = code_empty_json /\ all_blank bs = true).
Proof. exact check_error_position. Qed.
Print Assumptions C05_check_error_position.

(* "length bs < f -> rd_value f bs <> RFuel" is false as stated ("[[[[" with fuel 5 runs out);
   the true variants: the fuel of rfc8259 suffices whenever any fuel accepts, and twice the
   length always suffices. *)
Theorem C05_rd_fuel_enough_counterexample :
  let bs := [x5b; x5b; x5b; x5b] in List.length bs < 5 /\ rd_value 5 bs = RFuel.
Proof. exact rd_fuel_enough_counterexample. Qed.
Print Assumptions C05_rd_fuel_enough_counterexample.

Theorem C05_rd_fuel_enough_ok : forall bs f f' r, rd_value f' bs = ROk r -> List.length bs < f ->
  rd_value f bs = ROk r.
Proof. exact rd_fuel_enough_ok. Qed.
Print Assumptions C05_rd_fuel_enough_ok.

Theorem C05_rd_fuel_enough_accepting : forall bs f, List.length bs < f ->
  (exists f' r, rd_value f' bs = ROk r) -> rd_value f bs <> RFuel.
Proof. exact rd_fuel_enough_accepting. Qed.
Print Assumptions C05_rd_fuel_enough_accepting.

Theorem C05_rd_fuel_enough_double : forall bs f, 2 * List.length bs < f -> rd_value f bs <> RFuel.
Proof. exact rd_fuel_enough_double. Qed.
Print Assumptions C05_rd_fuel_enough_double.

(* non-vacuity: a nested text is accepted; 1. / 01 / [1,] / {}x are rejected, by both sides *)
Example C05_example :
  let good := of_string " {""a"": [1, -2.5e+3, true, null, ""xé\n"", []], ""b"": {""c"": {}}} "%string in
  (check false good = VOk /\ rfc8259 good = true) /\
  (check false (of_string "1."%string) <> VOk /\ rfc8259 (of_string "1."%string) = false) /\
  (check false (of_string "01"%string) <> VOk /\ rfc8259 (of_string "01"%string) = false) /\
  (check false (of_string "[1,]"%string) <> VOk /\ rfc8259 (of_string "[1,]"%string) = false) /\
  (check false (of_string "{}x"%string) <> VOk /\ rfc8259 (of_string "{}x"%string) = false) /\
  check true (of_string "{}x"%string) = VOk.
Proof. vm_compute. repeat split; try reflexivity; discriminate. Qed.

(* composition with the generative grammar (Json/GrammarProofs.v): Document.Check's model accepts
   exactly the RFC 8259 texts - one well-formed value tree rendered with arbitrary blanks at the gaps *)
From JS Require Import Json.GrammarProofs.
Theorem C05_check_iff_JsonText : forall bs, check false bs = VOk <-> JsonText bs.
Proof.
  intros bs. rewrite C05_check_strict_iff. apply rfc8259_iff_JsonText.
Qed.
Print Assumptions C05_check_iff_JsonText.
