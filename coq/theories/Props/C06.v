(* Property C06 — the lexical events of the JSON scanner: every span lies inside the input with
   begin <= end, and the event sequence is properly nested (every closing event pairs with the
   innermost open one and carries its begin offset; an accepted text leaves nothing open).
   Only statements; proofs live in Json/EventsProofs.v. *)
From Coq Require Import List NArith Bool Arith String.
From Coq Require Import Strings.Byte.
Import ListNotations.
From JS Require Import Common.Wire Json.Scanner Json.Grammar Json.ScannerProofs Json.EventsProofs.

Theorem C06_spans_inside : forall allow bs evs o, scan allow bs = (evs, o) ->
  Forall (fun e => (e_begin e <= e_end e)%N /\ (N.to_nat (e_end e) < List.length bs)) evs.
Proof. exact spans_inside. Qed.
Print Assumptions C06_spans_inside.

Theorem C06_events_nested : forall allow bs evs o, scan allow bs = (evs, o) ->
  exists stk, nest [] evs = Some stk.
Proof. exact events_nested. Qed.
Print Assumptions C06_events_nested.

Theorem C06_events_balanced_when_accepted : forall bs evs o,
  scan false bs = (evs, o) -> check false bs = VOk -> nest [] evs = Some [].
Proof. exact events_balanced_when_accepted. Qed.
Print Assumptions C06_events_balanced_when_accepted.

(* non-vacuity: the event list of {"a":[1,null]} as (type, begin, end) *)
Example C06_example_events :
  let bs := of_string "{""a"":[1,null]}"%string in
  (map (fun e => (e_type e, e_begin e, e_end e)) (fst (scan false bs)) =
   [ (ObjectBegin, 0, 0); (ObjectKeyBegin, 1, 1); (ObjectKeyEnd, 1, 3);
     (ObjectValueBegin, 5, 5); (ArrayBegin, 5, 5);
     (ArrayItemBegin, 6, 6); (LiteralBegin, 6, 6); (LiteralEnd, 6, 6); (ArrayItemEnd, 6, 6);
     (ArrayItemBegin, 8, 8); (LiteralBegin, 8, 8); (LiteralEnd, 8, 11); (ArrayItemEnd, 8, 11);
     (ArrayEnd, 5, 12); (ObjectValueEnd, 5, 12); (ObjectEnd, 0, 13) ]%N) /\
  snd (scan false bs) = Done /\
  nest [] (fst (scan false bs)) = Some [] /\
  (* a text cut short is nested but not balanced *)
  nest [] (fst (scan false (of_string "{""a"":[1"%string))) =
    Some [(ArrayItemBegin, 6%N); (ArrayBegin, 5%N); (ObjectValueBegin, 5%N); (ObjectBegin, 0%N)].
Proof. vm_compute. repeat split; reflexivity. Qed.

(* The event types of the three scanner models are the library's (translated from
   internal/lexeme/lex_event_type.go by tools/tabx on every run): numeric codes and IsOpening. *)
From JS Require Json.LexemeTie.
Theorem C06_json_event_codes_match_source : forall e,
  LexemeTie.code_of (LexemeTie.scanner_name e) LexemeTables.event_codes = Some (Scanner.ev_code e).
Proof. exact LexemeTie.json_event_codes. Qed.
Print Assumptions C06_json_event_codes_match_source.
Theorem C06_enum_event_codes_match_source : forall e,
  LexemeTie.code_of (LexemeTie.enumscanner_name e) LexemeTables.event_codes = Some (EnumScanner.ev_code e).
Proof. exact LexemeTie.enum_event_codes. Qed.
Print Assumptions C06_enum_event_codes_match_source.
Theorem C06_schema_event_codes_match_source : forall e,
  LexemeTie.code_of (LexemeTie.schemascanner_name e) LexemeTables.event_codes = Some (N.to_nat (SchemaScanner.ev_code e)).
Proof. exact LexemeTie.schema_event_codes. Qed.
Print Assumptions C06_schema_event_codes_match_source.
Theorem C06_is_opening_matches_source :
  (forall e, Scanner.is_opening e = LexemeTie.opens (LexemeTie.scanner_name e)) /\
  (forall e, EnumScanner.is_opening e = LexemeTie.opens (LexemeTie.enumscanner_name e)) /\
  (forall e, SchemaScanner.is_opening e = LexemeTie.opens (LexemeTie.schemascanner_name e)).
Proof. exact (conj LexemeTie.json_is_opening (conj LexemeTie.enum_is_opening LexemeTie.schema_is_opening)). Qed.
Print Assumptions C06_is_opening_matches_source.
