(* Property C06 — the lexical events of the JSON scanner: every span lies inside the input with
   begin <= end, and the event sequence is properly nested (every closing event pairs with the
   innermost open one and carries its begin offset; an accepted text leaves nothing open).
   Only statements; proofs live in Json/EventsProofs.v. *)
From Coq Require Import List NArith Bool Arith String.
From Coq Require Import Strings.Byte.
Import ListNotations.
From JS Require Import Common.Wire Json.Scanner Json.Grammar Json.ScannerProofs Json.EventsProofs.

Theorem C06_spans_inside : forall allow bs evs o, scan allow bs = (evs, o) ->
  Forall (fun e => (e_begin e <= e_end e)%N /\ (N.to_nat (e_end e) < List.length bs)) evs.
Proof. exact spans_inside. Qed.
Print Assumptions C06_spans_inside.

Theorem C06_events_nested : forall allow bs evs o, scan allow bs = (evs, o) ->
  exists stk, nest [] evs = Some stk.
Proof. exact events_nested. Qed.
Print Assumptions C06_events_nested.

Theorem C06_events_balanced_when_accepted : forall bs evs o,
  scan false bs = (evs, o) -> check false bs = VOk -> nest [] evs = Some [].
Proof. exact events_balanced_when_accepted. Qed.
Print Assumptions C06_events_balanced_when_accepted.

(* non-vacuity: the event list of {"a":[1,null]} as (type, begin, end) *)
Example C06_example_events :
  let bs := of_string "{""a"":[1,null]}"%string in
  (map (fun e => (e_type e, e_begin e, e_end e)) (fst (scan false bs)) =
   [ (ObjectBegin, 0, 0); (ObjectKeyBegin, 1, 1); (ObjectKeyEnd, 1, 3);
     (ObjectValueBegin, 5, 5); (ArrayBegin, 5, 5);
     (ArrayItemBegin, 6, 6); (LiteralBegin, 6, 6); (LiteralEnd, 6, 6); (ArrayItemEnd, 6, 6);
     (ArrayItemBegin, 8, 8); (LiteralBegin, 8, 8); (LiteralEnd, 8, 11); (ArrayItemEnd, 8, 11);
     (ArrayEnd, 5, 12); (ObjectValueEnd, 5, 12); (ObjectEnd, 0, 13) ]%N) /\
  snd (scan false bs) = Done /\
  nest [] (fst (scan false bs)) = Some [] /\
  (* a text cut short is nested but not balanced *)
  nest [] (fst (scan false (of_string "{""a"":[1"%string))) =
    Some [(ArrayItemBegin, 6%N); (ArrayBegin, 5%N); (ObjectValueBegin, 5%N); (ObjectBegin, 0%N)].
Proof. vm_compute. repeat split; reflexivity. Qed.

(* The event types of the three scanner models are the library's (translated from
   internal/lexeme/lex_event_type.go by tools/tabx on every run): numeric codes and IsOpening. *)
From JS Require Json.LexemeTie.
Theorem C06_json_event_codes_match_source : forall e,
  LexemeTie.code_of (LexemeTie.scanner_name e) LexemeTables.event_codes = Some (Scanner.ev_code e).
Proof. exact LexemeTie.json_event_codes. Qed.
Print Assumptions C06_json_event_codes_match_source.
Theorem C06_enum_event_codes_match_source : forall e,
  LexemeTie.code_of (LexemeTie.enumscanner_name e) LexemeTables.event_codes = Some (EnumScanner.ev_code e).
Proof. exact LexemeTie.enum_event_codes. Qed.
Print Assumptions C06_enum_event_codes_match_source.
Theorem C06_schema_event_codes_match_source : forall e,
  LexemeTie.code_of (LexemeTie.schemascanner_name e) LexemeTables.event_codes = Some (N.to_nat (SchemaScanner.ev_code e)).
Proof. exact LexemeTie.schema_event_codes. Qed.
Print Assumptions C06_schema_event_codes_match_source.
Theorem C06_is_opening_matches_source :
  (forall e, Scanner.is_opening e = LexemeTie.opens (LexemeTie.scanner_name e)) /\
  (forall e, EnumScanner.is_opening e = LexemeTie.opens (LexemeTie.enumscanner_name e)) /\
  (forall e, SchemaScanner.is_opening e = LexemeTie.opens (LexemeTie.schemascanner_name e)).
Proof. exact (conj LexemeTie.json_is_opening (conj LexemeTie.enum_is_opening LexemeTie.schema_is_opening)). Qed.
Print Assumptions C06_is_opening_matches_source.

(* ---------- the enum-rule scanner (rules/enum/scanner.go; model Enum/EnumScanner.v) ---------- *)
From JS Require Enum.EnumScanner Enum.EnumProofs.

(* For a text the enum-rule scanner accepts and that has no '/' outside strings (no comments),
   its events other than NewLine, mapped to the JSON scanner's event type, are exactly the
   events of the JSON scanner on the same text, and the JSON scanner accepts it too.
   [EnumScanner.Eos] is the accepting outcome of the enum scanner ([Done] is internal and never
   returned by [EnumScanner.scan]).  no_comment bs = nc_scan false false bs tracks "inside a
   string / after a backslash" and refuses a '/' outside strings. *)
Theorem C06_enum_scanner_agrees_with_json_scanner : forall bs evs,
  EnumScanner.scan false bs = (evs, EnumScanner.Eos) -> EnumProofs.no_comment bs = true ->
  map EnumProofs.to_json_ev (filter (fun e => negb (EnumProofs.is_newline_ev e)) evs) =
    fst (scan false bs) /\
  snd (scan false bs) = Done.
Proof. exact EnumProofs.enum_events_agree_with_json. Qed.
Print Assumptions C06_enum_scanner_agrees_with_json_scanner.

(* span_ok size e: e_begin < size; e_begin <= e_end (MultiLineAnnotationTextEnd: e_begin <= e_end + 1,
   the empty text of /**/); e_end < size (InlineAnnotationEnd: e_end <= size, an inline annotation
   closed by the end of the input) *)
Theorem C06_enum_spans_inside : forall lc bs evs o, EnumScanner.scan lc bs = (evs, o) ->
  Forall (EnumProofs.span_ok (N.of_nat (List.length bs))) evs.
Proof. exact EnumProofs.enum_spans_inside. Qed.
Print Assumptions C06_enum_spans_inside.

Theorem C06_enum_error_position_inside : forall lc bs c p,
  snd (EnumScanner.scan lc bs) = EnumScanner.Err c p -> (N.to_nat p < List.length bs)%nat.
Proof. exact EnumProofs.enum_error_position_inside. Qed.
Print Assumptions C06_enum_error_position_inside.

(* Property C06 for the SCHEMA scanner (model SchemaScan/SchemaScanner.v).  Proofs live in
   SchemaScan/SchemaProofs.v.
   Spans: every delivered event begins inside the text (begin < size) and ends at most at the size:
   events delivered while bytes are read end inside the text; an event closed by the end-of-input
   rule after another one (InlineAnnotationEnd after InlineAnnotationTextEnd) ends at offset = size.
   (begin <= end does not hold: an annotation text that is closed by the byte that opens it has
   end = begin - 1.) *)
From JS Require SchemaScan.SchemaScanner SchemaScan.SchemaProofs.

Theorem C06_schema_spans_inside : forall (lc : bool) (bs : Wire.bytes) evs o,
  SchemaScanner.scan lc bs = (evs, o) ->
  Forall (fun e => (N.to_nat (SchemaScanner.e_begin e) < List.length bs)%nat /\
                   (N.to_nat (SchemaScanner.e_end e) <= List.length bs)%nat) evs.
Proof. exact SchemaProofs.schema_spans_inside. Qed.
Print Assumptions C06_schema_spans_inside.

(* On a text without the bytes / # @ (no comment, annotation or shortcut can start), when the
   schema scanner reaches the end of input without error, its events other than NewLine, mapped
   to the JSON scanner's event type (same type, same begin, same end), are exactly the events of
   the JSON scanner model for the same text. *)
Theorem C06_schema_scanner_agrees_with_json_scanner : forall (bs : Wire.bytes) evs,
  SchemaScanner.scan false bs = (evs, SchemaScanner.Done) -> SchemaProofs.plain bs = true ->
  map SchemaProofs.to_json_ev (filter (fun e => negb (SchemaProofs.is_newline_ev e)) evs)
  = fst (Scanner.scan false bs).
Proof. exact SchemaProofs.schema_events_agree_with_json. Qed.
Print Assumptions C06_schema_scanner_agrees_with_json_scanner.

(* non-vacuity: the corner cases of the spans, and an instance of the agreement *)
Example C06_schema_examples :
  (* "1 // abc": the annotation is closed by the end of input, InlineAnnotationEnd ends at 8 = size *)
  (let '(evs, o) := SchemaScanner.scan false (of_string "1 // abc"%string) in
   (map (fun e => (SchemaScanner.ev_code (SchemaScanner.e_type e), SchemaScanner.e_begin e, SchemaScanner.e_end e))
        (skipn 4 evs), o)) =
  ([(15, 5, 7); (13, 2, 8)]%N, SchemaScanner.Done) /\
  (* "//" + LF: the annotation text opened and closed by the LF has end = begin - 1 *)
  (let '(evs, o) := SchemaScanner.scan false (of_string "//"%string ++ [x0a]) in
   map (fun e => (SchemaScanner.ev_code (SchemaScanner.e_type e), SchemaScanner.e_begin e, SchemaScanner.e_end e)) evs) =
  [(12, 0, 1); (14, 2, 2); (15, 2, 1); (13, 0, 1); (20, 2, 2)]%N /\
  (let bs := of_string "{""a"": [1," ++ [x0a] ++ of_string " null]}" in
   SchemaProofs.plain bs = true /\ snd (SchemaScanner.scan false bs) = SchemaScanner.Done /\
   List.length (fst (SchemaScanner.scan false bs)) = 17%nat /\
   List.length (fst (Scanner.scan false bs)) = 16%nat).
Proof. vm_compute. repeat split; reflexivity. Qed.

(* ------------------------------------------------------------------ the events of a rendered JSON text, in full
   The JSON document TEXT, through the JSON scanner model and the conversion E2E.doc_events, yields exactly the
   events the validator machine consumes; proofs in Schema/E2EDocProofs.v. *)
From JS Require Json.Scanner Json.Grammar Schema.Shape Schema.Machine Schema.E2E Schema.E2EDocProofs Text.Unquote.

(* C06 "events describe the scanned text", in full: for every JSON value tree [d] (any depth, any width) rendered with
   any blanks at the structural gaps and around it, the scanner delivers exactly the event list
   [json_events_of (offset of the value) d]: the 12 event kinds with their begin / end offsets, and then ends (Done). *)
Theorem C06_json_scan_rendered : forall w1 d w2,
  Grammar.all_blank w1 = true -> Grammar.wf d = true -> Grammar.all_blank w2 = true ->
  Scanner.scan false (w1 ++ Grammar.render d ++ w2)%list =
  (E2EDocProofs.json_events_of (N.of_nat (List.length w1)) d, Scanner.Done).
Proof. exact E2EDocProofs.json_scan_rendered. Qed.
Print Assumptions C06_json_scan_rendered.

(* C01, document side: the text yields exactly [Machine.events j] for the abstract document [j] the tree spells
   (scalars classified as json.Guess classifies the token, keys unquoted) *)
Theorem C01_doc_events_of_text : forall w1 d w2 j,
  Grammar.all_blank w1 = true -> Grammar.wf d = true -> Grammar.all_blank w2 = true ->
  E2EDocProofs.jval_of_jv d = Some j ->
  E2E.doc_events (w1 ++ Grammar.render d ++ w2)%list = E2E.DEvents (Machine.events j).
Proof. exact E2EDocProofs.doc_events_of_text. Qed.
Print Assumptions C01_doc_events_of_text.

(* ... and [j] exists exactly when no number token is 0e.. / -0e.. (known finding) or has an exponent the library's
   number type refuses (beyond Go's int, or e > 10000 + fraction digits, or -e > 10000 + integer digits);
   on the other well-formed JSON texts the conversion is stuck (json.Guess has no kind for the token) *)
Theorem C01_doc_defined_iff : forall d, Grammar.wf d = true ->
  ((exists j, E2EDocProofs.jval_of_jv d = Some j) <->
   (E2EDocProofs.no_zero_int_exp d = true /\ E2EDocProofs.exps_fit d = true)).
Proof. exact E2EDocProofs.jval_of_jv_defined_iff. Qed.
Print Assumptions C01_doc_defined_iff.
Theorem C01_doc_events_stuck_class : forall w1 d w2,
  Grammar.all_blank w1 = true -> Grammar.wf d = true -> Grammar.all_blank w2 = true ->
  (E2E.doc_events (w1 ++ Grammar.render d ++ w2)%list = E2E.DStuck <->
   (E2EDocProofs.no_zero_int_exp d && E2EDocProofs.exps_fit d)%bool = false).
Proof. exact E2EDocProofs.doc_events_stuck_class. Qed.
Print Assumptions C01_doc_events_stuck_class.

(* non-vacuity: a 3-level document with every blank (SP TAB CR LF) at every gap, escapes in a key (\/ \n A),
   exponents, empty containers *)
Definition c06doc_ws : bytes := [x20; x09; x0d; x0a].
Definition c06doc_tree : Grammar.jv :=
  Grammar.JObj
    [(c06doc_ws, of_string """a\/\nA""", c06doc_ws, c06doc_ws,
      Grammar.JArr [(c06doc_ws, Grammar.JObj [(c06doc_ws, of_string """b""", c06doc_ws, c06doc_ws,
                                               Grammar.JTok (of_string "-1.5E+2"), c06doc_ws);
                                              ([], of_string """""", [], [], Grammar.JArr0 c06doc_ws, [])], c06doc_ws);
                    ([], Grammar.JTok (of_string "null"), []);
                    (c06doc_ws, Grammar.JObj0 [], c06doc_ws)], c06doc_ws);
     ([], of_string """c""", [], [], Grammar.JTok (of_string """x\""y"""), [x20])].
Example C06doc_example :
  let text := (c06doc_ws ++ Grammar.render c06doc_tree ++ c06doc_ws)%list in
  (Grammar.wf c06doc_tree = true /\ List.length text = 112%nat) /\
  Scanner.scan false text = (E2EDocProofs.json_events_of 4 c06doc_tree, Scanner.Done) /\
  List.length (E2EDocProofs.json_events_of 4 c06doc_tree) = 38%nat /\
  E2E.doc_events text =
  E2E.DEvents
    [Machine.EObjBegin;
       Machine.EKeyBegin; Machine.EKeyEnd [x61; x2f; x0a; x41]; Machine.EValBegin;
         Machine.EArrBegin;
           Machine.EItemBegin;
             Machine.EObjBegin;
               Machine.EKeyBegin; Machine.EKeyEnd [x62]; Machine.EValBegin;
                 Machine.ELitBegin; Machine.ELitEnd Shape.JInt; Machine.EValEnd;
               Machine.EKeyBegin; Machine.EKeyEnd []; Machine.EValBegin;
                 Machine.EArrBegin; Machine.EArrEnd; Machine.EValEnd;
             Machine.EObjEnd;
           Machine.EItemEnd;
           Machine.EItemBegin; Machine.ELitBegin; Machine.ELitEnd Shape.JNull; Machine.EItemEnd;
           Machine.EItemBegin; Machine.EObjBegin; Machine.EObjEnd; Machine.EItemEnd;
         Machine.EArrEnd; Machine.EValEnd;
       Machine.EKeyBegin; Machine.EKeyEnd [x63]; Machine.EValBegin;
         Machine.ELitBegin; Machine.ELitEnd Shape.JStr; Machine.EValEnd;
     Machine.EObjEnd] /\
  E2E.doc_events (of_string "[0e1]") = E2E.DStuck /\ E2E.doc_events (of_string "{""a"":1e10001}") = E2E.DStuck.
Proof. vm_compute. repeat split; reflexivity. Qed.
