(* Property C03 — type references, unions (or) and allOf compose as set operations, and the
   validator's per-position expansion ("each type name once") computes exactly that union.
   Only statements; proofs live in Schema/UnionProofs.v. *)
From Coq Require Import List Bool Arith.
From Coq Require Import Strings.Byte.
Import ListNotations.
From JS Require Import Common.Wire Schema.Shape Schema.Union Schema.UnionProofs.

Theorem C03_accepts_union : forall f g a b nl v,
  accepts (S f) g (TRefs (a ++ b) nl) v = (accepts (S f) g (TRefs a nl) v || accepts (S f) g (TRefs b nl) v)%bool.
Proof. exact accepts_union. Qed.
Print Assumptions C03_accepts_union.

Theorem C03_accepts_nullable_null : forall f g ns, accepts (S f) g (TRefs ns true) JNull = true.
Proof. exact accepts_nullable_null. Qed.
Print Assumptions C03_accepts_nullable_null.

Theorem C03_accepts_member : forall f g ns nl n body v,
  In n ns -> lookup g n = Some body -> accepts f g body v = true -> accepts (S f) g (TRefs ns nl) v = true.
Proof. exact accepts_member. Qed.
Print Assumptions C03_accepts_member.

Theorem C03_accepts_fuel_mono : forall f g t v,
  accepts f g t v = true -> forall f', f <= f' -> accepts f' g t v = true.
Proof. exact accepts_fuel_mono. Qed.
Print Assumptions C03_accepts_fuel_mono.

Theorem C03_allOf_flatten : forall f g ms ap parents v,
  accepts (S f) g (TObj ms ap parents) v =
  accepts (S f) g (TObj (members_of (S (length g)) g (TObj ms ap parents)) ap []) v.
Proof. exact allOf_flatten. Qed.
Print Assumptions C03_allOf_flatten.

Theorem C03_validate_refs_sound : forall f g ns nl v,
  validate_refs f g ns nl v = true -> exists f', accepts f' g (TRefs ns nl) v = true.
Proof. exact validate_refs_sound. Qed.
Print Assumptions C03_validate_refs_sound.

Theorem C03_validate_refs_complete : forall f g ns nl v,
  accepts f g (TRefs ns nl) v = true -> exists f', validate_refs f' g ns nl v = true.
Proof. exact validate_refs_complete. Qed.
Print Assumptions C03_validate_refs_complete.

(* types: 0 = integer literal, 1 = string literal, 2 = alias (0 | 1) nullable, 3 = alias (2) *)
Definition ex_env : env :=
  [(0, TLit KInt false); (1, TLit KStr false); (2, TRefs [0; 1] true); (3, TRefs [2] false)].
Definition ex_docs : list jval := [JInt; JStr; JBool; JNull].
Definition ex_positions : list (list tname) := [[2]; [3]; [0; 1]].

Example C03_ex_validate :
  map (fun ns => map (validate_refs 5 ex_env ns false) ex_docs) ex_positions =
  [[true; true; false; true]; [true; true; false; true]; [true; true; false; false]].
Proof. vm_compute. reflexivity. Qed.

Example C03_ex_accepts :
  map (fun ns => map (accepts 5 ex_env (TRefs ns false)) ex_docs) ex_positions =
  [[true; true; false; true]; [true; true; false; true]; [true; true; false; false]].
Proof. vm_compute. reflexivity. Qed.

Example C03_ex_agree :
  forallb (fun ns => forallb (fun v => Bool.eqb (validate_refs 5 ex_env ns false v)
                                                (accepts 5 ex_env (TRefs ns false) v)) ex_docs)
          ex_positions = true.
Proof. vm_compute. reflexivity. Qed.

Example C03_ex_expand : fst (expand (S (length ex_env)) ex_env [] [3; 2; 0]) = [TLit KInt false; TLit KStr false].
Proof. vm_compute. reflexivity. Qed.

(* ---------- the event-level machine (Schema/Machine.v) against the denotation (Schema/MachineSpec.v) ----------
   Proofs in Schema/MachineProofs.v.
   The statement "mclosed g root = true -> exists F0, forall F, F0 <= F ->
     (machine_validate g root v = None <-> maccepts F g root v = true)" is FALSE as it stands
   ([C03_event_machine_empty_alias_refuted]): a reference position with an EMPTY validator list
   (an empty reference list, or an alias whose chains only lead back to itself) makes feed return
   "children = []", FeedLeaves keeps the parent validator as the leaf, and the parent consumes the
   events of the child value as its own.  With the decidable hypothesis [mprod] (every reference
   position below the root and in the graph has at least one validator) the machine accepts
   exactly the documents of the denotation, never panics and finishes exactly at the end of the
   value's events. *)
From JS Require Schema.Machine Schema.MachineSpec Schema.MachineProofs.
Set Warnings "-abstract-large-number".

Theorem C03_event_machine_accepts_iff_denotation : forall g root v,
  MachineSpec.mclosed g root = true -> MachineProofs.mprod g root = true ->
  exists F0, forall F, F0 <= F ->
    (Machine.machine_validate g root v = None <-> MachineSpec.maccepts F g root v = true).
Proof. exact MachineProofs.machine_iff_maccepts. Qed.
Print Assumptions C03_event_machine_accepts_iff_denotation.

Theorem C03_event_machine_no_panic : forall g root v,
  MachineSpec.mclosed g root = true -> MachineProofs.mprod g root = true ->
  Machine.machine_validate g root v <> Some 9999.
Proof. exact MachineProofs.machine_no_panic. Qed.
Print Assumptions C03_event_machine_no_panic.

Theorem C03_denotation_fuel_mono : forall F F' g n v,
  F <= F' -> MachineSpec.maccepts F g n v = true -> MachineSpec.maccepts F' g n v = true.
Proof. exact MachineProofs.maccepts_fuel_mono. Qed.
Print Assumptions C03_denotation_fuel_mono.

(* g = { 0: @0 }, root = { "a": @0 }, document {"a": {}} : accepted by the machine, not in the denotation *)
Theorem C03_event_machine_empty_alias_refuted :
  let g := [(0, Machine.MRefs [0] false)] in
  let root := Machine.MObj [([x61], true, Machine.MRefs [0] false)] Machine.MAPNone false false in
  let v := JObj [([x61], JObj [])] in
  MachineSpec.mclosed g root = true /\ MachineProofs.mprod g root = false /\
  Machine.validator_list g (Machine.MRefs [0] false) = Some [] /\
  Machine.machine_validate g root v = None /\ (forall F, MachineSpec.maccepts F g root v = false).
Proof. exact MachineProofs.machine_empty_alias_refuted. Qed.
Print Assumptions C03_event_machine_empty_alias_refuted.

(* ---------- from the TEXTS (Schema/E2ETypes.v): root text, type texts -> scanner -> loader -> the type graph; document text -> JSON
   scanner -> events -> the event machine.  The pipeline is run against Schema.Validate on the texts of every generated graph by the
   C03 check; here: on a closed graph in which every reference position has a validator it accepts a document text exactly when the
   denotation of the loaded graph contains the value the text spells, and it never gets stuck. ---------- *)
From JS Require Json.Grammar Schema.E2E Schema.E2EDocProofs Schema.E2ETypes Schema.E2ETypesProofs.
Theorem C03_typed_texts_accept_iff_denotation : forall optd root types u1 d u2 j rt g,
  E2ETypes.load_mnode optd (map fst types) root = inr rt ->
  E2ETypes.load_menv optd (map fst types) 0 (map snd types) = inr g ->
  Grammar.all_blank u1 = true -> Grammar.wf d = true -> Grammar.all_blank u2 = true -> E2EDocProofs.jval_of_jv d = Some j ->
  MachineSpec.mclosed g rt = true -> MachineProofs.mprod g rt = true ->
  exists F0, forall F, F0 <= F ->
    (E2ETypes.validate_typed_texts optd root types (u1 ++ Grammar.render d ++ u2) = E2E.TVerdict None <-> MachineSpec.maccepts F g rt j = true).
Proof. exact E2ETypesProofs.typed_texts_accept_iff_denotation. Qed.
Print Assumptions C03_typed_texts_accept_iff_denotation.

Theorem C03_typed_texts_not_stuck : forall optd root types u1 d u2 j rt g,
  E2ETypes.load_mnode optd (map fst types) root = inr rt ->
  E2ETypes.load_menv optd (map fst types) 0 (map snd types) = inr g ->
  Grammar.all_blank u1 = true -> Grammar.wf d = true -> Grammar.all_blank u2 = true -> E2EDocProofs.jval_of_jv d = Some j ->
  MachineSpec.mclosed g rt = true -> MachineProofs.mprod g rt = true ->
  E2ETypes.validate_typed_texts optd root types (u1 ++ Grammar.render d ++ u2) <> E2E.TStuck.
Proof. exact E2ETypesProofs.typed_texts_not_stuck. Qed.
Print Assumptions C03_typed_texts_not_stuck.

(* the hypotheses are met: root  {"k": @a | @b}  with  @a = 1,  @b = { // {additionalProperties: "string"} LF "n": @a LF } ;
   the document texts {"k": 5}, {"k": {"n": 1, "x": "s"}} are accepted, {"k": {"n": 1, "x": 2}} is refused with 210 *)
From Coq Require Import String.
Local Open Scope string_scope.
Example C03_typed_texts_example :
  let b := Wire.of_string in
  let types := [(b "@a", b "1"); (b "@b", (b "{ // {additionalProperties: ""string""}" ++ [x0a] ++ b "  ""n"": @a" ++ [x0a] ++ b "}")%list)] in
  let root := b "{""k"": @a | @b}" in
  (exists rt g, E2ETypes.load_mnode false (map fst types) root = inr rt /\
                E2ETypes.load_menv false (map fst types) 0 (map snd types) = inr g /\
                MachineSpec.mclosed g rt = true /\ MachineProofs.mprod g rt = true) /\
  E2ETypes.validate_typed_texts false root types (b "{""k"": 5}") = E2E.TVerdict None /\
  E2ETypes.validate_typed_texts false root types (b "{""k"": {""n"": 1, ""x"": ""s""}}") = E2E.TVerdict None /\
  E2ETypes.validate_typed_texts false root types (b "{""k"": {""n"": 1, ""x"": 2}}") = E2E.TVerdict (Some 210).
Proof.
  cbv zeta. split.
  - eexists. eexists. split; [vm_compute; reflexivity|]. split; [vm_compute; reflexivity|]. split; vm_compute; reflexivity.
  - vm_compute. repeat split; reflexivity.
Qed.
