(* Property C04 (and C15), rule-free fragment — a schema accepts its own example: the
   document that is the written schema read as JSON (same kind at every position, every
   property and every array element present) is accepted by the operational validator model
   and has the example's shape, whatever KeysAreOptionalByDefault is, and also when the schema
   has nullable containers (the example of a nullable container is a container, not null; the
   former finding C01-nullable-container, repaired by commit 3827ce7, never concerned it).
   Hypothesis [keys_distinct w]: no object of the written schema repeats a key (the library
   rejects such a schema with error 402); without it the statement is false, because the
   first member with a key governs ([C04_example_dup_keys_refuted]).
   Only statements; proofs live in Schema/ShapeSelf.v. *)
From Coq Require Import List NArith Bool Arith.
From Coq Require Import Strings.Byte.
Import ListNotations.
From JS Require Import Common.Wire Schema.Shape Schema.ShapeProofs Schema.ShapeSelf.

Theorem C04_self_valid : forall optd w, keys_distinct w = true ->
  validate (compile optd w) (example_value w) = None.
Proof. exact self_valid. Qed.
Print Assumptions C04_self_valid.

Theorem C04_example_has_shape : forall optd w, keys_distinct w = true ->
  shape_ok (compile optd w) (example_value w) = true.
Proof. exact example_has_shape. Qed.
Print Assumptions C04_example_has_shape.

Theorem C04_self_valid_all : forall optd w, keys_distinct w = true ->
  validate (compile optd w) (example_value w) = None.
Proof. exact self_valid_all. Qed.
Print Assumptions C04_self_valid_all.

(* the hypothesis is needed *)
Theorem C04_example_dup_keys_refuted : forall optd,
  shape_ok (compile optd dup_schema) (example_value dup_schema) = false /\
  validate (compile optd dup_schema) (example_value dup_schema) = Some E_VALUE_TYPE.
Proof. exact example_dup_keys_refuted. Qed.
Print Assumptions C04_example_dup_keys_refuted.
