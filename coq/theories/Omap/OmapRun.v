(* OmapRun.v — wire front end for the ordered-map model and its reference.
   One line = one history:  ops separated by ';', an op is a letter and decimal
   arguments separated by blanks.  The callback families below are mirrored in
   harness/cmd/implrun/omap.go.  No proofs. *)
From Coq Require Import List ZArith Bool Arith.
From Coq Require Import Strings.Byte.
Import ListNotations.
From JS Require Import Common.Wire Omap.Omap Omap.OmapSpec.

Definition zpred (id : nat) (k : key) (v : Z) : bool :=
  match id with
  | 0 => Z.even v
  | 1 => negb (Nat.eqb k 1)
  | 2 => Z.ltb 2 v
  | 3 => false
  | 4 => true
  | 5 => Nat.eqb k 0
  | _ => Z.leb v (Z.of_nat k)
  end.
Definition zupd (id : nat) (v : Z) : Z :=
  match id with
  | 0 => (v + 1)%Z
  | 1 => (v * 2)%Z
  | _ => 0%Z
  end.
Definition zmap (id : nat) (k : key) (v : Z) : option Z :=
  match id with
  | 0 => Some (v + 10)%Z
  | 1 => if Nat.eqb k 1 then None else Some (v + 1)%Z
  | 2 => if Z.odd v then None else Some (v + 3)%Z
  | _ => Some (Z.of_nat k)
  end.

Definition zop := @op Z.

Definition parse_op (bs : bytes) : option zop :=
  match filter (fun w => negb (Nat.eqb (length w) 0)) (split_on sp bs) with
  | [[x53]; k; v] => match parse_nat k, parse_Z v with Some k, Some v => Some (OSet k v) | _, _ => None end
  | [[x55]; k; f] => match parse_nat k, parse_nat f with Some k, Some f => Some (OUpdate k (zupd f)) | _, _ => None end
  | [[x44]; k] => option_map (fun k => ODelete k) (parse_nat k)
  | [[x46]; p] => option_map (fun p => OFilter (zpred p)) (parse_nat p)
  | [[x4d]; p] => option_map (fun p => OMap (zmap p)) (parse_nat p)
  | [[x4e]; p] => option_map (fun p => OFind (zpred p)) (parse_nat p)
  | [[x45]; p] => option_map (fun p => OEach (zpred p)) (parse_nat p)
  | [[x41]] => Some OEachSafe
  | [[x47]; k] => option_map (fun k => OGet k) (parse_nat k)
  | [[x56]; k] => option_map (fun k => OGetValue k) (parse_nat k)
  | [[x48]; k] => option_map (fun k => OHas k) (parse_nat k)
  | [[x4c]] => Some OLen
  | [[x4a]] => Some OMarshal
  | _ => None
  end.

Definition parse_ops (line : bytes) : option (list zop) :=
  all_some (map parse_op (filter (fun w => negb (Nat.eqb (length w) 0)) (split_on semi line))).

Definition print_pair (kv : key * Z) : bytes := print_nat (fst kv) ++ [x3d] ++ print_Z (snd kv).
Definition print_pairs (l : list (key * Z)) : bytes := join [comma] (map print_pair l).

Definition print_out (o : @out Z) : bytes :=
  match o with
  | RUnit => [x2d]
  | RVal v => [x76; colon] ++ print_Z v
  | ROpt (Some v) => [x6f; colon] ++ print_Z v
  | ROpt None => [x6f; colon; x2d]
  | RBool b => [x62; colon] ++ print_bool b
  | RNat n => [x6e; colon] ++ print_nat n
  | RPairs l => [x70; colon] ++ print_pairs l
  | RPairsOk l ok => [x71; colon] ++ print_pairs l ++ [bar] ++ print_bool ok
  | RItem (Some kv) => [x69; colon] ++ print_pair kv
  | RItem None => [x69; colon; x2d]
  end.

Definition print_result (final : list (key * Z)) (outs : list (@out Z)) : bytes :=
  join [semi] (map print_out outs) ++ [x23] ++ print_pairs final.

Definition bad_input : bytes := [x42; x41; x44].   (* "BAD" *)

(* model *)
Definition omap_model_line (line : bytes) : bytes :=
  match parse_ops line with
  | None => bad_input
  | Some ops => let '(m, outs) := run 0%Z empty ops in print_result (m_pairs 0%Z m) outs
  end.
(* reference *)
Definition omap_spec_line (line : bytes) : bytes :=
  match parse_ops line with
  | None => bad_input
  | Some ops => let '(s, outs) := s_run 0%Z [] ops in print_result s outs
  end.
