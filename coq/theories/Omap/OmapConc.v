(* OmapConc.v — lock discipline of the generated ordered maps, over the table that
   tools/tabx extracts from the Go source on every run (Gen/OmapLocks.v), and the
   consequence for concurrent histories. *)
From Coq Require Import List String Bool ZArith.
Import ListNotations.
From JS Require Import Gen.OmapLocks Omap.Omap Omap.OmapSpec Omap.OmapProofs.

Definition lock_eqb (a b : lockkind) : bool :=
  match a, b with LNone, LNone | LRead, LRead | LWrite, LWrite => true | _, _ => false end.

(* A method is an atomic step iff: an exported method takes the mutex as its first
   statement and releases it by defer (so it is held for the whole body, callbacks
   included), takes the write lock whenever it (transitively) writes data/order, never
   calls another exported (locking) method, never starts a goroutine nor returns a
   reference to its fields; private helpers never touch the mutex. *)
Definition method_ok (m : omap_method) : bool :=
  om_prologue_ok m && negb (om_calls_public m) && negb (om_escapes m) &&
  (if om_exported m
   then negb (lock_eqb (om_lock m) LNone) && (negb (om_writes m) || lock_eqb (om_lock m) LWrite)
   else lock_eqb (om_lock m) LNone).

Definition public_api : list string :=
  ["Delete"; "Each"; "EachSafe"; "Filter"; "Find"; "Get"; "GetValue"; "Has"; "Len"; "Map";
   "MarshalJSON"; "Set"; "Update"]%string.
Definition has_method (t n : string) : bool :=
  existsb (fun m => String.eqb (om_type m) t && String.eqb (om_name m) n) omap_methods.
Definition api_complete : bool :=
  forallb (fun t => forallb (has_method t) public_api) ["ASTNodes"; "RuleASTNodes"; "Constraints"]%string.

(* interleavings of per-thread operation lists *)
Inductive interleaving {A} : list (list A) -> list A -> Prop :=
| il_done : forall ts, Forall (fun t => t = []) ts -> interleaving ts []
| il_step : forall pre x t post l,
    interleaving (pre ++ t :: post) l -> interleaving (pre ++ (x :: t) :: post) (x :: l).

Section Conc.
Context {V : Type} (zero : V).
(* Because every method is one atomic step, a concurrent execution of per-thread
   operation lists is the sequential run of one of their interleavings; each of those
   refines the reference map. *)
Theorem every_interleaving_refines (threads : list (list (@op V))) (h : list (@op V)) :
  interleaving threads h ->
  snd (run zero empty h) = snd (s_run zero [] h) /\
  abs zero (fst (run zero empty h)) = fst (s_run zero [] h) /\
  Inv (fst (run zero empty h)).
Proof. intros _. apply omap_refines_reference. Qed.
End Conc.
