(* OmapSpec.v — the reference: an insertion-ordered association list without
   duplicate keys.  Short enough to read in a minute; no proofs here. *)
From Coq Require Import List ZArith Bool Arith.
Import ListNotations.
From JS Require Import Omap.Omap.

Section Spec.
Context {V : Type}.
Variable zero : V.

Definition smap := list (key * V).

Fixpoint s_get (s : smap) (k : key) : option V :=
  match s with
  | [] => None
  | (k', v) :: r => if Nat.eqb k k' then Some v else s_get r k
  end.
Definition s_getz s k := match s_get s k with Some v => v | None => zero end.
Definition s_has s k := match s_get s k with Some _ => true | None => false end.

(* replace in place if present, else append at the end *)
Fixpoint s_set (s : smap) (k : key) (v : V) : smap :=
  match s with
  | [] => [(k, v)]
  | (k', v') :: r => if Nat.eqb k k' then (k', v) :: r else (k', v') :: s_set r k v
  end.
Fixpoint s_update (s : smap) (k : key) (f : V -> V) : smap :=
  match s with
  | [] => []
  | (k', v') :: r => if Nat.eqb k k' then (k', f v') :: r else (k', v') :: s_update r k f
  end.
Definition s_delete (s : smap) (k : key) : smap :=
  filter (fun kv => negb (Nat.eqb k (fst kv))) s.
Definition s_filter (s : smap) (f : key -> V -> bool) : smap :=
  filter (fun kv => f (fst kv) (snd kv)) s.

(* Map: left to right; stop at the first failing entry; earlier entries updated.
   Returns (new map, visited entries, ok). *)
Fixpoint s_map (s : smap) (f : key -> V -> option V) : smap * list (key * V) * bool :=
  match s with
  | [] => ([], [], true)
  | (k, v) :: r =>
    match f k v with
    | None => ((k, v) :: r, [(k, v)], false)
    | Some v' => let '(r', tr, ok) := s_map r f in ((k, v') :: r', (k, v) :: tr, ok)
    end
  end.
Fixpoint s_each (s : smap) (f : key -> V -> bool) : list (key * V) * bool :=
  match s with
  | [] => ([], true)
  | (k, v) :: r => if f k v then ([(k, v)], false)
                   else let '(tr, ok) := s_each r f in ((k, v) :: tr, ok)
  end.
Definition s_find (s : smap) (f : key -> V -> bool) : option (key * V) :=
  find (fun kv => f (fst kv) (snd kv)) s.

Definition s_step (s : smap) (o : @op V) : smap * @out V :=
  match o with
  | OSet k v => (s_set s k v, RUnit)
  | OUpdate k f => (s_update s k f, RUnit)
  | ODelete k => (s_delete s k, RUnit)
  | OFilter f => (s_filter s f, RPairs s)                 (* every entry visited exactly once, in order *)
  | OMap f => let '(s', tr, ok) := s_map s f in (s', RPairsOk tr ok)
  | OFind f => (s, RItem (s_find s f))
  | OEach f => let '(tr, ok) := s_each s f in (s, RPairsOk tr ok)
  | OEachSafe => (s, RPairs s)
  | OGet k => (s, ROpt (s_get s k))
  | OGetValue k => (s, RVal (s_getz s k))
  | OHas k => (s, RBool (s_has s k))
  | OLen => (s, RNat (length s))
  | OMarshal => (s, RPairs s)
  end.

Fixpoint s_run (s : smap) (ops : list (@op V)) : smap * list (@out V) :=
  match ops with
  | [] => (s, [])
  | o :: r => let '(s1, x) := s_step s o in let '(s2, xs) := s_run s1 r in (s2, x :: xs)
  end.

End Spec.
