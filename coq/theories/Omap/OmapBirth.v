(* OmapBirth.v — "iteration follows first insertion of the live keys", for whole histories.
   Every step of a history gets its index as a time stamp; [births] remembers, per key, the
   index of the Set that inserted it while it was absent (its latest birth).  Theorem
   [birth_sorted]: after ANY history (any ops, any callbacks) the iterated keys are in
   strictly increasing order of their births - the order of iteration is the order of (latest)
   insertion, and nothing else (Update, a Set of a live key, Delete/Filter of other keys,
   Map) ever changes it.  Stated on the reference and carried to the model of the Go type by
   the refinement theorem. *)
From Coq Require Import List ZArith Bool Arith Lia Sorted.
Import ListNotations.
From JS Require Import Omap.Omap Omap.OmapSpec Omap.OmapProofs Omap.OmapLaws.

Section Birth.
Context {V : Type}.
Variable zero : V.
Notation smap := (@smap V).

Definition births := key -> nat.
Definition upd (b : births) (k : key) (i : nat) : births := fun x => if Nat.eqb x k then i else b x.

Definition t_step (i : nat) (st : smap * births) (o : @op V) : smap * births :=
  let '(s, b) := st in
  (fst (s_step zero s o),
   match o with
   | OSet k _ => if s_has s k then b else upd b k i
   | _ => b
   end).

Fixpoint t_run (i : nat) (st : smap * births) (ops : list (@op V)) : smap * births :=
  match ops with
  | [] => st
  | o :: r => t_run (S i) (t_step i st o) r
  end.

Definition TInv (i : nat) (st : smap * births) : Prop :=
  StronglySorted lt (map (snd st) (map fst (fst st))) /\
  Forall (fun k => snd st k < i) (map fst (fst st)).

(* ---------- list lemmas ---------- *)
Lemma sorted_filter {A} (g : A -> nat) (P : A -> bool) l :
  StronglySorted lt (map g l) -> StronglySorted lt (map g (filter P l)).
Proof.
  induction l as [|a r IH]; simpl; intros H; [constructor|].
  inversion H as [|x y Hs Hf]; subst. destruct (P a); simpl; [|exact (IH Hs)].
  constructor; [exact (IH Hs)|]. rewrite Forall_forall in *. intros n Hn.
  apply in_map_iff in Hn. destruct Hn as (z & <- & Hz). apply filter_In in Hz.
  apply Hf, in_map, Hz.
Qed.

Lemma forall_filter_keys (Q : key -> Prop) (P : key * V -> bool) (l : smap) :
  Forall Q (map fst l) -> Forall Q (map fst (filter P l)).
Proof.
  rewrite !Forall_forall. intros H k Hk. apply in_map_iff in Hk. destruct Hk as (z & <- & Hz).
  apply filter_In in Hz. apply H, in_map, Hz.
Qed.

Lemma sorted_snoc l i : StronglySorted lt l -> Forall (fun x => x < i) l -> StronglySorted lt (l ++ [i]).
Proof.
  induction l as [|a r IH]; simpl; intros Hs Hf; [constructor; constructor|].
  inversion Hs as [|x y Hs' Hfa]; subst. inversion Hf as [|x y Ha Hf']; subst.
  constructor; [exact (IH Hs' Hf')|]. apply Forall_app; split; [exact Hfa|constructor; [exact Ha|constructor]].
Qed.

Lemma s_has_not_in (s : smap) k : s_has s k = false -> ~ In k (map fst s).
Proof.
  unfold s_has. induction s as [|[k' v'] r IH]; simpl; [intros _ []|].
  destruct (Nat.eqb_spec k k') as [->|Hne]; [discriminate|].
  intros H [He|Hi]; [congruence|exact (IH H Hi)].
Qed.

Lemma weaken i (b : births) (l : list key) :
  Forall (fun k => b k < i) l -> Forall (fun k => b k < S i) l.
Proof. apply Forall_impl. intros; lia. Qed.

(* same keys, same births: invariant moves on one tick *)
Lemma tinv_same_keys i (s s' : smap) b : map fst s' = map fst s -> TInv i (s, b) -> TInv (S i) (s', b).
Proof. unfold TInv; cbn [fst snd]. intros ->. intros [H1 H2]. split; [exact H1|apply weaken; exact H2]. Qed.

Lemma tinv_filter i (s : smap) b P : TInv i (s, b) -> TInv (S i) (filter P s, b).
Proof.
  unfold TInv; cbn [fst snd]. intros [H1 H2]. split.
  - rewrite map_map in *. apply (sorted_filter (fun kv => b (fst kv))). exact H1.
  - apply weaken. apply forall_filter_keys. exact H2.
Qed.

Theorem t_step_inv i st o : TInv i st -> TInv (S i) (t_step i st o).
Proof.
  destruct st as [s b]. intros HI. destruct o; cbn [t_step s_step fst].
  - (* Set *)
    destruct (s_has s k) eqn:Eh.
    + apply (tinv_same_keys i s); [|exact HI]. apply s_set_keys_present, s_has_in; exact Eh.
    + pose proof (s_has_not_in s k Eh) as Hn. rewrite (s_set_absent s k v Hn).
      unfold TInv in HI; cbn [fst snd] in HI. destruct HI as [H1 H2]. unfold TInv; cbn [fst snd]. rewrite !map_app. cbn [map fst].
      assert (Hext : map (upd b k i) (map fst s) = map b (map fst s)).
      { apply map_ext_in. intros x Hx. unfold upd. destruct (Nat.eqb_spec x k); [subst; contradiction|reflexivity]. }
      rewrite Hext. replace (upd b k i k) with i by (unfold upd; rewrite Nat.eqb_refl; reflexivity).
      split.
      * apply sorted_snoc; [exact H1|]. rewrite Forall_map. exact H2.
      * apply Forall_app; split.
        -- rewrite Forall_forall in *. intros x Hx. unfold upd.
           destruct (Nat.eqb_spec x k); [lia|]. specialize (H2 x Hx). lia.
        -- constructor; [|constructor]. unfold upd. rewrite Nat.eqb_refl. lia.
  - apply (tinv_same_keys i s); [apply s_update_keys|exact HI].
  - apply tinv_filter; exact HI.
  - apply tinv_filter; exact HI.
  - pose proof (s_map_keys s f) as Hk. destruct (s_map s f) as [[s' tr] ok]. simpl in *.
    apply (tinv_same_keys i s); [exact Hk|exact HI].
  - apply (tinv_same_keys i s); [reflexivity|exact HI].
  - destruct (s_each s f). apply (tinv_same_keys i s); [reflexivity|exact HI].
  - apply (tinv_same_keys i s); [reflexivity|exact HI].
  - apply (tinv_same_keys i s); [reflexivity|exact HI].
  - apply (tinv_same_keys i s); [reflexivity|exact HI].
  - apply (tinv_same_keys i s); [reflexivity|exact HI].
  - apply (tinv_same_keys i s); [reflexivity|exact HI].
  - apply (tinv_same_keys i s); [reflexivity|exact HI].
Qed.

Theorem t_run_inv ops : forall i st, TInv i st -> TInv (i + length ops) (t_run i st ops).
Proof.
  induction ops as [|o r IH]; intros i st HI; cbn [t_run length].
  - rewrite Nat.add_0_r. exact HI.
  - replace (i + S (length r)) with (S i + length r) by lia. apply IH, t_step_inv, HI.
Qed.

(* the stamped run computes the same map as the reference run *)
Lemma t_run_fst ops : forall i s b, fst (t_run i (s, b) ops) = fst (s_run zero s ops).
Proof.
  induction ops as [|o r IH]; intros i s b; cbn [t_run s_run]; [reflexivity|].
  unfold t_step. rewrite IH. destruct (s_step zero s o) as [s1 x]. simpl.
  destruct (s_run zero s1 r). reflexivity.
Qed.

Definition b0 : births := fun _ => 0.

(* ---------- what a birth stamp is: the position, in the history, of a Set of that key ---------- *)
Lemma step_keys (s : smap) (o : @op V) x :
  In x (map fst (fst (s_step zero s o))) ->
  In x (map fst s) \/ (exists v, o = OSet x v /\ s_has s x = false).
Proof.
  destruct o; cbn [s_step fst]; auto.
  - destruct (s_has s k) eqn:Eh.
    + rewrite (s_set_keys_present s k v (s_has_in s k Eh)). auto.
    + rewrite (s_set_absent s k v (s_has_not_in s k Eh)), map_app, in_app_iff. cbn [map fst In].
      intros [H|[<-|[]]]; [auto|]. right. exists v. auto.
  - rewrite s_update_keys. auto.
  - intros H. left. apply in_map_iff in H. destruct H as (z & <- & Hz). apply filter_In in Hz.
    apply in_map, Hz.
  - intros H. left. apply in_map_iff in H. destruct H as (z & <- & Hz). apply filter_In in Hz.
    apply in_map, Hz.
  - pose proof (s_map_keys s f) as Hk. destruct (s_map s f) as [[s' tr] ok]. simpl in *.
    rewrite Hk. auto.
  - destruct (s_each s f). auto.
Qed.

Definition stamped (full : list (@op V)) (st : smap * births) : Prop :=
  forall x, In x (map fst (fst st)) -> exists v, nth_error full (snd st x) = Some (OSet x v).

Lemma t_run_stamped ops : forall pre st, stamped (pre ++ ops) st ->
  stamped (pre ++ ops) (t_run (length pre) st ops).
Proof.
  induction ops as [|o r IH]; intros pre st HS; cbn [t_run]; [exact HS|].
  replace (S (length pre)) with (length (pre ++ [o])) by (rewrite app_length; simpl; lia).
  replace (pre ++ o :: r) with ((pre ++ [o]) ++ r) in * by (rewrite <- app_assoc; reflexivity).
  apply IH. destruct st as [s b]. intros x Hx. unfold t_step in *. cbn [fst snd] in *.
  destruct (step_keys s o x Hx) as [Hin|(v & -> & Hab)].
  - assert (Hb : (match o with OSet k _ => if s_has s k then b else upd b k (length pre) | _ => b end) x = b x).
    { destruct o; try reflexivity. destruct (s_has s k) eqn:Eh; [reflexivity|].
      unfold upd. destruct (Nat.eqb_spec x k) as [->|]; [|reflexivity].
      exfalso. exact (s_has_not_in s k Eh Hin). }
    rewrite Hb. apply (HS x Hin).
  - rewrite Hab. unfold upd. rewrite Nat.eqb_refl. exists v.
    rewrite <- app_assoc. rewrite nth_error_app2 by lia. rewrite Nat.sub_diag. reflexivity.
Qed.

Theorem births_are_sets ops :
  let st := t_run 0 ([], b0) ops in
  forall x, In x (map fst (fst st)) -> exists v, nth_error ops (snd st x) = Some (OSet x v).
Proof.
  cbv zeta. apply (t_run_stamped ops [] ([], b0)). intros x [].
Qed.


Theorem birth_sorted_spec ops :
  let st := t_run 0 ([], b0) ops in
  fst st = fst (s_run zero [] ops) /\ StronglySorted lt (map (snd st) (map fst (fst st))).
Proof.
  cbv zeta. split; [apply t_run_fst|].
  apply (t_run_inv ops 0 ([], b0)). split; constructor.
Qed.

(* the model of the generated Go type, any history *)
Theorem birth_sorted ops :
  let st := t_run 0 ([], b0) ops in
  abs zero (fst (run zero empty ops)) = fst st /\ StronglySorted lt (map (snd st) (map fst (fst st))).
Proof.
  cbv zeta. destruct (birth_sorted_spec ops) as [Hf Hs]. split; [|exact Hs].
  rewrite Hf. apply (omap_refines_reference zero ops).
Qed.

End Birth.
