(* Omap.v — executable model of the generated ordered map
   (/repo/ast_nodes_gen.go, rule_ast_nodes_gen.go,
    notations/jschema/internal/schema/constraints_gen.go; template
    internal/cmd/generator/orderedmap.go).

   The Go type is   struct { data map[K]V; order []K; mx sync.RWMutex }.
   [data] is modelled as a duplicate-free association list read only through
   [dget]/[dlen] (a Go map has no observable order except through range, and the
   generated code never ranges over [data]); [order] is a list of keys.
   Every method body runs under the mutex (checked from the source by tools/tabx,
   Gen/OmapLocks.v), so a method is one atomic step of this model.

   Callbacks are pure Gallina functions; the sequence of callback invocations is
   part of the observable output ("Filter and Map visit every entry exactly once").
   No proofs in this file. *)
From Coq Require Import List ZArith Bool Arith.
Import ListNotations.

Definition key := nat.

Section WithValue.
Context {V : Type}.
Variable zero : V.      (* Go's zero value, returned by m.data[k] for an absent key *)

Definition dmap := list (key * V).

Fixpoint dget (d : dmap) (k : key) : option V :=
  match d with
  | [] => None
  | (k', v) :: r => if Nat.eqb k k' then Some v else dget r k
  end.
Definition dgetz (d : dmap) (k : key) : V :=
  match dget d k with Some v => v | None => zero end.
Definition dhas (d : dmap) (k : key) : bool :=
  match dget d k with Some _ => true | None => false end.
Fixpoint ddel (d : dmap) (k : key) : dmap :=
  match d with
  | [] => []
  | (k', v) :: r => if Nat.eqb k k' then ddel r k else (k', v) :: ddel r k
  end.
Definition dset (d : dmap) (k : key) (v : V) : dmap := (k, v) :: ddel d k.

Record omap := mk { data : dmap; order : list key }.
Definition empty : omap := mk [] [].

(* ---- Set ---- *)
Definition m_set (m : omap) (k : key) (v : V) : omap :=
  mk (dset (data m) k v)
     (if dhas (data m) k then order m else order m ++ [k]).

(* ---- Update ---- *)
Definition m_update (m : omap) (k : key) (f : V -> V) : omap :=
  if dhas (data m) k then mk (dset (data m) k (f (dgetz (data m) k))) (order m) else m.

(* ---- delete (private helper): linear search for the index, then splice ---- *)
Fixpoint index_of (k : key) (l : list key) : option nat :=
  match l with
  | [] => None
  | x :: r => if Nat.eqb x k then Some 0 else option_map S (index_of k r)
  end.
Definition remove_at (i : nat) (l : list key) : list key := firstn i l ++ skipn (S i) l.
Definition m_delete (m : omap) (k : key) : omap :=
  mk (ddel (data m) k)
     (match index_of k (order m) with
      | Some i => remove_at i (order m)
      | None => order m
      end).

(* ---- Filter: iterate a snapshot of [order]; drop entries the callback rejects.
        Output: the (key,value) pairs the callback was invoked on, in order. ---- *)
Fixpoint filter_loop (f : key -> V -> bool) (ks : list key) (m : omap) (tr : list (key * V))
  : omap * list (key * V) :=
  match ks with
  | [] => (m, rev tr)
  | k :: r =>
    let v := dgetz (data m) k in
    let m' := if f k v then m else m_delete m k in
    filter_loop f r m' ((k, v) :: tr)
  end.
Definition m_filter (m : omap) (f : key -> V -> bool) : omap * list (key * V) :=
  filter_loop f (order m) m [].

(* ---- Map: callback may fail (None); iteration stops at the first failure ---- *)
Fixpoint map_loop (f : key -> V -> option V) (ks : list key) (d : dmap) (tr : list (key * V))
  : dmap * list (key * V) * bool :=
  match ks with
  | [] => (d, rev tr, true)
  | k :: r =>
    let v := dgetz d k in
    match f k v with
    | None => (d, rev ((k, v) :: tr), false)
    | Some v' => map_loop f r (dset d k v') ((k, v) :: tr)
    end
  end.
Definition m_map (m : omap) (f : key -> V -> option V) : omap * list (key * V) * bool :=
  let '(d, tr, ok) := map_loop f (order m) (data m) [] in (mk d (order m), tr, ok).

(* ---- Find ---- *)
Fixpoint find_loop (f : key -> V -> bool) (ks : list key) (d : dmap) : option (key * V) :=
  match ks with
  | [] => None
  | k :: r => if f k (dgetz d k) then Some (k, dgetz d k) else find_loop f r d
  end.
Definition m_find (m : omap) (f : key -> V -> bool) := find_loop f (order m) (data m).

(* ---- Each: callback returns true to signal an error; stops there ---- *)
Fixpoint each_loop (f : key -> V -> bool) (ks : list key) (d : dmap) (tr : list (key * V))
  : list (key * V) * bool :=
  match ks with
  | [] => (rev tr, true)
  | k :: r =>
    let v := dgetz d k in
    if f k v then (rev ((k, v) :: tr), false) else each_loop f r d ((k, v) :: tr)
  end.
Definition m_each (m : omap) (f : key -> V -> bool) := each_loop f (order m) (data m) [].

(* ---- EachSafe / MarshalJSON: the pairs in iteration order ---- *)
Definition m_pairs (m : omap) : list (key * V) :=
  map (fun k => (k, dgetz (data m) k)) (order m).

Definition m_get (m : omap) (k : key) : option V := dget (data m) k.
Definition m_getvalue (m : omap) (k : key) : V := dgetz (data m) k.
Definition m_has (m : omap) (k : key) : bool := dhas (data m) k.
Definition m_len (m : omap) : nat := length (data m).

(* ---- operations and outputs ---- *)
Inductive op :=
| OSet (k : key) (v : V)
| OUpdate (k : key) (f : V -> V)
| ODelete (k : key)
| OFilter (f : key -> V -> bool)
| OMap (f : key -> V -> option V)
| OFind (f : key -> V -> bool)
| OEach (f : key -> V -> bool)
| OEachSafe
| OGet (k : key)
| OGetValue (k : key)
| OHas (k : key)
| OLen
| OMarshal.

Inductive out :=
| RUnit
| RVal (v : V)
| ROpt (v : option V)
| RBool (b : bool)
| RNat (n : nat)
| RPairs (l : list (key * V))
| RPairsOk (l : list (key * V)) (ok : bool)
| RItem (i : option (key * V)).

Definition step (m : omap) (o : op) : omap * out :=
  match o with
  | OSet k v => (m_set m k v, RUnit)
  | OUpdate k f => (m_update m k f, RUnit)
  | ODelete k => (m_delete m k, RUnit)
  | OFilter f => let '(m', tr) := m_filter m f in (m', RPairs tr)
  | OMap f => let '(m', tr, ok) := m_map m f in (m', RPairsOk tr ok)
  | OFind f => (m, RItem (m_find m f))
  | OEach f => let '(tr, ok) := m_each m f in (m, RPairsOk tr ok)
  | OEachSafe => (m, RPairs (m_pairs m))
  | OGet k => (m, ROpt (m_get m k))
  | OGetValue k => (m, RVal (m_getvalue m k))
  | OHas k => (m, RBool (m_has m k))
  | OLen => (m, RNat (m_len m))
  | OMarshal => (m, RPairs (m_pairs m))
  end.

Fixpoint run (m : omap) (ops : list op) : omap * list out :=
  match ops with
  | [] => (m, [])
  | o :: r => let '(m1, x) := step m o in let '(m2, xs) := run m1 r in (m2, x :: xs)
  end.

End WithValue.
