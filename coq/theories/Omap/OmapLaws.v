(* OmapLaws.v — algebraic laws of the insertion-ordered map, first on the reference
   (OmapSpec.v), then carried to the model of the generated Go type through the
   refinement lemmas of OmapProofs.v.  They spell out "iteration follows first
   insertion of the live keys": a new key goes to the end, an existing key keeps its
   place, a deleted-then-set key moves to the end. *)
From Coq Require Import List ZArith Bool Arith Lia.
Import ListNotations.
From JS Require Import Omap.Omap Omap.OmapSpec Omap.OmapProofs.

Section Laws.
Context {V : Type}.
Variable zero : V.
Notation smap := (@smap V).

Lemma s_set_absent (s : smap) k v : ~ In k (map fst s) -> s_set s k v = s ++ [(k, v)].
Proof.
  induction s as [|[k' v'] r IH]; simpl; intros Hn; [reflexivity|].
  destruct (Nat.eqb_spec k k') as [->|Hne]; [exfalso; apply Hn; left; reflexivity|].
  rewrite IH; [reflexivity|]. intros Hi; apply Hn; right; exact Hi.
Qed.

Lemma s_set_keys_present (s : smap) k v : In k (map fst s) -> map fst (s_set s k v) = map fst s.
Proof.
  induction s as [|[k' v'] r IH]; simpl; intros Hi; [destruct Hi|].
  destruct (Nat.eqb_spec k k') as [->|Hne]; [reflexivity|].
  simpl. f_equal. apply IH. destruct Hi as [He|Hi]; [congruence|exact Hi].
Qed.

Lemma s_delete_not_in (s : smap) k : ~ In k (map fst (s_delete s k)).
Proof.
  unfold s_delete. intros Hi. apply in_map_iff in Hi. destruct Hi as ([k' v'] & He & Hf).
  apply filter_In in Hf. destruct Hf as [_ Hb]. simpl in *. subst k'.
  rewrite Nat.eqb_refl in Hb. discriminate.
Qed.

Lemma s_delete_then_set (s : smap) k v :
  s_set (s_delete s k) k v = s_delete s k ++ [(k, v)].
Proof. apply s_set_absent, s_delete_not_in. Qed.

Lemma s_get_set_same (s : smap) k v : s_get (s_set s k v) k = Some v.
Proof.
  induction s as [|[k' v'] r IH]; simpl; [rewrite Nat.eqb_refl; reflexivity|].
  destruct (Nat.eqb k k') eqn:E; simpl; rewrite E; [reflexivity|exact IH].
Qed.

Lemma s_get_set_other (s : smap) k v k' : k <> k' -> s_get (s_set s k v) k' = s_get s k'.
Proof.
  intros Hne. induction s as [|[k2 v2] r IH]; simpl.
  - destruct (Nat.eqb_spec k' k); [congruence|reflexivity].
  - destruct (Nat.eqb_spec k k2) as [->|H2]; simpl.
    + destruct (Nat.eqb_spec k' k2); [congruence|reflexivity].
    + destruct (Nat.eqb k' k2); [reflexivity|exact IH].
Qed.

Lemma s_get_delete_same (s : smap) k : s_get (s_delete s k) k = None.
Proof.
  induction s as [|[k' v'] r IH]; simpl; [reflexivity|].
  destruct (Nat.eqb k k') eqn:E; simpl; [exact IH|rewrite E; exact IH].
Qed.

Lemma s_filter_idem (s : smap) f : s_filter (s_filter s f) f = s_filter s f.
Proof.
  unfold s_filter. induction s as [|[k v] r IH]; simpl; [reflexivity|].
  destruct (f k v) eqn:E; simpl; [rewrite E, IH; reflexivity|exact IH].
Qed.

Lemma s_filter_all (s : smap) : s_filter s (fun _ _ => true) = s.
Proof. unfold s_filter. induction s as [|[k v] r IH]; simpl; [reflexivity|]. rewrite IH. reflexivity. Qed.

Lemma s_filter_none (s : smap) : s_filter s (fun _ _ => false) = [].
Proof. unfold s_filter. induction s as [|[k v] r IH]; simpl; [reflexivity|exact IH]. Qed.

Lemma s_delete_delete (s : smap) k : s_delete (s_delete s k) k = s_delete s k.
Proof.
  unfold s_delete. induction s as [|[k' v'] r IH]; simpl; [reflexivity|].
  destruct (Nat.eqb k k') eqn:E; simpl; [exact IH|rewrite E, IH; reflexivity].
Qed.

(* what must not change: Update and Map touch values only, never the keys or their order *)
Lemma s_update_keys (s : smap) k f : map fst (s_update s k f) = map fst s.
Proof.
  induction s as [|[k' v'] r IH]; simpl; [reflexivity|].
  destruct (Nat.eqb k k'); simpl; [reflexivity|rewrite IH; reflexivity].
Qed.

Lemma s_map_keys (s : smap) f : map fst (fst (fst (s_map s f))) = map fst s.
Proof.
  induction s as [|[k v] r IH]; simpl; [reflexivity|].
  destruct (f k v) as [v'|]; [|reflexivity].
  destruct (s_map r f) as [[r' tr] ok]. simpl in *. rewrite IH. reflexivity.
Qed.

Lemma s_filter_comm (s : smap) f g : s_filter (s_filter s f) g = s_filter (s_filter s g) f.
Proof.
  unfold s_filter. induction s as [|[k v] r IH]; simpl; [reflexivity|].
  destruct (f k v) eqn:Ef; destruct (g k v) eqn:Eg; simpl; rewrite ?Ef, ?Eg, IH; reflexivity.
Qed.

(* relative order of two live keys never changes: [before a b s] says that b is iterated
   somewhere after a.  Set of ANY key, Update of any key and Delete of a third key keep it. *)
Fixpoint after (a : key) (s : smap) : smap :=
  match s with
  | [] => []
  | (k, _) :: r => if Nat.eqb a k then r else after a r
  end.
Definition before (a b : key) (s : smap) : Prop := s_has (after a s) b = true.

Lemma s_has_set_mono (s : smap) k v b : s_has s b = true -> s_has (s_set s k v) b = true.
Proof.
  unfold s_has. destruct (Nat.eq_dec k b) as [->|Hne].
  - intros _. rewrite s_get_set_same. reflexivity.
  - rewrite s_get_set_other by exact Hne. auto.
Qed.

Lemma s_get_update (s : smap) k f b :
  s_get (s_update s k f) b = if Nat.eqb k b then option_map f (s_get s b) else s_get s b.
Proof.
  induction s as [|[k' v'] r IH]; simpl; [destruct (Nat.eqb k b); reflexivity|].
  destruct (Nat.eqb_spec k k') as [->|Hk]; simpl.
  - destruct (Nat.eqb_spec b k') as [->|Hb].
    + rewrite Nat.eqb_refl. reflexivity.
    + destruct (Nat.eqb_spec k' b); [congruence|reflexivity].
  - destruct (Nat.eqb_spec b k') as [->|Hb]; [|exact IH].
    destruct (Nat.eqb_spec k k'); [congruence|reflexivity].
Qed.

Lemma s_has_update (s : smap) k f b : s_has (s_update s k f) b = s_has s b.
Proof.
  unfold s_has. rewrite s_get_update. destruct (Nat.eqb k b); [|reflexivity].
  destruct (s_get s b); reflexivity.
Qed.

Lemma s_get_delete_other (s : smap) k b : k <> b -> s_get (s_delete s k) b = s_get s b.
Proof.
  intros Hne. induction s as [|[k' v'] r IH]; simpl; [reflexivity|].
  destruct (Nat.eqb_spec k k') as [->|Hk]; simpl.
  - destruct (Nat.eqb_spec b k'); [congruence|exact IH].
  - destruct (Nat.eqb b k'); [reflexivity|exact IH].
Qed.

Lemma before_set (s : smap) a b k v : before a b s -> before a b (s_set s k v).
Proof.
  unfold before. induction s as [|[k' v'] r IH]; simpl; [discriminate|].
  destruct (Nat.eqb k k') eqn:Ek; simpl; destruct (Nat.eqb a k') eqn:Ea; auto.
  apply s_has_set_mono.
Qed.

Lemma before_update (s : smap) a b k f : before a b s -> before a b (s_update s k f).
Proof.
  unfold before. induction s as [|[k' v'] r IH]; simpl; [discriminate|].
  destruct (Nat.eqb k k') eqn:Ek; simpl; destruct (Nat.eqb a k') eqn:Ea; auto.
  rewrite s_has_update. auto.
Qed.

Lemma after_delete (s : smap) a k : k <> a -> after a (s_delete s k) = s_delete (after a s) k.
Proof.
  intros Hne. induction s as [|[k' v'] r IH]; simpl; [reflexivity|].
  destruct (Nat.eqb_spec k k') as [->|Hk]; simpl.
  - destruct (Nat.eqb_spec a k'); [congruence|exact IH].
  - destruct (Nat.eqb a k'); [reflexivity|exact IH].
Qed.

Lemma before_delete (s : smap) a b k : k <> a -> k <> b -> before a b s -> before a b (s_delete s k).
Proof.
  unfold before. intros Ha Hb H. rewrite after_delete by exact Ha.
  unfold s_has in *. rewrite s_get_delete_other by exact Hb. exact H.
Qed.

(* [before] is a strict relation between live keys *)
Lemma s_has_in (s : smap) k : s_has s k = true -> In k (map fst s).
Proof.
  unfold s_has. induction s as [|[k' v'] r IH]; simpl; [discriminate|].
  destruct (Nat.eqb_spec k k') as [->|Hne]; [left; reflexivity|]. intros H; right; exact (IH H).
Qed.

Lemma before_live (s : smap) a b : before a b s -> s_has s a = true /\ s_has s b = true.
Proof.
  unfold before, s_has. induction s as [|[k' v'] r IH]; simpl; [discriminate|].
  destruct (Nat.eqb_spec a k') as [->|Hne].
  - intros H. split; [reflexivity|]. destruct (Nat.eqb b k'); [reflexivity|exact H].
  - intros H. destruct (IH H) as [H1 H2]. split; [exact H1|].
    destruct (Nat.eqb b k'); [reflexivity|exact H2].
Qed.

Lemma before_irrefl (s : smap) a : NoDup (map fst s) -> ~ before a a s.
Proof.
  unfold before. induction s as [|[k' v'] r IH]; simpl; intros Hn H; [discriminate|].
  inversion Hn as [|x l Hni Hn']; subst.
  destruct (Nat.eqb_spec a k') as [->|Hne]; [apply Hni, s_has_in; exact H|exact (IH Hn' H)].
Qed.

(* ... and transitive (keys distinct), so it is the strict total order of iteration *)
Lemma s_has_after (s : smap) a c : s_has (after a s) c = true -> s_has s c = true.
Proof.
  unfold s_has. induction s as [|[k' v'] r IH]; simpl; [auto|].
  destruct (Nat.eqb a k'); intros H; destruct (Nat.eqb c k'); auto.
Qed.

Lemma after_after (s : smap) a b : NoDup (map fst s) -> s_has (after a s) b = true ->
  after b s = after b (after a s).
Proof.
  induction s as [|[k' v'] r IH]; simpl; intros Hn H; [reflexivity|].
  inversion Hn as [|x l Hni Hn']; subst.
  destruct (Nat.eqb_spec a k') as [->|Ha].
  - destruct (Nat.eqb_spec b k') as [->|Hb]; [|reflexivity].
    exfalso. apply Hni, s_has_in. exact H.
  - destruct (Nat.eqb_spec b k') as [->|Hb]; [|exact (IH Hn' H)].
    exfalso. apply Hni, s_has_in, (s_has_after r a). exact H.
Qed.

Lemma before_trans (s : smap) a b c : NoDup (map fst s) ->
  before a b s -> before b c s -> before a c s.
Proof.
  unfold before. intros Hn Hab Hbc. rewrite (after_after s a b Hn Hab) in Hbc.
  exact (s_has_after _ b c Hbc).
Qed.

(* Filter: if both keys survive the predicate, their relative order survives too *)
Lemma after_filter (s : smap) a va f : s_get s a = Some va -> f a va = true ->
  after a (s_filter s f) = s_filter (after a s) f.
Proof.
  unfold s_filter. induction s as [|[k' v'] r IH]; simpl; [discriminate|].
  destruct (Nat.eqb_spec a k') as [->|Hne].
  - intros Hg Hf. inversion Hg; subst. rewrite Hf. simpl. rewrite Nat.eqb_refl. reflexivity.
  - intros Hg Hf. destruct (f k' v'); simpl.
    + destruct (Nat.eqb_spec a k'); [congruence|]. apply IH; assumption.
    + apply IH; assumption.
Qed.

Lemma s_get_filter_keep (s : smap) b vb f : s_get s b = Some vb -> f b vb = true ->
  s_get (s_filter s f) b = Some vb.
Proof.
  unfold s_filter. induction s as [|[k' v'] r IH]; simpl; [discriminate|].
  destruct (Nat.eqb_spec b k') as [->|Hne].
  - intros Hg Hf. inversion Hg; subst. rewrite Hf. simpl. rewrite Nat.eqb_refl. reflexivity.
  - intros Hg Hf. destruct (f k' v'); simpl.
    + destruct (Nat.eqb_spec b k'); [congruence|]. apply IH; assumption.
    + apply IH; assumption.
Qed.

Lemma before_filter (s : smap) a b va vb f :
  s_get s a = Some va -> f a va = true ->
  s_get (after a s) b = Some vb -> f b vb = true ->
  before a b (s_filter s f).
Proof.
  intros Ha Hfa Hb Hfb. unfold before. rewrite (after_filter s a va f Ha Hfa).
  unfold s_has. rewrite (s_get_filter_keep _ b vb f Hb Hfb). reflexivity.
Qed.

(* ---------- the same laws for the model of the Go type ---------- *)
Notation abs := (abs zero).
Implicit Types m : @omap V.

Theorem m_set_new_key_goes_last m k v : Inv m -> m_has m k = false ->
  abs (m_set m k v) = abs m ++ [(k, v)].
Proof.
  intros HI Hh. destruct (set_ok zero m k v HI) as [_ <-]. apply s_set_absent.
  unfold OmapProofs.abs. rewrite pairs_keys. destruct HI as (_ & _ & Hk).
  rewrite Hk. unfold m_has in Hh. rewrite Hh. discriminate.
Qed.

Theorem m_set_existing_key_keeps_place m k v : Inv m -> m_has m k = true ->
  map fst (abs (m_set m k v)) = map fst (abs m).
Proof.
  intros HI Hh. destruct (set_ok zero m k v HI) as [_ <-]. apply s_set_keys_present.
  unfold OmapProofs.abs. rewrite pairs_keys. destruct HI as (_ & _ & Hk).
  rewrite Hk. exact Hh.
Qed.

Theorem m_delete_then_set_moves_last m k v : Inv m ->
  abs (m_set (m_delete m k) k v) = s_delete (abs m) k ++ [(k, v)].
Proof.
  intros HI. destruct (delete_ok zero m k HI) as [HI1 Hd].
  destruct (set_ok zero (m_delete m k) k v HI1) as [_ <-]. rewrite <- Hd.
  apply s_delete_then_set.
Qed.

Theorem m_get_after_set m k v k' : Inv m ->
  m_get (m_set m k v) k' = if Nat.eqb k k' then Some v else m_get m k'.
Proof.
  intros HI. destruct (set_ok zero m k v HI) as [HI1 Hs]. unfold m_get.
  rewrite <- (get_abs zero _ _ HI1), <- Hs, <- (get_abs zero _ _ HI).
  destruct (Nat.eqb_spec k k') as [->|Hne]; [apply s_get_set_same|apply s_get_set_other; exact Hne].
Qed.

Theorem m_get_after_delete m k : Inv m -> m_get (m_delete m k) k = None.
Proof.
  intros HI. destruct (delete_ok zero m k HI) as [HI1 Hd]. unfold m_get.
  rewrite <- (get_abs zero _ _ HI1), <- Hd. apply s_get_delete_same.
Qed.

Theorem m_filter_twice m f (m1 : @omap V) t1 (m2 : @omap V) t2 : Inv m ->
  m_filter zero m f = (m1, t1) -> m_filter zero m1 f = (m2, t2) ->
  abs m2 = abs m1 /\ t2 = abs m1.
Proof.
  intros HI H1 H2. destruct (filter_ok zero m f m1 t1 HI H1) as (HI1 & _ & Hf1).
  destruct (filter_ok zero m1 f m2 t2 HI1 H2) as (_ & Ht & Hf2).
  split; [|exact Ht]. rewrite <- Hf2, <- Hf1. apply s_filter_idem.
Qed.

Theorem m_update_keeps_keys m k f : Inv m ->
  map fst (abs (m_update zero m k f)) = map fst (abs m).
Proof.
  intros HI. destruct (update_ok zero m k f HI) as [_ <-]. apply s_update_keys.
Qed.

Theorem m_map_keeps_keys m f (m1 : @omap V) tr ok : Inv m -> m_map zero m f = (m1, tr, ok) ->
  map fst (abs m1) = map fst (abs m).
Proof.
  intros HI Hm. destruct (map_ok zero m f m1 tr ok HI Hm) as [_ Hs].
  pose proof (s_map_keys (abs m) f) as Hk. rewrite Hs in Hk. exact Hk.
Qed.

Theorem m_order_stable_set m a b k v : Inv m -> before a b (abs m) -> before a b (abs (m_set m k v)).
Proof. intros HI H. destruct (set_ok zero m k v HI) as [_ <-]. apply before_set; exact H. Qed.

Theorem m_order_stable_update m a b k f : Inv m -> before a b (abs m) ->
  before a b (abs (m_update zero m k f)).
Proof. intros HI H. destruct (update_ok zero m k f HI) as [_ <-]. apply before_update; exact H. Qed.

Theorem m_order_stable_delete m a b k : Inv m -> k <> a -> k <> b -> before a b (abs m) ->
  before a b (abs (m_delete m k)).
Proof. intros HI Ha Hb H. destruct (delete_ok zero m k HI) as [_ <-]. apply before_delete; assumption. Qed.

Theorem m_order_stable_filter m f (m1 : @omap V) tr a b va vb : Inv m -> m_filter zero m f = (m1, tr) ->
  s_get (abs m) a = Some va -> f a va = true ->
  s_get (after a (abs m)) b = Some vb -> f b vb = true ->
  before a b (abs m1).
Proof.
  intros HI Hf Ha Hfa Hb Hfb. destruct (filter_ok zero m f m1 tr HI Hf) as (_ & _ & <-).
  apply (before_filter _ a b va vb); assumption.
Qed.

Theorem m_before_strict m a b : Inv m -> before a b (abs m) ->
  a <> b /\ m_has m a = true /\ m_has m b = true.
Proof.
  intros HI H. split.
  - intros ->. exact (before_irrefl _ b (abs_keys_nodup zero m HI) H).
  - destruct (before_live _ _ _ H) as [Ha Hb]. unfold s_has in *. rewrite !(get_abs zero _ _ HI) in *.
    split; [exact Ha|exact Hb].
Qed.

Theorem m_before_trans m a b c : Inv m ->
  before a b (abs m) -> before b c (abs m) -> before a c (abs m).
Proof. intros HI. apply before_trans. exact (abs_keys_nodup zero m HI). Qed.

End Laws.
