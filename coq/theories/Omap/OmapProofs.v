(* OmapProofs.v — the ordered-map model refines the reference association list. *)
From Coq Require Import List ZArith Bool Arith Lia Permutation.
Import ListNotations.
From JS Require Import Omap.Omap Omap.OmapSpec.

Arguments dset {V} d k v : simpl never.

Section Proofs.
Context {V : Type}.
Variable zero : V.

Notation dgetz := (@dgetz V zero).
Notation omap := (@omap V).

Definition pairs (d : @dmap V) (ks : list key) : list (key * V) :=
  map (fun k => (k, dgetz d k)) ks.
Definition abs (m : omap) : @smap V := pairs (data m) (order m).

Definition Inv (m : omap) : Prop :=
  NoDup (order m) /\ NoDup (map fst (data m)) /\
  (forall k, In k (order m) <-> dhas (data m) k = true).

Implicit Types d : @dmap V.
Implicit Types m : omap.

(* ---------- data-map lemmas ---------- *)
Lemma dget_ddel_same d k : dget (ddel d k) k = None.
Proof.
  induction d as [|[k' v] r IH]; simpl; [reflexivity|].
  destruct (Nat.eqb k k') eqn:E; [exact IH|]. simpl. rewrite E. exact IH.
Qed.
Lemma dget_ddel_other d k k' : k <> k' -> dget (ddel d k) k' = dget d k'.
Proof.
  intros Hne. induction d as [|[k0 v] r IH]; simpl; [reflexivity|].
  destruct (Nat.eqb k k0) eqn:E.
  - apply Nat.eqb_eq in E. subst k0.
    destruct (Nat.eqb k' k) eqn:E2; [apply Nat.eqb_eq in E2; congruence|exact IH].
  - simpl. destruct (Nat.eqb k' k0); [reflexivity|exact IH].
Qed.
Lemma dget_dset_same d k v : dget (dset d k v) k = Some v.
Proof. unfold dset; simpl. rewrite Nat.eqb_refl. reflexivity. Qed.
Lemma dget_dset_other d k v k' : k <> k' -> dget (dset d k v) k' = dget d k'.
Proof.
  intros Hne. unfold dset; simpl.
  destruct (Nat.eqb k' k) eqn:E; [apply Nat.eqb_eq in E; congruence|].
  apply dget_ddel_other; exact Hne.
Qed.
Lemma dget_in d k : (exists v, dget d k = Some v) <-> In k (map fst d).
Proof.
  induction d as [|[k' v] r IH]; simpl.
  - split; [intros [v H]; discriminate|intros []].
  - destruct (Nat.eqb k k') eqn:E.
    + apply Nat.eqb_eq in E. subst. split; [auto|eauto].
    + apply Nat.eqb_neq in E. rewrite IH. split; [auto|intros [H|H]; [congruence|exact H]].
Qed.
Lemma dhas_in d k : dhas d k = true <-> In k (map fst d).
Proof.
  rewrite <- dget_in. unfold dhas. destruct (dget d k); split; eauto; try discriminate.
  intros [v H]; discriminate.
Qed.
Lemma ddel_keys d k : map fst (ddel d k) = filter (fun x => negb (Nat.eqb k x)) (map fst d).
Proof.
  induction d as [|[k' v] r IH]; simpl; [reflexivity|].
  destruct (Nat.eqb k k'); simpl; rewrite IH; reflexivity.
Qed.
Lemma NoDup_filter {A} (p : A -> bool) l : NoDup l -> NoDup (filter p l).
Proof.
  induction 1 as [|x l Hx Hl IH]; simpl; [constructor|].
  destruct (p x); [constructor; [rewrite filter_In; tauto|exact IH]|exact IH].
Qed.
Lemma ddel_nodup d k : NoDup (map fst d) -> NoDup (map fst (ddel d k)).
Proof. intros H. rewrite ddel_keys. apply NoDup_filter; exact H. Qed.
Lemma dset_nodup d k v : NoDup (map fst d) -> NoDup (map fst (dset d k v)).
Proof.
  intros H. unfold dset; simpl. constructor; [|apply ddel_nodup; exact H].
  rewrite <- dhas_in. unfold dhas. rewrite dget_ddel_same. discriminate.
Qed.
Lemma dhas_ddel d k k' : dhas (ddel d k) k' = (negb (Nat.eqb k k') && dhas d k')%bool.
Proof.
  unfold dhas. destruct (Nat.eqb k k') eqn:E.
  - apply Nat.eqb_eq in E. subst. rewrite dget_ddel_same. reflexivity.
  - apply Nat.eqb_neq in E. rewrite dget_ddel_other by exact E. reflexivity.
Qed.
Lemma dhas_dset d k v k' : dhas (dset d k v) k' = (Nat.eqb k k' || dhas d k')%bool.
Proof.
  unfold dhas. destruct (Nat.eqb k k') eqn:E.
  - apply Nat.eqb_eq in E. subst. rewrite dget_dset_same. reflexivity.
  - apply Nat.eqb_neq in E. rewrite dget_dset_other by exact E. reflexivity.
Qed.
Lemma dgetz_ext d d' k : dget d k = dget d' k -> dgetz d k = dgetz d' k.
Proof. unfold Omap.dgetz. intros ->. reflexivity. Qed.

Lemma dgetz_dset_same d k v : dgetz (dset d k v) k = v.
Proof. unfold Omap.dgetz. rewrite dget_dset_same. reflexivity. Qed.
Lemma dgetz_dset_other d k v k' : k <> k' -> dgetz (dset d k v) k' = dgetz d k'.
Proof. intros H. apply dgetz_ext, dget_dset_other, H. Qed.

Lemma pairs_ext d d' ks : (forall k, In k ks -> dget d k = dget d' k) -> pairs d ks = pairs d' ks.
Proof.
  intros H. unfold pairs. apply map_ext_in. intros k Hk. f_equal. apply dgetz_ext, H, Hk.
Qed.
Lemma pairs_app d a b : pairs d (a ++ b) = pairs d a ++ pairs d b.
Proof. apply map_app. Qed.
Lemma pairs_keys d ks : map fst (pairs d ks) = ks.
Proof. unfold pairs. rewrite map_map. simpl. apply map_id. Qed.

(* ---------- reading ---------- *)
Lemma s_get_pairs d ks k : In k ks -> s_get (pairs d ks) k = Some (dgetz d k).
Proof.
  induction ks as [|x r IH]; simpl; [intros []|].
  intros [->|H]; [rewrite Nat.eqb_refl; reflexivity|].
  destruct (Nat.eqb k x) eqn:E; [apply Nat.eqb_eq in E; subst; reflexivity|apply IH, H].
Qed.
Lemma s_get_pairs_none d ks k : ~ In k ks -> s_get (pairs d ks) k = None.
Proof.
  induction ks as [|x r IH]; simpl; [reflexivity|]. intros H.
  destruct (Nat.eqb k x) eqn:E; [apply Nat.eqb_eq in E; subst; tauto|apply IH; tauto].
Qed.
Lemma get_abs m k : Inv m -> s_get (abs m) k = dget (data m) k.
Proof.
  intros (_ & _ & Hk). unfold abs. specialize (Hk k).
  destruct (dhas (data m) k) eqn:E.
  - rewrite s_get_pairs by (apply Hk; reflexivity).
    unfold Omap.dgetz, dhas in *. destruct (dget (data m) k); [reflexivity|discriminate].
  - rewrite s_get_pairs_none.
    + unfold dhas in E. destruct (dget (data m) k); [discriminate|reflexivity].
    + intros H. apply Hk in H. discriminate.
Qed.

Lemma len_abs m : Inv m -> length (abs m) = length (data m).
Proof.
  intros (Ho & Hd & Hk). unfold abs, pairs. rewrite map_length.
  rewrite <- (map_length fst (data m)). apply Permutation_length.
  apply NoDup_Permutation; [exact Ho|exact Hd|].
  intros k. rewrite Hk. apply dhas_in.
Qed.

(* ---------- Set ---------- *)
Lemma s_set_pairs_in d ks k v : NoDup ks -> In k ks ->
  s_set (pairs d ks) k v = pairs (dset d k v) ks.
Proof.
  induction 1 as [|x r Hx Hr IH]; simpl; [intros []|]. intros Hin.
  destruct (Nat.eqb k x) eqn:E.
  - apply Nat.eqb_eq in E. subst x. rewrite dgetz_dset_same. f_equal.
    apply pairs_ext. intros k' Hk'. symmetry. apply dget_dset_other. intros ->; tauto.
  - apply Nat.eqb_neq in E. destruct Hin as [->|Hin]; [congruence|].
    rewrite IH by exact Hin. rewrite dgetz_dset_other by exact E. reflexivity.
Qed.
Lemma s_set_pairs_notin d ks k v : ~ In k ks ->
  s_set (pairs d ks) k v = pairs (dset d k v) (ks ++ [k]).
Proof.
  induction ks as [|x r IH]; simpl; intros Hn.
  - rewrite dgetz_dset_same. reflexivity.
  - destruct (Nat.eqb k x) eqn:E; [apply Nat.eqb_eq in E; subst; tauto|].
    apply Nat.eqb_neq in E. rewrite IH by tauto. rewrite dgetz_dset_other by exact E. reflexivity.
Qed.

Lemma set_ok m k v : Inv m -> Inv (m_set m k v) /\ s_set (abs m) k v = abs (m_set m k v).
Proof.
  intros (Ho & Hd & Hk). unfold m_set, abs, Inv; cbn [data order].
  destruct (dhas (data m) k) eqn:E.
  - split; [split; [exact Ho|split; [apply dset_nodup; exact Hd|]]|].
    + intros k'. rewrite dhas_dset, Hk. destruct (Nat.eqb k k') eqn:E2; simpl; [|tauto].
      apply Nat.eqb_eq in E2. subst. tauto.
    + apply s_set_pairs_in; [exact Ho|apply Hk; exact E].
  - assert (Hn : ~ In k (order m)) by (rewrite Hk, E; discriminate).
    split; [split; [|split; [apply dset_nodup; exact Hd|]]|].
    + apply Permutation_NoDup with (l := k :: order m);
        [apply Permutation_cons_append|constructor; assumption].
    + intros k'. rewrite dhas_dset, in_app_iff, Hk. simpl.
      destruct (Nat.eqb k k') eqn:E2; simpl.
      * apply Nat.eqb_eq in E2. tauto.
      * apply Nat.eqb_neq in E2. tauto.
    + apply s_set_pairs_notin; exact Hn.
Qed.

(* ---------- Update ---------- *)
Lemma s_update_pairs d ks k f : NoDup ks ->
  s_update (pairs d ks) k f =
  if existsb (Nat.eqb k) ks then pairs (dset d k (f (dgetz d k))) ks else pairs d ks.
Proof.
  induction 1 as [|x r Hx Hr IH]; simpl; [reflexivity|].
  destruct (Nat.eqb k x) eqn:E; simpl.
  - apply Nat.eqb_eq in E. subst x. rewrite dgetz_dset_same. f_equal.
    apply pairs_ext. intros k' Hk'. symmetry. apply dget_dset_other. intros ->; tauto.
  - apply Nat.eqb_neq in E. rewrite IH. destruct (existsb (Nat.eqb k) r); [|reflexivity].
    rewrite dgetz_dset_other by exact E. reflexivity.
Qed.
Lemma existsb_eqb_in k ks : existsb (Nat.eqb k) ks = true <-> In k ks.
Proof.
  rewrite existsb_exists. split.
  - intros (x & Hx & E). apply Nat.eqb_eq in E. subst. exact Hx.
  - intros H. exists k. split; [exact H|apply Nat.eqb_refl].
Qed.
Lemma update_ok m k f : Inv m -> Inv (m_update zero m k f) /\ s_update (abs m) k f = abs (m_update zero m k f).
Proof.
  intros HI. pose proof HI as (Ho & Hd & Hk). unfold m_update, abs.
  rewrite s_update_pairs by exact Ho.
  destruct (dhas (data m) k) eqn:E.
  - assert (Hin : In k (order m)) by (apply Hk; exact E).
    apply existsb_eqb_in in Hin. rewrite Hin. simpl. split; [|reflexivity].
    split; [exact Ho|split; [apply dset_nodup; exact Hd|]]. simpl.
    intros k'. rewrite dhas_dset, Hk. destruct (Nat.eqb k k') eqn:E2; simpl; [|tauto].
    apply Nat.eqb_eq in E2. subst. tauto.
  - destruct (existsb (Nat.eqb k) (order m)) eqn:E2.
    + apply existsb_eqb_in, Hk in E2. congruence.
    + split; [exact HI|reflexivity].
Qed.

(* ---------- delete ---------- *)
Lemma remove_index_filter k l : NoDup l ->
  match index_of k l with Some i => remove_at i l | None => l end
  = filter (fun x => negb (Nat.eqb x k)) l.
Proof.
  induction 1 as [|x r Hx Hr IH]; simpl; [reflexivity|].
  destruct (Nat.eqb x k) eqn:E; simpl.
  - apply Nat.eqb_eq in E. subst x. unfold remove_at. simpl.
    symmetry. clear IH Hr. induction r as [|y t IHt]; simpl; [reflexivity|].
    destruct (Nat.eqb y k) eqn:E2; simpl.
    + apply Nat.eqb_eq in E2. subst. simpl in Hx. tauto.
    + f_equal. apply IHt. simpl in Hx. tauto.
  - destruct (index_of k r) as [i|]; simpl.
    + unfold remove_at in *. simpl. f_equal. exact IH.
    + f_equal. exact IH.
Qed.
Lemma order_delete m k : NoDup (order m) ->
  order (m_delete m k) = filter (fun x => negb (Nat.eqb x k)) (order m).
Proof. intros H. unfold m_delete; simpl. apply remove_index_filter, H. Qed.

Lemma delete_inv m k : Inv m -> Inv (m_delete m k).
Proof.
  intros (Ho & Hd & Hk). split; [|split].
  - rewrite order_delete by exact Ho. apply NoDup_filter, Ho.
  - simpl. apply ddel_nodup, Hd.
  - intros k'. rewrite order_delete by exact Ho. simpl. rewrite filter_In, dhas_ddel, Hk.
    rewrite andb_true_iff, (Nat.eqb_sym k' k). tauto.
Qed.
Lemma filter_pairs d ks (p : key -> bool) :
  filter (fun kv => p (fst kv)) (pairs d ks) = pairs d (filter p ks).
Proof.
  induction ks as [|x r IH]; simpl; [reflexivity|]. destruct (p x); simpl; rewrite IH; reflexivity.
Qed.
Lemma s_delete_pairs d ks k :
  s_delete (pairs d ks) k = pairs d (filter (fun x => negb (Nat.eqb x k)) ks).
Proof.
  unfold s_delete. induction ks as [|x r IH]; simpl; [reflexivity|].
  rewrite (Nat.eqb_sym k x). destruct (Nat.eqb x k); simpl; rewrite IH; reflexivity.
Qed.
Lemma delete_ok m k : Inv m -> Inv (m_delete m k) /\ s_delete (abs m) k = abs (m_delete m k).
Proof.
  intros HI. split; [apply delete_inv, HI|].
  destruct HI as (Ho & _ & _). unfold abs. rewrite order_delete by exact Ho.
  rewrite s_delete_pairs.
  apply pairs_ext. intros k' Hk'. apply filter_In in Hk'. destruct Hk' as [_ Hk'].
  symmetry. apply dget_ddel_other. intros ->. rewrite Nat.eqb_refl in Hk'. discriminate.
Qed.

(* ---------- Filter ---------- *)
Lemma filter_pairs2 d ks (f : key -> V -> bool) :
  filter (fun kv => f (fst kv) (snd kv)) (pairs d ks) = pairs d (filter (fun k => f k (dgetz d k)) ks).
Proof.
  induction ks as [|x r IH]; simpl; [reflexivity|].
  destruct (f x (dgetz d x)); simpl; rewrite IH; reflexivity.
Qed.

Lemma filter_not_in (k : key) l : ~ In k l -> filter (fun x => negb (Nat.eqb x k)) l = l.
Proof.
  induction l as [|y t IH]; simpl; [reflexivity|]. intros H.
  destruct (Nat.eqb y k) eqn:E; [apply Nat.eqb_eq in E; subst; tauto|]. simpl. f_equal. apply IH. tauto.
Qed.

Lemma filter_loop_ok f : forall ks pre m tr m' o,
  Inv m -> order m = pre ++ ks ->
  filter_loop zero f ks m tr = (m', o) ->
  Inv m' /\ o = rev tr ++ pairs (data m) ks /\
  order m' = pre ++ filter (fun k => f k (dgetz (data m) k)) ks /\
  (forall k, In k (order m') -> dget (data m') k = dget (data m) k).
Proof.
  induction ks as [|k r IH]; intros pre m tr m' o HI Hord Hrun; simpl in Hrun.
  - inversion Hrun; subst. rewrite app_nil_r in *. simpl. rewrite app_nil_r. auto.
  - pose proof HI as (Ho & Hd & Hk).
    assert (Hnd : NoDup (pre ++ k :: r)) by (rewrite <- Hord; exact Ho).
    assert (Hkr : ~ In k r /\ ~ In k pre).
    { apply NoDup_remove_2 in Hnd. rewrite in_app_iff in Hnd. tauto. }
    simpl. destruct (f k (dgetz (data m) k)) eqn:Ef.
    + specialize (IH (pre ++ [k]) m ((k, dgetz (data m) k) :: tr) m' o HI).
      rewrite <- app_assoc in IH. specialize (IH Hord Hrun).
      destruct IH as (HI' & Ho' & Hord' & Hd'). simpl in Ho'. rewrite <- app_assoc in Ho', Hord'.
      auto.
    + assert (Hord1 : order (m_delete m k) = pre ++ r).
      { rewrite order_delete by exact Ho. rewrite Hord, filter_app. simpl.
        rewrite Nat.eqb_refl. simpl. rewrite !filter_not_in by tauto. reflexivity. }
      specialize (IH pre (m_delete m k) ((k, dgetz (data m) k) :: tr) m' o
                     (delete_inv m k HI) Hord1 Hrun).
      destruct IH as (HI' & Ho' & Hord' & Hd').
      assert (Hsame : forall k', k' <> k -> dget (data (m_delete m k)) k' = dget (data m) k').
      { intros k' Hne. simpl. apply dget_ddel_other. congruence. }
      split; [exact HI'|]. split; [|split].
      * rewrite Ho'. simpl. rewrite <- app_assoc. simpl. f_equal. f_equal.
        apply pairs_ext. intros k' Hk'. apply Hsame. intros ->. tauto.
      * rewrite Hord'. f_equal. apply filter_ext_in. intros k' Hk'. f_equal.
        apply dgetz_ext, Hsame. intros ->. tauto.
      * intros k' Hk'. rewrite Hd' by exact Hk'. apply Hsame. intros ->.
        rewrite Hord' in Hk'. rewrite in_app_iff, filter_In in Hk'. tauto.
Qed.

Lemma filter_ok m f m' o : Inv m -> m_filter zero m f = (m', o) ->
  Inv m' /\ o = abs m /\ s_filter (abs m) f = abs m'.
Proof.
  intros HI Hrun. unfold m_filter in Hrun.
  destruct (filter_loop_ok f (order m) [] m [] m' o HI eq_refl Hrun) as (HI' & Ho & Hord & Hd).
  split; [exact HI'|]. split; [exact Ho|].
  unfold s_filter, abs. rewrite filter_pairs2. simpl in Hord. rewrite Hord.
  apply pairs_ext. intros k Hk. symmetry. apply Hd. rewrite Hord. exact Hk.
Qed.

(* ---------- Map ---------- *)
Lemma map_loop_ok f : forall ks d tr d' o ok,
  NoDup ks -> (forall k, In k ks -> dhas d k = true) -> NoDup (map fst d) ->
  map_loop zero f ks d tr = (d', o, ok) ->
  let '(s', tr', ok') := s_map (pairs d ks) f in
  o = rev tr ++ tr' /\ ok = ok' /\ pairs d' ks = s' /\
  (forall k, ~ In k ks -> dget d' k = dget d k) /\
  (forall k, dhas d' k = dhas d k) /\ NoDup (map fst d').
Proof.
  induction ks as [|k r IH]; intros d tr d' o ok Hnd Hin Hdd Hrun; simpl in Hrun |- *.
  - inversion Hrun; subst. rewrite app_nil_r. repeat split; auto.
  - inversion Hnd as [|? ? Hkr Hr]; subst.
    destruct (f k (dgetz d k)) as [v'|] eqn:Ef.
    + specialize (IH (dset d k v') ((k, dgetz d k) :: tr) d' o ok Hr).
      assert (Hp : pairs (dset d k v') r = pairs d r).
      { apply pairs_ext. intros k' Hk'. apply dget_dset_other. intros ->; tauto. }
      rewrite Hp in IH.
      destruct (s_map (pairs d r) f) as [[s' tr'] ok'].
      destruct IH as (Ho & Hok & Hs & Hother & Hhas & Hnd').
      * intros k' Hk'. rewrite dhas_dset, Hin by (right; exact Hk'). apply orb_true_r.
      * apply dset_nodup, Hdd.
      * exact Hrun.
      * split; [rewrite Ho; simpl; rewrite <- app_assoc; reflexivity|].
        split; [exact Hok|]. split; [|split; [|split]].
        -- rewrite <- Hs. f_equal. f_equal. unfold Omap.dgetz.
           rewrite (Hother k Hkr), dget_dset_same. reflexivity.
        -- intros k' Hk'. rewrite Hother by tauto. apply dget_dset_other. tauto.
        -- intros k'. rewrite Hhas, dhas_dset. destruct (Nat.eqb k k') eqn:E; [|reflexivity].
           apply Nat.eqb_eq in E. subst. simpl. symmetry. apply Hin. left; reflexivity.
        -- exact Hnd'.
    + inversion Hrun; subst. repeat split; auto.
Qed.

Lemma map_ok m f m' o ok : Inv m -> m_map zero m f = (m', o, ok) ->
  Inv m' /\ s_map (abs m) f = (abs m', o, ok).
Proof.
  intros (Ho & Hd & Hk) Hrun. unfold m_map in Hrun.
  destruct (map_loop zero f (order m) (data m) []) as [[d' o'] ok'] eqn:El.
  inversion Hrun; subst. clear Hrun.
  pose proof (map_loop_ok f (order m) (data m) [] d' o ok Ho (fun k H => proj1 (Hk k) H) Hd El) as H.
  unfold abs. destruct (s_map (pairs (data m) (order m)) f) as [[s' tr'] ok''].
  destruct H as (Ho' & Hok & Hs & _ & Hhas & Hnd'). simpl in *. subst.
  split; [|reflexivity].
  split; [exact Ho|split; [exact Hnd'|]]. simpl. intros k. rewrite Hhas. apply Hk.
Qed.

(* ---------- Each / Find ---------- *)
Lemma each_loop_ok f d : forall ks tr,
  each_loop zero f ks d tr = let '(tr', ok) := s_each (pairs d ks) f in (rev tr ++ tr', ok).
Proof.
  induction ks as [|k r IH]; intros tr; simpl.
  - rewrite app_nil_r. reflexivity.
  - destruct (f k (dgetz d k)); simpl.
    + reflexivity.
    + rewrite IH. destruct (s_each (pairs d r) f). simpl. rewrite <- app_assoc. reflexivity.
Qed.
Lemma find_loop_ok f d ks : find_loop zero f ks d = s_find (pairs d ks) f.
Proof.
  induction ks as [|k r IH]; simpl; [reflexivity|].
  destruct (f k (dgetz d k)); [reflexivity|exact IH].
Qed.

(* ---------- one step, then any sequence ---------- *)
Theorem step_refines m o m' x : Inv m -> step zero m o = (m', x) ->
  Inv m' /\ s_step zero (abs m) o = (abs m', x).
Proof.
  intros HI Hs. destruct o; cbn [step s_step] in *.
  - inversion Hs; subst. destruct (set_ok m k v HI) as [H1 H2]. rewrite H2. auto.
  - inversion Hs; subst. destruct (update_ok m k f HI) as [H1 H2]. rewrite H2. auto.
  - inversion Hs; subst. destruct (delete_ok m k HI) as [H1 H2]. rewrite H2. auto.
  - destruct (m_filter zero m f) as [m1 tr] eqn:E. inversion Hs; subst.
    destruct (filter_ok m f m' tr HI E) as (H1 & H2 & H3). rewrite H3, H2. auto.
  - destruct (m_map zero m f) as [[m1 tr] ok] eqn:E. inversion Hs; subst.
    destruct (map_ok m f m' tr ok HI E) as (H1 & H2). rewrite H2. auto.
  - inversion Hs; subst. split; [exact HI|]. unfold m_find, abs. rewrite find_loop_ok. reflexivity.
  - unfold m_each in Hs. rewrite each_loop_ok in Hs. unfold abs.
    destruct (s_each (pairs (data m) (order m)) f) as [tr ok]. inversion Hs; subst. auto.
  - inversion Hs; subst. auto.
  - inversion Hs; subst. split; [exact HI|]. rewrite get_abs by exact HI. reflexivity.
  - inversion Hs; subst. split; [exact HI|]. unfold s_getz. rewrite get_abs by exact HI. reflexivity.
  - inversion Hs; subst. split; [exact HI|]. unfold s_has. rewrite get_abs by exact HI. reflexivity.
  - inversion Hs; subst. split; [exact HI|]. rewrite len_abs by exact HI. reflexivity.
  - inversion Hs; subst. auto.
Qed.

Lemma inv_empty : Inv (@empty V).
Proof. split; [constructor|split; [constructor|]]. intros k; simpl; split; [intros []|discriminate]. Qed.

Theorem run_refines : forall ops m m' xs, Inv m -> run zero m ops = (m', xs) ->
  Inv m' /\ s_run zero (abs m) ops = (abs m', xs).
Proof.
  induction ops as [|o r IH]; intros m m' xs HI Hr; cbn [run s_run] in *.
  - inversion Hr; subst. auto.
  - destruct (step zero m o) as [m1 x] eqn:Es.
    destruct (step_refines m o m1 x HI Es) as [HI1 Hs]. rewrite Hs.
    destruct (run zero m1 r) as [m2 ys] eqn:Er. inversion Hr; subst.
    destruct (IH m1 m' ys HI1 Er) as [HI2 Hr2]. rewrite Hr2. auto.
Qed.

(* every history from the empty map: same outputs as the reference, and the final
   states correspond *)
Theorem omap_refines_reference ops :
  snd (run zero empty ops) = snd (s_run zero [] ops) /\
  abs (fst (run zero empty ops)) = fst (s_run zero [] ops) /\
  Inv (fst (run zero empty ops)).
Proof.
  destruct (run zero empty ops) as [m' xs] eqn:E.
  destruct (run_refines ops empty m' xs inv_empty E) as [HI Hr].
  change (abs empty) with (@nil (key * V)) in Hr. rewrite Hr. simpl. auto.
Qed.

(* ---------- corollaries quoted by the property ---------- *)

(* the reference keeps its keys duplicate-free, so iteration order is first insertion
   of the live keys *)
Lemma abs_keys_nodup m : Inv m -> NoDup (map fst (abs m)).
Proof. intros (Ho & _). unfold abs. rewrite pairs_keys. exact Ho. Qed.

Lemma delete_absent_identity m k : Inv m -> m_has m k = false -> abs (m_delete m k) = abs m.
Proof.
  intros HI Hh. destruct (delete_ok m k HI) as [_ <-].
  pose proof HI as (Ho & _ & Hk).
  assert (Hn : ~ In k (order m)) by (rewrite Hk; unfold m_has in Hh; rewrite Hh; discriminate).
  unfold abs. rewrite s_delete_pairs. f_equal. apply filter_not_in; exact Hn.
Qed.

Lemma len_is_iterated m : Inv m -> m_len m = length (m_pairs zero m).
Proof. intros HI. unfold m_len. rewrite <- len_abs by exact HI. reflexivity. Qed.

End Proofs.
