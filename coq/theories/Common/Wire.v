(* Wire.v — tiny text wire format shared by every executable model.
   A model entry point is a function [list byte -> list byte]; the OCaml driver
   (ocaml/modelrun.ml) only converts OCaml strings to [list byte] and back.
   All parsing and printing of cases therefore lives here, inside Coq, and can be
   evaluated with vm_compute as well as through extraction. No proofs in this file. *)
From Coq Require Import List ZArith NArith Bool Ascii.
From Coq Require Import Strings.Byte.
Import ListNotations.

Definition bytes := list byte.

Definition byte_eqb (a b : byte) : bool := N.eqb (Byte.to_N a) (Byte.to_N b).

(* linear-time reverse (List.rev is quadratic); rev_alt : rev l = rev_append l [] *)
Definition frev {A} (l : list A) : list A := rev_append l [].

(* ---- splitting ---- *)
Fixpoint split_on_aux (sep : byte) (cur : bytes) (bs : bytes) : list bytes :=
  match bs with
  | [] => [frev cur]
  | c :: r => if byte_eqb c sep then frev cur :: split_on_aux sep [] r
              else split_on_aux sep (c :: cur) r
  end.
Definition split_on (sep : byte) (bs : bytes) : list bytes := split_on_aux sep [] bs.

Definition join (sep : bytes) (xs : list bytes) : bytes :=
  match xs with
  | [] => []
  | x :: r => x ++ flat_map (fun y => sep ++ y) r
  end.

(* ---- decimal numbers ---- *)
Definition digit_val (c : byte) : option N :=
  let n := Byte.to_N c in
  if (N.leb 48 n && N.leb n 57)%bool then Some (n - 48)%N else None.

Fixpoint parse_N_aux (acc : N) (bs : bytes) : option N :=
  match bs with
  | [] => Some acc
  | c :: r => match digit_val c with
              | Some d => parse_N_aux (acc * 10 + d)%N r
              | None => None
              end
  end.
Definition parse_N (bs : bytes) : option N :=
  match bs with [] => None | _ => parse_N_aux 0%N bs end.
Definition parse_Z (bs : bytes) : option Z :=
  match bs with
  | x2d :: r => option_map (fun n => Z.opp (Z.of_N n)) (parse_N r)
  | _ => option_map Z.of_N (parse_N bs)
  end.
Definition parse_nat (bs : bytes) : option nat := option_map N.to_nat (parse_N bs).

Definition digit_byte (d : N) : byte :=
  match Byte.of_N (48 + d)%N with Some b => b | None => x3f end.

(* print N with explicit fuel (number of digits is at most N.size_nat n + 1) *)
Fixpoint print_N_aux (fuel : nat) (n : N) (acc : bytes) : bytes :=
  match fuel with
  | O => acc
  | S f =>
    let acc' := digit_byte (N.modulo n 10) :: acc in
    if N.ltb n 10 then acc' else print_N_aux f (N.div n 10) acc'
  end.
Definition print_N (n : N) : bytes := print_N_aux (S (N.size_nat n)) n [].
Definition print_Z (z : Z) : bytes :=
  match z with
  | Zneg p => x2d :: print_N (Npos p)
  | _ => print_N (Z.to_N z)
  end.
Definition print_nat (n : nat) : bytes := print_N (N.of_nat n).

(* ---- hex ---- *)
Definition hex_val (c : byte) : option N :=
  let n := Byte.to_N c in
  if (N.leb 48 n && N.leb n 57)%bool then Some (n - 48)%N
  else if (N.leb 97 n && N.leb n 102)%bool then Some (n - 87)%N
  else if (N.leb 65 n && N.leb n 70)%bool then Some (n - 55)%N
  else None.
Fixpoint unhex (bs : bytes) : option bytes :=
  match bs with
  | [] => Some []
  | a :: b :: r =>
    match hex_val a, hex_val b, unhex r with
    | Some x, Some y, Some t =>
      match Byte.of_N (x * 16 + y)%N with Some c => Some (c :: t) | None => None end
    | _, _, _ => None
    end
  | _ => None
  end.
Definition hex_digit (n : N) : byte :=
  match Byte.of_N (if N.ltb n 10 then 48 + n else 87 + n)%N with Some b => b | None => x3f end.
Definition hex (bs : bytes) : bytes :=
  flat_map (fun c => let n := Byte.to_N c in [hex_digit (N.div n 16); hex_digit (N.modulo n 16)]) bs.

(* ---- string literals for outputs ---- *)
Definition of_string (s : String.string) : bytes :=
  (fix go (s : String.string) : bytes :=
     match s with
     | String.EmptyString => []
     | String.String a r => Ascii.byte_of_ascii a :: go r
     end) s.

Definition sp : byte := x20.
Definition comma : byte := x2c.
Definition semi : byte := x3b.
Definition colon : byte := x3a.
Definition bar : byte := x7c.

Definition print_bool (b : bool) : bytes := if b then [x54] else [x46].   (* T / F *)

Fixpoint all_some {A} (l : list (option A)) : option (list A) :=
  match l with
  | [] => Some []
  | Some x :: r => option_map (cons x) (all_some r)
  | None :: _ => None
  end.

(* stable names for the OCaml driver *)
Definition wire_byte_of_N (n : N) : option byte := Byte.of_N n.
Definition wire_byte_to_N (b : byte) : N := Byte.to_N b.
