(* SchemaLenProofs.v — Schema.Len (model schema_len, after the fixes 555884d and c67ddfe) against the
   length-mode scan: when Len fails, when it returns a length, and what can (and cannot) be said
   about the prefix it returns.

   Requested statements and their fate (counterexamples below, evaluated by vm_compute):
     L1  schema_len bs = VLen n -> schema_len (firstn n bs) = VLen n
           FALSE with a trailing comment ([schema_len_stable_false]); holds on all short texts
           without '#' ([schema_len_stable_bounded])
     L2  schema_len bs = VLen n -> snd (scan false (firstn n bs)) = Done
           FALSE ([schema_len_prefix_complete_false]: an inline annotation dropped in length mode after
           a comment inside it); holds on all short texts ([schema_len_prefix_complete_bounded]);
           with scan true no counterexample is known, and it holds on all short texts
           ([schema_len_prefix_accepted_bounded])
     L4  schema_len bs = VErr c p <-> snd (scan true bs) = Err c p
           FALSE in both directions now: an error after EndTop is not seen by Len, and Len has its own
           error 202 (empty schema); the exact relation is [schema_len_error_iff].
   The two counterexamples that came from hasTrailingCharacters are gone with the fix 555884d
   ([repaired_a], [repaired_c]). *)
From Coq Require Import List NArith Bool Arith Lia.
From Coq Require Import Strings.Byte.
Import ListNotations.
From JS Require Import Common.Wire SchemaScan.SchemaScanner SchemaScan.SchemaProofs.

(* ================================================================== *)
(* 1. when Len fails, when it returns a length                         *)
(* ================================================================== *)
Definition is_endtop_ev (e : lexev) : bool := match e_type e with EndTop => true | _ => false end.
Definition has_endtop (evs : list lexev) : bool := existsb is_endtop_ev evs.

Lemma length_loop_stopped size : forall evs len,
  snd (length_loop size evs len) = has_endtop evs.
Proof.
  induction evs as [|e r IH]; intros len; cbn [length_loop has_endtop existsb]; [reflexivity|].
  unfold is_endtop_ev. destruct (e_type e); cbn [orb snd]; try apply IH. reflexivity.
Qed.
Lemma has_endtop_drop evs : has_endtop (drop_leading_newlines evs) = has_endtop evs.
Proof.
  induction evs as [|e r IH]; [reflexivity|]. cbn [drop_leading_newlines].
  destruct (e_type e) eqn:E; try reflexivity.
  rewrite IH. cbn [has_endtop existsb]. unfold is_endtop_ev. rewrite E. reflexivity.
Qed.

(* the length before trimming, and "nothing but blanks was found" *)
Definition len_raw (bs : bytes) : N :=
  fst (length_loop (N.of_nat (length bs)) (drop_leading_newlines (fst (scan true bs))) 0%N).
(* fix 2bf15a3: no value begins outside an annotation among the events Length() requests (up to and
   including the first EndTop): the text holds annotations (and comments, line breaks) only *)
Definition no_example (bs : bytes) : bool :=
  negb (has_example 0 (upto_end_top (drop_leading_newlines (fst (scan true bs))))).
Definition nothing_found (bs : bytes) : bool :=
  (no_example bs || forallb is_blank (firstn (N.to_nat (len_raw bs)) bs))%bool.

Lemma trim_blank_rev_nil l : trim_blank_rev l = [] <-> forallb is_blank l = true.
Proof.
  induction l as [|x l IH]; cbn [trim_blank_rev forallb]; [split; reflexivity|].
  destruct (is_blank x); cbn [andb]; [exact IH|split; intros H; discriminate H].
Qed.
Lemma trimmed_zero (l : bytes) :
  (N.of_nat (length (trim_blank_rev (frev l))) =? 0)%N = forallb is_blank l.
Proof.
  rewrite frev_rev.
  destruct (forallb is_blank l) eqn:E.
  - assert (H : forallb is_blank (rev l) = true).
    { rewrite forallb_forall in *. intros x Hx. apply E. apply in_rev. exact Hx. }
    apply trim_blank_rev_nil in H. rewrite H. reflexivity.
  - destruct (trim_blank_rev (rev l)) as [|x t] eqn:Et; [|reflexivity].
    apply trim_blank_rev_nil in Et. exfalso.
    assert (H : forallb is_blank l = true).
    { rewrite forallb_forall in *. intros x Hx. apply Et. apply -> in_rev. exact Hx. }
    congruence.
Qed.

(* the shape of schema_len in terms of the length-mode scan *)
Lemma schema_len_cases bs :
  schema_len bs =
  if (has_endtop (fst (scan true bs)) || match snd (scan true bs) with Done => true | _ => false end)%bool
  then if nothing_found bs then VErr code_empty_schema 0
       else VLen (N.of_nat (length (trim_blank_rev (frev (firstn (N.to_nat (len_raw bs)) bs)))))
  else match snd (scan true bs) with Err c p => VErr c p | _ => VPanic end.
Proof.
  pose proof (schema_len_no_panic bs) as Hnp. pose proof (schema_scan_no_panic true bs) as Hsp.
  unfold nothing_found, no_example, len_raw. unfold schema_len in *.
  destruct (scan true bs) as [evs o]. cbn [fst snd] in *.
  pose proof (length_loop_stopped (N.of_nat (length bs)) (drop_leading_newlines evs) 0%N) as Hs.
  rewrite has_endtop_drop in Hs.
  destruct (length_loop (N.of_nat (length bs)) (drop_leading_newlines evs) 0) as [raw stopped].
  cbn [fst snd] in *. subst stopped. rewrite <- trimmed_zero.
  destruct (negb (has_example 0 (upto_end_top (drop_leading_newlines evs)))); cbn [orb].
  { destruct (has_endtop evs); [reflexivity|]. destruct o; [reflexivity|reflexivity|exfalso; apply Hsp; reflexivity]. }
  destruct (N.of_nat (length bs) <? raw)%N.
  - destruct (has_endtop evs); [exfalso; apply Hnp; reflexivity|].
    destruct o; [exfalso; apply Hnp; reflexivity|reflexivity|exfalso; apply Hsp; reflexivity].
  - destruct (has_endtop evs); [reflexivity|]. destruct o; reflexivity.
Qed.

(* L4, exact form: Len fails with the DocumentError of the length-mode scan when no EndTop event was
   delivered before it, and with its own error 202 at 0 when the scan stopped or ended well but the
   computed prefix holds nothing but blanks *)
Theorem schema_len_error_iff : forall bs c p,
  schema_len bs = VErr c p <->
  (has_endtop (fst (scan true bs)) = false /\ snd (scan true bs) = Err c p) \/
  ((has_endtop (fst (scan true bs)) = true \/ snd (scan true bs) = Done) /\
   nothing_found bs = true /\ c = code_empty_schema /\ p = 0%N).
Proof.
  intros bs c p. rewrite schema_len_cases.
  destruct (has_endtop (fst (scan true bs))); cbn [orb].
  - destruct (nothing_found bs).
    + split; [intros H; inversion H; subst; right; repeat split; left; reflexivity|].
      intros [[H _]|[_ [_ [-> ->]]]]; [discriminate H|reflexivity].
    + split; [intros H; discriminate H|].
      intros [[H _]|[_ [H _]]]; discriminate H.
  - destruct (snd (scan true bs)) as [|c' p'|].
    + destruct (nothing_found bs).
      * split; [intros H; inversion H; subst; right; repeat split; right; reflexivity|].
        intros [[_ H]|[_ [_ [-> ->]]]]; [discriminate H|reflexivity].
      * split; [intros H; discriminate H|]. intros [[_ H]|[_ [H _]]]; discriminate H.
    + split; [intros H; inversion H; subst; left; split; reflexivity|].
      intros [[_ H]|[[H|H] _]]; [inversion H; reflexivity|discriminate H|discriminate H].
    + split; [intros H; discriminate H|]. intros [[_ H]|[[H|H] _]]; discriminate H.
Qed.

(* a scan error other than Len's own is the error of the length-mode scan *)
Theorem schema_len_error_sound : forall bs c p,
  schema_len bs = VErr c p -> c <> code_empty_schema -> snd (scan true bs) = Err c p.
Proof.
  intros bs c p H Hc. apply schema_len_error_iff in H.
  destruct H as [[_ H]|[_ [_ [H _]]]]; [exact H|contradiction].
Qed.

(* Len returns a length exactly when the length-mode scan delivered EndTop or reached the end, and
   something was found *)
Theorem schema_len_value_iff : forall bs,
  (exists n, schema_len bs = VLen n) <->
  ((has_endtop (fst (scan true bs)) = true \/ snd (scan true bs) = Done) /\ nothing_found bs = false).
Proof.
  intros bs. rewrite schema_len_cases.
  destruct (has_endtop (fst (scan true bs))); cbn [orb].
  - destruct (nothing_found bs).
    + split; [intros [n H]; discriminate H|intros [_ H]; discriminate H].
    + split; [intros _; split; [left|]; reflexivity|intros _; eexists; reflexivity].
  - destruct (snd (scan true bs)) as [|c' p'|].
    + destruct (nothing_found bs).
      * split; [intros [n H]; discriminate H|intros [_ H]; discriminate H].
      * split; [intros _; split; [right|]; reflexivity|intros _; eexists; reflexivity].
    + split; [intros [n H]; discriminate H|intros [[H|H] _]; discriminate H].
    + split; [intros [n H]; discriminate H|intros [[H|H] _]; discriminate H].
Qed.

(* ================================================================== *)
(* 2. counterexamples                                                  *)
(* ================================================================== *)
Definition bytes_of (l : list N) : bytes :=
  map (fun n => match Byte.of_N n with Some b => b | None => x00 end) l.
(* "1 # comment" LF "GET" *)
Definition cex_comment : bytes :=
  bytes_of [49; 32; 35; 32; 99; 111; 109; 109; 101; 110; 116; 10; 71; 69; 84]%N.
(* "1 x ##a" *)
Definition cex_error_after_endtop : bytes := bytes_of [49; 32; 120; 32; 35; 35; 97]%N.
(* "1*" LF "11" *)
Definition cex_trailing_then_newline : bytes := bytes_of [49; 42; 10; 49; 49]%N.
(* "1 // {#c" LF "} #d" LF "x" *)
Definition cex_annotation_popped : bytes :=
  bytes_of [49; 32; 47; 47; 32; 123; 35; 99; 10; 125; 32; 35; 100; 10; 120]%N.
(* "1x" LF "/*a*/ y" *)
Definition cex_trailing_then_annotation : bytes :=
  bytes_of [49; 120; 10; 47; 42; 97; 42; 47; 32; 121]%N.

(* L1 is false: a comment after the value is inside the returned prefix only because a new line
   follows it; Len of the prefix alone stops before the comment *)
Example schema_len_stable_false :
  schema_len cex_comment = VLen 11 /\ schema_len (firstn 11 cex_comment) = VLen 1.
Proof. vm_compute. split; reflexivity. Qed.

(* L4 right-to-left is false: an error after EndTop is never seen by Len; left-to-right is false
   too: Len has its own error *)
Example schema_len_error_iff_false :
  snd (scan true cex_error_after_endtop) = Err 301 6 /\ schema_len cex_error_after_endtop = VLen 1 /\
  schema_len [] = VErr 202 0 /\ snd (scan true []) = Done.
Proof. vm_compute. repeat split; reflexivity. Qed.

(* L2 (plain scanner) is false: lengthComputing mode drops an inline annotation whose object has
   ended (after a comment inside it reset the annotation mode); the plain scanner rejects the byte
   that follows the object.  The length-mode scanner accepts the prefix, with another Len. *)
Example schema_len_prefix_complete_false :
  schema_len cex_annotation_popped = VLen 13 /\
  snd (scan false (firstn 13 cex_annotation_popped)) = Err 301 10 /\
  snd (scan true (firstn 13 cex_annotation_popped)) = Done /\
  schema_len (firstn 13 cex_annotation_popped) = VLen 10.
Proof. vm_compute. repeat split; reflexivity. Qed.

(* the two counterexamples caused by hasTrailingCharacters are gone: the foreign byte glued to the
   root literal now ends the schema *)
Example repaired_a :
  schema_len cex_trailing_then_newline = VLen 1 /\
  snd (scan false (firstn 1 cex_trailing_then_newline)) = Done /\
  schema_len (firstn 1 cex_trailing_then_newline) = VLen 1.
Proof. vm_compute. repeat split; reflexivity. Qed.
Example repaired_c :
  schema_len cex_trailing_then_annotation = VLen 1 /\
  snd (scan true (firstn 1 cex_trailing_then_annotation)) = Done /\
  schema_len (firstn 1 cex_trailing_then_annotation) = VLen 1.
Proof. vm_compute. repeat split; reflexivity. Qed.

(* L3: the events of the prefix are not the events of the whole text before EndTop: NewLine events
   aside, an event closed by a later blank of the whole text is closed by the end of input in the
   prefix, with a smaller end offset.  "1 // abc  " LF "G": InlineAnnotationTextEnd ends at 9 in the
   whole text and at 7 in the prefix "1 // abc" *)
Definition cex_events : bytes := bytes_of [49; 32; 47; 47; 32; 97; 98; 99; 32; 32; 10; 71]%N.
Example schema_len_prefix_events_differ :
  schema_len cex_events = VLen 8 /\
  map (fun e => (ev_code (e_type e), e_begin e, e_end e)) (fst (scan true cex_events)) =
    [(0, 0, 0); (1, 0, 0); (12, 2, 3); (14, 5, 5); (15, 5, 9); (13, 2, 9); (20, 10, 10); (27, 11, 11)]%N /\
  map (fun e => (ev_code (e_type e), e_begin e, e_end e)) (fst (scan false (firstn 8 cex_events))) =
    [(0, 0, 0); (1, 0, 0); (12, 2, 3); (14, 5, 5); (15, 5, 7); (13, 2, 8)]%N.
Proof. vm_compute. repeat split; reflexivity. Qed.

(* ================================================================== *)
(* 3. L1 and L2 on all short texts                                     *)
(* ================================================================== *)
(* 1 space LF # / * { } a : quote x @ |  *)
Definition alpha : bytes := [x31; x20; x0a; x23; x2f; x2a; x7b; x7d; x61; x3a; x22; x78; x40; x7c].

(* depth-first search for a text (built from the end) on which [chk] fails *)
Fixpoint search (n : nat) (s : bytes) (chk : bytes -> bool) : option bytes :=
  if negb (chk s) then Some s else
  match n with
  | O => None
  | S m => fold_left (fun acc c => match acc with Some x => Some x | None => search m (c :: s) chk end)
                     alpha None
  end.

Lemma fold_search_none (f : byte -> option bytes) : forall l,
  fold_left (fun acc c => match acc with Some x => Some x | None => f c end) l None = None ->
  forall c, In c l -> f c = None.
Proof.
  assert (Hsome : forall l x, fold_left (fun acc c => match acc with Some y => Some y | None => f c end) l (Some x) = Some x).
  { induction l as [|a l IH]; intros x; cbn [fold_left]; [reflexivity|apply IH]. }
  induction l as [|a l IH]; intros H c Hin; [destruct Hin|].
  cbn [fold_left] in H. destruct (f a) as [x|] eqn:Ea; [rewrite Hsome in H; discriminate H|].
  destruct Hin as [->|Hin]; [exact Ea|exact (IH H c Hin)].
Qed.

Lemma search_sound chk : forall n s, search n s chk = None ->
  forall t, Forall (fun c => In c alpha) t -> length t <= n -> chk (t ++ s) = true.
Proof.
  induction n as [|n IH]; intros s H t Ht Hl.
  - destruct t; [|cbn [length] in Hl; lia]. cbn [search app] in *.
    destruct (chk s); [reflexivity|discriminate H].
  - cbn [search] in H. destruct (chk s) eqn:Es; [|discriminate H]. cbn [negb] in H.
    destruct (rev t) as [|c rt] eqn:Er.
    + assert (t = []) by (rewrite <- (rev_involutive t), Er; reflexivity). subst t. exact Es.
    + assert (Et : t = rev rt ++ [c]) by (rewrite <- (rev_involutive t), Er; reflexivity). subst t.
      apply Forall_app in Ht. destruct Ht as [Ht1 Ht2]. inversion Ht2 as [|? ? Hc _]; subst.
      rewrite app_length in Hl. cbn [length] in Hl.
      rewrite <- app_assoc. cbn [app].
      apply IH; [|exact Ht1|lia].
      apply (fold_search_none (fun c0 => search n (c0 :: s) chk) alpha H c Hc).
Qed.

Definition is_done (o : outcome) : bool := match o with Done => true | _ => false end.
Definition no_hash (bs : bytes) : bool := forallb (fun c => negb (ch c 35)) bs.
(* the prefix is accepted by the length-mode scanner and Len of it succeeds, with a length <= n *)
Definition chk_L2_length_mode (bs : bytes) : bool :=
  match schema_len bs with
  | VLen n => (is_done (snd (scan true (firstn (N.to_nat n) bs))) &&
               match schema_len (firstn (N.to_nat n) bs) with VLen m => N.leb m n | _ => false end)%bool
  | _ => true
  end.
Definition chk_L2 (bs : bytes) : bool :=
  match schema_len bs with
  | VLen n => is_done (snd (scan false (firstn (N.to_nat n) bs)))
  | _ => true
  end.
Definition chk_L1 (bs : bytes) : bool :=
  match schema_len bs with
  | VLen n => negb (no_hash bs) ||
              match schema_len (firstn (N.to_nat n) bs) with VLen m => N.eqb m n | _ => false end
  | _ => true
  end.

Lemma search_L2_length_mode : search 5 [] chk_L2_length_mode = None.
Proof. vm_compute. reflexivity. Qed.
Lemma search_L2 : search 5 [] chk_L2 = None.
Proof. vm_compute. reflexivity. Qed.
Lemma search_L1 : search 5 [] chk_L1 = None.
Proof. vm_compute. reflexivity. Qed.

Definition short (bs : bytes) : Prop := Forall (fun c => In c alpha) bs /\ length bs <= 5.

(* on short texts the prefix Len returns is accepted by the length-mode scanner, and Len of it
   succeeds with a length that is not larger *)
Theorem schema_len_prefix_accepted_bounded : forall bs n, short bs -> schema_len bs = VLen n ->
  snd (scan true (firstn (N.to_nat n) bs)) = Done /\
  exists m, schema_len (firstn (N.to_nat n) bs) = VLen m /\ (m <= n)%N.
Proof.
  intros bs n [Ha Hl] H.
  pose proof (search_sound chk_L2_length_mode 5 [] search_L2_length_mode bs Ha Hl) as Hc.
  rewrite app_nil_r in Hc. unfold chk_L2_length_mode in Hc. rewrite H in Hc.
  apply andb_prop in Hc. destruct Hc as [H1 H2]. split.
  - destruct (snd (scan true (firstn (N.to_nat n) bs))); [reflexivity|discriminate H1|discriminate H1].
  - destruct (schema_len (firstn (N.to_nat n) bs)) as [m| |]; try discriminate H2.
    exists m. split; [reflexivity|]. apply N.leb_le. exact H2.
Qed.

(* L2 on short texts (no hypothesis needed there; [schema_len_prefix_complete_false] is longer and
   needs a comment inside an annotation) *)
Theorem schema_len_prefix_complete_bounded : forall bs n, short bs -> schema_len bs = VLen n ->
  snd (scan false (firstn (N.to_nat n) bs)) = Done.
Proof.
  intros bs n [Ha Hl] H.
  pose proof (search_sound chk_L2 5 [] search_L2 bs Ha Hl) as Hk.
  rewrite app_nil_r in Hk. unfold chk_L2 in Hk. rewrite H in Hk.
  destruct (snd (scan false (firstn (N.to_nat n) bs))); [reflexivity|discriminate Hk|discriminate Hk].
Qed.

(* L1 on short texts without comments ([schema_len_stable_false] forces the hypothesis: the
   5-byte text "1#" LF "11" already has Len 2 and Len of the prefix 1) *)
Theorem schema_len_stable_bounded : forall bs n, short bs -> no_hash bs = true ->
  schema_len bs = VLen n -> schema_len (firstn (N.to_nat n) bs) = VLen n.
Proof.
  intros bs n [Ha Hl] Hh H.
  pose proof (search_sound chk_L1 5 [] search_L1 bs Ha Hl) as Hk.
  rewrite app_nil_r in Hk. unfold chk_L1 in Hk. rewrite H, Hh in Hk. cbn [negb orb] in Hk.
  destruct (schema_len (firstn (N.to_nat n) bs)) as [m| |]; try discriminate Hk.
  apply N.eqb_eq in Hk. subst m. reflexivity.
Qed.
Example schema_len_stable_needs_no_hash :
  let bs := bytes_of [49; 35; 10; 49; 49]%N in
  schema_len bs = VLen 2 /\ schema_len (firstn 2 bs) = VLen 1.
Proof. vm_compute. split; reflexivity. Qed.

(* ================================================================== *)
(* 4. Len after an inline annotation object (fix 0ff4f91)              *)
(* ================================================================== *)
(* "1 // {min: 1}x" and "1 // {min: 1} foo": the foreign byte after the annotation object ends the
   schema; the returned prefix is "1 // {min: 1}" and the prefix theorem holds for it *)
Definition len_after_annotation_1 : bytes :=
  bytes_of [49; 32; 47; 47; 32; 123; 109; 105; 110; 58; 32; 49; 125; 120]%N.
Definition len_after_annotation_2 : bytes :=
  bytes_of [49; 32; 47; 47; 32; 123; 109; 105; 110; 58; 32; 49; 125; 32; 102; 111; 111]%N.
Example schema_len_after_annotation_object :
  schema_len len_after_annotation_1 = VLen 13 /\
  schema_len len_after_annotation_2 = VLen 13 /\
  snd (scan true len_after_annotation_1) = Done /\
  snd (scan false len_after_annotation_1) = Err 301 13 /\
  snd (scan false (firstn 13 len_after_annotation_1)) = Done /\
  schema_len (firstn 13 len_after_annotation_1) = VLen 13.
Proof. vm_compute. repeat split; reflexivity. Qed.

(* ================================================================== *)
(* 5. a slash that cannot begin an annotation ends the schema (fix a0479cf) *)
(* ================================================================== *)
(* the events only grow *)
Lemma process_finds_extends i pb htc fs : forall stk acc stk' acc' ok,
  process_finds i pb htc stk fs acc = (stk', acc', ok) -> exists new, acc' = new ++ acc.
Proof.
  induction fs as [|e r IH]; intros stk acc stk' acc' ok; cbn [process_finds].
  - intros H. inversion H; subst. exists []. reflexivity.
  - destruct (process_found i pb htc stk e) as [[stk1 x]|].
    + intros H. destruct (IH _ _ _ _ _ H) as [new ->]. exists (new ++ [x]). rewrite <- app_assoc. reflexivity.
    + intros H. inversion H; subst. exists []. reflexivity.
Qed.
Lemma read_byte_extends c la : forall fuel s idx pb acc,
  exists new, fst (read_byte fuel s idx pb c la acc) = new ++ acc.
Proof.
  induction fuel as [|fuel IH]; intros s idx pb acc; cbn [read_byte]; [exists []; reflexivity|].
  destruct (call call_fuel c la pb (s_step s) s) as [s1|code|]; try (exists []; reflexivity).
  destruct (process_finds _ _ _ _ _ _) as [[stk' acc'] ok] eqn:Ep.
  destruct (process_finds_extends _ _ _ _ _ _ _ _ _ Ep) as [new ->].
  destruct ok; [|exists new; reflexivity].
  destruct (s_back s1); [|exists new; reflexivity].
  destruct (IH (set_back false (set_finds [] (set_stk stk' s1))) idx pb (new ++ acc)) as [new2 E].
  exists (new2 ++ new). rewrite E, app_assoc. reflexivity.
Qed.
Lemma run_extends_n n : forall bs s idx pb acc, length bs <= n ->
  exists new, r_acc (run s idx pb bs acc) = new ++ acc.
Proof.
  induction n as [|n IH]; intros bs s idx pb acc Hn;
    (destruct bs as [|c r]; cbn [run]; [exists []; reflexivity|cbn [length] in Hn; try lia]).
  destruct (read_byte_extends c r (S (length (s_rts s))) s idx pb acc) as [new E].
  destruct (read_byte (S (length (s_rts s))) s idx pb c r acc) as [acc' [s'|o]]; cbn [fst] in E; subst acc'.
  - destruct (s_skip s').
    + destruct r as [|x [|y r2]]; try (exists new; reflexivity).
      destruct (IH r2 (set_skip false s') (idx + 3)%N (Some y) (new ++ acc)) as [new2 E2]; [cbn [length] in Hn; lia|].
      exists (new2 ++ new). rewrite E2, app_assoc. reflexivity.
    + destruct (IH r s' (N.succ idx) (Some c) (new ++ acc)) as [new2 E2]; [lia|].
      exists (new2 ++ new). rewrite E2, app_assoc. reflexivity.
  - exists new. reflexivity.
Qed.
Lemma tail_extends size lastb : forall fuel s index acc,
  exists new, fst (tail fuel s index size lastb acc) = new ++ acc.
Proof.
  induction fuel as [|fuel IH]; intros s index acc; cbn [tail]; [exists []; reflexivity|].
  destruct (s_stk s) as [|[t b] rest]; [destruct (unfinished_step (s_step s)); exists []; reflexivity|].
  destruct t; try (exists []; reflexivity).
  - destruct (ev_eqb LiteralBegin LiteralBegin && s_unf s)%bool; [exists []; reflexivity|].
    destruct (process_found _ _ _ _ _) as [[stk' x]|]; [|exists []; reflexivity].
    destruct (IH (set_stk stk' s) (N.succ index) (x :: acc)) as [new E]. exists (new ++ [x]).
    rewrite E, <- app_assoc. reflexivity.
  - destruct (ev_eqb InlineAnnotationBegin LiteralBegin && s_unf s)%bool; [exists []; reflexivity|].
    destruct (process_found _ _ _ _ _) as [[stk' x]|]; [|exists []; reflexivity].
    destruct (IH (set_stk stk' s) (N.succ index) (x :: acc)) as [new E]. exists (new ++ [x]).
    rewrite E, <- app_assoc. reflexivity.
  - destruct (ev_eqb InlineAnnotationTextBegin LiteralBegin && s_unf s)%bool; [exists []; reflexivity|].
    destruct (process_found _ _ _ _ _) as [[stk' x]|]; [|exists []; reflexivity].
    destruct (IH (set_stk stk' s) (N.succ index) (x :: acc)) as [new E]. exists (new ++ [x]).
    rewrite E, <- app_assoc. reflexivity.
  - destruct (s_unf s); [exists []; reflexivity|].
    destruct (process_found _ _ _ _ TypesShortcutEnd) as [[stk1 x1]|]; [|exists []; reflexivity].
    destruct (process_found _ _ _ _ MixedValueEnd) as [[stk2 x2]|]; [|exists [x1]; reflexivity].
    destruct (IH (set_stk stk2 s) (N.succ index) (x2 :: x1 :: acc)) as [new E]. exists (new ++ [x2; x1]).
    rewrite E, <- app_assoc. reflexivity.
Qed.

(* what has been delivered when the scanner stands at [rest] stays at the head of the event list *)
Lemma scan_events_from lc bs s' idx' pb' rest acc' :
  run (new_scanner lc) 0%N None bs [] = run s' idx' pb' rest acc' ->
  exists more, fst (scan lc bs) = rev acc' ++ more.
Proof.
  intros E. unfold scan. rewrite E.
  destruct (run_extends_n (length rest) rest s' idx' pb' acc' (le_n _)) as [new En].
  destruct (run s' idx' pb' rest acc') as [[[acc o] s] pb]. unfold r_acc in En. cbn [fst] in En. subst acc.
  destruct o.
  - destruct (tail_extends (N.of_nat (length bs)) (last_byte bs None) (S (length (s_stk s))) s
                (N.of_nat (length bs)) (new ++ acc')) as [new2 E2].
    destruct (tail _ _ _ _ _ _) as [acc2 o2]. cbn [fst] in *. subst acc2.
    exists (rev new ++ rev new2). rewrite frev_rev, !rev_app_distr, app_assoc. reflexivity.
  - exists (rev new). cbn [fst]. rewrite frev_rev, rev_app_distr. reflexivity.
  - exists (rev new). cbn [fst]. rewrite frev_rev, rev_app_distr. reflexivity.
Qed.

(* {} LF / x ...: in length mode a slash that cannot begin an annotation ends the schema *)
Definition st1 := Eval vm_compute in run (new_scanner true) 0%N None [x7b] [].
Definition st2 := Eval vm_compute in run (new_scanner true) 0%N None [x7b; x7d] [].
Definition st3 := Eval vm_compute in run (new_scanner true) 0%N None [x7b; x7d; x0a] [].
Definition s3 : sc := r_sc st3.
Definition acc3 : list lexev := r_acc st3.

Lemma rb_obj_1 la : read_byte 1 (new_scanner true) 0%N None x7b la [] = (r_acc st1, inl (r_sc st1)).
Proof. vm_compute. reflexivity. Qed.
Lemma rb_obj_2 la : read_byte 1 (r_sc st1) 1%N (Some x7b) x7d la (r_acc st1) = (r_acc st2, inl (r_sc st2)).
Proof. vm_compute. reflexivity. Qed.
Lemma rb_obj_3 la : read_byte 1 (r_sc st2) 2%N (Some x7d) x0a la (r_acc st2) = (acc3, inl s3).
Proof. vm_compute. reflexivity. Qed.

Lemma run_obj_nl tl :
  run (new_scanner true) 0%N None (x7b :: x7d :: x0a :: tl) [] = run s3 3%N (Some x0a) tl acc3.
Proof.
  cbn [run]. change (length (s_rts (new_scanner true))) with 0. rewrite rb_obj_1.
  change (s_skip (r_sc st1)) with false. cbv iota.
  change (length (s_rts (r_sc st1))) with 0. change (N.succ 0) with 1%N. rewrite rb_obj_2.
  change (s_skip (r_sc st2)) with false. cbv iota.
  change (length (s_rts (r_sc st2))) with 0. change (N.succ 1) with 2%N. rewrite rb_obj_3.
  change (s_skip s3) with false. cbv iota. reflexivity.
Qed.

Lemma end_top_foreign_slash x rest : ch x 47 = false -> ch x 42 = false ->
  st_end_top x2f (x :: rest) s3 = ROk (found EndTop s3).
Proof.
  intros H47 H42. unfold st_end_top.
  change (is_new_line s3 x2f) with (ROk false : res bool). cbv iota.
  change (is_annotation_start x2f) with true. cbv iota.
  change (s_lc s3) with true. rewrite H47, H42. reflexivity.
Qed.

Lemma rb_foreign_slash x rest : ch x 47 = false -> ch x 42 = false ->
  read_byte 1 s3 3%N (Some x0a) x2f (x :: rest) acc3 = (mkev EndTop 3 3 false :: acc3, inl s3).
Proof.
  intros H47 H42. cbn [read_byte]. change (s_step s3) with SEndTop.
  change call_fuel with 16. rewrite call_S. lazy beta iota delta [dispatch].
  rewrite (end_top_foreign_slash x rest H47 H42). vm_compute. reflexivity.
Qed.

Lemma run_obj_nl_slash x rest : ch x 47 = false -> ch x 42 = false ->
  run (new_scanner true) 0%N None (x7b :: x7d :: x0a :: x2f :: x :: rest) [] =
  run s3 4%N (Some x2f) (x :: rest) (mkev EndTop 3 3 false :: acc3).
Proof.
  intros H47 H42. rewrite run_obj_nl. cbn [run].
  change (length (s_rts s3)) with 0. rewrite (rb_foreign_slash x rest H47 H42).
  change (s_skip s3) with false. cbv iota. reflexivity.
Qed.

Theorem schema_len_foreign_slash : forall x rest, ch x 47 = false -> ch x 42 = false ->
  schema_len (x7b :: x7d :: x0a :: x2f :: x :: rest) = VLen 2.
Proof.
  intros x rest H47 H42.
  set (bs := x7b :: x7d :: x0a :: x2f :: x :: rest).
  destruct (scan_events_from true bs _ _ _ _ _ (run_obj_nl_slash x rest H47 H42)) as [more Hev].
  unfold schema_len. destruct (scan true bs) as [evs o]. cbn [fst] in Hev. subst evs.
  assert (Hsz : N.of_nat (length bs) = (5 + N.of_nat (length rest))%N) by (unfold bs; cbn [length]; lia).
  rewrite Hsz.
  change (rev (mkev EndTop 3 3 false :: acc3) ++ more)
    with (mkev ObjectBegin 0 0 false :: mkev ObjectEnd 0 1 false :: mkev NewLine 2 2 false ::
          mkev EndTop 3 3 false :: more).
  cbn [drop_leading_newlines length_loop e_type e_end e_htc].
  destruct (N.eqb_spec 0 (5 + N.of_nat (length rest))) as [E|_]; [lia|].
  destruct (N.eqb_spec 1 (5 + N.of_nat (length rest))) as [E|_]; [lia|].
  destruct (N.eqb_spec 2 (5 + N.of_nat (length rest))) as [E|_]; [lia|].
  change (0 + 1 + 1 + 1)%N with 3%N.
  destruct (N.ltb_spec (5 + N.of_nat (length rest)) 3) as [E|_]; [lia|].
  reflexivity.
Qed.

(* "{}" LF "/abc/" ; "{"id": 1}" LF LF "/cats/{id}" ; "[1, 2]" LF "// x" (annotations are banned after a
   non-empty array: after the line break any slash ends the schema) ; "[1, 2] // x" (304) ; "1 /"
   (fix 3cd814f: a slash that is the last byte of the text ends the schema; it was Err 303 at 2) *)
Example schema_len_trailer_with_slash :
  schema_len (bytes_of [123; 125; 10; 47; 97; 98; 99; 47]%N) = VLen 2 /\
  schema_len (bytes_of [123; 34; 105; 100; 34; 58; 32; 49; 125; 10; 10; 47; 99; 97; 116; 115; 47; 123; 105; 100; 125]%N) = VLen 9 /\
  schema_len (bytes_of [91; 49; 44; 32; 50; 93; 10; 47; 47; 32; 120]%N) = VLen 6 /\
  schema_len (bytes_of [91; 49; 44; 32; 50; 93; 32; 47; 47; 32; 120]%N) = VErr 304 7 /\
  schema_len (bytes_of [49; 32; 47]%N) = VLen 1.
Proof. vm_compute. repeat split; reflexivity. Qed.

(* ================================================================== *)
(* 6. CRLF layout (fix 542fa4b) and a block comment opened in the tail of an inline annotation
      (fix 0196ace)                                                      *)
(* ================================================================== *)
(* {"a":1, // x CR LF "b":2}  and the same with LF alone *)
Definition crlf_text : bytes :=
  bytes_of [123; 34; 97; 34; 58; 49; 44; 32; 47; 47; 32; 120; 13; 10; 34; 98; 34; 58; 50; 125]%N.
Definition lf_text : bytes :=
  bytes_of [123; 34; 97; 34; 58; 49; 44; 32; 47; 47; 32; 120; 10; 34; 98; 34; 58; 50; 125]%N.
Definition ev_types (evs : list lexev) : list N := map (fun e => ev_code (e_type e)) evs.
Definition not_newline (e : lexev) : bool := match e_type e with NewLine => false | _ => true end.
Example crlf_layout :
  snd (scan false crlf_text) = Done /\ snd (scan false lf_text) = Done /\
  ev_types (filter not_newline (fst (scan false crlf_text))) =
  ev_types (filter not_newline (fst (scan false lf_text))) /\
  length (fst (scan false crlf_text)) = S (length (fst (scan false lf_text))) /\
  (* the CR closes the annotation (NewLine at 12), the LF is one more NewLine at 13, and the next key
     is found in the same step *)
  map (fun e => (ev_code (e_type e), e_begin e, e_end e)) (firstn 4 (skipn 10 (fst (scan false crlf_text)))) =
    [(13, 8, 11); (20, 12, 12); (20, 13, 13); (4, 14, 14)]%N.
Proof. vm_compute. repeat split; reflexivity. Qed.

(* "1 // x ### c" LF "d ###" LF: the ### after the annotation text opens a block comment that ends
   on the next line; the text is accepted, the annotation text is "x" (5..6), and Len is 18 (the
   whole text without its last line break) *)
Definition annotation_then_block_comment : bytes :=
  bytes_of [49; 32; 47; 47; 32; 120; 32; 35; 35; 35; 32; 99; 10; 100; 32; 35; 35; 35; 10]%N.
Example annotation_then_block_comment_scan :
  map (fun e => (ev_code (e_type e), e_begin e, e_end e)) (fst (scan false annotation_then_block_comment)) =
    [(0, 0, 0); (1, 0, 0); (12, 2, 3); (14, 5, 5); (15, 5, 6); (13, 2, 6); (20, 18, 18)]%N /\
  snd (scan false annotation_then_block_comment) = Done /\
  scan true annotation_then_block_comment = scan false annotation_then_block_comment /\
  schema_len annotation_then_block_comment = VLen 18.
Proof. vm_compute. repeat split; reflexivity. Qed.

(* ================================================================== *)
(* 7. a text of annotations only has no schema (fix 2bf15a3)           *)
(* ================================================================== *)
(* Len returns an error when the text does not begin with a schema: if, among the events Length()
   requests (up to and including the first EndTop, leading NewLine events aside), no LiteralBegin /
   ObjectBegin / ArrayBegin / MixedValueBegin arrives while no annotation is open, Len is never a length *)
Theorem schema_len_needs_example : forall bs n, schema_len bs = VLen n ->
  has_example 0 (upto_end_top (drop_leading_newlines (fst (scan true bs)))) = true.
Proof.
  intros bs n H. assert (Hv : exists m, schema_len bs = VLen m) by (exists n; exact H).
  apply schema_len_value_iff in Hv. destruct Hv as [_ Hnf]. unfold nothing_found, no_example in Hnf.
  apply orb_false_iff in Hnf. destruct Hnf as [Hne _]. apply negb_false_iff in Hne. exact Hne.
Qed.

Theorem schema_len_no_example : forall bs, no_example bs = true ->
  (forall n, schema_len bs <> VLen n) /\
  ((has_endtop (fst (scan true bs)) = true \/ snd (scan true bs) = Done) ->
   schema_len bs = VErr code_empty_schema 0).
Proof.
  intros bs Hne. split.
  - intros n H. apply schema_len_needs_example in H. unfold no_example in Hne. rewrite H in Hne. discriminate Hne.
  - intros Hok. apply schema_len_error_iff. right. split; [exact Hok|]. split; [|split; reflexivity].
    unfold nothing_found. rewrite Hne. reflexivity.
Qed.

(* "// x" ; "/* x */" ; "// x" LF "1" ; "{}" LF "/" ; "1 // {min: 0}" LF "/" ; "[1] /" (was 304 at 4) *)
Example schema_len_annotations_only :
  schema_len (bytes_of [47; 47; 32; 120]%N) = VErr 202 0 /\
  schema_len (bytes_of [47; 42; 32; 120; 32; 42; 47]%N) = VErr 202 0 /\
  schema_len (bytes_of [47; 47; 32; 120; 10; 49]%N) = VLen 6 /\
  schema_len (bytes_of [123; 125; 10; 47]%N) = VLen 2 /\
  schema_len (bytes_of [49; 32; 47; 47; 32; 123; 109; 105; 110; 58; 32; 48; 125; 10; 47]%N) = VLen 13 /\
  schema_len (bytes_of [91; 49; 93; 32; 47]%N) = VLen 3 /\
  (* in length mode a slash that is the last byte no longer ends inside an opener: "1 /" *)
  snd (scan true (bytes_of [49; 32; 47]%N)) = Done /\
  snd (scan false (bytes_of [49; 32; 47]%N)) = Err 303 2 /\
  (* at the root value position nothing changed: "/" and " /" *)
  schema_len (bytes_of [47]%N) = VErr 303 0 /\ snd (scan true (bytes_of [32; 47]%N)) = Err 303 1.
Proof. vm_compute. repeat split; reflexivity. Qed.
