(* Loader.v — executable model of the JSight schema LOADER
   (/repo/notations/jschema/internal/loader: loader.go, embedded_loader_for_node.go,
   embedded_loader_for_rule.go, embedded_loader_for_rule_enum_value.go,
   embedded_loader_for_rule_or_value.go, embedded_loader_for_rule_or_value_rule_set.go,
   embedded_loader_for_rule_allof_value.go, shortcut.go; the Grow methods and AddConstraint of
   /repo/notations/jschema/internal/schema/*_node.go; the constructors of
   /repo/notations/jschema/internal/schema/constraint/c_*.go; the part of compiler_basic.go that the
   loader itself runs on the unnamed types of an "or" rule).

   Input: the event list of SchemaScanner.scan and the source bytes.  Output: the tree of example
   nodes with their rules as written, or the error the loader (or the scanner) stops with.

   Go panics are modelled by [fail]:
     FErr c    panic(errors.Err) not positioned yet; the nearest enclosing
               `defer lexeme.CatchLexEventError(lex)` turns it into FDoc c lex.Begin()
     FGo       any other panic value (string, runtime error, foreign error): the nearest
               CatchLexEventError turns it into FDoc 0 lex.Begin()   (ErrGeneric)
     FDoc c p  panic(DocumentError): passes through every CatchLexEventError
     FStuck    the model gives up (a situation believed unreachable from scanner output)
   A panic that reaches doLoad without being a DocumentError is [LPanic].

   Structure (every Go function is a definition of the same or a similar name, in statement order):
     loader.doLoad / handleLex                  step, run_events   (structural recursion over the events)
     nodeLoader.Load, schema.NewNode, Grow      node_load, new_node, grow; the open nodes are the explicit
                                                stack [l_stack]; lastAddedNode = [last_node] (the end of the
                                                chain of last children)
     ObjectNode.addKey / ObjectNodeKeys.Set     add_key (duplicate keys: 402)
     baseNode.AddConstraint, MixedValueNode.AddConstraint / addTypeConstraint / addOrConstraint
                                                base_add (501), node_add, mixed_add_type
     addShortcutConstraint, addORShortcut, addTypeShortcut            add_shortcut
     ruleLoader (11 state functions)            rl_step, load_embedded
     constraint.NewConstraintFromRule + New*    new_constraint (601, 604, 605, 103, 0)
     enumValueLoader, Enum.Append/SetComment, NewEnumItem             enum_step, enum_append (810), enum_set_comment
     allOfValueLoader, AllOf.Append             allof_step_in, allof_append (808, 702)
     orValueLoader                              or_step (901..904)
     orRuleSetLoader, makeTypeFromRuleSet, checkCompatibilityOfConstraints, makeTypeASTNode
                                                rs_step, make_type_from_rule_set (905, 1117)
     CompileBasic on the MixedNode root of an unnamed type (compiler_basic.go compileNode)
                                                compile_mixed, compile_type (102, 11xx, 617, 618)
     Node.ASTNode, collectASTRules, getASTNodeSchemaType, Constraint.ASTNode    to_ast, ast_rules, ast_schema_type, ast_of
   Result: [load : bytes -> result] with the tree [node] of the rules AS WRITTEN ([rval], [annot]);
   [loader_model] prints the AST view (what Schema.buildASTNode returns right after loading) with the
   as-written view embedded.

   Wire output of [loader_model_line] (one line):
     A:<node>          loaded; <node> is JSON:
        {"tt": token type, "st": hex schema type, "key": hex, "ks": bool, "v": hex value (unquoted literal /
         trimmed text of a type shortcut), "c": hex note, "rules": [[hex name, <rule>]...], "ch": [<node>...],
         "w": {"rules": [[hex name, <written>]...], "note": hex}, "tok": hex raw token of a literal}
        <rule>    = {"tt": token type, "v": hex, "c": hex, "items": [<rule>...], "props": [[hex name, <rule>]...],
                     "src": 1 (written) | 2 (generated from a shortcut)}
        <written> = {"lit": hex raw token} | {"arr": [<written>...]} | {"obj": [[hex name, <written>]...]} | {"ref": hex}
     EMPTY             loaded, no example (root node nil)
     E<code>@<pos>     DocumentError of the scanner or the loader
     PANIC             any other panic           STUCK   the model gave up
   Not modelled: regexp.MustCompile (oracle [env_badrx]); enum.Enum.Values() of a registered rule (the
   values are an input, [env_enums]); the Unicode white space of strings.TrimSpace beyond ASCII; Go's
   slicing up to the capacity (the model slices up to the length).
   No proofs in this file. *)
From Coq Require Import String.
From Coq Require Import List NArith Bool Arith.
From Coq Require Import Strings.Byte.
Import ListNotations.
From JS Require Num.NumModel Text.Unquote.
From JS Require Import Common.Wire SchemaScan.SchemaScanner.

(* ------------------------------------------------------------------ results *)
Inductive fail := FErr (code : N) | FGo | FDoc (code pos : N) | FStuck.
Inductive R (A : Type) := Ok (a : A) | Fail (f : fail).
Arguments Ok {A} a.
Arguments Fail {A} f.
Local Notation "'do' x <- a ; b" :=
  (match a with Ok x => b | Fail f_ => Fail f_ end)
  (at level 200, x name, a at level 100, b at level 200).
(* defer lexeme.CatchLexEventError(lex) with lex.Begin() = pos *)
Definition catch {A} (pos : N) (r : R A) : R A :=
  match r with
  | Fail (FErr c) => Fail (FDoc c pos)
  | Fail FGo => Fail (FDoc 0 pos)
  | x => x
  end.

(* ------------------------------------------------------------------ bytes *)
Fixpoint beq (a b : bytes) : bool :=
  match a, b with
  | [], [] => true
  | x :: a', y :: b' => (byte_eqb x y && beq a' b')%bool
  | _, _ => false
  end.
Definition is (s : String.string) (b : bytes) : bool := beq b (of_string s).

Record src := mksrc { s_text : bytes; s_len : N }.
(* lex.Value() = content[begin : end+1]; None = slice bounds out of range (runtime panic).
   (Go checks against the capacity, the model against the length.) *)
Definition slice (S : src) (b e : N) : option bytes :=
  let hi := (e + 1)%N in
  if (N.ltb hi b || N.ltb (s_len S) hi)%bool then None
  else Some (firstn (N.to_nat (hi - b)) (skipn (N.to_nat b) (s_text S))).
Definition value (S : src) (b e : N) : R bytes :=
  match slice S b e with Some v => Ok v | None => Fail FGo end.
Definition evalue (S : src) (e : lexev) : R bytes := value S (e_begin e) (e_end e).

(* Bytes.TrimSpaces *)
Fixpoint drop_blank (b : bytes) : bytes :=
  match b with c :: r => if is_blank c then drop_blank r else b | [] => [] end.
Definition trim_spaces (b : bytes) : bytes := frev (drop_blank (frev (drop_blank b))).
(* strings.TrimSpace, ASCII white space only (\t \n \v \f \r space); the multi-byte Unicode
   spaces cannot occur in the value of a types shortcut *)
Definition is_go_space (c : byte) : bool :=
  let n := Byte.to_N c in ((N.leb 9 n && N.leb n 13) || N.eqb n 32)%bool.
Fixpoint drop_go_space (b : bytes) : bytes :=
  match b with c :: r => if is_go_space c then drop_go_space r else b | [] => [] end.
Definition go_trim_space (b : bytes) : bytes := frev (drop_go_space (frev (drop_go_space b))).

(* Bytes.IsUserTypeName *)
Definition is_user_type_name (b : bytes) : bool :=
  match b with
  | c :: ((_ :: _) as r) => (ch c 64 && forallb is_name r)%bool
  | _ => false
  end.
Definition unquote (b : bytes) : bytes := Unquote.unquote b.
Definition in_quotes (b : bytes) : bool := Unquote.in_quotes b.
Definition parse_bool (b : bytes) : option bool :=
  if is "true" b then Some true else if is "false" b then Some false else None.

(* ------------------------------------------------------------------ JSON types (internal/json) *)
Inductive jt := JUndef | JObject | JArray | JString | JInteger | JFloat | JBoolean | JNull | JMixed.
Definition jt_code (t : jt) : N :=
  match t with JUndef => 0 | JObject => 1 | JArray => 2 | JString => 3 | JInteger => 4
             | JFloat => 5 | JBoolean => 6 | JNull => 7 | JMixed => 8 end.
Definition jt_eqb (a b : jt) : bool := N.eqb (jt_code a) (jt_code b).
(* Type.String() *)
Definition jt_string (t : jt) : bytes :=
  of_string (match t with
             | JUndef => "unknown" | JObject => "object" | JArray => "array" | JString => "string"
             | JInteger => "integer" | JFloat => "float" | JBoolean => "boolean" | JNull => "null"
             | JMixed => "mixed" end).
(* Type.ToTokenType() *)
Definition jt_token (t : jt) : bytes :=
  of_string (match t with
             | JUndef => "" | JObject => "object" | JArray => "array" | JString => "string"
             | JInteger | JFloat => "number" | JBoolean => "boolean" | JNull => "null"
             | JMixed => "reference" end).
(* json.Guess(b).LiteralJsonType(); None = panic("Node type can't be guessed by value") *)
Definition literal_json_type (b : bytes) : option jt :=
  if in_quotes b then Some JString
  else if (is "true" b || is "false" b)%bool then Some JBoolean
  else if is "null" b then Some JNull
  else if NumModel.is_integer b then Some JInteger
  else if NumModel.is_float b then Some JFloat
  else if is_user_type_name b then Some JMixed
  else None.
(* json.Guess(b).JsonType() *)
Definition json_type (b : bytes) : option jt :=
  if is "{" b then Some JObject else if is "[" b then Some JArray else literal_json_type b.
(* json.NewJsonType *)
Definition new_json_type (b : bytes) : option jt :=
  if is "object" b then Some JObject else if is "array" b then Some JArray
  else if is "string" b then Some JString else if is "integer" b then Some JInteger
  else if is "float" b then Some JFloat else if is "boolean" b then Some JBoolean
  else if is "null" b then Some JNull else None.
(* jschema.IsValidType *)
Definition is_valid_schema_type (b : bytes) : bool :=
  existsb (fun s => is s b)
          ["string"; "integer"; "float"; "decimal"; "boolean"; "object"; "array"; "null"; "email";
           "uri"; "uuid"; "date"; "datetime"; "enum"; "mixed"; "any"; "comment"]%string.

(* ------------------------------------------------------------------ error codes (errors/code.go) *)
Definition ErrUnknownType : N := 102.
Definition ErrUnknownJSchemaType : N := 103.
Definition ErrDuplicateKeysInSchema : N := 402.
Definition ErrDuplicateRule : N := 501.
Definition ErrUnknownRule : N := 601.
Definition ErrInvalidValueOfConstraint : N := 604.
Definition ErrZeroPrecision : N := 605.
Definition ErrValueOfOneConstraintGreaterThanAnother : N := 617.
Definition ErrValueOfOneConstraintGreaterOrEqualToAnother : N := 618.
Definition ErrInvalidSchemaNameInAllOfRule : N := 702.
Definition ErrLoader : N := 801.
Definition ErrIncorrectRuleValueType : N := 802.
Definition ErrIncorrectRuleWithoutExample : N := 803.
Definition ErrIncorrectRuleForSeveralNode : N := 804.
Definition ErrLiteralValueExpected : N := 805.
Definition ErrInvalidValueInEnumRule : N := 806.
Definition ErrIncorrectArrayItemTypeInEnumRule : N := 807.
Definition ErrUnacceptableValueInAllOfRule : N := 808.
Definition ErrDuplicationInEnumRule : N := 810.
Definition ErrArrayWasExpectedInOrRule : N := 901.
Definition ErrEmptyArrayInOrRule : N := 902.
Definition ErrOneElementInArrayInOrRule : N := 903.
Definition ErrIncorrectArrayItemTypeInOrRule : N := 904.
Definition ErrEmptyRuleSet : N := 905.
Definition ErrRuleOptionalAppliesOnlyToObjectProperties : N := 1101.
Definition ErrCannotSpecifyOtherRulesWithTypeReference : N := 1102.
Definition ErrShouldBeNoOtherRulesInSetWithEnum : N := 1104.
Definition ErrShouldBeNoOtherRulesInSetWithAny : N := 1105.
Definition ErrConstraintMinNotFound : N := 1109.
Definition ErrConstraintMaxNotFound : N := 1110.
Definition ErrInvalidValueInTheTypeRule : N := 1111.
Definition ErrNotFoundRulePrecision : N := 1112.
Definition ErrNotFoundRuleEnum : N := 1113.
Definition ErrNotFoundRuleOr : N := 1114.
Definition ErrUnexpectedConstraint : N := 1117.
Definition ErrEnumRuleNotFound : N := 1602.
Definition ErrIncorrectConstraintValueForEmptyArray : N := 1204.
Definition err {A} (c : N) : R A := Fail (FErr c).

(* ------------------------------------------------------------------ constraint types (constraint/type.go) *)
Inductive ctype :=
| CMinLength | CMaxLength | CMin | CMax | CExclusiveMinimum | CExclusiveMaximum | CPrecision
| CType | CTypesList | COptional | COr | CRequiredKeys | CEmail | CMinItems | CMaxItems | CEnum
| CAdditionalProperties | CAllOf | CAny | CNullable | CRegex | CUri | CDate | CDateTime | CUuid
| CConst.
Definition ctype_code (t : ctype) : N :=
  match t with
  | CMinLength => 0 | CMaxLength => 1 | CMin => 2 | CMax => 3 | CExclusiveMinimum => 4
  | CExclusiveMaximum => 5 | CPrecision => 6 | CType => 7 | CTypesList => 8 | COptional => 9
  | COr => 10 | CRequiredKeys => 11 | CEmail => 12 | CMinItems => 13 | CMaxItems => 14
  | CEnum => 15 | CAdditionalProperties => 16 | CAllOf => 17 | CAny => 18 | CNullable => 19
  | CRegex => 20 | CUri => 21 | CDate => 22 | CDateTime => 23 | CUuid => 24 | CConst => 25
  end.
Definition ctype_eqb (a b : ctype) : bool := N.eqb (ctype_code a) (ctype_code b).
(* Type.String() *)
Definition ctype_name (t : ctype) : bytes :=
  of_string (match t with
  | CMinLength => "minLength" | CMaxLength => "maxLength" | CMin => "min" | CMax => "max"
  | CExclusiveMinimum => "exclusiveMinimum" | CExclusiveMaximum => "exclusiveMaximum"
  | CPrecision => "precision" | CType => "type" | CTypesList => "types" | COptional => "optional"
  | COr => "or" | CRequiredKeys => "required-keys" | CEmail => "email" | CMinItems => "minItems"
  | CMaxItems => "maxItems" | CEnum => "enum" | CAdditionalProperties => "additionalProperties"
  | CAllOf => "allOf" | CAny => "any" | CNullable => "nullable" | CRegex => "regex" | CUri => "uri"
  | CDate => "date" | CDateTime => "datetime" | CUuid => "uuid" | CConst => "const"
  end).

(* ------------------------------------------------------------------ rule values *)
(* the value of a rule as written *)
Inductive rval :=
| RLit (tok : bytes)                      (* a literal, raw token bytes incl. quotes *)
| RArr (items : list rval)                (* enum / or / allOf array *)
| RObj (props : list (bytes * rval))      (* a rule-set of "or"; property names unquoted *)
| RRef (name : bytes).                    (* enum: @name *)

(* jschema.RuleASTNode: token type, value, comment, items, properties, source (true = generated) *)
Inductive rast := RA (tt : bytes) (v : bytes) (c : bytes) (items : list rast)
                     (props : list (bytes * rast)) (gen : bool).
Definition ra (tt : String.string) (v : bytes) (gen : bool) : rast := RA (of_string tt) v [] [] [] gen.

(* an item of an enum constraint: value, json type (the two make the uniqueness key), comment *)
Record eitem := mkeitem { ei_value : bytes; ei_jt : jt; ei_comment : bytes }.

Inductive cval :=
| VUint (n : N)                                        (* minLength maxLength minItems maxItems precision *)
| VNum (raw : bytes) (num : NumModel.number) (excl : bool)   (* min max *)
| VBool (b : bool)                                     (* exclusiveMinimum exclusiveMaximum optional nullable const *)
| VType (v : bytes) (gen : bool)                       (* type: raw value, source *)
| VTypes (items : list (bool * rast)) (gen : bool)     (* types list: (name starts with '@', element AST node) *)
| VOr (gen : bool)
| VEnum (items : list eitem) (rule : option bytes)
| VAddProps (a : rast)
| VAllOf (names : list bytes) (written_as_array : bool)   (* fix 1d20475: ["@a"] is not the scalar "@a" in the AST *)
| VRegex (expr : bytes)
| VMark.                                               (* any email uri uuid date datetime *)

Record centry := mkce { ce_t : ctype; ce_v : cval; ce_w : option rval (* as written; None = generated *) }.
(* schema.Constraints: an ordered map *)
Definition cmap := list centry.
Fixpoint cget (t : ctype) (m : cmap) : option centry :=
  match m with
  | [] => None
  | e :: r => if ctype_eqb (ce_t e) t then Some e else cget t r
  end.
Definition chas (t : ctype) (m : cmap) : bool := match cget t m with Some _ => true | None => false end.
Definition cdel (t : ctype) (m : cmap) : cmap := filter (fun e => negb (ctype_eqb (ce_t e) t)) m.
(* Set on an existing key: the value is replaced, the order is kept *)
Definition creplace (e' : centry) (m : cmap) : cmap :=
  map (fun e => if ctype_eqb (ce_t e) (ce_t e') then e' else e) m.
Definition ccount (t : ctype) (m : cmap) : nat := if chas t m then 1%nat else 0%nat.
(* baseNode.AddConstraint *)
Definition base_add (e : centry) (m : cmap) : R cmap :=
  if chas (ce_t e) m then err ErrDuplicateRule else Ok (m ++ [e]).

Definition bool_bytes (b : bool) : bytes := of_string (if b then "true" else "false").
(* Constraint.ASTNode() *)
Definition ast_of (v : cval) : rast :=
  match v with
  | VUint n => ra "number" (print_N n) false
  | VNum raw _ _ => ra "number" raw false
  | VBool b => ra "boolean" (bool_bytes b) false
  | VType x gen => let u := unquote x in ra (if is_user_type_name u then "reference" else "string") u gen
  | VTypes items gen => RA (of_string "array") [] [] (map snd items) [] gen
  | VOr _ => ra "" [] false
  | VEnum items rule =>
    match rule with
    | Some name => ra "reference" name false
    | None => RA (of_string "array") [] []
                 (map (fun i => RA (jt_token (ei_jt i)) (ei_value i) (ei_comment i) [] [] false) items)
                 [] false
    end
  | VAddProps a => a
  | VAllOf names arr =>
    match names, arr with
    | [n], false => ra "reference" n false
    | _, _ => RA (of_string "array") [] [] (map (fun n => ra "reference" n false) names) [] false
    end
  | VRegex e => ra "string" e false
  | VMark => ra "" [] false
  end.

(* ------------------------------------------------------------------ the environment of a load
   [env_enums]: the registered enum rules (Schema.AddRule): name -> the literal tokens of its values
                (comments left out); the rule is assumed to be a valid enum.
   [env_badrx]: ORACLE for regexp.MustCompile, the one thing of the loader that is not modelled: the
                decoded patterns Go's regexp package refuses.  Every other pattern is taken to compile. *)
Definition enums := list (bytes * list bytes).
Record envt := mkenv { env_enums : enums; env_badrx : list bytes }.
Definition env0 : envt := mkenv [] [].

(* ------------------------------------------------------------------ constraint.NewConstraintFromRule
   [name] = ruleNameLex.Value().TrimSpaces().Unquote(), [namepos] = ruleNameLex.Begin() *)
Definition new_uint (t : ctype) (v : bytes) : R cval :=
  match NumModel.parse_uint v with          (* Bytes.ParseUint: wraps modulo 2^64 *)
  | Some n => Ok (VUint n)
  | None => err ErrInvalidValueOfConstraint
  end.
Definition new_bool (v : bytes) : R cval :=
  match parse_bool v with Some b => Ok (VBool b) | None => err ErrInvalidValueOfConstraint end.
Definition new_num (v : bytes) : R cval :=
  match NumModel.scan v with                (* json.NewNumber; its error is a fmt.Errorf value *)
  | Some n => Ok (VNum v n false)
  | None => Fail FGo
  end.
(* NewRegex: json.Unmarshal(value, &str) then regexp.MustCompile(str) (panics with a foreign error).
   Whether Go's regexp package accepts the pattern is not modelled: [env_badrx] is the oracle. *)
Definition new_regex (env : envt) (v : bytes) : R cval :=
  let compile s := if existsb (beq s) (env_badrx env) then Fail FGo else Ok (VRegex s) in
  if is "null" v then compile []
  else if in_quotes v then
    match Unquote.unquote_bytes v with Some s => compile s | None => Fail FGo end
  else Fail FGo.
Definition new_additional_properties (v : bytes) : R cval :=
  let txt := unquote v in
  (* fix 1d20475: true and false written as strings are shown as strings *)
  let bool_tt := if in_quotes v then "string"%string else "boolean"%string in
  if is "true" txt then Ok (VAddProps (ra bool_tt txt false))
  else if is "any" txt then Ok (VAddProps (ra "string" txt false))
  else if is "false" txt then Ok (VAddProps (ra bool_tt txt false))
  else if (is_user_type_name txt || (is_valid_schema_type txt && negb (is "comment" txt)))%bool      (* fix 6af6f9e *)
       then Ok (VAddProps (ra "string" txt false))
  else err ErrUnknownJSchemaType.

Definition new_constraint (env : envt) (name : bytes) (namepos : N) (v : bytes) : R centry :=
  let mk t (r : R cval) : R centry := do c <- r; Ok (mkce t c (Some (RLit v))) in
  if is "minLength" name then mk CMinLength (new_uint CMinLength v)
  else if is "maxLength" name then mk CMaxLength (new_uint CMaxLength v)
  else if is "min" name then mk CMin (new_num v)
  else if is "max" name then mk CMax (new_num v)
  else if is "exclusiveMinimum" name then mk CExclusiveMinimum (new_bool v)
  else if is "exclusiveMaximum" name then mk CExclusiveMaximum (new_bool v)
  else if is "type" name then mk CType (Ok (VType v false))
  else if is "precision" name then
    mk CPrecision (do c <- new_uint CPrecision v;
                   match c with VUint 0 => err ErrZeroPrecision | _ => Ok c end)
  else if is "optional" name then mk COptional (new_bool v)
  else if is "minItems" name then mk CMinItems (new_uint CMinItems v)
  else if is "maxItems" name then mk CMaxItems (new_uint CMaxItems v)
  else if is "additionalProperties" name then mk CAdditionalProperties (new_additional_properties v)
  else if is "nullable" name then mk CNullable (new_bool v)
  else if is "regex" name then mk CRegex (new_regex env v)
  else if is "const" name then mk CConst (new_bool v)
  else Fail (FDoc ErrUnknownRule namepos).      (* panic(lexeme.NewLexEventError(ruleNameLex, ...)) *)

(* ------------------------------------------------------------------ CompileBasic on a MixedNode root
   (the unnamed types the "or" rule creates; compiler_basic.go compileNode, in statement order).
   A MixedNode is neither a BranchNode nor a MixedValueNode and has no parent; SetRealType is
   always true.  Returns the JSON type (SetJsonType) and the constraints after the pass. *)
Definition is_false_entry (e : centry) : bool :=
  match ce_t e, ce_v e with
  | CNullable, VBool false | CConst, VBool false => true
  | _, _ => false
  end.
Definition type_bytes (m : cmap) : option bytes :=
  match cget CType m with Some (mkce _ (VType v _) _) => Some v | _ => None end.
Definition add_mark (t : ctype) (m : cmap) : R cmap := base_add (mkce t VMark None) m.
Definition set_excl (t : ctype) (m : cmap) : cmap :=
  map (fun e => if ctype_eqb (ce_t e) t
                then match ce_v e with VNum r n _ => mkce (ce_t e) (VNum r n true) (ce_w e) | _ => e end
                else e) m.
Definition uint_of (t : ctype) (m : cmap) : option N :=
  match cget t m with Some (mkce _ (VUint n) _) => Some n | _ => None end.

Definition compile_type (t0 : jt) (m : cmap) : R (jt * cmap) :=
  match type_bytes m with
  | None => Ok (t0, m)
  | Some v =>
    let val := unquote v in
    if is_user_type_name val then
      (* typeConstraintForUserType *)
      let n := (length m - ccount COptional m - ccount CNullable m)%nat in
      if negb (Nat.eqb n 1) then err ErrCannotSpecifyOtherRulesWithTypeReference
      else do m1 <- base_add (mkce CTypesList (VTypes [(true, ra "string" val false)] false) None) m;
           Ok (t0, cdel CType m1)
    else
      (* typeConstraintForJSONTypes *)
      do r <-
        (if is "mixed" val then err ErrNotFoundRuleOr      (* such a root never has a types list *)
         else if is "enum" val then (if chas CEnum m then Ok (t0, m) else err ErrNotFoundRuleEnum)
         else if is "any" val then (do m1 <- add_mark CAny m; Ok (t0, m1))
         (* fix bcaaadc: the root of a rule-set gets the JSON type of the values of the declared type (jsonTypeOfSchemaType) *)
         else if is "decimal" val then (if chas CPrecision m then Ok (JFloat, m) else err ErrNotFoundRulePrecision)
         else if is "email" val then (do m1 <- add_mark CEmail m; Ok (JString, m1))
         else if is "uri" val then (do m1 <- add_mark CUri m; Ok (JString, m1))
         else if is "uuid" val then (do m1 <- add_mark CUuid m; Ok (JString, m1))
         else if is "date" val then (do m1 <- add_mark CDate m; Ok (JString, m1))
         else if is "datetime" val then (do m1 <- add_mark CDateTime m; Ok (JString, m1))
         else match new_json_type val with
              | Some t => Ok (t, m)
              | None => err ErrUnknownType
              end);
      Ok (fst r, cdel CType (snd r))
  end.

Definition banned_string_rules (m : cmap) : bool :=
  (chas CMinLength m || chas CMaxLength m || chas CRegex m)%bool.
Definition compile_mixed (t0 : jt) (m0 : cmap) : R (jt * cmap) :=
  (* falseConstraints *)
  let m := filter (fun e => negb (is_false_entry e)) m0 in
  (* orConstraint: the root of such a type never holds an Or constraint *)
  (* enumConstraint *)
  do _ <-
    (if chas CEnum m then
       let n := (length m - 1 - ccount COptional m - ccount CConst m - ccount CNullable m - ccount CType m)%nat in
       match type_bytes m with
       | Some v => if negb (is """enum""" v) then err ErrInvalidValueInTheTypeRule
                   else if Nat.eqb n 0 then Ok tt else err ErrShouldBeNoOtherRulesInSetWithEnum
       | None => if Nat.eqb n 0 then Ok tt else err ErrShouldBeNoOtherRulesInSetWithEnum
       end
     else Ok tt);
  (* precisionConstraint *)
  do _ <-
    (if chas CPrecision m then
       match type_bytes m with
       | Some v => if is "decimal" (unquote v) then Ok tt else err ErrUnexpectedConstraint
       | None => Ok tt
       end
     else Ok tt);
  (* typeConstraint *)
  do r <- compile_type t0 m;
  let t := fst r in let m := snd r in
  (* allowedConstraintCheck *)
  do _ <-
    (if ((chas CEmail m || chas CUri m || chas CDate m || chas CDateTime m || chas CUuid m)
          && banned_string_rules m)%bool then err ErrUnexpectedConstraint
     else if (chas CAny m && chas CConst m)%bool then err ErrUnexpectedConstraint
     else Ok tt);
  (* anyConstraint *)
  do _ <-
    (if chas CAny m then
       if Nat.eqb (length m) (1 + ccount COptional m + ccount CNullable m + ccount CConst m)
       then Ok tt else err ErrShouldBeNoOtherRulesInSetWithAny
     else Ok tt);
  (* exclusiveMinimumConstraint, exclusiveMaximumConstraint *)
  do m <-
    (match cget CExclusiveMinimum m with
     | Some e =>
       if negb (chas CMin m) then err ErrConstraintMinNotFound
       else Ok (cdel CExclusiveMinimum (match ce_v e with VBool true => set_excl CMin m | _ => m end))
     | None => Ok m
     end);
  do m <-
    (match cget CExclusiveMaximum m with
     | Some e =>
       if negb (chas CMax m) then err ErrConstraintMaxNotFound
       else Ok (cdel CExclusiveMaximum (match ce_v e with VBool true => set_excl CMax m | _ => m end))
     | None => Ok m
     end);
  (* checkPairConstraints *)
  do _ <-
    (match cget CMin m, cget CMax m with
     | Some (mkce _ (VNum _ a ea) _), Some (mkce _ (VNum _ b eb) _) =>
       let c := NumModel.cmp a b in
       if (ea || eb)%bool then
         match c with Lt => Ok tt | _ => err ErrValueOfOneConstraintGreaterOrEqualToAnother end
       else
         match c with Gt => err ErrValueOfOneConstraintGreaterThanAnother | _ => Ok tt end
     | _, _ => Ok tt
     end);
  do _ <-
    (match uint_of CMinLength m, uint_of CMaxLength m with
     | Some a, Some b => if N.ltb b a then err ErrValueOfOneConstraintGreaterThanAnother else Ok tt
     | _, _ => Ok tt
     end);
  do _ <-
    (match uint_of CMinItems m, uint_of CMaxItems m with
     | Some a, Some b => if N.ltb b a then err ErrValueOfOneConstraintGreaterThanAnother else Ok tt
     | _, _ => Ok tt
     end);
  (* optionalConstraints: the parent of the root is not an object *)
  if chas COptional m then err ErrRuleOptionalAppliesOnlyToObjectProperties
  (* emptyArray (fix 60afd49): the array of a rule-set has no items, it is the empty array *)
  else if (jt_eqb t JArray &&
           (match uint_of CMinItems m with Some a => negb (N.eqb a 0) | None => false end ||
            match uint_of CMaxItems m with Some a => negb (N.eqb a 0) | None => false end))%bool
       then err ErrIncorrectConstraintValueForEmptyArray
  else Ok (t, m).

(* Constraint.IsJsonTypeCompatible *)
Definition compat (c : ctype) (t : jt) : bool :=
  match c with
  | CMinLength | CMaxLength | CRegex | CEmail | CUri | CDate | CDateTime | CUuid => jt_eqb t JString
  | CMin | CMax | CExclusiveMinimum | CExclusiveMaximum => (jt_eqb t JInteger || jt_eqb t JFloat)%bool
  | CPrecision => jt_eqb t JFloat
  | CType | CTypesList | COptional | COr | CNullable | CAny => true
  | CMinItems | CMaxItems => jt_eqb t JArray
  | CAdditionalProperties | CAllOf | CRequiredKeys => jt_eqb t JObject
  | CEnum => match t with JString | JBoolean | JInteger | JFloat | JNull | JMixed => true | _ => false end
  | CConst => negb (jt_eqb t JObject || jt_eqb t JArray)%bool
  end.
(* json.AllTypes *)
Definition all_jts : list jt := [JObject; JArray; JString; JInteger; JFloat; JBoolean; JNull; JMixed].
(* the keys of jsonTypesHandler *)
Definition is_handler_type (b : bytes) : bool :=
  existsb (fun s => is s b) ["mixed"; "enum"; "any"; "decimal"; "email"; "uri"; "uuid"; "date"; "datetime"]%string.
(* baseNode.SchemaType() *)
Definition schema_type_of (t : jt) (m : cmap) : bytes :=
  if chas CAny m then of_string "any" else if chas CDate m then of_string "date"
  else if chas CDateTime m then of_string "datetime" else if chas CUuid m then of_string "uuid"
  else if chas CUri m then of_string "uri" else if chas CEmail m then of_string "email"
  else jt_string t.

(* ------------------------------------------------------------------ nodes (schema/*_node.go) *)
Inductive nkind := KLit | KObj | KArr | KMix.   (* LiteralNode ObjectNode ArrayNode MixedValueNode *)
(* ObjectNodeKey: key (unquoted), IsShortcut, Index *)
Record okey := mkokey { k_key : bytes; k_short : bool; k_index : nat }.
Record ndata := mknd {
  nd_kind : nkind;
  nd_lb : N; nd_le : N;      (* schemaLexEvent: Begin(), End() *)
  nd_jt : jt;                (* jsonType *)
  nd_cs : cmap;              (* constraints *)
  nd_note : bytes;           (* comment *)
  nd_mval : bytes;           (* MixedValueNode.value *)
  nd_mst : bytes;            (* MixedValueNode.schemaType *)
  nd_keys : list okey;       (* ObjectNode.keys.Data, most recent first *)
  nd_wait : bool             (* waitingForChild *)
}.
(* a node and its children, most recent first *)
Inductive tnode := TN (d : ndata) (ch : list tnode).

Definition set_cs (m : cmap) (d : ndata) : ndata :=
  mknd (nd_kind d) (nd_lb d) (nd_le d) (nd_jt d) m (nd_note d) (nd_mval d) (nd_mst d) (nd_keys d) (nd_wait d).
Definition set_note (v : bytes) (d : ndata) : ndata :=
  mknd (nd_kind d) (nd_lb d) (nd_le d) (nd_jt d) (nd_cs d) v (nd_mval d) (nd_mst d) (nd_keys d) (nd_wait d).
Definition set_mst (v : bytes) (d : ndata) : ndata :=
  mknd (nd_kind d) (nd_lb d) (nd_le d) (nd_jt d) (nd_cs d) (nd_note d) (nd_mval d) v (nd_keys d) (nd_wait d).
Definition set_wait (v : bool) (d : ndata) : ndata :=
  mknd (nd_kind d) (nd_lb d) (nd_le d) (nd_jt d) (nd_cs d) (nd_note d) (nd_mval d) (nd_mst d) (nd_keys d) v.
Definition set_keys (v : list okey) (d : ndata) : ndata :=
  mknd (nd_kind d) (nd_lb d) (nd_le d) (nd_jt d) (nd_cs d) (nd_note d) (nd_mval d) (nd_mst d) v (nd_wait d).

(* schema.NewNode *)
Definition new_node (e : lexev) : R tnode :=
  let mk k t := Ok (TN (mknd k (e_begin e) (e_end e) t [] [] [] [] [] false) []) in
  match e_type e with
  | LiteralBegin => mk KLit JUndef
  | ObjectBegin => mk KObj JObject
  | ArrayBegin => mk KArr JArray
  | MixedValueBegin => mk KMix JMixed
  | _ => Fail FGo            (* panic(`Can not create node from the lexical event ...`) *)
  end.

(* what Grow returns *)
Inductive grown :=
| GStay (n : tnode)                  (* (n, false) *)
| GChild (n : tnode) (c : tnode)     (* (child, true) *)
| GClose (n : tnode).                (* (n.parent, false) *)

(* ObjectNode.addKey -> ObjectNodeKeys.Set *)
Definition add_key (S : src) (e : lexev) (d : ndata) (nch : nat) : R ndata :=
  do v <- evalue S e;
  let key := unquote v in
  let short := is_user_type_name v in
  if existsb (fun k => (beq (k_key k) key && Bool.eqb (k_short k) short)%bool) (nd_keys d)
  then err ErrDuplicateKeysInSchema
  else Ok (set_keys (mkokey key short nch :: nd_keys d) d).

Definition grow (S : src) (n : tnode) (e : lexev) : R grown :=
  match n with
  | TN d ch =>
    match nd_kind d with
    | KLit =>
      match e_type e with
      | LiteralBegin => Ok (GStay n)
      | LiteralEnd =>
        do v <- evalue S e;
        match literal_json_type v with
        | Some t => Ok (GClose (TN (mknd KLit (e_begin e) (e_end e) t (nd_cs d) (nd_note d) (nd_mval d)
                                         (nd_mst d) (nd_keys d) (nd_wait d)) ch))
        | None => Fail FGo
        end
      | _ => Fail FGo
      end
    | KObj =>
      if nd_wait d then
        do c <- new_node e; Ok (GChild (TN (set_wait false d) ch) c)
      else
        match e_type e with
        | ObjectBegin | ObjectKeyBegin | ObjectValueEnd => Ok (GStay n)
        | KeyShortcutEnd | ObjectKeyEnd => do d' <- add_key S e d (length ch); Ok (GStay (TN d' ch))
        | ObjectValueBegin => Ok (GStay (TN (set_wait true d) ch))
        | ObjectEnd => Ok (GClose n)
        | _ => Fail FGo
        end
    | KArr =>
      if nd_wait d then
        do c <- new_node e; Ok (GChild (TN (set_wait false d) ch) c)
      else
        match e_type e with
        | ArrayBegin | ArrayItemEnd => Ok (GStay n)
        | ArrayItemBegin => Ok (GStay (TN (set_wait true d) ch))
        | ArrayEnd => Ok (GClose n)
        | _ => Fail FGo
        end
    | KMix =>
      match e_type e with
      | MixedValueBegin => Ok (GStay n)
      | MixedValueEnd =>
        do v <- evalue S e;
        let t := trim_spaces v in
        Ok (GClose (TN (mknd KMix (e_begin e) (e_end e) (nd_jt d) (nd_cs d) (nd_note d) t t
                             (nd_keys d) (nd_wait d)) ch))
      | _ => Fail FGo
      end
    end
  end.

(* ------------------------------------------------------------------ AddConstraint *)
(* MixedValueNode.addTypeConstraint *)
Definition mixed_add_type (d : ndata) (e : centry) (keep_written : bool) : R ndata :=
  match ce_v e with
  | VType v _ =>
    match cget CType (nd_cs d) with
    | None => do m <- base_add e (nd_cs d); Ok (set_mst (unquote v) (set_cs m d))
    | Some old =>
      match ce_v old with
      | VType ov _ =>
        let nv := unquote v in
        if (negb (beq nv (unquote ov)) && negb (is "mixed" nv))%bool then err ErrDuplicateRule
        else
          let e' := if keep_written then mkce CType (ce_v e) (ce_w old) else e in
          Ok (set_mst (of_string "mixed") (set_cs (creplace e' (nd_cs d)) d))
      | _ => Fail FStuck
      end
    end
  | _ => Fail FStuck
  end.
(* Node.AddConstraint: baseNode's, or MixedValueNode's override *)
Definition node_add (d : ndata) (e : centry) : R ndata :=
  match nd_kind d with
  | KMix =>
    match ce_v e with
    | VType _ _ =>
      (* a second hand-written type rule is a duplicate whatever the values (fix 76cb707) *)
      match cget CType (nd_cs d) with
      | Some (mkce _ (VType _ false) _) => err ErrDuplicateRule
      | _ => mixed_add_type d e false
      end
    | VOr _ =>
      (* addOrConstraint *)
      do d1 <-
        (match cget CType (nd_cs d) with
         | Some (mkce _ (VType _ g) _) =>
           mixed_add_type d (mkce CType (VType (of_string """mixed""") g) None) true
         | Some _ => Fail FStuck
         | None => Ok d
         end);
      do m <- base_add e (nd_cs d1); Ok (set_cs m d1)
    | _ => do m <- base_add e (nd_cs d); Ok (set_cs m d)
    end
  | _ => do m <- base_add e (nd_cs d); Ok (set_cs m d)
  end.

(* ------------------------------------------------------------------ enumValueLoader *)
Inductive enum_st := EnBegin | EnItemOrEnd | EnCommentStart | EnCommentEnd | EnAnnotationEnd
                   | EnLiteral | EnItemEnd | EnRuleNameBegin | EnRuleName | EnEnd.
Fixpoint lookup_enum (name : bytes) (env : enums) : option (list bytes) :=
  match env with
  | [] => None
  | (n, vs) :: r => if beq n name then Some vs else lookup_enum name r
  end.
(* the enum constraint being filled, with the as-written value *)
Record enumv := mkenumv { en_items : list eitem; en_rule : option bytes; en_w : rval }.
Definition w_append (w : rval) (x : rval) : rval :=
  match w with RArr l => RArr (l ++ [x]) | _ => w end.

(* constraint.NewEnumItem + Enum.Append *)
Definition enum_append (tok : bytes) (comment : bytes) (en : enumv) : R enumv :=
  let b := trim_spaces tok in
  match json_type b with
  | None => Fail FGo
  | Some t =>
    let v := match t with JString => unquote b | _ => b end in
    (* uniqueKey (fix 7bb5f56): numbers of one kind are the same value whatever the spelling; the stored value stays as written *)
    let key (x : bytes) (k : jt) : bytes :=
        match k with
        | JInteger | JFloat => match NumModel.scan x with Some n => NumModel.num_string n | None => x end
        | _ => x
        end in
    if existsb (fun i => (beq (key (ei_value i) (ei_jt i)) (key v t) && jt_eqb (ei_jt i) t)%bool) (en_items en)
    then err ErrDuplicationInEnumRule
    else Ok (mkenumv (en_items en ++ [mkeitem v t comment]) (en_rule en) (en_w en))
  end.
Fixpoint enum_append_all (toks : list bytes) (en : enumv) : R enumv :=
  match toks with
  | [] => Ok en
  | t :: r => do en' <- enum_append t [] en; enum_append_all r en'
  end.
(* Enum.SetComment(lastIdx, ...): lastIdx is the index of the last appended item; before the first
   item the comment is dropped (fix 6901580; it was an index out of range before) *)
Definition enum_set_comment (c : bytes) (en : enumv) : R enumv :=
  match frev (en_items en) with
  | [] => Ok en
  | l :: r => Ok (mkenumv (frev (mkeitem (ei_value l) (ei_jt l) c :: r)) (en_rule en) (en_w en))
  end.

(* one call of enumValueLoader.stateFunc; the bool is inProgress *)
Definition enum_step (S : src) (env : envt) (s : enum_st) (e : lexev) (en : enumv)
  : R (enum_st * enumv * bool) :=
  let go s' := Ok (s', en, true) in
  match s with
  | EnBegin =>
    match e_type e with
    | ArrayBegin => go EnItemOrEnd
    | MixedValueBegin => go EnRuleNameBegin
    | _ => err ErrInvalidValueInEnumRule
    end
  | EnItemOrEnd =>
    match e_type e with
    | ArrayItemBegin => go EnLiteral
    | ArrayEnd => Ok (EnEnd, en, false)
    | InlineAnnotationBegin => go EnCommentStart
    | _ => err ErrLoader
    end
  | EnCommentStart =>
    match e_type e with InlineAnnotationTextBegin => go EnCommentEnd | _ => err ErrLoader end
  | EnCommentEnd =>
    match e_type e with
    | InlineAnnotationTextEnd =>
      do v <- evalue S e; do en' <- enum_set_comment (trim_spaces v) en; Ok (EnAnnotationEnd, en', true)
    | _ => err ErrLoader
    end
  | EnAnnotationEnd =>
    match e_type e with InlineAnnotationEnd => go EnItemOrEnd | _ => err ErrLoader end
  | EnLiteral =>
    match e_type e with
    | LiteralBegin => go EnLiteral
    | LiteralEnd =>
      do v <- evalue S e;
      do en' <- enum_append v [] en;
      Ok (EnItemEnd, mkenumv (en_items en') (en_rule en') (w_append (en_w en') (RLit v)), true)
    | _ => err ErrIncorrectArrayItemTypeInEnumRule
    end
  | EnItemEnd =>
    match e_type e with ArrayItemEnd => go EnItemOrEnd | _ => err ErrLoader end
  | EnRuleNameBegin =>
    match e_type e with TypesShortcutBegin => go EnRuleName | _ => err ErrLoader end
  | EnRuleName =>
    match e_type e with
    | TypesShortcutEnd =>
      do v <- evalue S e;
      let name := go_trim_space v in
      match lookup_enum name (env_enums env) with
      | None => err ErrEnumRuleNotFound
      | Some toks =>
        do en' <- enum_append_all toks (mkenumv (en_items en) (Some name) (RRef name));
        Ok (EnEnd, en', false)
      end
    | _ => err ErrLoader
    end
  | EnEnd => err ErrLoader
  end.

Definition enum_entry (en : enumv) : centry :=
  mkce CEnum (VEnum (en_items en) (en_rule en)) (Some (en_w en)).
Definition enum_of_entry (e : centry) : option enumv :=
  match ce_v e, ce_w e with
  | VEnum items rule, Some w => Some (mkenumv items rule w)
  | _, _ => None
  end.
Definition new_enum : enumv := mkenumv [] None (RArr []).
(* run the enum loader on the enum constraint stored in [m] *)
Definition enum_step_in (S : src) (env : envt) (s : enum_st) (e : lexev) (m : cmap)
  : R (enum_st * cmap * bool) :=
  match cget CEnum m with
  | Some ce =>
    match enum_of_entry ce with
    | Some en =>
      do r <- enum_step S env s e en;
      let '(s', en', p) := r in Ok (s', creplace (enum_entry en') m, p)
    | None => Fail FStuck
    end
  | None => Fail FStuck
  end.

(* isNoteInsideAnnotation (fix b1776a9): the lexemes of a "// note" written between the rules of a multi-line annotation *)
Definition is_note_ev (t : ev) : bool :=
  match t with
  | InlineAnnotationBegin | InlineAnnotationTextBegin | InlineAnnotationTextEnd | InlineAnnotationEnd => true
  | _ => false
  end.

(* ------------------------------------------------------------------ allOfValueLoader *)
Inductive allof_st := AoBegin | AoItemOrEnd | AoItemValue | AoItemEnd | AoScalar | AoEnd.
(* AllOf.Append *)
Definition allof_append (tok : bytes) (names : list bytes) : R (list bytes) :=
  if negb (in_quotes tok) then err ErrUnacceptableValueInAllOfRule
  else let s := unquote tok in
       if is_user_type_name s then Ok (names ++ [s]) else err ErrInvalidSchemaNameInAllOfRule.
Definition allof_step_in (S : src) (s : allof_st) (e : lexev) (m : cmap) : R (allof_st * cmap * bool) :=
  match cget CAllOf m with
  | Some (mkce _ (VAllOf names arr) (Some w)) =>
    let go s' := Ok (s', m, true) in
    match s with
    | AoBegin =>
      match e_type e with
      | ArrayBegin => Ok (AoItemOrEnd, creplace (mkce CAllOf (VAllOf names true) (Some (RArr []))) m, true)
      | LiteralBegin => go AoScalar
      | _ => err ErrUnacceptableValueInAllOfRule
      end
    | AoItemOrEnd =>
      if is_note_ev (e_type e) then go AoItemOrEnd else
      match e_type e with
      | ArrayItemBegin => go AoItemValue
      | ArrayEnd => Ok (AoEnd, m, false)
      | _ => err ErrLoader
      end
    | AoItemValue =>
      match e_type e with
      | LiteralBegin => go AoItemValue
      | LiteralEnd =>
        do v <- evalue S e; do names' <- allof_append v names;
        Ok (AoItemEnd, creplace (mkce CAllOf (VAllOf names' arr) (Some (w_append w (RLit v)))) m, true)
      | _ => err ErrUnacceptableValueInAllOfRule
      end
    | AoItemEnd =>
      match e_type e with ArrayItemEnd => go AoItemOrEnd | _ => err ErrLoader end
    | AoScalar =>
      match e_type e with
      | LiteralEnd =>
        do v <- evalue S e; do names' <- allof_append v names;
        Ok (AoEnd, creplace (mkce CAllOf (VAllOf names' arr) (Some (RLit v))) m, false)
      | _ => err ErrUnacceptableValueInAllOfRule
      end
    | AoEnd => err ErrLoader
    end
  | _ => Fail FStuck
  end.

(* ------------------------------------------------------------------ the TypesList constraint of the node *)
(* nodeTypesListConstraint() + AddNameWithASTNode; [w] = the item as written *)
Definition types_add (d : ndata) (user : bool) (an : rast) (w : rval) : R ndata :=
  match cget CTypesList (nd_cs d) with
  | Some (mkce _ (VTypes items g) ow) =>
    let ow' := match ow with Some x => Some (w_append x w) | None => None end in
    Ok (set_cs (creplace (mkce CTypesList (VTypes (items ++ [(user, an)]) g) ow') (nd_cs d)) d)
  | Some _ => Fail FStuck
  | None => err ErrLoader
  end.
Definition types_len (d : ndata) : R nat :=
  match cget CTypesList (nd_cs d) with
  | Some (mkce _ (VTypes items _) _) => Ok (length items)
  | Some _ => Fail FStuck
  | None => err ErrLoader
  end.
Definition types_gen (d : ndata) : R bool :=
  match cget CTypesList (nd_cs d) with
  | Some (mkce _ (VTypes _ g) _) => Ok g
  | Some _ => Fail FStuck
  | None => err ErrLoader
  end.
(* node.Value() / json.Guess(node.BasisLexEventOfSchemaForNode().Value()).JsonType() *)
Definition node_value (S : src) (d : ndata) : R bytes := value S (nd_lb d) (nd_le d).
Definition node_guess (S : src) (d : ndata) : R jt :=
  do v <- node_value S d;
  match json_type v with Some t => Ok t | None => Fail FGo end.

(* ------------------------------------------------------------------ orRuleSetLoader *)
Inductive rs_st := RsObjectBegin | RsKeyOrEnd | RsValueBegin | RsEnumValueBegin | RsValueLiteral
                 | RsValueEnd | RsEmbedded (s : enum_st) | RsAfterShortcutEnd | RsEnd.
Record rsl := mkrsl {
  rs_state : rs_st;
  rs_jt : jt; rs_cs : cmap;        (* typeRoot: its JSON type and constraints *)
  rs_nb : N; rs_ne : N             (* ruleNameLex *)
}.
Definition rs_set (s : rs_st) (r : rsl) : rsl := mkrsl s (rs_jt r) (rs_cs r) (rs_nb r) (rs_ne r).
Definition rs_set_cs (s : rs_st) (m : cmap) (r : rsl) : rsl := mkrsl s (rs_jt r) m (rs_nb r) (rs_ne r).

Fixpoint written_props (m : cmap) : list (bytes * rval) :=
  match m with
  | [] => []
  | e :: r => match ce_w e with
              | Some w => (ctype_name (ce_t e), w) :: written_props r
              | None => written_props r
              end
  end.

(* setJsonTypeByRules (fix bcaaadc): a rule-set without the "type" rule gets the JSON type its rules leave; the one of the outer example when
   it is among them, otherwise float rather than integer, otherwise the first *)
Definition jt_by_rules (t0 : jt) (m : cmap) : jt :=
  let tt := filter (fun t => forallb (fun e => compat (ce_t e) t) m) all_jts in
  match tt with
  | [] => t0
  | t :: _ => if existsb (jt_eqb t0) tt then t0 else if existsb (jt_eqb JFloat) tt then JFloat else t
  end.

(* makeTypeFromRuleSet; [pos] = Begin() of the ObjectEnd event *)
Definition make_type_from_rule_set (d : ndata) (r : rsl) : R ndata :=
  let m0 := rs_cs r in
  if Nat.eqb (length m0) 0 then err ErrEmptyRuleSet
  else
    do g <- types_gen d;
    (* the AST and the rules as written keep the flags that say nothing *)
    let an := RA (of_string "object") [] [] [] (map (fun e => (ctype_name (ce_t e), ast_of (ce_v e))) m0) g in
    let w := RObj (written_props m0) in
    (* fixes a4b2d4a, de3c65c: "const: false" / "nullable: false" are dropped before the rule-set is looked at; nothing but such flags is an empty rule-set *)
    let m := filter (fun e => negb (is_false_entry e)) m0 in
    if Nat.eqb (length m) 0 then err ErrEmptyRuleSet else
    let user :=
        match type_bytes m with
        | Some v => (Nat.eqb (length m) 1 && is_user_type_name (unquote v))%bool
        | None => false
        end in
    if user then types_add d true an w
    else
      let declared := match type_bytes m with Some v => unquote v | None => [] end in
      (* fix 9688759: "enum" is no JSON type - like without the type rule, the rules say which JSON types the rule-set describes *)
      let t0 := match type_bytes m with
                | Some v => if is "enum" (unquote v) then jt_by_rules (rs_jt r) m else rs_jt r
                | None => jt_by_rules (rs_jt r) m
                end in
      do c <- catch (nd_lb d) (compile_mixed t0 m);      (* CompileBasic(&typ, false) *)
      (* checkCompatibilityOfConstraints *)
      do _ <-
        (* without a declared JSON type the rule-set may describe any JSON type; every rule narrows the
           list down, and a rule that leaves nothing is refused (fix 0e80d2e) *)
        (let cand := if (Nat.eqb (length declared) 0 || is_handler_type declared)%bool then all_jts else [fst c] in
         if existsb (fun t => forallb (fun e => compat (ce_t e) t) (snd c)) cand then Ok tt
         else err ErrUnexpectedConstraint);
      types_add d false an w.

(* one call of orRuleSetLoader.Load; the bool is inProgress *)
Definition rs_step (S : src) (env : envt) (d : ndata) (r : rsl) (e : lexev) : R (rsl * ndata * bool) :=
  catch (e_begin e)
  (match rs_state r with
   | RsObjectBegin =>
     match e_type e with ObjectBegin => Ok (rs_set RsKeyOrEnd r, d, true) | _ => err ErrLoader end
   | RsKeyOrEnd =>
     if is_note_ev (e_type e) then Ok (r, d, true) else
     match e_type e with
     | ObjectKeyBegin => Ok (r, d, true)
     | ObjectKeyEnd =>
       do v <- evalue S e;
       (* the name is trimmed and unquoted like every other rule name (fix 405400c) *)
       Ok (mkrsl (if is "enum" (unquote (trim_spaces v)) then RsEnumValueBegin else RsValueBegin) (rs_jt r) (rs_cs r)
                 (e_begin e) (e_end e), d, true)
     | ObjectEnd =>
       do d' <- make_type_from_rule_set d r; Ok (rs_set RsEnd r, d', false)
     | _ => err ErrLoader
     end
   | RsValueBegin =>
     if is_note_ev (e_type e) then Ok (r, d, true) else
     match e_type e with ObjectValueBegin => Ok (rs_set RsValueLiteral r, d, true) | _ => err ErrLoader end
   | RsEnumValueBegin =>
     if is_note_ev (e_type e) then Ok (r, d, true) else
     match e_type e with
     | ObjectValueBegin =>
       do m <- catch (rs_nb r) (base_add (enum_entry new_enum) (rs_cs r));      (* fix 3bdc34e: addConstraint *)
       Ok (rs_set_cs (RsEmbedded EnBegin) m r, d, true)
     | _ => err ErrLoader
     end
   | RsValueLiteral =>
     match e_type e with
     | LiteralBegin => Ok (r, d, true)
     | LiteralEnd =>
       do nv <- value S (rs_nb r) (rs_ne r);
       do v <- evalue S e;
       do _ <- node_value S d;
       do c <- new_constraint env (unquote (trim_spaces nv)) (rs_nb r) v;
       do m <- catch (rs_nb r) (base_add c (rs_cs r));
       Ok (rs_set_cs RsValueEnd m r, d, true)
     | _ => err ErrLiteralValueExpected
     end
   | RsValueEnd =>
     match e_type e with ObjectValueEnd => Ok (rs_set RsKeyOrEnd r, d, true) | _ => err ErrLoader end
   | RsEmbedded s =>
     do x <- catch (e_begin e) (enum_step_in S env s e (rs_cs r));
     let '(s', m, p) := x in
     if p then Ok (rs_set_cs (RsEmbedded s') m r, d, true)
     else Ok (rs_set_cs (match e_type e with TypesShortcutEnd => RsAfterShortcutEnd | _ => RsValueEnd end) m r,
              d, true)
   | RsAfterShortcutEnd =>
     match e_type e with MixedValueEnd => Ok (rs_set RsValueEnd r, d, true) | _ => err ErrLoader end
   | RsEnd => err ErrLoader
   end).

(* ------------------------------------------------------------------ orValueLoader *)
Inductive or_st := OrBegin | OrItemOrEnd | OrItemInner | OrLiteral | OrItemEnd | OrEnd.
(* one call of orValueLoader.Load; the bool is inProgress *)
Definition or_step (S : src) (env : envt) (s : or_st) (rs : option rsl) (d : ndata) (e : lexev)
  : R (or_st * option rsl * ndata * bool) :=
  catch (e_begin e)
  (match rs with
   | Some r =>
     do x <- rs_step S env d r e;
     let '(r', d', p) := x in
     Ok (s, if p then Some r' else None, d', true)
   | None =>
     match s with
     | OrBegin =>
       match e_type e with
       | ArrayBegin => Ok (OrItemOrEnd, None, d, true)
       | _ => err ErrArrayWasExpectedInOrRule
       end
     | OrItemOrEnd =>
       if is_note_ev (e_type e) then Ok (OrItemOrEnd, None, d, true) else
       match e_type e with
       | ArrayItemBegin => Ok (OrItemInner, None, d, true)
       | ArrayEnd =>
         do n <- types_len d;
         match n with
         | O => err ErrEmptyArrayInOrRule
         | S O => err ErrOneElementInArrayInOrRule
         | _ => Ok (OrEnd, None, d, false)
         end
       | _ => err ErrLoader
       end
     | OrItemInner =>
       match e_type e with
       | LiteralBegin => Ok (OrLiteral, None, d, true)
       | ObjectBegin =>
         (* newOrRuleSetLoader *)
         match nd_kind d with
         | KMix => err ErrCannotSpecifyOtherRulesWithTypeReference
         | _ =>
           do t <- node_guess S d;
           do x <- rs_step S env d (mkrsl RsObjectBegin t [] 0 0) e;
           let '(r', d', _) := x in
           Ok (OrItemEnd, Some r', d', true)
         end
       | _ => err ErrIncorrectArrayItemTypeInOrRule
       end
     | OrLiteral =>
       match e_type e with
       | LiteralEnd =>
         do v <- evalue S e;
         match literal_json_type v with
         | None => Fail FGo
         | Some JString =>
           let val := unquote v in
           if is_user_type_name val then
             do d' <- types_add d true (ra "reference" val false) (RLit v);
             Ok (OrItemEnd, None, d', true)
           else
             do t <- node_guess S d;
             (* the item as written, like the value of a "type" rule: the compiler unquotes it once (fix 86f69d0) *)
             do c <- catch (nd_lb d) (compile_mixed t [mkce CType (VType v false) None]);
             do d' <- types_add d false (ra "string" (schema_type_of (fst c) (snd c)) false) (RLit v);
             Ok (OrItemEnd, None, d', true)
         | Some _ => err ErrIncorrectArrayItemTypeInOrRule
         end
       | _ => err ErrLoader
       end
     | OrItemEnd =>
       match e_type e with ArrayItemEnd => Ok (OrItemOrEnd, None, d, true) | _ => err ErrLoader end
     | OrEnd => err ErrLoader
     end
   end).

(* ------------------------------------------------------------------ ruleLoader *)
Inductive emb :=
| EmbEnum (s : enum_st)
| EmbOr (s : or_st) (rs : option rsl)
| EmbAllOf (s : allof_st).
Inductive rstate := RBegin | RCommentTextBegin | RCommentTextEnd | RKeyOrObjectEnd
                  | RObjectEndAfterRuleName | RValueBegin | RValue | RValueLiteral
                  | REmbedded (x : emb) | RValueEnd | REnd.
Record rl := mkrl {
  rl_node : option ndata;     (* node: a copy of lastAddedNode, written back after every step *)
  rl_cnt : N;                 (* nodesPerCurrentLineCount when the annotation began *)
  rl_st : rstate;             (* stateFunc (+ embeddedValueLoader) *)
  rl_nb : N; rl_ne : N        (* ruleNameLex *)
}.
Definition rl_set (s : rstate) (r : rl) : rl := mkrl (rl_node r) (rl_cnt r) s (rl_nb r) (rl_ne r).
Definition rl_set_node (d : ndata) (s : rstate) (r : rl) : rl := mkrl (Some d) (rl_cnt r) s (rl_nb r) (rl_ne r).

(* loadEmbeddedValue *)
Definition load_embedded (S : src) (env : envt) (r : rl) (x : emb) (d : ndata) (e : lexev) : R rl :=
  match e_type e with
  | NewLine => Ok r
  | _ =>
    match x with
    | EmbEnum s =>
      do y <- catch (e_begin e) (enum_step_in S env s e (nd_cs d));
      let '(s', m, p) := y in
      Ok (rl_set_node (set_cs m d) (if p then REmbedded (EmbEnum s') else RValueEnd) r)
    | EmbOr s rs =>
      do y <- or_step S env s rs d e;
      let '(s', rs', d', p) := y in
      Ok (rl_set_node d' (if p then REmbedded (EmbOr s' rs') else RValueEnd) r)
    | EmbAllOf s =>
      do y <- catch (e_begin e) (allof_step_in S s e (nd_cs d));
      let '(s', m, p) := y in
      Ok (rl_set_node (set_cs m d) (if p then REmbedded (EmbAllOf s') else RValueEnd) r)
    end
  end.

(* ruleLoader.load *)
Definition rl_step (S : src) (env : envt) (r : rl) (e : lexev) : R rl :=
  catch (e_begin e)
  (match rl_st r with
   | RBegin =>
     match e_type e with
     | NewLine => Ok r
     | InlineAnnotationTextBegin | MultiLineAnnotationTextBegin => Ok (rl_set RCommentTextEnd r)
     | ObjectBegin => Ok (rl_set RKeyOrObjectEnd r)
     | _ => err ErrLoader
     end
   | RCommentTextBegin =>
     match e_type e with
     | NewLine => Ok r
     | InlineAnnotationTextBegin | MultiLineAnnotationTextBegin => Ok (rl_set RCommentTextEnd r)
     | _ => err ErrLoader
     end
   | RCommentTextEnd =>
     match e_type e with
     | InlineAnnotationTextEnd | MultiLineAnnotationTextEnd =>
       match rl_node r with
       | Some d =>
         (* fix f7150cd: a note on a line without an example belongs to no node *)
         if N.eqb (rl_cnt r) 0 then Ok (rl_set REnd r)
         else do v <- evalue S e; Ok (rl_set_node (set_note (trim_spaces v) d) REnd r)
       | None => Ok (rl_set REnd r)
       end
     | _ => err ErrLoader
     end
   | RKeyOrObjectEnd =>
     if is_note_ev (e_type e) then Ok r else
     match e_type e with
     | ObjectKeyBegin | NewLine => Ok r
     | ObjectKeyEnd => Ok (mkrl (rl_node r) (rl_cnt r) RValueBegin (e_begin e) (e_end e))
     | ObjectEnd => Ok (rl_set RCommentTextBegin r)
     | _ => err ErrLoader
     end
   | RObjectEndAfterRuleName =>
     if is_note_ev (e_type e) then Ok r else
     match e_type e with
     | ObjectKeyBegin | ObjectValueEnd | NewLine => Ok r
     | ObjectKeyEnd => Ok (mkrl (rl_node r) (rl_cnt r) RValueBegin (e_begin e) (e_end e))
     | ObjectEnd => Ok (rl_set RCommentTextBegin r)
     | _ => err ErrLoader
     end
   | RValueBegin =>
     if is_note_ev (e_type e) then Ok r else
     match e_type e with
     | NewLine => Ok r                       (* a line break between the rule name, the colon and the value *)
     | ObjectValueBegin => Ok (rl_set RValue r)
     | _ => err ErrLoader
     end
   | RValue =>
     if N.eqb (rl_cnt r) 0 then err ErrIncorrectRuleWithoutExample
     else if negb (N.eqb (rl_cnt r) 1) then err ErrIncorrectRuleForSeveralNode
     else
       do nv <- value S (rl_nb r) (rl_ne r);
       let name := unquote (trim_spaces nv) in
       match rl_node r with
       | None => Fail FGo                       (* nil node *)
       | Some d =>
         if is "or" name then
           do d1 <- node_add d (mkce CTypesList (VTypes [] false) (Some (RArr [])));
           do d2 <- node_add d1 (mkce COr (VOr false) None);
           load_embedded S env r (EmbOr OrBegin None) d2 e
         else if is "enum" name then
           do d1 <- catch (rl_nb r) (node_add d (enum_entry new_enum));      (* fix 3bdc34e: addConstraint *)
           load_embedded S env r (EmbEnum EnBegin) d1 e
         else if is "allOf" name then
           do d1 <- catch (rl_nb r) (node_add d (mkce CAllOf (VAllOf [] false) (Some (RArr []))));
           load_embedded S env r (EmbAllOf AoBegin) d1 e
         else
           match e_type e with
           | LiteralBegin => Ok (rl_set RValueLiteral r)
           | _ => err ErrIncorrectRuleValueType
           end
       end
   | RValueLiteral =>
     match e_type e with
     | LiteralEnd =>
       match rl_node r with
       | None => Fail FGo
       | Some d =>
         do v <- evalue S e;
         do _ <- node_value S d;
         do nv <- value S (rl_nb r) (rl_ne r);
         do c <- new_constraint env (unquote (trim_spaces nv)) (rl_nb r) v;
         do d' <- catch (rl_nb r) (node_add d c);
         Ok (rl_set_node d' RValueEnd r)
       end
     | _ => err ErrLoader
     end
   | REmbedded x =>
     match rl_node r with
     | Some d => load_embedded S env r x d e
     | None => Fail FStuck
     end
   | RValueEnd =>
     match e_type e with
     | ObjectValueEnd => Ok (rl_set RKeyOrObjectEnd r)
     | MixedValueEnd => Ok (rl_set RObjectEndAfterRuleName r)
     | _ => err ErrLoader
     end
   | REnd => err ErrLoader
   end).

(* ------------------------------------------------------------------ the loader (loader.go) *)
Inductive lmode := MDefault | MInline | MMulti.
Record lst := mklst {
  l_mode : lmode;
  l_cnt : N;                   (* nodesPerCurrentLineCount *)
  l_root : option tnode;       (* the root node once it is closed (nl.leaf = nil again) *)
  l_stack : list tnode;        (* nl.leaf and its open ancestors, innermost first;
                                  an open child is not yet in the child list of its parent *)
  l_rule : option rl
}.
Definition l0 : lst := mklst MDefault 0 None [] None.

(* lastAddedNode = the most recently created node = the end of the chain of last children *)
Fixpoint deep_last (n : tnode) : ndata :=
  match n with TN d ch => match ch with [] => d | c :: _ => deep_last c end end.
Fixpoint set_deep (d' : ndata) (n : tnode) : tnode :=
  match n with
  | TN d ch => match ch with [] => TN d' ch | c :: r => TN d (set_deep d' c :: r) end
  end.
Definition last_node (st : lst) : option ndata :=
  match l_stack st with
  | top :: _ => Some (deep_last top)
  | [] => option_map deep_last (l_root st)
  end.
Definition set_last (d : ndata) (st : lst) : lst :=
  match l_stack st with
  | top :: r => mklst (l_mode st) (l_cnt st) (l_root st) (set_deep d top :: r) (l_rule st)
  | [] => mklst (l_mode st) (l_cnt st) (option_map (set_deep d) (l_root st)) [] (l_rule st)
  end.
Definition set_mode (m : lmode) (st : lst) : lst := mklst m (l_cnt st) (l_root st) (l_stack st) (l_rule st).
(* newRuleLoader(l.lastAddedNode, l.nodesPerCurrentLineCount, ...) *)
Definition new_rule_loader (st : lst) : lst :=
  mklst (l_mode st) (l_cnt st) (l_root st) (l_stack st) (Some (mkrl (last_node st) (l_cnt st) RBegin 0 0)).

(* nodeLoader.Load *)
Definition node_load (S : src) (st : lst) (e : lexev) : R lst :=
  catch (e_begin e)
  (match e_type e with
   | NewLine => Ok (mklst (l_mode st) 0 (l_root st) (l_stack st) (l_rule st))
   | EndTop => Ok st
   | _ =>
     match l_stack st with
     | [] =>
       do n <- new_node e;
       Ok (mklst (l_mode st) (l_cnt st + 1) None [n] (l_rule st))
     | top :: rest =>
       do g <- grow S top e;
       match g with
       | GStay n => Ok (mklst (l_mode st) (l_cnt st) (l_root st) (n :: rest) (l_rule st))
       | GChild n c => Ok (mklst (l_mode st) (l_cnt st + 1) (l_root st) (c :: n :: rest) (l_rule st))
       | GClose n =>
         match rest with
         | [] => Ok (mklst (l_mode st) (l_cnt st) (Some n) [] (l_rule st))
         | TN pd pch :: rest' =>
           Ok (mklst (l_mode st) (l_cnt st) (l_root st) (TN pd (n :: pch) :: rest') (l_rule st))
         end
       end
     end
   end).

(* addShortcutConstraint; runs outside every CatchLexEventError *)
Definition add_shortcut (S : src) (st : lst) (e : lexev) : R lst :=
  match last_node st with
  | None => Fail FGo
  | Some d =>
    do v <- evalue S e;
    match nd_kind d, nd_cs d with
    | KMix, [] =>
      if existsb (fun c => ch c 124) v then
        (* addORShortcut; CompileBasic(&typ, true) on the fresh MixedValueNode changes nothing *)
        let names := map go_trim_space (split_on bar v) in
        let items := map (fun s => (match s with c :: _ => ch c 64 | [] => false end,
                                    ra "string" s true)) names in
        if existsb (fun s => Nat.eqb (length s) 0) names then Fail FGo    (* name[0] of an empty name *)
        else
          do d1 <- node_add d (mkce CTypesList (VTypes items true) None);
          do d2 <- node_add d1 (mkce COr (VOr true) None);
          Ok (set_last d2 st)
      else
        (* addTypeShortcut *)
        do d1 <- node_add d (mkce CType (VType (go_trim_space v) true) None);
        Ok (set_last d1 st)
    | _, _ => Fail FStuck       (* a types shortcut always ends right after its MixedValueBegin *)
    end
  end.

(* rule.load(lex), then the copy of the node is written back *)
Definition rule_load (S : src) (env : envt) (st : lst) (e : lexev) : R lst :=
  match l_rule st with
  | None => Fail FGo
  | Some r =>
    do r' <- rl_step S env r e;
    (* eighth-round fix: a line break inside a multi-line annotation ends the line of the nodes written before it as well *)
    let cnt := match e_type e with NewLine => 0%N | _ => l_cnt st end in
    let st' := mklst (l_mode st) cnt (l_root st) (l_stack st) (Some r') in
    Ok (match rl_node r' with Some d => set_last d st' | None => st' end)
  end.

(* one iteration of doLoad: handleLex, then the dispatch on the mode *)
Definition step (S : src) (env : envt) (st : lst) (e : lexev) : R lst :=
  let in_comment := match l_mode st with MDefault => false | _ => true end in
  let dispatch := if in_comment then rule_load S env st e else node_load S st e in
  match e_type e with
  | TypesShortcutBegin | KeyShortcutBegin => if in_comment then dispatch else Ok st
  | TypesShortcutEnd => if in_comment then dispatch else add_shortcut S st e
  | MultiLineAnnotationBegin => Ok (new_rule_loader (set_mode MMulti st))
  | MultiLineAnnotationEnd => Ok (set_mode MDefault st)
  | InlineAnnotationBegin =>
    match l_mode st with MDefault => Ok (new_rule_loader (set_mode MInline st)) | _ => dispatch end
  | InlineAnnotationEnd =>
    match l_mode st with MInline => Ok (set_mode MDefault st) | _ => dispatch end
  | _ => dispatch
  end.

Fixpoint run_events (S : src) (env : envt) (st : lst) (evs : list lexev) : R lst :=
  match evs with
  | [] => Ok st
  | e :: r => do st' <- step S env st e; run_events S env st' r
  end.

(* ------------------------------------------------------------------ the result *)
Record annot := mkannot { a_rules : list (bytes * rval); a_note : bytes }.   (* rules as written, in order *)
Inductive node :=
| NLit (tok : bytes) (a : annot)
| NObj (members : list (bytes * bool * node)) (a : annot)   (* key (unquoted, as ObjectNode.addKey stores it), is key shortcut, value *)
| NArr (items : list node) (a : annot)
| NRef (value : bytes) (names : list bytes) (a : annot).    (* type shortcut: trimmed raw text, the names *)
Inductive result :=
| LTree (root : option node)     (* loaded; None = no example at all (the root node is nil) *)
| LError (code pos : N)          (* DocumentError *)
| LPanic                         (* a panic that is not a DocumentError *)
| LStuck.                        (* the model gave up *)

(* the rules written by the user: every constraint that carries an as-written value; the "or" rule
   is reported at the place of the Or constraint with the items kept by the TypesList constraint *)
Fixpoint written_rules (all : cmap) (m : cmap) : list (bytes * rval) :=
  match m with
  | [] => []
  | e :: r =>
    match ce_t e with
    | CTypesList => written_rules all r
    | COr =>
      match ce_v e, cget CTypesList all with
      | VOr false, Some (mkce _ _ (Some w)) => (ctype_name COr, w) :: written_rules all r
      | _, _ => written_rules all r
      end
    | _ =>
      match ce_w e with
      | Some w => (ctype_name (ce_t e), w) :: written_rules all r
      | None => written_rules all r
      end
    end
  end.
Definition annot_of (d : ndata) : annot := mkannot (written_rules (nd_cs d) (nd_cs d)) (nd_note d).

(* pairs the keys (oldest first) with the children (oldest first); None = index out of range *)
Fixpoint members_of {A} (keys : list okey) (chs : list A) : option (list (bytes * bool * A)) :=
  match keys with
  | [] => Some []
  | k :: r =>
    match nth_error chs (k_index k), members_of r chs with
    | Some c, Some t => Some ((k_key k, k_short k, c) :: t)
    | _, _ => None
    end
  end.

Fixpoint to_node (S : src) (n : tnode) : option node :=
  match n with
  | TN d ch =>
    let a := annot_of d in
    match all_some (frev (map (to_node S) ch)) with
    | None => None
    | Some chs =>
      match nd_kind d with
      | KLit => match slice S (nd_lb d) (nd_le d) with Some v => Some (NLit v a) | None => None end
      | KObj => match members_of (frev (nd_keys d)) chs with Some ms => Some (NObj ms a) | None => None end
      | KArr => Some (NArr chs a)
      | KMix => Some (NRef (nd_mval d) (map go_trim_space (split_on bar (nd_mval d))) a)
      end
    end
  end.

(* the tree at the end of the event stream: open nodes are attached to their parents *)
Fixpoint fold_stack (n : tnode) (rest : list tnode) : tnode :=
  match rest with
  | [] => n
  | TN pd pch :: r => fold_stack (TN pd (n :: pch)) r
  end.
Definition final_root (st : lst) : option tnode :=
  match l_stack st with
  | top :: rest => Some (fold_stack top rest)
  | [] => l_root st
  end.

Definition load_state (env : envt) (text : bytes) : R lst * outcome * src :=
  let S := mksrc text (N.of_nat (length text)) in
  let '(evs, o) := scan false text in
  (run_events S env l0 evs, o, S).

Definition finish {A} (conv : src -> tnode -> option A) (x : R lst * outcome * src)
  : (option (option A)) * result :=
  let '(r, o, sr) := x in
  match r with
  | Fail (FDoc c p) => (None, LError c p)
  | Fail FStuck => (None, LStuck)
  | Fail _ => (None, LPanic)
  | Ok st =>
    match o with
    | Err c p => (None, LError c p)
    | Panic => (None, LPanic)
    | Done =>
      match final_root st with
      | None => (Some None, LTree None)
      | Some t => match conv sr t with
                  | Some a => (Some (Some a), LTree None)
                  | None => (None, LPanic)
                  end
      end
    end
  end.

Definition load_with (env : envt) (text : bytes) : result :=
  match finish to_node (load_state env text) with
  | (Some (Some n), _) => LTree (Some n)
  | (_, r) => r
  end.
Definition load (text : bytes) : result := load_with env0 text.

(* ------------------------------------------------------------------ the AST view (schema/ast.go, *_node.go ASTNode)
   what jschema.Schema.buildASTNode makes of the loaded tree *)
Inductive ast := AN (tt st key : bytes) (ks : bool) (v c : bytes) (rules : list (bytes * rast))
                    (ch : list ast) (w : annot) (tok : bytes).

(* collectASTRules *)
Fixpoint ast_rules (all : cmap) (m : cmap) : option (list (bytes * rast)) :=
  match m with
  | [] => Some []
  | e :: r =>
    match ce_t e with
    | CTypesList => ast_rules all r
    | COr =>
      match cget CTypesList all, ast_rules all r with
      | Some t, Some l => Some ((ctype_name COr, ast_of (ce_v t)) :: l)
      | _, _ => None
      end
    | t => option_map (cons (ctype_name t, ast_of (ce_v e))) (ast_rules all r)
    end
  end.
(* getASTNodeSchemaType *)
Definition ast_schema_type (d : ndata) : bytes :=
  let m := nd_cs d in
  if chas CEnum m then of_string "enum"
  else if chas COr m then of_string "mixed"
  else match type_bytes m with
       | Some v => unquote v
       | None => if chas CPrecision m then of_string "decimal" else jt_string (nd_jt d)
       end.

Fixpoint to_ast (S : src) (n : tnode) : option ast :=
  match n with
  | TN d ch =>
    match ast_rules (nd_cs d) (nd_cs d), all_some (frev (map (to_ast S) ch)) with
    | Some rules, Some chs =>
      let w := annot_of d in
      let tk := jt_token (nd_jt d) in
      match nd_kind d with
      | KLit =>
        match slice S (nd_lb d) (nd_le d) with
        | Some v => Some (AN tk (ast_schema_type d) [] false (unquote v) (nd_note d) rules [] w v)
        | None => None
        end
      | KObj =>
        match members_of (frev (nd_keys d)) chs with
        | Some ms =>
          Some (AN tk (ast_schema_type d) [] false [] (nd_note d) rules
                   (map (fun m => match m with
                                  | (k, s, AN tk' st' _ _ v' c' r' ch' w' tok') => AN tk' st' k s v' c' r' ch' w' tok'
                                  end) ms) w [])
        | None => None
        end
      | KArr => Some (AN tk (ast_schema_type d) [] false [] (nd_note d) rules chs w [])
      | KMix =>
        let st := if existsb (fun c => SchemaScanner.ch c 124) (nd_mval d) then of_string "mixed" else nd_mst d in
        Some (AN tk st [] false (nd_mval d) (nd_note d) rules [] w (nd_mval d))
      end
    | _, _ => None
    end
  end.

(* ------------------------------------------------------------------ printing: one line of JSON;
   every byte string is printed as a JSON string of hex digits, except token types and rule names
   of the library (plain ASCII) *)
Definition q (b : bytes) : bytes := [x22] ++ b ++ [x22].
Definition qh (b : bytes) : bytes := q (hex b).
Definition kv (k : String.string) (v : bytes) : bytes := q (of_string k) ++ [colon] ++ v.
Definition obj (fields : list bytes) : bytes := [x7b] ++ join [comma] fields ++ [x7d].
Definition arr (items : list bytes) : bytes := [x5b] ++ join [comma] items ++ [x5d].

Fixpoint print_rast (r : rast) : bytes :=
  match r with
  | RA tk v c items props gen =>
    obj [kv "tt" (q tk); kv "v" (qh v); kv "c" (qh c);
         kv "items" (arr (map print_rast items));
         kv "props" (arr (map (fun p => arr [qh (fst p); print_rast (snd p)]) props));
         kv "src" (if gen then [x32] else [x31])]
  end.
Fixpoint print_rval (r : rval) : bytes :=
  match r with
  | RLit t => obj [kv "lit" (qh t)]
  | RArr items => obj [kv "arr" (arr (map print_rval items))]
  | RObj props => obj [kv "obj" (arr (map (fun p => arr [qh (fst p); print_rval (snd p)]) props))]
  | RRef n => obj [kv "ref" (qh n)]
  end.
Definition print_annot (a : annot) : bytes :=
  obj [kv "rules" (arr (map (fun p => arr [qh (fst p); print_rval (snd p)]) (a_rules a)));
       kv "note" (qh (a_note a))].
Fixpoint print_ast (a : ast) : bytes :=
  match a with
  | AN tk st key ks v c rules ch w tok =>
    obj [kv "tt" (q tk); kv "st" (qh st); kv "key" (qh key);
         kv "ks" (of_string (if ks then "true" else "false"));
         kv "v" (qh v); kv "c" (qh c);
         kv "rules" (arr (map (fun p => arr [qh (fst p); print_rast (snd p)]) rules));
         kv "ch" (arr (map print_ast ch));
         kv "w" (print_annot w); kv "tok" (qh tok)]
  end.

Definition w_error (c p : N) : bytes := [x45] ++ print_N c ++ [x40] ++ print_N p.
Definition loader_model (env : envt) (text : bytes) : bytes :=
  match finish to_ast (load_state env text) with
  | (Some (Some a), _) => [x41; colon] ++ print_ast a          (* A:<json> *)
  | (Some None, _) => of_string "EMPTY"
  | (None, LError c p) => w_error c p
  | (None, LStuck) => of_string "STUCK"
  | (None, _) => of_string "PANIC"
  end.

(* line = "<hex of the schema text or ->[ <bad patterns>[ <enum rules>]]"
     <bad patterns> = "-" or hex,hex,...   the decoded regex patterns regexp.MustCompile refuses
     <enum rules>   = namehex:tokhex;tokhex;...,namehex:...   (a rule without values: "namehex:") *)
Definition unhex_list (sep : byte) (b : bytes) : option (list bytes) :=
  match b with
  | [] | [x2d] => Some []
  | _ => all_some (map unhex (split_on sep b))
  end.
Definition parse_enum_rule (b : bytes) : option (bytes * list bytes) :=
  match split_on colon b with
  | [n; vs] =>
    match unhex n, unhex_list semi vs with
    | Some name, Some toks => Some (name, toks)
    | _, _ => None
    end
  | _ => None
  end.
Definition loader_model_line (line : bytes) : bytes :=
  let bad_line := of_string "BAD" in
  let fields := split_on sp line in
  let text_of h := unhex (match h with [x2d] => [] | _ => h end) in
  match fields with
  | [h] => match text_of h with Some text => loader_model env0 text | None => bad_line end
  | [h; rx] =>
    match text_of h, unhex_list comma rx with
    | Some text, Some bad => loader_model (mkenv [] bad) text
    | _, _ => bad_line
    end
  | [h; rx; en] =>
    match text_of h, unhex_list comma rx, all_some (map parse_enum_rule (split_on comma en)) with
    | Some text, Some bad, Some es => loader_model (mkenv es bad) text
    | _, _, _ => bad_line
    end
  | _ => bad_line
  end.

(* ------------------------------------------------------------------ a few evaluated examples *)
Example ex_dup_rule : load (of_string "1 // {min: 1, min: 2}") = LError 501 14.   (* at the second name since fix 3bdc34e *)
Proof. vm_compute. reflexivity. Qed.
Example ex_several_nodes : load (of_string "{""a"": 1, ""b"": 2 // {min: 1}
}") = LError 804 25.
Proof. vm_compute. reflexivity. Qed.
Example ex_rule_set_compile : load (of_string "1 // {or: [{min: 1, type: ""string""}, ""string""]}") = LError 1117 11.
Proof. vm_compute. reflexivity. Qed.
Example ex_unnamed_type_position : load (of_string "1 // {or: [""foo"", ""integer""]}") = LError 102 0.
Proof. vm_compute. reflexivity. Qed.
Example ex_tree :
  load (of_string "{@k: @a | @b,
""n"": 1 // {min: 0} - note
}")
  = LTree (Some (NObj [(of_string "@k", true, NRef (of_string "@a | @b") [of_string "@a"; of_string "@b"] (mkannot [] []));
                       (of_string "n", false, NLit (of_string "1") (mkannot [(of_string "min", RLit (of_string "0"))] (of_string "note")))]
                      (mkannot [] []))).
Proof. vm_compute. reflexivity. Qed.
Example ex_empty : load (of_string "  # nothing") = LTree None.
Proof. vm_compute. reflexivity. Qed.
