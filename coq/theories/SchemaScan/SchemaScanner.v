(* SchemaScanner.v — executable model of the JSight SCHEMA scanner,
   /repo/notations/jschema/internal/scanner/scanner.go and scanner_annotations.go, and of
   Scanner.Length() / Schema.Len() (/repo/notations/jschema/jschema.go computeLen).

   Same architecture as Json/Scanner.v (the model of formats/json/scanner.go): [s_step] is one of
   the stored state functions, [s_stk] the stack of opening lexical events not yet closed,
   [s_finds] the queue of event types found by one call of the state function.  Next() drains the
   queue (pushing opening events, popping and pairing closing ones, computing the spans) before it
   reads the next byte; hence a state function always sees a stack to which all earlier finds have
   been applied, and reads the *old* stack while it queues several finds itself.

   What is new with respect to the JSON scanner:
     - [s_rts]   returnToStep, the stack of state functions to return to after a comment, an
                 annotation, or a \uXXXX escape;
     - [s_cx], [s_pcs]  context (initial / object / array / shortcut, with ArrayHasItem) and the
                 stack of previous contexts;
     - [s_ann]   annotation none / inline / multi-line;  [s_allow] allowAnnotation;
     - [s_bnd]   boundary of an annotation object key (0 = bare key, 34 = quoted);
     - [s_lc]    lengthComputing;  [s_htc] hasTrailingCharacters;
     - the closure "after inline annotation" wrapped around a popped state function: [NoAnnot fn];
     - state functions that look ahead (### , */) or move s.index (stateInlineComment steps back by
       one byte and re-reads it, stateMultiLineComment skips two bytes): [s_back], [s_skip].

   Every Go state function is a definition of the same name below (stateFoo ~> st_foo) and is
   written in the order of the Go statements.  Go state functions transform the scanner in place;
   here they map a scanner record to [res sc]:
       ROk s'   normal return,
       RErr c   panic(DocumentError) with code c at s.index-1 (the byte being read),
       RPanic   any other panic (ds.Stack.Pop/Peek/Get on a missing element, "Unexpected context",
                "Incorrect annotation begin in stack", index out of range).
   No proofs in this file. *)
From Coq Require Import List NArith Bool Arith.
From Coq Require Import Strings.Byte.
Import ListNotations.
From JS Require Import Common.Wire.

(* ---------- byte classes (bytes/byte.go) ---------- *)
Definition bN (c : byte) : N := Byte.to_N c.
Definition ch (c : byte) (n : N) : bool := N.eqb (bN c) n.
Definition is_space (c : byte) : bool := let n := bN c in (N.eqb n 32 || N.eqb n 9)%bool.
Definition is_nl (c : byte) : bool := let n := bN c in (N.eqb n 10 || N.eqb n 13)%bool.
Definition is_blank (c : byte) : bool := (is_space c || is_nl c)%bool.
Definition is_digit (c : byte) : bool := let n := bN c in (N.leb 48 n && N.leb n 57)%bool.
Definition is_digit19 (c : byte) : bool := let n := bN c in (N.leb 49 n && N.leb n 57)%bool.
Definition is_hex (c : byte) : bool :=
  let n := bN c in
  ((N.leb 48 n && N.leb n 57) || (N.leb 97 n && N.leb n 102) || (N.leb 65 n && N.leb n 70))%bool.
Definition is_ctl (c : byte) : bool := N.ltb (bN c) 32.
(* IsValidUserTypeNameByte *)
Definition is_name (c : byte) : bool :=
  let n := bN c in
  (N.eqb n 45 || N.eqb n 95 || (N.leb 97 n && N.leb n 122) || (N.leb 65 n && N.leb n 90)
   || (N.leb 48 n && N.leb n 57))%bool.

(* ---------- lexical event types (internal/lexeme/lex_event_type.go) ---------- *)
Inductive ev :=
| LiteralBegin | LiteralEnd | ObjectBegin | ObjectEnd | ObjectKeyBegin | ObjectKeyEnd
| ObjectValueBegin | ObjectValueEnd | ArrayBegin | ArrayEnd | ArrayItemBegin | ArrayItemEnd
| InlineAnnotationBegin | InlineAnnotationEnd | InlineAnnotationTextBegin | InlineAnnotationTextEnd
| MultiLineAnnotationBegin | MultiLineAnnotationEnd
| MultiLineAnnotationTextBegin | MultiLineAnnotationTextEnd
| NewLine | TypesShortcutBegin | TypesShortcutEnd | KeyShortcutBegin | KeyShortcutEnd
| MixedValueBegin | MixedValueEnd | EndTop.

Definition ev_code (e : ev) : N :=
  match e with
  | LiteralBegin => 0 | LiteralEnd => 1 | ObjectBegin => 2 | ObjectEnd => 3
  | ObjectKeyBegin => 4 | ObjectKeyEnd => 5 | ObjectValueBegin => 6 | ObjectValueEnd => 7
  | ArrayBegin => 8 | ArrayEnd => 9 | ArrayItemBegin => 10 | ArrayItemEnd => 11
  | InlineAnnotationBegin => 12 | InlineAnnotationEnd => 13
  | InlineAnnotationTextBegin => 14 | InlineAnnotationTextEnd => 15
  | MultiLineAnnotationBegin => 16 | MultiLineAnnotationEnd => 17
  | MultiLineAnnotationTextBegin => 18 | MultiLineAnnotationTextEnd => 19
  | NewLine => 20 | TypesShortcutBegin => 21 | TypesShortcutEnd => 22
  | KeyShortcutBegin => 23 | KeyShortcutEnd => 24
  | MixedValueBegin => 25 | MixedValueEnd => 26 | EndTop => 27
  end%N.
Definition ev_eqb (a b : ev) : bool := N.eqb (ev_code a) (ev_code b).

(* LexEventType.IsOpening *)
Definition is_opening (e : ev) : bool :=
  match e with
  | LiteralBegin | ObjectBegin | ObjectKeyBegin | ObjectValueBegin | ArrayBegin | ArrayItemBegin
  | MultiLineAnnotationBegin | InlineAnnotationBegin | InlineAnnotationTextBegin
  | MultiLineAnnotationTextBegin | TypesShortcutBegin | KeyShortcutBegin | MixedValueBegin => true
  | _ => false
  end.
Definition is_ann_begin (e : ev) : bool :=
  match e with InlineAnnotationBegin | MultiLineAnnotationBegin => true | _ => false end.
(* isNonScalarPair / isScalarPair *)
Definition nonscalar_pair (p e : ev) : bool :=
  match p, e with
  | ObjectBegin, ObjectEnd | ArrayBegin, ArrayEnd
  | MultiLineAnnotationBegin, MultiLineAnnotationEnd => true
  | _, _ => false
  end.
Definition scalar_pair (p e : ev) : bool :=
  match p, e with
  | LiteralBegin, LiteralEnd | ArrayItemBegin, ArrayItemEnd
  | ObjectKeyBegin, ObjectKeyEnd | ObjectValueBegin, ObjectValueEnd
  | InlineAnnotationTextBegin, InlineAnnotationTextEnd
  | MultiLineAnnotationTextBegin, MultiLineAnnotationTextEnd
  | InlineAnnotationBegin, InlineAnnotationEnd
  | KeyShortcutBegin, KeyShortcutEnd | TypesShortcutBegin, TypesShortcutEnd
  | MixedValueBegin, MixedValueEnd => true
  | _, _ => false
  end.

(* ---------- the stored step functions ---------- *)
Inductive st :=
(* scanner.go *)
| FoundRootValue | FoundObjectKeyBeginOrEmpty | FoundObjectKeyBegin | FoundObjectKeyBeginAfterNewLine
| FoundObjectValueBegin | FoundArrayItemBeginOrEmpty | FoundArrayItemBegin
| EndValue | AfterObjectKey | AfterObjectValue | AfterArrayItem | SEndTop
| InString | InStringEsc | InStringEscU | InStringEscU1 | InStringEscU12 | InStringEscU123
| Neg | S1 | S0 | Dot | Dot0
| ST | STr | STru | SF | SFa | SFal | SFals | SN | SNu | SNul
| TypesShortcutBeginOfSchemaName | TypesShortcutSchemaName | TypesShortcutBeforePipe
| TypesShortcutAfterPipe
| AnyCommentStart | InlineComment | MultiLineComment | KeyShortcut
| MultiLineCommentStart                      (* after reading `##` (fix b9d4d7e) *)
| EndTopAfterNewLine                         (* stateEndTop in length mode after a line break while annotations are banned (fix a0479cf) *)
(* scanner_annotations.go *)
| AnyAnnotationStart | InlineAnnotationStart | InlineAnnotation
| InlineAnnotationTextPrefix | InlineAnnotationTextPrefix2 | InlineAnnotationText
| InlineAnnotationTextSkip
| MultiLineAnnotation | MultiLineAnnotationTextPrefix | MultiLineAnnotationTextPrefix2
| SMultiLineAnnotationEnd | MultiLineAnnotationText
| InAnnotationObjectKeyFirstLetter | InAnnotationObjectKey | InAnnotationObjectKeyAfter
(* the closure built by stateInlineAnnotationText / stateInlineAnnotationTextSkip:
   func(s, c) { if s.isAnnotationStart(c) { panic("after inline annotation") }; return fn(s, c) } *)
| NoAnnot (fn : st).

Inductive annot := ANone | AInline | AMulti.
Inductive ctype := CInitial | CObject | CArray | CShortcut.
Record ctx := mkctx { c_type : ctype; c_has_item : bool }.
Definition new_context (t : ctype) : ctx := mkctx t false.

(* ---------- the scanner ---------- *)
Record sc := mksc {
  s_step : st;               (* step *)
  s_rts : list st;           (* returnToStep, top first *)
  s_stk : list (ev * N);     (* stack: (type, Begin()) of the open events, top first *)
  s_pcs : list ctx;          (* prevContextsStack, top first *)
  s_cx : ctx;                (* context *)
  s_finds : list ev;         (* finds, most recent first *)
  s_ann : annot;             (* annotation *)
  s_unf : bool;              (* unfinishedLiteral *)
  s_lc : bool;               (* lengthComputing *)
  s_bnd : N;                 (* boundary *)
  s_allow : bool;            (* allowAnnotation *)
  s_htc : bool;              (* hasTrailingCharacters *)
  s_back : bool;             (* s.index-- was executed by this step (stateInlineComment) *)
  s_skip : bool              (* s.index += 2 was executed by this step (stateMultiLineComment) *)
}.

Definition set_step v (s : sc) : sc := mksc v (s_rts s) (s_stk s) (s_pcs s) (s_cx s) (s_finds s) (s_ann s) (s_unf s) (s_lc s) (s_bnd s) (s_allow s) (s_htc s) (s_back s) (s_skip s).
Definition set_rts v (s : sc) : sc := mksc (s_step s) v (s_stk s) (s_pcs s) (s_cx s) (s_finds s) (s_ann s) (s_unf s) (s_lc s) (s_bnd s) (s_allow s) (s_htc s) (s_back s) (s_skip s).
Definition set_stk v (s : sc) : sc := mksc (s_step s) (s_rts s) v (s_pcs s) (s_cx s) (s_finds s) (s_ann s) (s_unf s) (s_lc s) (s_bnd s) (s_allow s) (s_htc s) (s_back s) (s_skip s).
Definition set_pcs v (s : sc) : sc := mksc (s_step s) (s_rts s) (s_stk s) v (s_cx s) (s_finds s) (s_ann s) (s_unf s) (s_lc s) (s_bnd s) (s_allow s) (s_htc s) (s_back s) (s_skip s).
Definition set_cx v (s : sc) : sc := mksc (s_step s) (s_rts s) (s_stk s) (s_pcs s) v (s_finds s) (s_ann s) (s_unf s) (s_lc s) (s_bnd s) (s_allow s) (s_htc s) (s_back s) (s_skip s).
Definition set_finds v (s : sc) : sc := mksc (s_step s) (s_rts s) (s_stk s) (s_pcs s) (s_cx s) v (s_ann s) (s_unf s) (s_lc s) (s_bnd s) (s_allow s) (s_htc s) (s_back s) (s_skip s).
Definition set_ann v (s : sc) : sc := mksc (s_step s) (s_rts s) (s_stk s) (s_pcs s) (s_cx s) (s_finds s) v (s_unf s) (s_lc s) (s_bnd s) (s_allow s) (s_htc s) (s_back s) (s_skip s).
Definition set_unf v (s : sc) : sc := mksc (s_step s) (s_rts s) (s_stk s) (s_pcs s) (s_cx s) (s_finds s) (s_ann s) v (s_lc s) (s_bnd s) (s_allow s) (s_htc s) (s_back s) (s_skip s).
Definition set_bnd v (s : sc) : sc := mksc (s_step s) (s_rts s) (s_stk s) (s_pcs s) (s_cx s) (s_finds s) (s_ann s) (s_unf s) (s_lc s) v (s_allow s) (s_htc s) (s_back s) (s_skip s).
Definition set_allow v (s : sc) : sc := mksc (s_step s) (s_rts s) (s_stk s) (s_pcs s) (s_cx s) (s_finds s) (s_ann s) (s_unf s) (s_lc s) (s_bnd s) v (s_htc s) (s_back s) (s_skip s).
Definition set_htc v (s : sc) : sc := mksc (s_step s) (s_rts s) (s_stk s) (s_pcs s) (s_cx s) (s_finds s) (s_ann s) (s_unf s) (s_lc s) (s_bnd s) (s_allow s) v (s_back s) (s_skip s).
Definition set_back v (s : sc) : sc := mksc (s_step s) (s_rts s) (s_stk s) (s_pcs s) (s_cx s) (s_finds s) (s_ann s) (s_unf s) (s_lc s) (s_bnd s) (s_allow s) (s_htc s) v (s_skip s).
Definition set_skip v (s : sc) : sc := mksc (s_step s) (s_rts s) (s_stk s) (s_pcs s) (s_cx s) (s_finds s) (s_ann s) (s_unf s) (s_lc s) (s_bnd s) (s_allow s) (s_htc s) (s_back s) v.

(* scanner.New(file, oo...) *)
Definition new_scanner (length_computing : bool) : sc :=
  mksc FoundRootValue [] [] [] (new_context CInitial) [] ANone false length_computing 0%N true false
       false false.

(* ---------- outcome of a state function ---------- *)
Inductive res (A : Type) :=
| ROk (a : A)
| RErr (code : N)   (* panic(DocumentError) at s.index - 1 *)
| RPanic.           (* any other panic *)
Arguments ROk {A} a.
Arguments RErr {A} code.
Arguments RPanic {A}.

Local Notation "'do' x <- a ; b" :=
  (match a with ROk x => b | RErr code_ => RErr code_ | RPanic => RPanic end)
  (at level 200, x name, a at level 100, b at level 200).

Definition code_invalid_character : N := 301.              (* ErrInvalidCharacter *)
Definition code_invalid_character_in_key : N := 302.       (* ErrInvalidCharacterInAnnotationObjectKey *)
Definition code_unexpected_eof : N := 303.                 (* ErrUnexpectedEOF *)
Definition code_annotation_not_allowed : N := 304.         (* ErrAnnotationNotAllowed *)
(* panic(s.newDocumentErrorAtCharacter(...)) *)
Definition err_char {A} : res A := RErr code_invalid_character.
(* panic(s.newDocumentError(ErrInvalidCharacterInAnnotationObjectKey, c)) *)
Definition err_key {A} : res A := RErr code_invalid_character_in_key.

(* ---------- small methods ---------- *)
Definition found (e : ev) (s : sc) : sc := set_finds (e :: s_finds s) s.
Definition push_rts (f : st) (s : sc) : sc := set_rts (f :: s_rts s) s.
Definition pop_rts (s : sc) : res (st * sc) :=
  match s_rts s with [] => RPanic | f :: r => ROk (f, set_rts r s) end.
Definition set_context (c : ctx) (s : sc) : sc := set_cx c (set_pcs (s_cx s :: s_pcs s) s).
Definition restore_context (s : sc) : res sc :=
  match s_pcs s with [] => RPanic | c :: r => ROk (set_cx c (set_pcs r s)) end.
Definition ann_none (s : sc) : bool := match s_ann s with ANone => true | _ => false end.

(* s.isNewLine(c) *)
Definition is_new_line (s : sc) (c : byte) : res bool :=
  if is_nl c then match s_ann s with AInline => err_char | _ => ROk true end
  else ROk false.
(* s.isAnnotationStart(c) *)
Definition is_annotation_start (c : byte) : bool := ch c 47.
(* s.isCommentStart(c) *)
Definition is_comment_start (s : sc) (c : byte) : bool :=
  match s_ann s with AMulti => false | _ => ch c 35 end.
(* s.switchToComment() *)
Definition switch_to_comment (s : sc) : res sc :=
  match s_ann s with
  | AMulti => err_char
  | _ => ROk (set_step AnyCommentStart (push_rts (s_step s) s))
  end.
(* s.switchToAnnotation() *)
Definition switch_to_annotation (s : sc) : res sc :=
  if negb (s_allow s) then RErr code_annotation_not_allowed
  else
    let s1 := push_rts (s_step s) s in
    match s_ann s1 with
    | ANone => ROk (set_step AnyAnnotationStart s1)
    | AMulti => ROk (set_step InlineAnnotationStart s1)
    | AInline => err_char
    end.

(* s.stack.Get(length - k).Type() for k = 1, 2, ... is [sty stk (k-1)] *)
Definition sty (stk : list (ev * N)) (n : nat) : option ev := option_map fst (nth_error stk n).
Definition ty_is (o : option ev) (e : ev) : bool :=
  match o with Some x => ev_eqb x e | None => false end.
Definition ty_ann (o : option ev) : bool :=
  match o with Some x => is_ann_begin x | None => false end.
(* s.isFoundLastObjectEndOnAnnotation(): None = (false, _) *)
Definition is_found_last_object_end_on_annotation (stk : list (ev * N)) : option ev :=
  if (ty_is (sty stk 0) TypesShortcutBegin && ty_is (sty stk 1) MixedValueBegin
      && ty_is (sty stk 2) ObjectValueBegin && ty_is (sty stk 3) ObjectBegin && ty_ann (sty stk 4))%bool
  then sty stk 4
  else if (ty_is (sty stk 0) LiteralBegin && ty_is (sty stk 1) ObjectValueBegin
           && ty_is (sty stk 2) ObjectBegin && ty_ann (sty stk 3))%bool
  then sty stk 3
  else if (ty_is (sty stk 0) ObjectValueBegin && ty_is (sty stk 1) ObjectBegin && ty_ann (sty stk 2))%bool
  then sty stk 2
  else if (ty_is (sty stk 0) ObjectBegin && ty_ann (sty stk 1))%bool
  then sty stk 1
  else None.
(* s.isInsideMultiLineAnnotation() *)
Definition is_inside_multi_line_annotation (s : sc) : bool :=
  existsb (fun p => ev_eqb (fst p) MultiLineAnnotationBegin) (s_stk s).
(* s.annotation = annotationNone; if s.isInsideMultiLineAnnotation() { s.annotation = annotationMultiLine } *)
Definition leave_inline_annotation (s : sc) : sc :=
  set_ann (if is_inside_multi_line_annotation s then AMulti else ANone) s.

(* the opcode returned by stateBeginValue *)
Inductive bv := BVContinue | BVObject | BVArray | BVLiteral | BVTypesShortcut.

(* ---------- the state functions: one byte [c], the bytes after it [la] (look-ahead),
   and [k f s] = "s.step(s, c)" for a step that is not statically known ---------- *)
Section States.
Variable c : byte.
Variable la : bytes.
Variable pb : option byte.      (* the byte before [c]: s.data[s.index-2], when s.index >= 2 *)
Variable k : st -> sc -> res sc.

(* s.index < s.dataSize && s.data[s.index] == n *)
Definition next_is (n : N) : bool := match la with x :: _ => ch x n | [] => false end.

Definition st_found_object_end (s : sc) : res sc :=
  let s := found ObjectEnd s in
  do s <- restore_context s ;
  let s := set_step EndValue s in
  if ann_none s then ROk s
  else
    match is_found_last_object_end_on_annotation (s_stk s) with
    | Some InlineAnnotationBegin => ROk (set_step InlineAnnotationTextPrefix s)
    | Some MultiLineAnnotationBegin => ROk (set_step MultiLineAnnotationTextPrefix s)
    | Some _ => RPanic
    | None => ROk s
    end.

Definition st_found_array_end (s : sc) : res sc :=
  let s := if ann_none s then set_allow (negb (c_has_item (s_cx s))) s else s in
  let s := found ArrayEnd s in
  do s <- restore_context s ;
  ROk (set_step (match s_stk s with [] => SEndTop | _ :: _ => EndValue end) s).

Definition st_begin_value (s : sc) : res (bv * sc) :=
  do nl <- is_new_line s c ;
  if nl then ROk (BVContinue, found NewLine s)
  else if is_blank c then ROk (BVContinue, s)
  else if is_annotation_start c then (do s <- switch_to_annotation s ; ROk (BVContinue, s))
  else if ch c 123 then ROk (BVObject, set_step FoundObjectKeyBeginOrEmpty s)
  else if ch c 91 then ROk (BVArray, set_step FoundArrayItemBeginOrEmpty s)
  else if ch c 34 then ROk (BVLiteral, set_unf true (set_step InString s))
  else if ch c 45 then ROk (BVLiteral, set_unf true (set_step Neg s))
  else if ch c 48 then ROk (BVLiteral, set_step S0 s)
  else if ch c 116 then ROk (BVLiteral, set_unf true (set_step ST s))
  else if ch c 102 then ROk (BVLiteral, set_unf true (set_step SF s))
  else if ch c 110 then ROk (BVLiteral, set_unf true (set_step SN s))
  else if ch c 64 then ROk (BVTypesShortcut, set_unf true (set_step TypesShortcutBeginOfSchemaName s))
  else if is_digit19 c then ROk (BVLiteral, set_step S1 s)
  else err_char.

(* the "switch r" of stateFoundRootValue / stateFoundObjectValueBegin / stateFoundArrayItemBegin*:
   [pre] = the opening event of the position, [root] = stateFoundRootValue (which alone sets the
   shortcut context) *)
Definition founds (l : list ev) (s : sc) : sc := fold_left (fun s e => found e s) l s.
Definition switch_begin (pre : list ev) (root : bool) (r : bv) (s : sc) : sc :=
  match r with
  | BVContinue => s
  | BVObject => set_context (new_context CObject) (found ObjectBegin (founds pre s))
  | BVArray => set_context (new_context CArray) (found ArrayBegin (founds pre s))
  | BVLiteral => found LiteralBegin (founds pre s)
  | BVTypesShortcut =>
    let s := found TypesShortcutBegin (found MixedValueBegin (founds pre s)) in
    if root then set_context (new_context CShortcut) s else s
  end.

Definition st_found_root_value (s : sc) : res sc :=
  if is_annotation_start c then switch_to_annotation s
  else if is_comment_start s c then switch_to_comment s
  else
    do rs <- st_begin_value s ;
    let '(r, s) := rs in ROk (switch_begin [] true r s).

Definition st_begin_string (s : sc) : res sc :=
  if ch c 34 then ROk (set_step InString s) else err_char.

Definition begin_key_shortcut (s : sc) : res sc :=
  if ann_none s then ROk (set_step KeyShortcut (found KeyShortcutBegin s)) else err_char.

Definition st_begin_key_or_empty (s : sc) : res sc :=
  let s := if ann_none s then set_allow true s else s in
  if ch c 125 then st_found_object_end s
  else st_begin_string (found ObjectKeyBegin s).

(* ---- scanner_annotations.go: annotation object keys ---- *)
Definition st_in_annotation_object_key_first_letter (s : sc) : res sc :=
  let b := s_bnd s in
  if ((N.eqb b 0 && (ch c 58 || is_nl c || ch c 92)) || N.eqb (bN c) b || is_ctl c)%bool
  then err_key
  else ROk (set_step InAnnotationObjectKey s).

Definition st_begin_annotation_object_key (s : sc) : res sc :=
  if ch c 34 then ROk (set_step InString (set_bnd 34%N s))
  else st_in_annotation_object_key_first_letter
         (set_step InAnnotationObjectKeyFirstLetter (set_bnd 0%N s)).

Definition st_begin_annotation_object_key_or_empty (s : sc) : res sc :=
  if ch c 125 then st_found_object_end s
  else st_begin_annotation_object_key (found ObjectKeyBegin s).

(* ---- object keys ---- *)
Definition st_found_object_key_begin_or_empty (s : sc) : res sc :=
  do nl <- is_new_line s c ;
  if nl then ROk (found NewLine s)
  else if is_blank c then ROk s
  else if is_annotation_start c then switch_to_annotation s
  else if is_comment_start s c then switch_to_comment s
  else if ch c 64 then begin_key_shortcut s
  else if ann_none s then st_begin_key_or_empty s
  else st_begin_annotation_object_key_or_empty s.

Definition key_begin_tail (s : sc) : res sc :=
  if ann_none s then (do s <- st_begin_string s ; ROk (found ObjectKeyBegin s))
  else st_begin_annotation_object_key_or_empty s.

Definition st_found_object_key_begin (s : sc) : res sc :=
  do nl <- is_new_line s c ;
  if nl then
    let s := found NewLine s in
    let s := if ann_none s then set_allow true s else s in
    (* fix 542fa4b: the LF of a CRLF whose CR was read by another state (the end of an inline annotation) *)
    if (ch c 10 && match pb with Some x => ch x 13 | None => false end)%bool then ROk s
    else ROk (set_step FoundObjectKeyBeginAfterNewLine s)
  else if is_blank c then ROk s
  else if is_annotation_start c then switch_to_annotation s
  else if is_comment_start s c then switch_to_comment s
  else
    let s := if ann_none s then set_allow true s else s in      (* fix 2daaa0c: the next property begins *)
    if ch c 64 then begin_key_shortcut s
    else key_begin_tail s.

Definition st_found_object_key_begin_after_new_line (s : sc) : res sc :=
  do nl <- is_new_line s c ;
  if nl then ROk (found NewLine s)
  else if is_blank c then ROk s
  else if is_comment_start s c then switch_to_comment s
  else if ch c 64 then begin_key_shortcut s
  else key_begin_tail s.

Definition st_found_object_value_begin (s : sc) : res sc :=
  if (ann_none s && is_comment_start s c)%bool then switch_to_comment s else      (* fix ef98c98: a user comment between the colon and the value *)
  do rs <- st_begin_value s ;
  let '(r, s) := rs in ROk (switch_begin [ObjectValueBegin] false r s).

(* ---- array items ---- *)
Definition st_begin_array_item_or_empty (s : sc) : res (bv * sc) :=
  if ch c 93 then (do s <- st_found_array_end s ; ROk (BVContinue, s))
  else
    (* fix eb704e4: the array has an item when an item begins; blanks and annotations before it are not one *)
    do rs <- st_begin_value s ;
    let '(r, s) := rs in
    ROk (r, match r with
            | BVContinue => s
            | _ => if ann_none s then set_cx (mkctx (c_type (s_cx s)) true) s else s
            end).

Definition allow_annotation_for_array_item (r : bv) (s : sc) : sc :=
  match r with
  | BVContinue => s
  | _ => if ann_none s then set_allow true s else s
  end.

Definition st_found_array_item_begin_or_empty (s : sc) : res sc :=
  do nl <- is_new_line s c ;
  if nl then ROk (found NewLine s)
  else if is_comment_start s c then switch_to_comment s
  else
    do rs <- st_begin_array_item_or_empty s ;
    let '(r, s) := rs in
    ROk (switch_begin [ArrayItemBegin] false r (allow_annotation_for_array_item r s)).

Definition st_found_array_item_begin (s : sc) : res sc :=
  if is_comment_start s c then switch_to_comment s
  else
    let s := if (ann_none s && is_nl c)%bool then set_allow true s else s in     (* fix 2daaa0c *)
    do rs <- st_begin_value s ;
    let '(r, s) := rs in
    ROk (switch_begin [ArrayItemBegin] false r (allow_annotation_for_array_item r s)).

(* ---- after a value ---- *)
Definition st_after_object_key (s : sc) : res sc :=
  do nl <- is_new_line s c ;
  let s := if nl then found NewLine s else s in
  if is_blank c then ROk s
  else if is_annotation_start c then switch_to_annotation s
  else if (ann_none s && is_comment_start s c)%bool then switch_to_comment s     (* fix ef98c98 *)
  else if ch c 58 then ROk (set_step FoundObjectValueBegin s)
  else err_char.

Definition st_after_object_value (s : sc) : res sc :=
  do nl <- is_new_line s c ;
  if nl then ROk (let s := found NewLine s in if ann_none s then set_allow true s else s)     (* fix 45a73d1 *)
  else if is_blank c then ROk s
  else if is_annotation_start c then switch_to_annotation s
  else if is_comment_start s c then switch_to_comment s
  else if ch c 44 then ROk (set_step FoundObjectKeyBegin s)
  else if ch c 125 then st_found_object_end s
  else err_char.

Definition st_after_array_item (s : sc) : res sc :=
  do nl <- is_new_line s c ;
  if nl then ROk (let s := found NewLine s in if ann_none s then set_allow true s else s)     (* fix 2daaa0c *)
  else if is_blank c then ROk s
  else if is_annotation_start c then switch_to_annotation s
  else if is_comment_start s c then switch_to_comment s
  else if ch c 44 then ROk (set_step FoundArrayItemBegin s)
  else if ch c 93 then st_found_array_end s
  else err_char.

Definition st_end_top (s : sc) : res sc :=
  let fin (s : sc) : res sc := ROk (if s_htc s then found EndTop s else s) in
  do nl <- is_new_line s c ;
  if nl then ROk (let s := found NewLine s in if (s_lc s && negb (s_allow s))%bool then set_step EndTopAfterNewLine s else s)   (* fix a0479cf *)
  else if is_annotation_start c then
    (* fix a0479cf: in length mode a slash that does not begin // or /* is the first byte after the schema *)
    match la with
    | x :: _ => if (s_lc s && negb (ch x 47) && negb (ch x 42))%bool then ROk (found EndTop s) else switch_to_annotation s
    | [] => if s_lc s then ROk (found EndTop s) else switch_to_annotation s      (* seventh-round fix: the slash is the last byte of the text *)
    end
  else if is_comment_start s c then switch_to_comment s
  else if negb (is_blank c) then
    if s_lc s then ROk (found EndTop s)       (* fix 555884d: the event is produced at the foreign byte itself; hasTrailingCharacters is gone
                                                  (the field s_htc stays in the record and is never set) *)
    else if ann_none s then err_char
    else fin s
  else fin s.

(* stateEndTopAfterNewLine: every byte but a slash is delegated to stateEndTop, the step stays *)
Definition st_end_top_after_new_line (s : sc) : res sc :=
  if is_annotation_start c then ROk (found EndTop s) else st_end_top s.

Definition finish_shortcut (s : sc) : res sc :=
  let s := found TypesShortcutEnd s in
  match c_type (s_cx s) with
  | CObject => ROk (set_step AfterObjectValue (found ObjectValueEnd (found MixedValueEnd s)))
  | CArray => ROk (set_step AfterArrayItem (found ArrayItemEnd (found MixedValueEnd s)))
  | CShortcut => restore_context (set_step SEndTop (found MixedValueEnd s))
  | CInitial => RPanic
  end.

(* the "switch t" of stateEndValue and the lengthComputing rule after it *)
Definition end_value_switch (t : ev) (s : sc) : res sc :=
  match t with
  | ObjectKeyBegin => st_after_object_key (set_step AfterObjectKey (found ObjectKeyEnd s))
  | KeyShortcutBegin => st_after_object_key (set_step AfterObjectKey (found KeyShortcutEnd s))
  | ObjectValueBegin => st_after_object_value (set_step AfterObjectValue (found ObjectValueEnd s))
  | ArrayItemBegin => st_after_array_item (set_step AfterArrayItem (found ArrayItemEnd s))
  | TypesShortcutBegin => do s <- finish_shortcut s ; k (s_step s) s
  | InlineAnnotationBegin =>
    if s_lc s then
      let s := set_ann ANone s in
      match s_stk s with
      | [] => RPanic
      | _ :: r =>
        let s := set_stk r s in
        do fs <- pop_rts s ;
        let '(f, s) := fs in
        k f (set_step f s)
      end
    else err_char
  | _ => err_char
  end.

Definition st_end_value (s : sc) : res sc :=
  match s_stk s with
  | [] => st_end_top (set_step SEndTop s)
  | (t0, _) :: rest =>
    if ev_eqb t0 LiteralBegin then
      let s := found LiteralEnd s in
      match rest with
      | [] => st_end_top (set_step SEndTop s)
      | (t1, _) :: _ => end_value_switch t1 s
      end
    else end_value_switch t0 s
  end.

(* ---- literals ---- *)
Definition st_in_string (s : sc) : res sc :=
  if ch c 34 then ROk (set_unf false (set_step EndValue s))
  else if ch c 92 then ROk (set_step InStringEsc s)
  else if is_ctl c then err_char
  else ROk s.

Definition st_in_string_esc (s : sc) : res sc :=
  if (ch c 98 || ch c 102 || ch c 110 || ch c 114 || ch c 116 || ch c 92 || ch c 47 || ch c 34)%bool
  then ROk (set_step InString s)
  else if ch c 117 then ROk (set_step InStringEscU (push_rts InString s))
  else err_char.

Definition hex_then (f : st) (s : sc) : res sc :=
  if is_hex c then ROk (set_step f s) else err_char.

Definition st_in_string_esc_u123 (s : sc) : res sc :=
  if is_hex c then (do fs <- pop_rts s ; let '(f, s) := fs in ROk (set_step f s))
  else err_char.

Definition st_neg (s : sc) : res sc :=
  if ch c 48 then ROk (set_unf false (set_step S0 s))
  else if is_digit19 c then ROk (set_unf false (set_step S1 s))
  else err_char.

Definition st_0 (s : sc) : res sc :=
  if ch c 46 then ROk (set_step Dot (set_unf true s))
  else if (ch c 101 || ch c 69)%bool then err_char
  else st_end_value s.

Definition st_1 (s : sc) : res sc :=
  if is_digit c then ROk (set_step S1 s) else st_0 s.

Definition st_dot (s : sc) : res sc :=
  if is_digit c then ROk (set_step Dot0 (set_unf false s)) else err_char.

Definition st_dot0 (s : sc) : res sc :=
  if is_digit c then ROk s
  else if (ch c 101 || ch c 69)%bool then err_char
  else st_end_value s.

Definition expect (n : N) (f : st) (s : sc) : res sc :=
  if ch c n then ROk (set_step f s) else err_char.
Definition expect_last (n : N) (s : sc) : res sc :=
  if ch c n then ROk (set_unf false (set_step EndValue s)) else err_char.

(* ---- type shortcuts ---- *)
Definition st_types_shortcut_begin_of_schema_name (s : sc) : res sc :=
  if is_name c then ROk (set_unf false (set_step TypesShortcutSchemaName s)) else err_char.

Definition st_types_shortcut_schema_name (s : sc) : res sc :=
  if is_annotation_start c then (do s <- finish_shortcut s ; k (s_step s) s)       (* fix a0479cf: return s.step(s, c) *)
  else if is_comment_start s c then (do s <- finish_shortcut s ; switch_to_comment s)
  else if is_name c then ROk (set_step TypesShortcutSchemaName s)
  else if is_space c then ROk (set_step TypesShortcutBeforePipe s)
  else if ch c 124 then ROk (set_unf true (set_step TypesShortcutAfterPipe s))
  else st_end_value s.

Definition st_types_shortcut_before_pipe (s : sc) : res sc :=
  if is_annotation_start c then (do s <- finish_shortcut s ; k (s_step s) s)       (* fix a0479cf *)
  else if is_comment_start s c then (do s <- finish_shortcut s ; switch_to_comment s)
  else if is_space c then ROk (set_step TypesShortcutBeforePipe s)
  else if ch c 124 then ROk (set_unf true (set_step TypesShortcutAfterPipe s))
  else st_end_value (set_unf false (set_step EndValue s)).

Definition st_types_shortcut_after_pipe (s : sc) : res sc :=
  if (ch c 32 || ch c 9)%bool then ROk (set_step TypesShortcutAfterPipe s)
  else if ch c 64 then ROk (set_step TypesShortcutBeginOfSchemaName s)
  else err_char.

Definition st_key_shortcut (s : sc) : res sc :=
  if is_name c then ROk (set_step KeyShortcut s) else st_end_value s.

(* ---- user comments ---- *)
Definition st_inline_comment (s : sc) : res sc :=
  if is_nl c then
    do fs <- pop_rts s ;
    let '(f, s) := fs in
    ROk (set_back true (found NewLine (set_step f s)))
  else ROk s.

(* fix (empty # comment): the byte after '#' is given to stateInlineComment at once, so that an
   empty comment ends with its line *)
Definition st_any_comment_start (s : sc) : res sc :=
  if negb (ch c 35) then st_inline_comment (set_step InlineComment (set_ann ANone s))
  else ROk (set_step MultiLineCommentStart (set_ann ANone s)).    (* second #: only the third # can follow (fix b9d4d7e) *)

Definition st_multi_line_comment (s : sc) : res sc :=
  match la with
  | x :: y :: _ =>
    if (ch c 35 && ch x 35 && ch y 35)%bool then
      do fs <- pop_rts (set_skip true s) ;
      let '(f, s) := fs in
      (* ninth-round fix: a block comment inside the rules of an inline annotation - the rules go on behind it *)
      ROk (let s := set_step f s in
           if existsb (fun p => ev_eqb (fst p) InlineAnnotationBegin) (s_stk s) then set_ann AInline s else s)
    else ROk s
  | _ => ROk s
  end.

(* after reading `##` *)
(* ninth-round fix: the third # belongs to the opener, it is not the first # of the end *)
Definition st_multi_line_comment_start (s : sc) : res sc :=
  if ch c 35 then ROk (set_step MultiLineComment s) else err_char.

(* ---- scanner_annotations.go ---- *)
Definition begin_inline_annotation (s : sc) : res sc :=
  ROk (set_step InlineAnnotation (found InlineAnnotationBegin (set_ann AInline s))).

Definition st_any_annotation_start (s : sc) : res sc :=
  if ch c 47 then begin_inline_annotation s
  else if ch c 42 then
    ROk (set_step MultiLineAnnotation (found MultiLineAnnotationBegin (set_ann AMulti s)))
  else err_char.

Definition st_inline_annotation_start (s : sc) : res sc :=
  if ch c 47 then begin_inline_annotation s else err_char.

Definition st_inline_annotation_text (s : sc) : res sc :=
  if is_nl c then
    let s := found NewLine (found InlineAnnotationEnd (found InlineAnnotationTextEnd s)) in
    do fs <- pop_rts s ;
    let '(f, s) := fs in
    ROk (leave_inline_annotation (set_step (NoAnnot f) s))
  else if ch c 35 then
    if is_inside_multi_line_annotation s then ROk s
    else
      let s := set_step InlineAnnotationTextSkip
                 (found InlineAnnotationEnd (found InlineAnnotationTextEnd s)) in
      (* fix 0196ace: `###` opens a block comment, which may go on in the next lines *)
      match la with
      | x :: y :: _ => if (ch x 35 && ch y 35)%bool then switch_to_comment s else ROk s
      | _ => ROk s
      end
  else ROk s.

Definition st_inline_annotation (s : sc) : res sc :=
  if (ch c 32 || ch c 9)%bool then ROk s
  else if ch c 123 then st_found_root_value s
  else st_inline_annotation_text (set_step InlineAnnotationText (found InlineAnnotationTextBegin s)).

Definition st_inline_annotation_text_prefix (s : sc) : res sc :=
  if is_space c then ROk s
  else if is_nl c then
    let s := found NewLine (found InlineAnnotationEnd s) in
    do fs <- pop_rts s ;
    let '(f, s) := fs in
    ROk (leave_inline_annotation (set_step f s))
  else if is_comment_start s c then switch_to_comment s
  else if ch c 45 then ROk (set_step InlineAnnotationTextPrefix2 s)
  else if (s_lc s && Nat.eqb (length (s_stk s)) 1)%bool then
    (* fix 0ff4f91: in length mode, with nothing but the annotation of the top-level value open, this is the
       first byte after the schema, like in stateEndTop *)
    ROk (found EndTop s)
  else err_char.

Definition st_inline_annotation_text_prefix2 (s : sc) : res sc :=
  if is_space c then ROk s
  else st_inline_annotation_text (set_step InlineAnnotationText (found InlineAnnotationTextBegin s)).

Definition st_inline_annotation_text_skip (s : sc) : res sc :=
  if negb (is_nl c) then ROk s
  else
    let s := found NewLine s in
    do fs <- pop_rts s ;
    let '(f, s) := fs in
    ROk (leave_inline_annotation (set_step (NoAnnot f) s)).

Definition st_multi_line_annotation_text (s : sc) : res sc :=
  if (ch c 42 && next_is 47)%bool
  then ROk (set_step SMultiLineAnnotationEnd (found MultiLineAnnotationTextEnd s))
  else ROk s.

Definition st_multi_line_annotation (s : sc) : res sc :=
  do nl <- is_new_line s c ;
  if nl then ROk (found NewLine s)
  else if is_blank c then ROk s
  else if ch c 123 then st_found_root_value s
  else st_multi_line_annotation_text
         (set_step MultiLineAnnotationText (found MultiLineAnnotationTextBegin s)).

Definition st_multi_line_annotation_text_prefix (s : sc) : res sc :=
  if is_nl c then ROk (found NewLine s)
  else if is_space c then ROk s
  else if is_comment_start s c then switch_to_comment s
  else if ch c 42 then ROk (set_step SMultiLineAnnotationEnd s)
  else if ch c 45 then ROk (set_step MultiLineAnnotationTextPrefix2 s)
  else err_char.

Definition st_multi_line_annotation_text_prefix2 (s : sc) : res sc :=
  if is_space c then ROk s
  else st_multi_line_annotation_text
         (set_step MultiLineAnnotationText (found MultiLineAnnotationTextBegin s)).

Definition st_multi_line_annotation_end (s : sc) : res sc :=
  if negb (ch c 47) then err_char
  else
    let s := found MultiLineAnnotationEnd (set_ann ANone s) in
    do fs <- pop_rts s ;
    let '(f, s) := fs in ROk (set_step f s).

Definition st_in_annotation_object_key (s : sc) : res sc :=
  let b := s_bnd s in
  if (N.eqb b 0 && ch c 58)%bool then st_end_value s
  else if N.eqb (bN c) b then ROk (set_step EndValue s)
  else if is_space c then ROk (set_step InAnnotationObjectKeyAfter s)     (* fix 06c1d2a: bytes.IsSpace *)
  else if (match s_ann s with AMulti => true | _ => false end && is_nl c)%bool then st_end_value s    (* fix d5e4e81 *)
  else if (is_ctl c || ch c 34 || is_nl c)%bool then err_key
  else ROk s.

Definition st_in_annotation_object_key_after (s : sc) : res sc :=
  if (N.eqb (s_bnd s) 0 && ch c 58)%bool then st_end_value s
  else if is_space c then ROk s
  else if (match s_ann s with AMulti => true | _ => false end && is_nl c)%bool then st_end_value s    (* fix d5e4e81 *)
  else err_key.

(* f(s, c) for a stored step function f *)
Definition dispatch (f : st) (s : sc) : res sc :=
  match f with
  | FoundRootValue => st_found_root_value s
  | FoundObjectKeyBeginOrEmpty => st_found_object_key_begin_or_empty s
  | FoundObjectKeyBegin => st_found_object_key_begin s
  | FoundObjectKeyBeginAfterNewLine => st_found_object_key_begin_after_new_line s
  | FoundObjectValueBegin => st_found_object_value_begin s
  | FoundArrayItemBeginOrEmpty => st_found_array_item_begin_or_empty s
  | FoundArrayItemBegin => st_found_array_item_begin s
  | EndValue => st_end_value s
  | AfterObjectKey => st_after_object_key s
  | AfterObjectValue => st_after_object_value s
  | AfterArrayItem => st_after_array_item s
  | SEndTop => st_end_top s
  | InString => st_in_string s
  | InStringEsc => st_in_string_esc s
  | InStringEscU => hex_then InStringEscU1 s
  | InStringEscU1 => hex_then InStringEscU12 s
  | InStringEscU12 => hex_then InStringEscU123 s
  | InStringEscU123 => st_in_string_esc_u123 s
  | Neg => st_neg s
  | S1 => st_1 s
  | S0 => st_0 s
  | Dot => st_dot s
  | Dot0 => st_dot0 s
  | ST => expect 114 STr s
  | STr => expect 117 STru s
  | STru => expect_last 101 s
  | SF => expect 97 SFa s
  | SFa => expect 108 SFal s
  | SFal => expect 115 SFals s
  | SFals => expect_last 101 s
  | SN => expect 117 SNu s
  | SNu => expect 108 SNul s
  | SNul => expect_last 108 s
  | TypesShortcutBeginOfSchemaName => st_types_shortcut_begin_of_schema_name s
  | TypesShortcutSchemaName => st_types_shortcut_schema_name s
  | TypesShortcutBeforePipe => st_types_shortcut_before_pipe s
  | TypesShortcutAfterPipe => st_types_shortcut_after_pipe s
  | AnyCommentStart => st_any_comment_start s
  | InlineComment => st_inline_comment s
  | MultiLineComment => st_multi_line_comment s
  | MultiLineCommentStart => st_multi_line_comment_start s
  | EndTopAfterNewLine => st_end_top_after_new_line s
  | KeyShortcut => st_key_shortcut s
  | AnyAnnotationStart => st_any_annotation_start s
  | InlineAnnotationStart => st_inline_annotation_start s
  | InlineAnnotation => st_inline_annotation s
  | InlineAnnotationTextPrefix => st_inline_annotation_text_prefix s
  | InlineAnnotationTextPrefix2 => st_inline_annotation_text_prefix2 s
  | InlineAnnotationText => st_inline_annotation_text s
  | InlineAnnotationTextSkip => st_inline_annotation_text_skip s
  | MultiLineAnnotation => st_multi_line_annotation s
  | MultiLineAnnotationTextPrefix => st_multi_line_annotation_text_prefix s
  | MultiLineAnnotationTextPrefix2 => st_multi_line_annotation_text_prefix2 s
  | SMultiLineAnnotationEnd => st_multi_line_annotation_end s
  | MultiLineAnnotationText => st_multi_line_annotation_text s
  | InAnnotationObjectKeyFirstLetter => st_in_annotation_object_key_first_letter s
  | InAnnotationObjectKey => st_in_annotation_object_key s
  | InAnnotationObjectKeyAfter => st_in_annotation_object_key_after s
  | NoAnnot fn => if is_annotation_start c then err_char else k fn s
  end.
End States.

(* "s.step(s, c)": the nesting of calls through the step variable is bounded (NoAnnot around a
   popped step; stateEndValue -> popped step in lengthComputing mode); running out of fuel is
   reported as a panic and does not happen on the differential test *)
Fixpoint call (fuel : nat) (c : byte) (la : bytes) (pb : option byte) (f : st) (s : sc) : res sc :=
  match fuel with
  | O => RPanic
  | S n => dispatch c la pb (call n c la pb) f s
  end.
Definition call_fuel : nat := 16.

(* ---------- processingFoundLexeme: the stack and the spans ---------- *)
Record lexev := mkev {
  e_type : ev; e_begin : N; e_end : N;
  e_htc : bool   (* hasTrailingCharacters when the event was delivered (read by Length()) *)
}.

(* i = s.index - 1;  [pb] = s.data[i-1] if that index is in range.
   None = panic: pop of an empty stack, "Incorrect ending of the lexical event", index out of range *)
Definition process_found (i : N) (pb : option byte) (htc : bool) (stk : list (ev * N)) (e : ev)
  : option (list (ev * N) * lexev) :=
  match e with
  | NewLine | EndTop => Some (stk, mkev e i i htc)
  | _ =>
    if is_opening e then
      let b := if is_ann_begin e then (i - 1)%N else i in
      Some ((e, b) :: stk, mkev e b i htc)
    else
      match stk with
      | [] => None
      | (p, b) :: rest =>
        if nonscalar_pair p e then Some (rest, mkev e b i htc)
        else if scalar_pair p e then
          match e with
          | MixedValueEnd =>
            match pb with
            | None => None
            | Some x => let i' := if ch x 32 then (i - 1)%N else i in
                        Some (rest, mkev e b (i' - 1)%N htc)
            end
          | _ => Some (rest, mkev e b (i - 1)%N htc)
          end
        else None
      end
  end.

(* drains the queue; events are consed onto [acc] (most recent first); false = panic *)
Fixpoint process_finds (i : N) (pb : option byte) (htc : bool) (stk : list (ev * N)) (fs : list ev)
         (acc : list lexev) : list (ev * N) * list lexev * bool :=
  match fs with
  | [] => (stk, acc, true)
  | e :: r =>
    match process_found i pb htc stk e with
    | None => (stk, acc, false)
    | Some (stk', x) => process_finds i pb htc stk' r (x :: acc)
    end
  end.

(* ---------- whole run ---------- *)
Inductive outcome :=
| Done                      (* Next() returned ok=false *)
| Err (code : N) (pos : N)  (* panic(DocumentError) *)
| Panic.                    (* a panic that is not a DocumentError *)

(* the reads of one byte: [c] at offset [idx] (s.index = idx + 1 while the state function runs),
   read again by the step popped by stateInlineComment after its s.index--.  Every re-read pops
   returnToStep, so [fuel] = 1 + its length is exact. *)
Fixpoint read_byte (fuel : nat) (s : sc) (idx : N) (pb : option byte) (c : byte) (la : bytes)
         (acc : list lexev) : list lexev * (sc + outcome) :=
  match fuel with
  | O => (acc, inr Panic)
  | S fuel' =>
    match call call_fuel c la pb (s_step s) s with
    | RErr code => (acc, inr (Err code idx))
    | RPanic => (acc, inr Panic)
    | ROk s1 =>
      let back := s_back s1 in
      let i := if back then (idx - 1)%N else idx in
      let '(stk', acc', ok) :=
          process_finds i (if back then None else pb) (s_htc s1) (s_stk s1) (frev (s_finds s1)) acc in
      if ok then
        let s2 := set_back false (set_finds [] (set_stk stk' s1)) in
        if back then read_byte fuel' s2 idx pb c la acc' else (acc', inl s2)
      else (acc', inr Panic)
    end
  end.

(* consume the remaining bytes; [idx] = offset of the next byte, [pb] = the byte before it *)
Fixpoint run (s : sc) (idx : N) (pb : option byte) (bs : bytes) (acc : list lexev)
  : list lexev * outcome * sc * option byte :=
  match bs with
  | [] => (acc, Done, s, pb)
  | c :: r =>
    match read_byte (S (length (s_rts s))) s idx pb c r acc with
    | (acc', inr o) => (acc', o, s, pb)
    | (acc', inl s') =>
      if s_skip s' then
        match r with
        | _ :: r1 =>
          match r1 with
          | y :: r2 => run (set_skip false s') (idx + 3)%N (Some y) r2 acc'
          | [] => (acc', Panic, s', pb)
          end
        | [] => (acc', Panic, s', pb)
        end
      else run s' (N.succ idx) (Some c) r acc'
    end
  end.

Definition unfinished_step (f : st) : bool :=
  match f with
  | AnyAnnotationStart | InlineAnnotationStart | MultiLineCommentStart | MultiLineComment => true
  | _ => false
  end.

(* the end-of-input rule of Next(): [index] = s.index before the call; each call that finds a
   non-empty stack bumps s.index once more.  [lastb] = the last byte of the data. *)
Fixpoint tail (fuel : nat) (s : sc) (index : N) (size : N) (lastb : option byte) (acc : list lexev)
  : list lexev * outcome :=
  match fuel with
  | O => (acc, Panic)
  | S f =>
    match s_stk s with
    | [] =>
      (* fixes 0219b8c, ca80efc: nothing is open, but the text ends after the first byte of // or /* (unfinishedAnnotationStart:
         true exactly while the step is one of the two states switchToAnnotation installs) or inside a ### comment
         (unfinishedComment: true exactly while the step is one of the two comment states) *)
      if unfinished_step (s_step s) then (acc, Err code_unexpected_eof (size - 1)%N) else (acc, Done)
    | (t, _) :: _ =>
      let i := index in                                          (* = (index + 1) - 1 *)
      let pb := if N.eqb index size then lastb else None in     (* s.data[i-1] *)
      let eof := (acc, Err code_unexpected_eof (size - 1)%N) in
      match t with
      | LiteralBegin | InlineAnnotationBegin | InlineAnnotationTextBegin =>
        let e := match t with
                 | LiteralBegin => LiteralEnd
                 | InlineAnnotationBegin => InlineAnnotationEnd
                 | _ => InlineAnnotationTextEnd
                 end in
        if (ev_eqb t LiteralBegin && s_unf s)%bool then eof
        else
          match process_found i pb (s_htc s) (s_stk s) e with
          | None => (acc, Panic)
          | Some (stk', x) => tail f (set_stk stk' s) (N.succ index) size lastb (x :: acc)
          end
      | TypesShortcutBegin =>
        if s_unf s then eof
        else
          (* s.found(MixedValueEnd); return processingFoundLexeme(TypesShortcutEnd); the queued
             MixedValueEnd is delivered by the next call, with the same s.index *)
          match process_found i pb (s_htc s) (s_stk s) TypesShortcutEnd with
          | None => (acc, Panic)
          | Some (stk1, x1) =>
            match process_found i pb (s_htc s) stk1 MixedValueEnd with
            | None => (x1 :: acc, Panic)
            | Some (stk2, x2) => tail f (set_stk stk2 s) (N.succ index) size lastb (x2 :: x1 :: acc)
            end
          end
      | _ => eof
      end
    end
  end.

Fixpoint last_byte (bs : bytes) (d : option byte) : option byte :=
  match bs with [] => d | c :: r => last_byte r (Some c) end.

(* the complete event stream Next() delivers, and how it ends *)
Definition scan (length_computing : bool) (bs : bytes) : list lexev * outcome :=
  let '(acc, o, s, _) := run (new_scanner length_computing) 0%N None bs [] in
  match o with
  | Done =>
    let size := N.of_nat (length bs) in
    let '(acc', o') := tail (S (length (s_stk s))) s size size (last_byte bs None) acc in
    (frev acc', o')
  | _ => (frev acc, o)
  end.

(* ---------- Scanner.Length() and Schema.Len() ----------
   Schema.Len() = computeLen() = scanner.New(file, ComputeLength).Length(); a DocumentError panic
   becomes the returned error (panics.Handle), any other panic stays a panic.  Length() computes
   with uint; the final loop that trims blanks reads s.data[length-1]. *)
Inductive verdict := VLen (n : N) | VErr (code : N) (pos : N) | VPanic.

(* the loop of Length() over the delivered events: (length, true) = stopped at the first EndTop (the
   events and the outcome after it are never requested), (length, false) = Next() returned ok=false
   or panicked after the listed events *)
Fixpoint length_loop (size : N) (evs : list lexev) (len : N) : N * bool :=
  match evs with
  | [] => (len, false)
  | e :: r =>
    match e_type e with
    | EndTop => (if e_htc e then (e_end e - 1)%N else e_end e, true)
    | _ => length_loop size r (if N.eqb (e_end e) size then e_end e else (e_end e + 1)%N)
    end
  end.
(* fix c67ddfe: line breaks (and user comments, which deliver no event) before the first lexeme of the
   schema are not counted *)
Fixpoint drop_leading_newlines (evs : list lexev) : list lexev :=
  match evs with
  | e :: r => match e_type e with NewLine => drop_leading_newlines r | _ => evs end
  | [] => []
  end.
(* seventh-round fix: Length() counts the open annotations and notes whether a value begins outside them; a text of
   annotations only ("// x", "/* x */") has no schema: Length() = 0, and Len reports 202 like Check does.
   [evs] = the events Length() requests: up to and including the first EndTop *)
Fixpoint upto_end_top (evs : list lexev) : list lexev :=
  match evs with
  | [] => []
  | e :: r => match e_type e with EndTop => [e] | _ => e :: upto_end_top r end
  end.
Fixpoint has_example (depth : nat) (evs : list lexev) : bool :=
  match evs with
  | [] => false
  | e :: r =>
    match e_type e with
    | InlineAnnotationBegin | MultiLineAnnotationBegin => has_example (S depth) r
    | InlineAnnotationEnd | MultiLineAnnotationEnd => has_example (Nat.pred depth) r
    | LiteralBegin | ObjectBegin | ArrayBegin | MixedValueBegin =>
      match depth with O => true | S _ => has_example depth r end
    | _ => has_example depth r
    end
  end.
Definition code_empty_schema : N := 202.
Fixpoint trim_blank_rev (rbs : bytes) : bytes :=
  match rbs with
  | c :: r => if is_blank c then trim_blank_rev r else rbs
  | [] => []
  end.
Definition schema_len (bs : bytes) : verdict :=
  let '(evs, o) := scan true bs in
  let size := N.of_nat (length bs) in
  let '(raw, stopped) := length_loop size (drop_leading_newlines evs) 0%N in
  let trimmed :=
      if negb (has_example 0 (upto_end_top (drop_leading_newlines evs))) then VErr code_empty_schema 0%N   (* Length() = 0: annotations only *)
      else if N.ltb size raw then VPanic     (* s.data[length-1]: index out of range *)
      else let n := N.of_nat (length (trim_blank_rev (frev (firstn (N.to_nat raw) bs)))) in
           if N.eqb n 0 then VErr code_empty_schema 0%N     (* Schema.computeLen: nothing was found *)
           else VLen n in
  if stopped then trimmed
  else match o with
       | Done => trimmed
       | Err c p => VErr c p
       | Panic => VPanic
       end.
