(* LoaderProofs.v — the loader model of Loader.v on plain JSON (property C16).

   T1  [load_mirrors_plain_json]   on a JSON text (a value tree of any depth, width and layout) the loaded
                                   tree is the mirror image of the text;
   T2  [ast_mirrors_plain_json]    the AST view of the same texts, with the node count and the preorder
                                   (key, literal) list as corollaries;
   T3  [duplicate_key_refused_json], [duplicate_key_refused_first]
                                   the first repeated key (in source order) is refused with 402 at its
                                   opening quote;
   T4  [rules_in_written_order]    rules as written are reported in insertion order; base_add refuses (501)
                                   exactly a type that is already present.

   FINDING (statement of T1 changed).  The schema scanner refuses an exponent part in a number
   ([st_0], [st_1], [st_dot0]: 'e' / 'E' -> ErrInvalidCharacter), while [Grammar.wf] accepts it:
       load "1e5" = LError 301 1        load "0.5e-3" = LError 301 3
   so T1..T3 carry the extra hypothesis [no_exponent v = true] (number tokens contain no 'e'/'E').
   On the other hand the hypothesis [SchemaProofs.plain] is not needed: '/', '#', '@' inside strings do
   no harm ([load_mirrors_json], [ast_mirrors_json] are stated without it).

   Route: (A) a compositional theorem for the schema scanner, [scan_plain_json]:
              scan false (w1 ++ render v ++ w2) = (text_events w1 v w2, Done)
          with the event list [events_of p v] written down explicitly (offsets included, NewLine events for
          every LF / CR of the blanks);  (B) the loader over [events_of p v] builds [tnode_of p v]
          ([B_all]);  (C) [to_node] / [to_ast] of that tree are [mirror v] / [ast_mirror [] v]. *)
From Coq Require Import List NArith Bool Arith Lia.
From Coq Require Import ZifyBool ZifyNat ZifyN.
From Coq Require ZArith QArith.
From Coq Require Import Strings.Byte.
Import ListNotations.
From JS Require Import Common.Wire Json.Grammar Json.GrammarProofs SchemaScan.SchemaScanner SchemaScan.Loader.
From JS Require Import SchemaScan.SchemaProofs.
From JS Require Num.NumModel Num.NumSpec Num.NumProofs Text.Unquote.
Local Open Scope N_scope.

(* ================================================================== *)
(* T4. rules as written are reported in insertion order                *)
(* ================================================================== *)
Lemma ctype_code_inj a b : ctype_code a = ctype_code b -> a = b.
Proof. destruct a; destruct b; cbn; intros H; try reflexivity; discriminate H. Qed.
Lemma ctype_eqb_eq a b : Loader.ctype_eqb a b = true <-> a = b.
Proof.
  unfold Loader.ctype_eqb. rewrite N.eqb_eq. split; [apply ctype_code_inj|intros ->; reflexivity].
Qed.

Lemma chas_In t m : chas t m = true <-> exists e, In e m /\ ce_t e = t.
Proof.
  unfold chas. induction m as [|e r IH]; cbn [cget].
  - split; [discriminate|]. intros [e [[] _]].
  - destruct (Loader.ctype_eqb (ce_t e) t) eqn:Ee.
    + split; [|reflexivity]. intros _. exists e. split; [left; reflexivity|apply ctype_eqb_eq; exact Ee].
    + rewrite IH. split; intros [e' [Hin Ht]]; exists e'.
      * split; [right; exact Hin|exact Ht].
      * destruct Hin as [->|Hin]; [|split; assumption].
        apply ctype_eqb_eq in Ht. rewrite Ht in Ee. discriminate Ee.
Qed.

(* base_add appends at the end, and refuses (501) exactly a type that is already there *)
Lemma base_add_spec e m :
  base_add e m = if chas (ce_t e) m then Fail (FErr 501) else Ok (m ++ [e]).
Proof. reflexivity. Qed.

Theorem base_add_fails_iff_present : forall e m,
  (base_add e m = Fail (FErr 501) <-> exists e', In e' m /\ ce_t e' = ce_t e) /\
  (base_add e m = Ok (m ++ [e]) <-> ~ exists e', In e' m /\ ce_t e' = ce_t e) /\
  (forall f, base_add e m = Fail f -> f = FErr 501).
Proof.
  intros e m. rewrite base_add_spec, <- chas_In.
  destruct (chas (ce_t e) m).
  - split; [split; reflexivity|]. split; [split; [discriminate|intros H; exfalso; apply H; reflexivity]|].
    intros f H. inversion H. reflexivity.
  - split; [split; discriminate|]. split; [split; [intros _ H; discriminate H|reflexivity]|].
    intros f H. discriminate H.
Qed.

(* successive AddConstraint calls *)
Fixpoint add_all (es : list centry) (m : cmap) : R cmap :=
  match es with
  | [] => Ok m
  | e :: r => match base_add e m with Ok m' => add_all r m' | Fail f => Fail f end
  end.

Lemma add_all_ok es : forall m m', add_all es m = Ok m' -> m' = m ++ es.
Proof.
  induction es as [|e r IH]; intros m m' H; cbn [add_all] in H.
  - inversion H. symmetry. apply app_nil_r.
  - rewrite base_add_spec in H. destruct (chas (ce_t e) m); [discriminate H|].
    rewrite (IH _ _ H), <- app_assoc. reflexivity.
Qed.

(* a rule the user wrote: neither of the two constraint types the "or" rule is spread over, and
   carrying its value as written *)
Definition written_entry (e : centry) : Prop :=
  ce_t e <> CTypesList /\ ce_t e <> COr /\ ce_w e <> None.
Definition name_and_value (e : centry) : bytes * rval :=
  (ctype_name (ce_t e), match ce_w e with Some w => w | None => RLit [] end).

Lemma written_rules_map all m :
  Forall written_entry m -> written_rules all m = map name_and_value m.
Proof.
  induction 1 as [|e r [H1 [H2 H3]] _ IH]; cbn [written_rules map]; [reflexivity|].
  unfold name_and_value at 1.
  destruct (ce_w e) as [w|]; [|exfalso; apply H3; reflexivity].
  rewrite IH. destruct (ce_t e); try reflexivity; exfalso; [apply H1|apply H2]; reflexivity.
Qed.

Theorem rules_in_written_order : forall es m,
  add_all es [] = Ok m -> Forall written_entry es ->
  m = es /\ written_rules m m = map name_and_value es.
Proof.
  intros es m H HF. apply add_all_ok in H. cbn [app] in H. subst m.
  split; [reflexivity|apply written_rules_map; exact HF].
Qed.

(* the same, in the terms of the loader's result: the [a_rules] of a node whose constraints were
   added one by one, given as (type, value, as written) triples *)
Theorem rules_in_written_order_annot : forall (l : list (Loader.ctype * cval * rval)) d,
  add_all (map (fun x => let '(t, v, w) := x in mkce t v (Some w)) l) [] = Ok (nd_cs d) ->
  (forall t v w, In (t, v, w) l -> t <> CTypesList /\ t <> COr) ->
  a_rules (annot_of d) = map (fun x => let '(t, _, w) := x in (ctype_name t, w)) l.
Proof.
  intros l d H Hl. unfold annot_of. cbn [a_rules].
  destruct (rules_in_written_order _ _ H) as [_ Hw].
  - apply Forall_forall. intros e He. apply in_map_iff in He. destruct He as [[[t v] w] [<- Hin]].
    destruct (Hl t v w Hin) as [H1 H2]. repeat split; cbn; [exact H1|exact H2|discriminate].
  - rewrite Hw, map_map. apply map_ext. intros [[t v] w]. reflexivity.
Qed.

(* the sequence of additions goes through exactly when the types are pairwise distinct *)
Theorem add_all_ok_iff_distinct : forall es,
  (exists m, add_all es [] = Ok m) <-> NoDup (map ce_t es).
Proof.
  assert (G : forall es m, (exists m', add_all es m = Ok m') <->
                           (NoDup (map ce_t es) /\ forall e, In e es -> chas (ce_t e) m = false)).
  { induction es as [|e r IH]; intros m; cbn [add_all map].
    - split; [intros _; split; [constructor|intros e []]|intros _; eexists; reflexivity].
    - rewrite base_add_spec. destruct (chas (ce_t e) m) eqn:Ec.
      + split; [intros [m' H]; discriminate H|]. intros [_ H]. rewrite (H e (or_introl eq_refl)) in Ec. discriminate Ec.
      + rewrite IH. split.
        * intros [Hn Hc]. split.
          -- constructor; [|exact Hn]. intros Hin. apply in_map_iff in Hin. destruct Hin as [e' [Et Hin]].
             specialize (Hc e' Hin). assert (Ht : chas (ce_t e') (m ++ [e]) = true).
             { apply chas_In. exists e. split; [apply in_or_app; right; left; reflexivity|symmetry; exact Et]. }
             rewrite Ht in Hc. discriminate Hc.
          -- intros e' [<-|Hin]; [exact Ec|]. specialize (Hc e' Hin).
             destruct (chas (ce_t e') m) eqn:E1; [|reflexivity].
             apply chas_In in E1. destruct E1 as [x [Hx Ex]].
             assert (Ht : chas (ce_t e') (m ++ [e]) = true).
             { apply chas_In. exists x. split; [apply in_or_app; left; exact Hx|exact Ex]. }
             rewrite Ht in Hc. discriminate Hc.
        * intros [Hn Hc]. inversion Hn as [|? ? Hni Hn']; subst. split; [exact Hn'|].
          intros e' Hin. destruct (chas (ce_t e') (m ++ [e])) eqn:E1; [|reflexivity]. exfalso.
          apply chas_In in E1. destruct E1 as [x [Hx Ex]]. apply in_app_or in Hx. destruct Hx as [Hx|[<-|[]]].
          -- assert (Ht : chas (ce_t e') m = true) by (apply chas_In; exists x; split; assumption).
             rewrite (Hc e' (or_intror Hin)) in Ht. discriminate Ht.
          -- apply Hni. rewrite Ex. apply in_map. exact Hin. }
  intros es. rewrite G. split; [intros [H _]; exact H|intros H; split; [exact H|reflexivity]].
Qed.

Definition len (b : bytes) : N := N.of_nat (List.length b).
Definition E (t : ev) (b e : N) : lexev := mkev t b e false.
(* the events of a gap: a run of blanks, line comments ('#', a body without line break that does not
   begin with '#', a line break) and block comments ('###' ... '###').  A blank line break delivers NewLine
   at its offset; the line break that ends a line comment delivers NewLine twice: stateInlineComment finds
   it at the byte before (it steps back by one byte) and the step the comment interrupted reads the line
   break again; a block comment delivers nothing.  For a run of blanks this is one NewLine per line break. *)
Inductive gst := GOut | GHash | GIn | GHash2 | GBlock.
Fixpoint gev (g : gst) (q : N) (w : bytes) : list lexev :=
  match w with
  | [] => []
  | c :: r =>
    let blk :=
        match r with
        | x :: y :: r' => if (ch x 35 && ch y 35)%bool then gev GOut (q + 3) r' else gev GBlock (N.succ q) r
        | _ => []
        end in
    match g with
    | GOut => if ch c 35 then gev GHash (N.succ q) r
              else (if is_nl c then [E NewLine q q] else []) ++ gev GOut (N.succ q) r
    | GHash => if ch c 35 then gev GHash2 (N.succ q) r
               else if is_nl c then [E NewLine (q - 1) (q - 1); E NewLine q q] ++ gev GOut (N.succ q) r
               else gev GIn (N.succ q) r
    | GIn => if is_nl c then [E NewLine (q - 1) (q - 1); E NewLine q q] ++ gev GOut (N.succ q) r
             else gev GIn (N.succ q) r
    | GHash2 => if ch c 35 then gev GBlock (N.succ q) r else []     (* the third # of the opener *)
    | GBlock => if ch c 35 then blk else gev GBlock (N.succ q) r
    end
  end.
Definition nls (q : N) (w : bytes) : list lexev := gev GOut q w.

Section Ev.
  Variable F : N -> jv -> list lexev.
  Definition item_events (q : N) (i : bytes * jv * bytes) : list lexev :=
    let '(w1, x, w2) := i in
    let q1 := q + len w1 in let q2 := q1 + len (render x) in
    nls q w1 ++ [E ArrayItemBegin q1 q1] ++ F q1 x ++ [E ArrayItemEnd q1 (q2 - 1)] ++ nls q2 w2.
  Fixpoint items_events (q : N) (l : list (bytes * jv * bytes)) : list lexev :=
    match l with
    | [] => []
    | i :: r => item_events q i ++ items_events (q + len (ritem i) + 1) r
    end.
  Definition mem_events (q : N) (m : bytes * bytes * bytes * bytes * jv * bytes) : list lexev :=
    let '(w1, k, w2, w3, x, w4) := m in
    let q1 := q + len w1 in let q2 := q1 + len k in let q3 := q2 + len w2 + 1 in
    let q4 := q3 + len w3 in let q5 := q4 + len (render x) in
    nls q w1 ++ [E ObjectKeyBegin q1 q1; E ObjectKeyEnd q1 (q2 - 1)] ++ nls q2 w2 ++ nls q3 w3 ++
    [E ObjectValueBegin q4 q4] ++ F q4 x ++ [E ObjectValueEnd q4 (q5 - 1)] ++ nls q5 w4.
  Fixpoint mems_events (q : N) (l : list (bytes * bytes * bytes * bytes * jv * bytes)) : list lexev :=
    match l with
    | [] => []
    | m :: r => mem_events q m ++ mems_events (q + len (rmem m) + 1) r
    end.
End Ev.

Fixpoint events_of (p : N) (v : jv) : list lexev :=
  match v with
  | JTok t => [E LiteralBegin p p; E LiteralEnd p (p + len t - 1)]
  | JArr0 w => [E ArrayBegin p p] ++ nls (p + 1) w ++ [E ArrayEnd p (p + 1 + len w)]
  | JArr items => [E ArrayBegin p p] ++ items_events events_of (p + 1) items ++ [E ArrayEnd p (p + len (render v) - 1)]
  | JObj0 w => [E ObjectBegin p p] ++ nls (p + 1) w ++ [E ObjectEnd p (p + 1 + len w)]
  | JObj ms => [E ObjectBegin p p] ++ mems_events events_of (p + 1) ms ++ [E ObjectEnd p (p + len (render v) - 1)]
  end.
Definition text_events (w1 : bytes) (v : jv) (w2 : bytes) : list lexev :=
  nls 0 w1 ++ events_of (len w1) v ++ nls (len w1 + len (render v)) w2.

Lemma forallb_ext_in' {A} (f g : A -> bool) l : (forall a, In a l -> f a = g a) -> forallb f l = forallb g l.
Proof.
  induction l as [|x l IH]; intros H; [reflexivity|]. cbn [forallb].
  rewrite (H x (or_introl eq_refl)), IH; [reflexivity|]. intros a Ha. apply H. right. exact Ha.
Qed.
(* [Grammar.wf] with a parameter for what may stand in the gaps *)
Fixpoint wfg (gp : bytes -> bool) (v : jv) : bool :=
  match v with
  | JTok t => (is_number_token t || is_string_token t || is_word_token t)%bool
  | JArr0 w => gp w
  | JArr items =>
    (negb (Nat.eqb (length items) 0) &&
     forallb (fun i => let '(w1, x, w2) := i in (gp w1 && wfg gp x && gp w2)%bool) items)%bool
  | JObj0 w => gp w
  | JObj ms =>
    (negb (Nat.eqb (length ms) 0) &&
     forallb (fun m => let '(w1, k, w2, w3, x, w4) := m in
                       (gp w1 && is_string_token k && gp w2 && gp w3 && wfg gp x && gp w4)%bool) ms)%bool
  end.
Definition witemg (gp : bytes -> bool) (i : bytes * jv * bytes) : bool :=
  let '(w1, x, w2) := i in (gp w1 && wfg gp x && gp w2)%bool.
Definition wmemg (gp : bytes -> bool) (m : bytes * bytes * bytes * bytes * jv * bytes) : bool :=
  let '(w1, k, w2, w3, x, w4) := m in
  (gp w1 && is_string_token k && gp w2 && gp w3 && wfg gp x && gp w4)%bool.
Lemma wfg_arr gp items :
  wfg gp (JArr items) = (negb (Nat.eqb (length items) 0) && forallb (witemg gp) items)%bool.
Proof. reflexivity. Qed.
Lemma wfg_obj gp ms :
  wfg gp (JObj ms) = (negb (Nat.eqb (length ms) 0) && forallb (wmemg gp) ms)%bool.
Proof. reflexivity. Qed.
Lemma wfg_blank : forall v, wfg all_blank v = Grammar.wf v.
Proof.
  induction v as [t|w|items IH|w|ms IH] using jv_ind2; try reflexivity.
  - rewrite wfg_arr, wf_arr. f_equal. apply forallb_ext_in'. intros [[w1 x] w2] Hin.
    rewrite Forall_forall in IH. specialize (IH _ Hin). cbn in IH |- *. rewrite IH. reflexivity.
  - rewrite wfg_obj, wf_obj. f_equal. apply forallb_ext_in'. intros [[[[[w1 k] w2] w3] x] w4] Hin.
    rewrite Forall_forall in IH. specialize (IH _ Hin). cbn in IH |- *. rewrite IH. reflexivity.
Qed.
Lemma wfg_mono (gp gq : bytes -> bool) : (forall w, gp w = true -> gq w = true) ->
  forall v, wfg gp v = true -> wfg gq v = true.
Proof.
  intros Hpq. induction v as [t|w|items IH|w|ms IH] using jv_ind2; cbn [wfg]; auto.
  - intros H. apply andb_prop in H. destruct H as [H1 H2]. rewrite H1. cbn [andb].
    rewrite forallb_forall in H2 |- *. rewrite Forall_forall in IH. intros [[w1 x] w2] Hin.
    specialize (H2 _ Hin). specialize (IH _ Hin). cbn in H2, IH.
    apply andb_prop in H2. destruct H2 as [H2 Hb]. apply andb_prop in H2. destruct H2 as [Ha Hx].
    rewrite (Hpq _ Ha), (IH Hx), (Hpq _ Hb). reflexivity.
  - intros H. apply andb_prop in H. destruct H as [H1 H2]. rewrite H1. cbn [andb].
    rewrite forallb_forall in H2 |- *. rewrite Forall_forall in IH. intros [[[[[w1 k] w2] w3] x] w4] Hin.
    specialize (H2 _ Hin). specialize (IH _ Hin). cbn in H2, IH.
    repeat match type of H2 with (_ && _)%bool = true => apply andb_prop in H2; destruct H2 as [H2 ?] end.
    rewrite (Hpq _ H2), (IH ltac:(assumption)). 
    repeat match goal with H : gp _ = true |- _ => rewrite (Hpq _ H); clear H end.
    match goal with H : is_string_token k = true |- _ => rewrite H end. reflexivity.
Qed.

(* ================================================================== *)
(* A. the schema scanner over [render v]                                *)
(* ================================================================== *)
Ltac blia := unfold plainc, is_blank, is_space, is_nl, is_digit, is_digit19, is_hex, is_ctl, is_name, ch, bN,
               Scanner.is_blank, Scanner.is_digit, Scanner.is_digit19, Scanner.is_hex, Scanner.is_ctl, Scanner.ch, Scanner.bN in *;
             cbv zeta in *; lia.

(* symbolic evaluation: byte tests and offsets stay folded *)
Ltac ev_run :=
  lazy beta iota zeta delta -[is_nl is_blank is_space ch is_digit is_digit19 is_hex is_ctl is_name bN
                              N.succ N.sub N.add N.of_nat len app nls gev rev].
Ltac ev_run_keep :=
  lazy beta iota zeta delta -[is_nl is_blank is_space ch is_digit is_digit19 is_hex is_ctl is_name bN
                              N.succ N.sub N.add N.of_nat len app nls gev rev existsb ev_eqb].
(* evaluation with a concrete byte: the tests compute *)
Ltac ev_all := lazy beta iota zeta delta -[N.succ N.sub N.add N.of_nat len app nls gev rev].

Ltac decide_tests c :=
  repeat match goal with
  | H : ?t = _ |- context [?t] => rewrite !H
  | |- context [ch c ?n] =>
    first [ let H := fresh "T" in assert (H : ch c n = false) by blia; rewrite !H
          | let H := fresh "T" in assert (H : ch c n = true) by blia; rewrite !H ]
  | |- context [?f c] =>
    match f with
    | is_nl => idtac | is_blank => idtac | is_space => idtac | is_digit => idtac | is_digit19 => idtac
    | is_hex => idtac | is_ctl => idtac | is_name => idtac
    end;
    first [ let H := fresh "T" in assert (H : f c = false) by blia; rewrite !H
          | let H := fresh "T" in assert (H : f c = true) by blia; rewrite !H ]
  end.

Lemma run_step_to s idx pb c r acc s1 stk' acc' s2 acc2 :
  (forall k, dispatch c r pb k (s_step s) s = ROk s1) -> s_back s1 = false -> s_skip s1 = false ->
  process_finds idx pb (s_htc s1) (s_stk s1) (frev (s_finds s1)) acc = (stk', acc', true) ->
  s2 = set_back false (set_finds [] (set_stk stk' s1)) -> acc2 = acc' ->
  run s idx pb (c :: r) acc = run s2 (N.succ idx) (Some c) r acc2.
Proof.
  intros Hd Hb Hk Hp -> ->. cbn [run read_byte]. change call_fuel with 16%nat. rewrite call_S, Hd, Hb, Hp.
  destruct s1; cbn in Hk |- *. rewrite Hk. reflexivity.
Qed.

Ltac step_with ev c :=
  eapply run_step_to;
  [ intros ?k; ev; decide_tests c; ev; try reflexivity
  | reflexivity | reflexivity
  | ev; reflexivity
  | ev; reflexivity
  | ev; reflexivity ].
Ltac step_tac c := step_with ev_run c.
Ltac step_conc c := step_with ev_all c.

(* ---- transitions between classes of scanner states ---- *)
(* no inline annotation is open (fix: stateMultiLineComment sets the annotation mode back to inline when
   one is; in plain JSON none ever is) *)
Definition noiab (stk : list (ev * N)) : bool :=
  forallb (fun p => match fst p with InlineAnnotationBegin => false | _ => true end) stk.
Lemma noiab_existsb stk :
  existsb (fun p => ev_eqb (fst p) InlineAnnotationBegin) stk = negb (noiab stk).
Proof.
  induction stk as [|[t b] r IH]; [reflexivity|]. cbn [existsb noiab forallb fst]. fold (noiab r). rewrite IH.
  destruct t; reflexivity.
Qed.
Definition Cfg (fp : st -> Prop) (rts : list st) (stk : list (ev * N)) (n : nat) (u : bool) (s : sc) : Prop :=
  exists f pcs cx bnd al, fp f /\ length pcs = n /\ noiab stk = true /\
    s = mksc f rts stk pcs cx [] ANone u false bnd al false false false.

(* the state reached may depend on the byte before the first one (fix 542fa4b: the LF of a CRLF) *)
Definition Tr (P : sc -> Prop) (idx : N) (bs : bytes) (evs : list lexev) (Q : sc -> Prop) : Prop :=
  forall s, P s -> forall pb rest acc, exists s' pb', Q s' /\
    run s idx pb (bs ++ rest) acc = run s' (idx + len bs) pb' rest (rev evs ++ acc).

Lemma len_app a b : len (a ++ b) = len a + len b.
Proof. unfold len. rewrite app_length. lia. Qed.
Lemma len_cons c b : len (c :: b) = N.succ (len b).
Proof. unfold len. cbn [length]. lia. Qed.
Lemma len_nil : len [] = 0.
Proof. reflexivity. Qed.

Lemma Tr_nil (P Q : sc -> Prop) idx : (forall s, P s -> Q s) -> Tr P idx [] [] Q.
Proof.
  intros H s Hs pb rest acc. exists s, pb. split; [apply H; exact Hs|].
  rewrite len_nil, N.add_0_r. reflexivity.
Qed.

Lemma Tr_trans P Q R i a b e1 e2 j :
  Tr P i a e1 Q -> j = i + len a -> Tr Q j b e2 R -> Tr P i (a ++ b) (e1 ++ e2) R.
Proof.
  intros H1 -> H2 s Hs pb rest acc.
  destruct (H1 s Hs pb (b ++ rest) acc) as [s1 [pb1 [Hq E1]]].
  destruct (H2 s1 Hq pb1 rest (rev e1 ++ acc)) as [s2 [pb2 [Hr E2]]].
  exists s2, pb2. split; [exact Hr|].
  rewrite <- app_assoc, E1, E2, len_app, N.add_assoc, rev_app_distr, <- app_assoc. reflexivity.
Qed.

Lemma Tr_conv P Q i bs bs' evs evs' : Tr P i bs evs Q -> bs = bs' -> evs = evs' -> Tr P i bs' evs' Q.
Proof. intros H -> ->. exact H. Qed.

Lemma Tr_weaken (P P' Q Q' : sc -> Prop) i bs evs :
  Tr P i bs evs Q -> (forall s, P' s -> P s) -> (forall s, Q s -> Q' s) -> Tr P' i bs evs Q'.
Proof.
  intros H HP HQ s Hs pb rest acc. destruct (H s (HP s Hs) pb rest acc) as [s' [pb' [Hq K]]].
  exists s', pb'. split; [apply HQ; exact Hq|exact K].
Qed.

Lemma Tr_one (P Q : sc -> Prop) idx c evs :
  (forall s, P s -> exists s', Q s' /\
     forall pb r acc, run s idx pb (c :: r) acc = run s' (N.succ idx) (Some c) r (rev evs ++ acc)) ->
  Tr P idx [c] evs Q.
Proof.
  intros H s Hs pb rest acc. destruct (H s Hs) as [s' [Hq K]]. exists s', (Some c). split; [exact Hq|].
  cbn [app]. rewrite K, len_cons, len_nil. f_equal. lia.
Qed.
(* the same when the state reached depends on the byte before *)
Lemma Tr_one_pb (P Q : sc -> Prop) idx c evs :
  (forall s, P s -> forall pb r acc, exists s', Q s' /\
     run s idx pb (c :: r) acc = run s' (N.succ idx) (Some c) r (rev evs ++ acc)) ->
  Tr P idx [c] evs Q.
Proof.
  intros H s Hs pb rest acc. destruct (H s Hs pb rest acc) as [s' [Hq K]]. exists s', (Some c).
  split; [exact Hq|]. cbn [app]. rewrite K, len_cons, len_nil. f_equal. lia.
Qed.

Ltac noiab_solve :=
  repeat match goal with H : noiab _ = true |- _ => progress cbn [noiab forallb fst andb] in H end;
  cbn [noiab forallb fst andb]; first [ assumption | reflexivity ].
Ltac cfg_solve :=
  do 5 eexists; refine (conj _ (conj _ (conj _ eq_refl)));
  [ first [ reflexivity | left; reflexivity | right; reflexivity | right; left; reflexivity
          | right; right; left; reflexivity | right; right; right; reflexivity | assumption ]
  | cbn [length]; first [ assumption | reflexivity | congruence | lia ]
  | noiab_solve ].

(* ---- the classes of states ---- *)
Inductive vsk := VRoot | VObj | VArr.
Definition vs_fp (k : vsk) (f : st) : Prop :=
  match k with
  | VRoot => f = FoundRootValue
  | VObj => f = FoundObjectValueBegin
  | VArr => f = FoundArrayItemBeginOrEmpty \/ f = FoundArrayItemBegin
  end.
Definition pre_stk (k : vsk) (p : N) : list (ev * N) :=
  match k with VRoot => [] | VObj => [(ObjectValueBegin, p)] | VArr => [(ArrayItemBegin, p)] end.
Definition pre_evs (k : vsk) (p : N) : list lexev :=
  match k with VRoot => [] | VObj => [E ObjectValueBegin p p] | VArr => [E ArrayItemBegin p p] end.

Inductive wk := WVal (k : vsk) | WKeyOrEmpty | WKey | WAfterKey | WAfterVal | WAfterItem | WEndTop.
Definition wfp (w : wk) (f : st) : Prop :=
  match w with
  | WVal k => vs_fp k f
  | WKeyOrEmpty => f = FoundObjectKeyBeginOrEmpty
  | WKey => f = FoundObjectKeyBegin \/ f = FoundObjectKeyBeginAfterNewLine
  | WAfterKey => f = AfterObjectKey
  | WAfterVal => f = AfterObjectValue
  | WAfterItem => f = AfterArrayItem
  | WEndTop => f = SEndTop
  end.

Definition nl1 (q : N) (c : byte) : list lexev := if is_nl c then [E NewLine q q] else [].
Lemma nls_nil q : nls q [] = [].
Proof. reflexivity. Qed.
Lemma nls_cons q c w : ch c 35 = false -> nls q (c :: w) = nl1 q c ++ nls (N.succ q) w.
Proof. intros H. unfold nls. cbn [gev]. rewrite H. reflexivity. Qed.
Lemma nls_hash q w : nls q (x23 :: w) = gev GHash (N.succ q) w.
Proof. reflexivity. Qed.
Lemma blank_not_hash c : is_blank c = true -> ch c 35 = false.
Proof. intros H. blia. Qed.

Definition waiting (f : st) : bool :=
  match f with
  | FoundRootValue | FoundObjectKeyBeginOrEmpty | FoundObjectKeyBegin | FoundObjectKeyBeginAfterNewLine
  | FoundObjectValueBegin | FoundArrayItemBeginOrEmpty | FoundArrayItemBegin
  | AfterObjectKey | AfterObjectValue | AfterArrayItem | SEndTop => true
  | _ => false
  end.
Definition after_blank (f : st) (c : byte) : st :=
  match f with
  | FoundObjectKeyBegin => if is_nl c then FoundObjectKeyBeginAfterNewLine else f
  | _ => f
  end.

Lemma T_blank1 f c idx stk n :
  waiting f = true -> is_blank c = true ->
  Tr (Cfg (eq f) [] stk n false) idx [c] (nl1 idx c)
     (Cfg (fun g => g = f \/ g = after_blank f c) [] stk n false).
Proof.
  intros Hw Hb. apply Tr_one_pb. intros s [f0 [pcs [cx [bnd [al [Hf [Hn [Hni ->]]]]]]]] pb r acc. subst f0.
  unfold nl1, after_blank.
  destruct f; try discriminate Hw;
    (destruct (is_nl c) eqn:Hnl;
     first [ solve [eexists; split; cycle 1; [step_tac c|cfg_solve]]
           | (* the LF of a CRLF keeps the step (fix 542fa4b) *)
             destruct (ch c 10) eqn:E10; [destruct pb as [x|]; [destruct (ch x 13) eqn:E13|]|];
             (eexists; split; cycle 1; [step_tac c|cfg_solve]) ]).
Qed.

Lemma Tr_class (fp : st -> Prop) rts stk n u idx bs evs Q :
  (forall f, fp f -> Tr (Cfg (eq f) rts stk n u) idx bs evs Q) -> Tr (Cfg fp rts stk n u) idx bs evs Q.
Proof.
  intros H s [f [pcs [cx [bnd [al [Hf [Hn K]]]]]]]. apply (H f Hf).
  exists f, pcs, cx, bnd, al. split; [reflexivity|]. split; [exact Hn|exact K].
Qed.
Lemma Cfg_sub (fp fq : st -> Prop) rts stk n u s : (forall f, fp f -> fq f) -> Cfg fp rts stk n u s -> Cfg fq rts stk n u s.
Proof.
  intros H [f [pcs [cx [bnd [al [Hf K]]]]]]. exists f, pcs, cx, bnd, al. split; [apply H; exact Hf|exact K].
Qed.

(* classes of waiting states that blanks do not leave *)
Definition bclosed (fp : st -> Prop) : Prop := forall f, fp f -> waiting f = true /\ forall c, fp (after_blank f c).

Lemma all_blank_cons c w : all_blank (c :: w) = true -> is_blank c = true /\ all_blank w = true.
Proof. unfold all_blank. cbn [forallb]. rewrite blank_eq. intros H. apply andb_prop in H. exact H. Qed.

Lemma T_blanks fp w : bclosed fp -> forall idx stk n, all_blank w = true ->
  Tr (Cfg fp [] stk n false) idx w (nls idx w) (Cfg fp [] stk n false).
Proof.
  intros Hcl. induction w as [|c w IH]; intros idx stk n Hw.
  - apply Tr_nil. auto.
  - destruct (all_blank_cons c w Hw) as [Hc Hw']. rewrite (nls_cons idx c w (blank_not_hash c Hc)). fold (nl1 idx c).
    change (c :: w) with ([c] ++ w).
    eapply Tr_trans; [| |apply IH; exact Hw'].
    + apply Tr_class. intros f Hf. destruct (Hcl f Hf) as [Hwt Hab].
      eapply Tr_weaken; [apply T_blank1; [exact Hwt|exact Hc]|intros ? HH; exact HH|].
      intros s Hs. eapply Cfg_sub; [|exact Hs]. intros f0 [->| ->]; [exact Hf|apply Hab].
    + rewrite len_cons, len_nil. lia.
Qed.

Lemma bclosed_wfp w : bclosed (wfp w).
Proof.
  intros f Hf. destruct w as [[| |]| | | | | |]; cbn [wfp vs_fp] in Hf |- *;
    repeat match type of Hf with _ \/ _ => destruct Hf as [Hf|Hf] end; subst f;
    (split; [reflexivity|intros c; cbn [after_blank]; try destruct (is_nl c); auto]).
Qed.
Lemma bclosed_eq f : waiting f = true -> f <> FoundObjectKeyBegin -> bclosed (eq f).
Proof.
  intros Hw Hne f0 <-. split; [exact Hw|]. intros c. destruct f; try discriminate Hw; try reflexivity.
  exfalso. apply Hne. reflexivity.
Qed.

Ltac one_step c := apply Tr_one; intros s [f [pcs [cx [bnd [al [Hf [Hn [Hni ->]]]]]]]].
Ltac split_fp Hf f :=
  repeat match type of Hf with _ \/ _ => destruct Hf as [Hf|Hf] end; subst f.
Ltac fin_step c := eexists; split; cycle 1; [intros pb r acc; step_tac c|cfg_solve].
Ltac fin_conc c := eexists; split; cycle 1; [intros pb r acc; step_conc c|cfg_solve].

Lemma ch_byte c n d : ch c n = true -> Byte.to_N d = n -> c = d.
Proof. intros H Hd. unfold ch, bN in H. apply N.eqb_eq in H. apply gp_to_N_inj. congruence. Qed.

(* ---- the first byte of a value ---- *)
Lemma T_start_obj k c idx stk n : ch c 123 = true ->
  Tr (Cfg (vs_fp k) [] stk n false) idx [c] (pre_evs k idx ++ [E ObjectBegin idx idx])
     (Cfg (eq FoundObjectKeyBeginOrEmpty) [] ((ObjectBegin, idx) :: pre_stk k idx ++ stk) (S n) false).
Proof.
  intros Hc. rewrite (ch_byte c 123 x7b Hc eq_refl). one_step x7b.
  destruct k; cbn [vs_fp] in Hf; split_fp Hf f; fin_conc x7b.
Qed.
Lemma T_start_arr k c idx stk n : ch c 91 = true ->
  Tr (Cfg (vs_fp k) [] stk n false) idx [c] (pre_evs k idx ++ [E ArrayBegin idx idx])
     (Cfg (eq FoundArrayItemBeginOrEmpty) [] ((ArrayBegin, idx) :: pre_stk k idx ++ stk) (S n) false).
Proof.
  intros Hc. rewrite (ch_byte c 91 x5b Hc eq_refl). one_step x5b.
  destruct k; cbn [vs_fp] in Hf; split_fp Hf f; fin_conc x5b.
Qed.
(* literals: the state after the first byte *)
Definition lit_start (c : byte) : option (st * bool) :=
  if ch c 34 then Some (InString, true)
  else if ch c 45 then Some (Neg, true)
  else if ch c 48 then Some (S0, false)
  else if ch c 116 then Some (ST, true)
  else if ch c 102 then Some (SF, true)
  else if ch c 110 then Some (SN, true)
  else if is_digit19 c then Some (S1, false)
  else None.
Lemma T_start_lit k c idx stk n g u : lit_start c = Some (g, u) ->
  Tr (Cfg (vs_fp k) [] stk n false) idx [c] (pre_evs k idx ++ [E LiteralBegin idx idx])
     (Cfg (eq g) [] ((LiteralBegin, idx) :: pre_stk k idx ++ stk) n u).
Proof.
  unfold lit_start. intros Hc.
  destruct (ch c 34) eqn:H34; [|destruct (ch c 45) eqn:H45; [|destruct (ch c 48) eqn:H48; [|
  destruct (ch c 116) eqn:H116; [|destruct (ch c 102) eqn:H102; [|destruct (ch c 110) eqn:H110; [|
  destruct (is_digit19 c) eqn:H19; [|discriminate Hc]]]]]]]; inversion Hc; subst g u; clear Hc.
  - rewrite (ch_byte c 34 x22 H34 eq_refl). one_step x22. destruct k; cbn [vs_fp] in Hf; split_fp Hf f; fin_conc x22.
  - rewrite (ch_byte c 45 x2d H45 eq_refl). one_step x2d. destruct k; cbn [vs_fp] in Hf; split_fp Hf f; fin_conc x2d.
  - rewrite (ch_byte c 48 x30 H48 eq_refl). one_step x30. destruct k; cbn [vs_fp] in Hf; split_fp Hf f; fin_conc x30.
  - rewrite (ch_byte c 116 x74 H116 eq_refl). one_step x74. destruct k; cbn [vs_fp] in Hf; split_fp Hf f; fin_conc x74.
  - rewrite (ch_byte c 102 x66 H102 eq_refl). one_step x66. destruct k; cbn [vs_fp] in Hf; split_fp Hf f; fin_conc x66.
  - rewrite (ch_byte c 110 x6e H110 eq_refl). one_step x6e. destruct k; cbn [vs_fp] in Hf; split_fp Hf f; fin_conc x6e.
  - one_step c; destruct k; cbn [vs_fp] in Hf; split_fp Hf f; fin_step c.
Qed.

Lemma Tr_cons P Q R i c bs e1 e2 e :
  Tr P i [c] e1 Q -> Tr Q (N.succ i) bs e2 R -> e = e1 ++ e2 -> Tr P i (c :: bs) e R.
Proof.
  intros H1 H2 ->. change (c :: bs) with ([c] ++ bs). eapply Tr_trans; [exact H1| |exact H2].
  rewrite len_cons, len_nil. lia.
Qed.

(* ================================================================== *)
(* A'. line comments in the gaps (property C13, schema half)           *)
(* ================================================================== *)
(* the line break that ends a comment: stateInlineComment pops the step, queues NewLine and steps back;
   the popped step reads the line break again *)
Lemma run_comment_end s idx pb c r acc s1 s2 stk2 acc2 :
  (forall k, dispatch c r pb k (s_step s) s = ROk s1) -> s_back s1 = true -> s_finds s1 = [NewLine] ->
  s_htc s1 = false -> s_rts s <> [] ->
  (forall k, dispatch c r pb k (s_step s1) (set_back false (set_finds [] s1)) = ROk s2) ->
  s_back s2 = false -> s_skip s2 = false ->
  process_finds idx pb (s_htc s2) (s_stk s2) (frev (s_finds s2)) (E NewLine (idx - 1) (idx - 1) :: acc) = (stk2, acc2, true) ->
  run s idx pb (c :: r) acc = run (set_back false (set_finds [] (set_stk stk2 s2))) (N.succ idx) (Some c) r acc2.
Proof.
  intros Hd Hb Hf Hh Hr Hd2 Hb2 Hk2 Hp. cbn [run].
  destruct (s_rts s) as [|g rts] eqn:Er; [congruence|]. cbn [length read_byte].
  change call_fuel with 16%nat. rewrite call_S, Hd, Hb, Hf, Hh. cbn [frev rev_append process_finds process_found].
  assert (Es : set_back false (set_finds [] (set_stk (s_stk s1) s1)) = set_back false (set_finds [] s1))
    by (destruct s1; reflexivity).
  rewrite Es. replace (s_step (set_back false (set_finds [] s1))) with (s_step s1) by (destruct s1; reflexivity).
  unfold E in Hp. rewrite call_S, Hd2, Hb2, Hp. destruct s2; cbn in Hk2 |- *. rewrite Hk2. reflexivity.
Qed.

Ltac step_back_with ev c :=
  eapply run_comment_end;
  [ intros ?k; ev; decide_tests c; ev; try reflexivity
  | reflexivity | reflexivity | reflexivity | cbn [s_rts]; discriminate
  | intros ?k; ev; decide_tests c; ev; try reflexivity
  | reflexivity | reflexivity
  | ev; reflexivity ].

Lemma T_hash f idx stk n : waiting f = true ->
  Tr (Cfg (eq f) [] stk n false) idx [x23] [] (Cfg (eq AnyCommentStart) [f] stk n false).
Proof.
  intros Hw. apply Tr_one. intros s [f0 [pcs [cx [bnd [al [Hf [Hn [Hni ->]]]]]]]]. subst f0.
  destruct f; try discriminate Hw; fin_conc x23.
Qed.
Lemma T_cs_body g c idx stk n : ch c 35 = false -> is_nl c = false ->
  Tr (Cfg (eq AnyCommentStart) [g] stk n false) idx [c] [] (Cfg (eq InlineComment) [g] stk n false).
Proof. intros H1 H2. one_step c. subst f. fin_step c. Qed.
Lemma T_c_body g c idx stk n : is_nl c = false ->
  Tr (Cfg (eq InlineComment) [g] stk n false) idx [c] [] (Cfg (eq InlineComment) [g] stk n false).
Proof. intros H2. one_step c. subst f. fin_step c. Qed.

Lemma T_c_end h g c idx stk n :
  h = AnyCommentStart \/ h = InlineComment -> is_nl c = true -> waiting g = true ->
  Tr (Cfg (eq h) [g] stk n false) idx [c] [E NewLine (idx - 1) (idx - 1); E NewLine idx idx]
     (Cfg (fun f => f = g \/ f = after_blank g c) [] stk n false).
Proof.
  intros Hh Hnl Hw. apply Tr_one_pb. intros s [f0 [pcs [cx [bnd [al [Hf [Hn [Hni ->]]]]]]]] pb r acc. subst f0.
  assert (H35 : ch c 35 = false) by blia.
  unfold after_blank.
  destruct Hh as [-> | ->]; (destruct g; try discriminate Hw; rewrite ?Hnl;
    first [ solve [eexists; split; cycle 1; [step_back_with ev_run c|cfg_solve]]
          | destruct (ch c 10) eqn:E10; [destruct pb as [x|]; [destruct (ch x 13) eqn:E13|]|];
            solve [eexists; split; cycle 1; [step_back_with ev_run c|cfg_solve]] ]).
Qed.

(* ---- block comments: ### ... ### ---- *)
Lemma T_hash2 g idx stk n :
  Tr (Cfg (eq AnyCommentStart) [g] stk n false) idx [x23] [] (Cfg (eq MultiLineCommentStart) [g] stk n false).
Proof. one_step x23. subst f. fin_conc x23. Qed.

(* the test of stateMultiLineComment: the byte and the two bytes after it are ### *)
Definition term3 (c : byte) (l : bytes) : bool :=
  (ch c 35 && match l with x :: y :: _ => (ch x 35 && ch y 35)%bool | _ => false end)%bool.

Lemma run_step_skip s idx pb c x y r acc s1 :
  (forall k, dispatch c (x :: y :: r) pb k (s_step s) s = ROk s1) ->
  s_back s1 = false -> s_skip s1 = true -> s_finds s1 = [] ->
  run s idx pb (c :: x :: y :: r) acc =
  run (set_skip false (set_back false (set_finds [] (set_stk (s_stk s1) s1)))) (idx + 3) (Some y) r acc.
Proof.
  intros Hd Hb Hk Hf. cbn [run read_byte]. change call_fuel with 16%nat. rewrite call_S, Hd, Hb, Hf.
  cbn [frev rev_append process_finds]. destruct s1; cbn in Hk |- *. rewrite Hk. reflexivity.
Qed.

(* the third # belongs to the opener (fix 7ac9eeb) *)
Lemma T_block_open g idx stk n :
  Tr (Cfg (eq MultiLineCommentStart) [g] stk n false) idx [x23] [] (Cfg (eq MultiLineComment) [g] stk n false).
Proof. one_step x23. subst f. fin_conc x23. Qed.

Lemma block_stay_step g c l stk n idx s :
  Cfg (eq MultiLineComment) [g] stk n false s -> term3 c l = false ->
  forall pb acc, exists s', Cfg (eq MultiLineComment) [g] stk n false s' /\
                            run s idx pb (c :: l) acc = run s' (N.succ idx) (Some c) l acc.
Proof.
  intros [f [pcs [cx [bnd [al [Hf [Hn [Hni ->]]]]]]]] Ht pb acc. subst f. unfold term3 in Ht.
  destruct l as [|x [|y l']];
    try (destruct (ch x 35) eqn:Ex; destruct (ch y 35) eqn:Ey);
    (destruct (ch c 35) eqn:H35; cbn [andb] in Ht; try discriminate Ht;
     (eexists; split; cycle 1; [step_tac c|cfg_solve])).
Qed.

Lemma block_end_step g c x y l stk n idx s :
  Cfg (eq MultiLineComment) [g] stk n false s ->
  ch c 35 = true -> ch x 35 = true -> ch y 35 = true ->
  forall pb acc, exists s', Cfg (eq g) [] stk n false s' /\
                            run s idx pb (c :: x :: y :: l) acc = run s' (idx + 3) (Some y) l acc.
Proof.
  intros [f [pcs [cx [bnd [al [Hf [Hn [Hni ->]]]]]]]] H1 H2 H3 pb acc. subst f.
  eexists; split; cycle 1.
  - eapply run_step_skip;
      [intros ?k; lazy beta iota delta [dispatch]; unfold st_multi_line_comment;
       rewrite H1, H2, H3; cbn [andb]; ev_run_keep; rewrite noiab_existsb, Hni; cbn [negb]; reflexivity
      |reflexivity|reflexivity|reflexivity].
  - cfg_solve.
Qed.

(* the first step may depend on the look-ahead into the bytes that follow *)
Lemma Tr_step_la (P Q R : sc -> Prop) i c bs e2 :
  (forall s, P s -> forall pb rest acc, exists s', Q s' /\
     run s i pb (c :: bs ++ rest) acc = run s' (N.succ i) (Some c) (bs ++ rest) acc) ->
  Tr Q (N.succ i) bs e2 R -> Tr P i (c :: bs) e2 R.
Proof.
  intros H1 H2 s Hs pb rest acc. destruct (H1 s Hs pb rest acc) as [s1 [Hq E1]].
  destruct (H2 s1 Hq (Some c) rest acc) as [s2 [pb2 [Hr E2]]].
  exists s2, pb2. split; [exact Hr|]. cbn [app]. rewrite E1, E2, len_cons. f_equal. lia.
Qed.
Lemma Tr_step_skip (P Q R : sc -> Prop) i c x y bs e2 :
  (forall s, P s -> forall pb rest acc, exists s', Q s' /\
     run s i pb (c :: x :: y :: bs ++ rest) acc = run s' (i + 3) (Some y) (bs ++ rest) acc) ->
  Tr Q (i + 3) bs e2 R -> Tr P i (c :: x :: y :: bs) e2 R.
Proof.
  intros H1 H2 s Hs pb rest acc. destruct (H1 s Hs pb rest acc) as [s1 [Hq E1]].
  destruct (H2 s1 Hq (Some y) rest acc) as [s2 [pb2 [Hr E2]]].
  exists s2, pb2. split; [exact Hr|]. cbn [app]. rewrite E1, E2, !len_cons. f_equal. lia.
Qed.

(* the gap machine: blanks, line comments ('#' body line-break, the body without line break and not
   beginning with '#') and block comments ('###', then bytes up to the next '###').
   [fin]: the gap may end inside a line comment (the last gap of the text only); it may never end inside
   a block comment or after '##' (Err 303 at the last byte) *)
Fixpoint gap_from (g : gst) (fin : bool) (w : bytes) : bool :=
  match w with
  | [] => match g with GOut => true | GHash | GIn => fin | GHash2 | GBlock => false end
  | c :: r =>
    let blk :=
        match r with
        | x :: y :: r' => if (ch x 35 && ch y 35)%bool then gap_from GOut fin r' else gap_from GBlock fin r
        | _ => false
        end in
    match g with
    | GOut => if is_blank c then gap_from GOut fin r else if ch c 35 then gap_from GHash fin r else false
    | GHash => if ch c 35 then gap_from GHash2 fin r
               else if is_nl c then gap_from GOut fin r else gap_from GIn fin r
    | GIn => if is_nl c then gap_from GOut fin r else gap_from GIn fin r
    | GHash2 => if ch c 35 then gap_from GBlock fin r else false
    | GBlock => if ch c 35 then blk else gap_from GBlock fin r
    end
  end.
Definition is_gap (w : bytes) : bool := gap_from GOut false w.
Definition is_gap_end (w : bytes) : bool := gap_from GOut true w.

Lemma all_blank_gap fin w : all_blank w = true -> gap_from GOut fin w = true.
Proof.
  induction w as [|c w IH]; intros H; [reflexivity|].
  destruct (all_blank_cons c w H) as [Hc Hw]. cbn [gap_from]. rewrite Hc. apply IH. exact Hw.
Qed.
Lemma gap_cons_cases fin c w : gap_from GOut fin (c :: w) = true ->
  (is_blank c = true /\ ch c 35 = false /\ gap_from GOut fin w = true) \/
  (c = x23 /\ gap_from GHash fin w = true).
Proof.
  cbn [gap_from]. destruct (is_blank c) eqn:Eb.
  - intros H. left. split; [reflexivity|]. split; [apply blank_not_hash; exact Eb|exact H].
  - destruct (ch c 35) eqn:Eh; [|discriminate]. intros H. right. split; [|exact H].
    apply (ch_byte c 35 x23 Eh eq_refl).
Qed.

(* where the scanner stands after a gap: in the class it started from, or (last gap only) inside a
   line comment *)
Definition GQ (fin : bool) (fp : st -> Prop) (stk : list (ev * N)) (n : nat) : sc -> Prop :=
  fun s => Cfg fp [] stk n false s \/
           (fin = true /\ exists g, fp g /\ Cfg (fun h => h = AnyCommentStart \/ h = InlineComment) [g] stk n false s).

Definition gap_state (g : gst) : st :=
  match g with
  | GOut => FoundRootValue   (* unused *)
  | GHash => AnyCommentStart | GIn => InlineComment
  | GHash2 => MultiLineCommentStart | GBlock => MultiLineComment
  end.

Lemma gaps_nil fin (fp : st -> Prop) stk n idx :
  (gap_from GOut fin [] = true -> Tr (Cfg fp [] stk n false) idx [] (gev GOut idx []) (GQ fin fp stk n)) /\
  (forall gs g, gs <> GOut -> fp g -> gap_from gs fin [] = true ->
     Tr (Cfg (eq (gap_state gs)) [g] stk n false) idx [] (gev gs idx []) (GQ fin fp stk n)).
Proof.
  split.
  - intros _. apply Tr_nil. intros s Hs. left. exact Hs.
  - intros gs g Hgs Hg Hfin. apply Tr_nil. intros s Hs. right.
    destruct gs; cbn [gap_from gap_state] in Hfin, Hs; try discriminate Hfin.
    + exfalso. apply Hgs. reflexivity.
    + split; [exact Hfin|]. exists g. split; [exact Hg|]. eapply Cfg_sub; [|exact Hs]. intros f <-. left. reflexivity.
    + split; [exact Hfin|]. exists g. split; [exact Hg|]. eapply Cfg_sub; [|exact Hs]. intros f <-. right. reflexivity.
Qed.

Lemma T_gaps_gen fin fp stk n : bclosed fp -> forall m w, (length w <= m)%nat -> forall idx,
  (gap_from GOut fin w = true -> Tr (Cfg fp [] stk n false) idx w (gev GOut idx w) (GQ fin fp stk n)) /\
  (forall gs g, gs <> GOut -> fp g -> gap_from gs fin w = true ->
     Tr (Cfg (eq (gap_state gs)) [g] stk n false) idx w (gev gs idx w) (GQ fin fp stk n)).
Proof.
  intros Hcl. induction m as [|m IH]; intros w Hm idx.
  { destruct w; [apply gaps_nil|cbn [length] in Hm; lia]. }
  destruct w as [|c w]; [apply gaps_nil|].
  cbn [length] in Hm.
  assert (I1 : forall i, gap_from GOut fin w = true -> Tr (Cfg fp [] stk n false) i w (gev GOut i w) (GQ fin fp stk n))
    by (intros i; apply (IH w); lia).
  assert (I2 : forall i gs g, gs <> GOut -> fp g -> gap_from gs fin w = true ->
                Tr (Cfg (eq (gap_state gs)) [g] stk n false) i w (gev gs i w) (GQ fin fp stk n))
    by (intros i; apply (IH w); lia).
  assert (Hend : forall h g, fp g -> h = AnyCommentStart \/ h = InlineComment -> is_nl c = true ->
            gap_from GOut fin w = true ->
            Tr (Cfg (eq h) [g] stk n false) idx (c :: w)
               ([E NewLine (idx - 1) (idx - 1); E NewLine idx idx] ++ gev GOut (N.succ idx) w) (GQ fin fp stk n)).
  { intros h g Hg Hh Hnl Hw. destruct (Hcl g Hg) as [Hwt Hab].
    eapply Tr_cons; [|apply (I1 _ Hw)|reflexivity].
    eapply Tr_weaken; [apply (T_c_end h g c); assumption|intros ? HH; exact HH|].
    intros s Hs. eapply Cfg_sub; [|exact Hs]. intros f0 [->| ->]; [exact Hg|apply Hab]. }
  assert (Hblk : forall g, fp g -> ch c 35 = true ->
            match w with
            | x :: y :: r' => if (ch x 35 && ch y 35)%bool then gap_from GOut fin r' else gap_from GBlock fin w
            | _ => false
            end = true ->
            Tr (Cfg (eq MultiLineComment) [g] stk n false) idx (c :: w)
               match w with
               | x :: y :: r' => if (ch x 35 && ch y 35)%bool then gev GOut (idx + 3) r' else gev GBlock (N.succ idx) w
               | _ => []
               end (GQ fin fp stk n)).
  { intros g Hg H35 Hw. destruct w as [|x [|y r']]; try discriminate Hw.
    destruct (ch x 35 && ch y 35)%bool eqn:Exy.
    - apply andb_prop in Exy. destruct Exy as [Ex Ey].
      assert (Hlen : (length r' <= m)%nat) by (cbn [length] in Hm; lia).
      eapply Tr_step_skip; [|apply (proj1 (IH r' Hlen (idx + 3)%N) Hw)].
      intros s Hs pb rest acc.
      destruct (block_end_step g c x y (r' ++ rest) stk n idx s Hs H35 Ex Ey pb acc) as [s' [Hq E1]].
      exists s'. split; [|exact E1]. eapply Cfg_sub; [|exact Hq]. intros f <-. exact Hg.
    - eapply Tr_step_la; [|apply (I2 _ GBlock g); [discriminate|exact Hg|exact Hw]].
      intros s Hs pb rest acc.
      apply (block_stay_step g c ((x :: y :: r') ++ rest) stk n idx s Hs).
      unfold term3. cbn [app]. rewrite Exy. apply andb_false_r. }
  split.
  - intros H. destruct (gap_cons_cases fin c w H) as [[Hb [Hh Hw]]|[-> Hw]].
    + cbn [gev]. rewrite Hh. fold (nl1 idx c). eapply Tr_cons; [|apply (I1 _ Hw)|reflexivity].
      apply Tr_class. intros f Hf. destruct (Hcl f Hf) as [Hwt Hab].
      eapply Tr_weaken; [apply T_blank1; [exact Hwt|exact Hb]|intros ? HH; exact HH|].
      intros s Hs. eapply Cfg_sub; [|exact Hs]. intros f0 [->| ->]; [exact Hf|apply Hab].
    + change (gev GOut idx (x23 :: w)) with (gev GHash (N.succ idx) w).
      apply Tr_class. intros f Hf. destruct (Hcl f Hf) as [Hwt _].
      eapply Tr_cons; [apply T_hash; exact Hwt|apply (I2 _ GHash f); [discriminate|exact Hf|exact Hw]|reflexivity].
  - intros gs g Hgs Hg. destruct gs; [exfalso; apply Hgs; reflexivity| | | |]; cbn [gap_state].
    + (* after '#' *)
      cbn [gap_from gev]. destruct (ch c 35) eqn:Eh.
      * intros Hw. rewrite (ch_byte c 35 x23 Eh eq_refl).
        eapply Tr_cons; [apply T_hash2|apply (I2 _ GHash2 g); [discriminate|exact Hg|exact Hw]|reflexivity].
      * destruct (is_nl c) eqn:Enl; intros Hw.
        -- apply Hend; auto.
        -- eapply Tr_cons; [apply T_cs_body; assumption|apply (I2 _ GIn g); [discriminate|exact Hg|exact Hw]|reflexivity].
    + (* inside a line comment *)
      cbn [gap_from gev]. destruct (is_nl c) eqn:Enl; intros Hw.
      * apply Hend; auto.
      * eapply Tr_cons; [apply T_c_body; assumption|apply (I2 _ GIn g); [discriminate|exact Hg|exact Hw]|reflexivity].
    + (* after '##': the third # of the opener *)
      cbn [gap_from gev]. destruct (ch c 35) eqn:Eh; [|discriminate]. intros Hw.
      rewrite (ch_byte c 35 x23 Eh eq_refl).
      eapply Tr_cons; [apply T_block_open|apply (I2 _ GBlock g); [discriminate|exact Hg|exact Hw]|reflexivity].
    + (* inside a block comment *)
      cbn [gap_from gev]. destruct (ch c 35) eqn:Eh; intros Hw.
      * apply Hblk; auto.
      * eapply Tr_step_la; [|apply (I2 _ GBlock g); [discriminate|exact Hg|exact Hw]].
        intros s Hs pb rest acc. apply (block_stay_step g c (w ++ rest) stk n idx s Hs).
        unfold term3. rewrite Eh. reflexivity.
Qed.

Lemma GQ_false fp stk n s : GQ false fp stk n s -> Cfg fp [] stk n false s.
Proof. intros [H|[H _]]; [exact H|discriminate H]. Qed.

Lemma T_gaps fp w : bclosed fp -> forall idx stk n, is_gap w = true ->
  Tr (Cfg fp [] stk n false) idx w (nls idx w) (Cfg fp [] stk n false).
Proof.
  intros Hcl idx stk n Hw. destruct (T_gaps_gen false fp stk n Hcl (length w) w (le_n _) idx) as [H _].
  eapply Tr_weaken; [apply (H Hw)|intros ? HH; exact HH|apply GQ_false].
Qed.
Lemma T_gaps_hash fp g w : bclosed fp -> fp g -> forall idx stk n, gap_from GHash false w = true ->
  Tr (Cfg (eq AnyCommentStart) [g] stk n false) idx w (gev GHash idx w) (Cfg fp [] stk n false).
Proof.
  intros Hcl Hg idx stk n Hw. destruct (T_gaps_gen false fp stk n Hcl (length w) w (le_n _) idx) as [_ H].
  eapply Tr_weaken; [apply (H GHash g ltac:(discriminate) Hg Hw)|intros ? HH; exact HH|apply GQ_false].
Qed.

(* ---- strings ---- *)
Lemma T_str_char c idx stk n u : ch c 34 = false -> ch c 92 = false -> is_ctl c = false ->
  Tr (Cfg (eq InString) [] stk n u) idx [c] [] (Cfg (eq InString) [] stk n u).
Proof. intros H1 H2 H3. one_step c. subst f. fin_step c. Qed.
Lemma T_str_bs c idx stk n u : ch c 92 = true ->
  Tr (Cfg (eq InString) [] stk n u) idx [c] [] (Cfg (eq InStringEsc) [] stk n u).
Proof. intros H1. rewrite (ch_byte c 92 x5c H1 eq_refl). one_step x5c. subst f. fin_conc x5c. Qed.
Lemma T_str_quote c idx stk n u : ch c 34 = true ->
  Tr (Cfg (eq InString) [] stk n u) idx [c] [] (Cfg (eq EndValue) [] stk n false).
Proof. intros H1. rewrite (ch_byte c 34 x22 H1 eq_refl). one_step x22. subst f. fin_conc x22. Qed.
Lemma T_esc1 c idx stk n u : is_esc1 c = true ->
  Tr (Cfg (eq InStringEsc) [] stk n u) idx [c] [] (Cfg (eq InString) [] stk n u).
Proof.
  intros H1. one_step c. subst f. unfold is_esc1 in H1. change Scanner.ch with ch in H1.
  eexists; split; cycle 1.
  { intros pb r acc. eapply run_step_to;
    [ intros ?k; ev_run;
      destruct (ch c 98); [reflexivity|]; destruct (ch c 102); [reflexivity|]; destruct (ch c 110); [reflexivity|];
      destruct (ch c 114); [reflexivity|]; destruct (ch c 116); [reflexivity|]; destruct (ch c 92); [reflexivity|];
      destruct (ch c 47); [reflexivity|]; destruct (ch c 34); [reflexivity|]; discriminate H1
    | reflexivity | reflexivity | ev_run; reflexivity | ev_run; reflexivity | ev_run; reflexivity ]. }
  cfg_solve.
Qed.
Lemma T_esc_u c idx stk n u : ch c 117 = true ->
  Tr (Cfg (eq InStringEsc) [] stk n u) idx [c] [] (Cfg (eq InStringEscU) [InString] stk n u).
Proof. intros H1. rewrite (ch_byte c 117 x75 H1 eq_refl). one_step x75. subst f. fin_conc x75. Qed.
Lemma T_hex1 c idx stk n u : is_hex c = true ->
  Tr (Cfg (eq InStringEscU) [InString] stk n u) idx [c] [] (Cfg (eq InStringEscU1) [InString] stk n u).
Proof. intros H1. one_step c. subst f. fin_step c. Qed.
Lemma T_hex2 c idx stk n u : is_hex c = true ->
  Tr (Cfg (eq InStringEscU1) [InString] stk n u) idx [c] [] (Cfg (eq InStringEscU12) [InString] stk n u).
Proof. intros H1. one_step c. subst f. fin_step c. Qed.
Lemma T_hex3 c idx stk n u : is_hex c = true ->
  Tr (Cfg (eq InStringEscU12) [InString] stk n u) idx [c] [] (Cfg (eq InStringEscU123) [InString] stk n u).
Proof. intros H1. one_step c. subst f. fin_step c. Qed.
Lemma T_hex4 c idx stk n u : is_hex c = true ->
  Tr (Cfg (eq InStringEscU123) [InString] stk n u) idx [c] [] (Cfg (eq InString) [] stk n u).
Proof. intros H1. one_step c. subst f. fin_step c. Qed.

Lemma T_string_body stk n : forall m bs idx u, (length bs <= m)%nat -> lex_string_body bs = Some [] ->
  Tr (Cfg (eq InString) [] stk n u) idx bs [] (Cfg (eq EndValue) [] stk n false).
Proof.
  induction m as [|m IH]; intros bs idx u Hm H.
  - destruct bs as [|c r]; [discriminate H|cbn [length] in Hm; lia].
  - destruct bs as [|c r]; [discriminate H|]. cbn [length] in Hm. rewrite lsb_cons in H.
    change Scanner.ch with ch in H. change Scanner.is_ctl with is_ctl in H. change Scanner.is_hex with is_hex in H.
    destruct (ch c 34) eqn:E34.
    { inversion H; subst r. apply T_str_quote. exact E34. }
    destruct (ch c 92) eqn:E92.
    + destruct r as [|e r']; [discriminate H|]. cbn [length] in Hm.
      eapply Tr_cons; [apply T_str_bs; exact E92| |reflexivity].
      destruct (is_esc1 e) eqn:Ee.
      { eapply Tr_cons; [apply T_esc1; exact Ee|apply IH; [lia|exact H]|reflexivity]. }
      destruct (ch e 117) eqn:Eu; [|discriminate H].
      destruct r' as [|h1 r']; [discriminate H|].
      destruct r' as [|h2 r']; [discriminate H|].
      destruct r' as [|h3 r']; [discriminate H|].
      destruct r' as [|h4 r']; [discriminate H|].
      cbn [length] in Hm.
      destruct (is_hex h1) eqn:E1; [|discriminate H]. destruct (is_hex h2) eqn:E2; [|discriminate H].
      destruct (is_hex h3) eqn:E3; [|discriminate H]. destruct (is_hex h4) eqn:E4; [|discriminate H].
      cbn [andb] in H.
      eapply Tr_cons; [apply T_esc_u; exact Eu| |reflexivity].
      eapply Tr_cons; [apply T_hex1; exact E1| |reflexivity].
      eapply Tr_cons; [apply T_hex2; exact E2| |reflexivity].
      eapply Tr_cons; [apply T_hex3; exact E3| |reflexivity].
      eapply Tr_cons; [apply T_hex4; exact E4| |reflexivity].
      apply IH; [lia|exact H].
    + destruct (is_ctl c) eqn:Ec; [discriminate H|].
      eapply Tr_cons; [apply T_str_char; assumption|apply IH; [lia|exact H]|reflexivity].
Qed.

(* ---- numbers without an exponent ---- *)
Definition litdone (f : st) : Prop := f = EndValue \/ f = S0 \/ f = S1 \/ f = Dot0.
Definition not_e (c : byte) : bool := negb (ch c 101 || ch c 69).
Definition noexp (t : bytes) : bool := forallb not_e t.

Lemma T_neg0 c idx stk n u : ch c 48 = true ->
  Tr (Cfg (eq Neg) [] stk n u) idx [c] [] (Cfg (eq S0) [] stk n false).
Proof. intros H1. rewrite (ch_byte c 48 x30 H1 eq_refl). one_step x30. subst f. fin_conc x30. Qed.
Lemma T_neg19 c idx stk n u : is_digit19 c = true ->
  Tr (Cfg (eq Neg) [] stk n u) idx [c] [] (Cfg (eq S1) [] stk n false).
Proof. intros H1. one_step c. subst f. fin_step c. Qed.
Lemma T_s1_digit c idx stk n u : is_digit c = true ->
  Tr (Cfg (eq S1) [] stk n u) idx [c] [] (Cfg (eq S1) [] stk n u).
Proof. intros H1. one_step c. subst f. fin_step c. Qed.
Lemma T_dot g c idx stk n u : g = S0 \/ g = S1 -> ch c 46 = true ->
  Tr (Cfg (eq g) [] stk n u) idx [c] [] (Cfg (eq Dot) [] stk n true).
Proof.
  intros Hg H1. rewrite (ch_byte c 46 x2e H1 eq_refl). one_step x2e. subst f.
  destruct Hg as [->| ->]; fin_conc x2e.
Qed.
Lemma T_dot_digit c idx stk n u : is_digit c = true ->
  Tr (Cfg (eq Dot) [] stk n u) idx [c] [] (Cfg (eq Dot0) [] stk n false).
Proof. intros H1. one_step c. subst f. fin_step c. Qed.
Lemma T_dot0_digit c idx stk n u : is_digit c = true ->
  Tr (Cfg (eq Dot0) [] stk n u) idx [c] [] (Cfg (eq Dot0) [] stk n u).
Proof. intros H1. one_step c. subst f. fin_step c. Qed.

Lemma T_digits g stk n u : g = S1 \/ g = Dot0 -> forall ds idx, forallb is_digit ds = true ->
  Tr (Cfg (eq g) [] stk n u) idx ds [] (Cfg (eq g) [] stk n u).
Proof.
  intros Hg. induction ds as [|c r IH]; intros idx H.
  - apply Tr_nil. auto.
  - cbn [forallb] in H. apply andb_prop in H. destruct H as [Hc Hr].
    destruct Hg as [-> | ->].
    + eapply Tr_cons; [apply T_s1_digit; exact Hc|apply IH; exact Hr|reflexivity].
    + eapply Tr_cons; [apply T_dot0_digit; exact Hc|apply IH; exact Hr|reflexivity].
Qed.

Lemma skip_digits_nil_all bs : skip_digits bs = [] -> forallb is_digit bs = true.
Proof.
  induction bs as [|c r IH]; [reflexivity|]. cbn [skip_digits forallb]. change Scanner.is_digit with is_digit.
  destruct (is_digit c); [exact IH|discriminate].
Qed.
Lemma takedigits_all bs : forallb is_digit (takedigits bs) = true.
Proof.
  induction bs as [|c r IH]; [reflexivity|]. cbn [takedigits]. change Scanner.is_digit with is_digit.
  destruct (is_digit c) eqn:E; [cbn [forallb]; rewrite E; exact IH|reflexivity].
Qed.
Lemma noexp_app a b : noexp (a ++ b) = (noexp a && noexp b)%bool.
Proof. apply forallb_app. Qed.
Lemma noexp_skip_digits bs : noexp bs = true -> noexp (skip_digits bs) = true.
Proof.
  intros H. rewrite (takedigits_skip bs), noexp_app in H. apply andb_prop in H. apply H.
Qed.

(* after the integer part *)
Lemma T_frac g stk n bs idx : g = S0 \/ g = S1 -> lex_frac_exp bs = Some [] -> noexp bs = true ->
  Tr (Cfg (eq g) [] stk n false) idx bs [] (Cfg litdone [] stk n false).
Proof.
  intros Hg H Hne. unfold lex_frac_exp in H. change Scanner.ch with ch in H. change Scanner.is_digit with is_digit in H.
  destruct bs as [|c r].
  { apply Tr_nil. intros s [f [pcs [cx [bnd [al [Hf K]]]]]]. exists f, pcs, cx, bnd, al. split; [|exact K].
    subst f. unfold litdone. destruct Hg as [-> | ->]; auto. }
  cbn [noexp forallb] in Hne. apply andb_prop in Hne. destruct Hne as [Hc Hr]. unfold not_e in Hc.
  destruct (ch c 46) eqn:E46.
  - destruct r as [|d r']; [discriminate H|]. destruct (is_digit d) eqn:Ed; [|discriminate H].
    cbn [forallb] in Hr. apply andb_prop in Hr. destruct Hr as [_ Hr'].
    assert (Hs : skip_digits r' = []).
    { pose proof (noexp_skip_digits r' Hr') as Hn. destruct (skip_digits r') as [|c2 r2]; [reflexivity|].
      cbn [noexp forallb] in Hn. apply andb_prop in Hn. destruct Hn as [Hc2 _]. unfold not_e in Hc2.
      destruct (ch c2 101 || ch c2 69)%bool; [discriminate Hc2|discriminate H]. }
    eapply Tr_cons; [apply T_dot; [exact Hg|exact E46]| |reflexivity].
    eapply Tr_cons; [apply T_dot_digit; exact Ed| |reflexivity].
    eapply Tr_weaken; [apply (T_digits Dot0); [right; reflexivity|apply skip_digits_nil_all; exact Hs]|intros ? HH; exact HH|].
    intros s [f [pcs [cx [bnd [al [Hf K]]]]]]. exists f, pcs, cx, bnd, al. split; [|exact K].
    subst f. unfold litdone. auto.
  - destruct (ch c 101 || ch c 69)%bool; [discriminate Hc|discriminate H].
Qed.

Lemma T_int stk n c r idx g u : lit_start c = Some (g, u) -> (g = S0 \/ g = S1) ->
  lex_int (c :: r) = Some [] -> noexp r = true ->
  Tr (Cfg (eq g) [] stk n false) idx r [] (Cfg litdone [] stk n false).
Proof.
  intros Hs Hg H Hne. unfold lex_int in H. change Scanner.ch with ch in H. change Scanner.is_digit19 with is_digit19 in H.
  unfold lit_start in Hs.
  destruct (ch c 48) eqn:E48.
  - assert (g = S0).
    { destruct (ch c 34) eqn:A; [blia|]. destruct (ch c 45) eqn:B; [blia|]. congruence. }
    subst g.
    apply T_frac; [left; reflexivity|exact H|exact Hne].
  - destruct (is_digit19 c) eqn:E19; [|discriminate H].
    assert (g = S1).
    { destruct (ch c 34) eqn:A; [blia|]. destruct (ch c 45) eqn:B; [blia|].
      destruct (ch c 116) eqn:C; [blia|]. destruct (ch c 102) eqn:D; [blia|]. destruct (ch c 110) eqn:F; [blia|].
      congruence. }
    subst g. rewrite (takedigits_skip r).
    eapply Tr_conv; [eapply Tr_trans; [apply (T_digits S1); [left; reflexivity|apply takedigits_all]|reflexivity|
                                      apply T_frac; [right; reflexivity|exact H|apply noexp_skip_digits; exact Hne]]
                    |reflexivity|reflexivity].
Qed.

Lemma T_number stk n c r idx g u : is_number_token (c :: r) = true -> noexp (c :: r) = true ->
  lit_start c = Some (g, u) ->
  Tr (Cfg (eq g) [] stk n u) idx r [] (Cfg litdone [] stk n false).
Proof.
  unfold is_number_token. intros H Hne Hs.
  destruct (lex_number (c :: r)) as [[|]|] eqn:El; try discriminate H. clear H.
  cbn [noexp forallb] in Hne. apply andb_prop in Hne. destruct Hne as [_ Hne].
  unfold lex_number in El. change Scanner.ch with ch in El.
  destruct (ch c 45) eqn:E45.
  - assert (g = Neg /\ u = true) as [-> ->].
    { unfold lit_start in Hs. destruct (ch c 34) eqn:A; [blia|]. rewrite E45 in Hs. inversion Hs. auto. }
    destruct r as [|d r']; [discriminate El|].
    cbn [noexp forallb] in Hne. apply andb_prop in Hne. destruct Hne as [_ Hne'].
    pose proof El as El'. unfold lex_int in El'. change Scanner.ch with ch in El'. change Scanner.is_digit19 with is_digit19 in El'.
    destruct (ch d 48) eqn:D48.
    + eapply Tr_cons; [apply T_neg0; exact D48| |reflexivity].
      apply (T_int stk n d r' _ S0 false); [|left; reflexivity|exact El|exact Hne'].
      unfold lit_start. destruct (ch d 34) eqn:A; [blia|]. destruct (ch d 45) eqn:B; [blia|]. rewrite D48. reflexivity.
    + destruct (is_digit19 d) eqn:D19; [|discriminate El'].
      eapply Tr_cons; [apply T_neg19; exact D19| |reflexivity].
      apply (T_int stk n d r' _ S1 false); [|right; reflexivity|exact El|exact Hne'].
      unfold lit_start. destruct (ch d 34) eqn:A; [blia|]. destruct (ch d 45) eqn:B; [blia|]. rewrite D48.
      destruct (ch d 116) eqn:C; [blia|]. destruct (ch d 102) eqn:D; [blia|]. destruct (ch d 110) eqn:F; [blia|].
      rewrite D19. reflexivity.
  - pose proof El as El'. unfold lex_int in El'. change Scanner.ch with ch in El'. change Scanner.is_digit19 with is_digit19 in El'.
    assert (Hg : (g = S0 \/ g = S1) /\ u = false).
    { unfold lit_start in Hs. rewrite E45 in Hs.
      destruct (ch c 48) eqn:B.
      { destruct (ch c 34) eqn:A; [blia|]. inversion Hs; auto. }
      destruct (is_digit19 c) eqn:D19; [|discriminate El'].
      destruct (ch c 34) eqn:A; [blia|].
      destruct (ch c 116) eqn:C; [blia|]. destruct (ch c 102) eqn:D; [blia|]. destruct (ch c 110) eqn:F; [blia|].
      inversion Hs; auto. }
    destruct Hg as [Hg ->]. apply (T_int stk n c r _ g false); [exact Hs|exact Hg|exact El|exact Hne].
Qed.

(* ---- true false null ---- *)
Ltac conc_step c := apply Tr_one; intros s [f [pcs [cx [bnd [al [Hf [Hn [Hni ->]]]]]]]]; subst f; fin_conc c.
Lemma T_w1 stk n idx u : Tr (Cfg (eq ST) [] stk n u) idx [x72] [] (Cfg (eq STr) [] stk n u).
Proof. conc_step x72. Qed.
Lemma T_w2 stk n idx u : Tr (Cfg (eq STr) [] stk n u) idx [x75] [] (Cfg (eq STru) [] stk n u).
Proof. conc_step x75. Qed.
Lemma T_w3 stk n idx u : Tr (Cfg (eq STru) [] stk n u) idx [x65] [] (Cfg (eq EndValue) [] stk n false).
Proof. conc_step x65. Qed.
Lemma T_w4 stk n idx u : Tr (Cfg (eq SF) [] stk n u) idx [x61] [] (Cfg (eq SFa) [] stk n u).
Proof. conc_step x61. Qed.
Lemma T_w5 stk n idx u : Tr (Cfg (eq SFa) [] stk n u) idx [x6c] [] (Cfg (eq SFal) [] stk n u).
Proof. conc_step x6c. Qed.
Lemma T_w6 stk n idx u : Tr (Cfg (eq SFal) [] stk n u) idx [x73] [] (Cfg (eq SFals) [] stk n u).
Proof. conc_step x73. Qed.
Lemma T_w7 stk n idx u : Tr (Cfg (eq SFals) [] stk n u) idx [x65] [] (Cfg (eq EndValue) [] stk n false).
Proof. conc_step x65. Qed.
Lemma T_w8 stk n idx u : Tr (Cfg (eq SN) [] stk n u) idx [x75] [] (Cfg (eq SNu) [] stk n u).
Proof. conc_step x75. Qed.
Lemma T_w9 stk n idx u : Tr (Cfg (eq SNu) [] stk n u) idx [x6c] [] (Cfg (eq SNul) [] stk n u).
Proof. conc_step x6c. Qed.
Lemma T_w10 stk n idx u : Tr (Cfg (eq SNul) [] stk n u) idx [x6c] [] (Cfg (eq EndValue) [] stk n false).
Proof. conc_step x6c. Qed.
Lemma T_true stk n idx u :
  Tr (Cfg (eq ST) [] stk n u) idx [x72; x75; x65] [] (Cfg (eq EndValue) [] stk n false).
Proof.
  eapply Tr_cons; [apply T_w1| |reflexivity]. eapply Tr_cons; [apply T_w2| |reflexivity]. apply T_w3.
Qed.
Lemma T_false stk n idx u :
  Tr (Cfg (eq SF) [] stk n u) idx [x61; x6c; x73; x65] [] (Cfg (eq EndValue) [] stk n false).
Proof.
  eapply Tr_cons; [apply T_w4| |reflexivity]. eapply Tr_cons; [apply T_w5| |reflexivity].
  eapply Tr_cons; [apply T_w6| |reflexivity]. apply T_w7.
Qed.
Lemma T_null stk n idx u :
  Tr (Cfg (eq SN) [] stk n u) idx [x75; x6c; x6c] [] (Cfg (eq EndValue) [] stk n false).
Proof.
  eapply Tr_cons; [apply T_w8| |reflexivity]. eapply Tr_cons; [apply T_w9| |reflexivity]. apply T_w10.
Qed.

(* ---- any literal token ---- *)
Definition tok_noexp (t : bytes) : bool := (negb (is_number_token t) || noexp t)%bool.

Lemma litdone_end s stk n u : Cfg (eq EndValue) [] stk n u s -> Cfg litdone [] stk n u s.
Proof.
  intros [f [pcs [cx [bnd [al [Hf K]]]]]]. exists f, pcs, cx, bnd, al. split; [|exact K]. left. symmetry. exact Hf.
Qed.

Lemma T_token t stk n idx :
  Grammar.wf (JTok t) = true -> tok_noexp t = true ->
  exists c r g u, t = c :: r /\ lit_start c = Some (g, u) /\
    Tr (Cfg (eq g) [] stk n u) (N.succ idx) r [] (Cfg litdone [] stk n false).
Proof.
  cbn [Grammar.wf]. unfold tok_noexp. intros Hw Hne.
  destruct (is_number_token t) eqn:En.
  - cbn [negb orb] in Hne. destruct t as [|c r]; [discriminate En|].
    pose proof En as En'. unfold is_number_token in En'.
    destruct (lex_number (c :: r)) as [x|] eqn:El; [|discriminate En'].
    pose proof (lex_number_start c r x El) as Hst. change Scanner.ch with ch in Hst. change Scanner.is_digit with is_digit in Hst.
    assert (Hls : exists g u, lit_start c = Some (g, u)).
    { unfold lit_start. destruct (ch c 34); [eauto|]. destruct (ch c 45) eqn:A; [eauto|]. destruct (ch c 48) eqn:B; [eauto|].
      destruct (ch c 116); [eauto|]. destruct (ch c 102); [eauto|]. destruct (ch c 110); [eauto|].
      assert (is_digit19 c = true) as -> by blia. eauto. }
    destruct Hls as [g [u Hls]]. exists c, r, g, u. split; [reflexivity|]. split; [exact Hls|].
    apply (T_number stk n c r _ g u); assumption.
  - cbn [orb] in Hw. destruct (is_string_token t) eqn:Es.
    + destruct t as [|q r]; [discriminate Es|]. unfold is_string_token in Es. change Scanner.ch with ch in Es.
      apply andb_prop in Es. destruct Es as [Eq Eb].
      destruct (lex_string_body r) as [[|]|] eqn:El; try discriminate Eb.
      exists q, r, InString, true. split; [reflexivity|]. split; [unfold lit_start; rewrite Eq; reflexivity|].
      eapply Tr_weaken; [apply (T_string_body stk n (length r) r); [lia|exact El]|intros ? HH; exact HH|intros ? HH; apply litdone_end; exact HH].
    + cbn [orb] in Hw. destruct (word_token_cases t Hw) as [-> | [-> | ->]].
      * exists x74, [x72; x75; x65], ST, true. split; [reflexivity|]. split; [reflexivity|].
        eapply Tr_weaken; [apply T_true|intros ? HH; exact HH|intros ? HH; apply litdone_end; exact HH].
      * exists x66, [x61; x6c; x73; x65], SF, true. split; [reflexivity|]. split; [reflexivity|].
        eapply Tr_weaken; [apply T_false|intros ? HH; exact HH|intros ? HH; apply litdone_end; exact HH].
      * exists x6e, [x75; x6c; x6c], SN, true. split; [reflexivity|]. split; [reflexivity|].
        eapply Tr_weaken; [apply T_null|intros ? HH; exact HH|intros ? HH; apply litdone_end; exact HH].
Qed.

(* ---- the byte after a value ---- *)
Definition VDone (lit : bool) (p : N) (stk : list (ev * N)) (n : nat) : sc -> Prop :=
  if lit then Cfg litdone [] ((LiteralBegin, p) :: stk) n false else Cfg (eq EndValue) [] stk n false.
Definition lit_end (lit : bool) (p e : N) : list lexev := if lit then [E LiteralEnd p e] else [].

Ltac done_cases lit Hs :=
  destruct lit; cbn [VDone lit_end] in Hs |- *;
  destruct Hs as [f [pcs [cx [bnd [al [Hf [Hn [Hni ->]]]]]]]];
  [destruct Hf as [Hf|[Hf|[Hf|Hf]]]; subst f|subst f].

Lemma T_item_blank lit p b c idx stk n : is_blank c = true ->
  Tr (VDone lit p ((ArrayItemBegin, b) :: stk) n) idx [c]
     (lit_end lit p (idx - 1) ++ [E ArrayItemEnd b (idx - 1)] ++ nl1 idx c)
     (Cfg (eq AfterArrayItem) [] stk n false).
Proof.
  intros Hb. apply Tr_one. intros s Hs. unfold nl1. done_cases lit Hs;
  (destruct (is_nl c) eqn:Hnl; (eexists; split; cycle 1; [intros pb r acc; step_tac c|cfg_solve])).
Qed.
Lemma T_item_comma lit p b c idx stk n : ch c 44 = true ->
  Tr (VDone lit p ((ArrayItemBegin, b) :: stk) n) idx [c]
     (lit_end lit p (idx - 1) ++ [E ArrayItemEnd b (idx - 1)])
     (Cfg (vs_fp VArr) [] stk n false).
Proof.
  intros Hc. rewrite (ch_byte c 44 x2c Hc eq_refl). apply Tr_one. intros s Hs. done_cases lit Hs;
  (eexists; split; cycle 1; [intros pb r acc; step_conc x2c|cfg_solve]).
Qed.
Lemma T_item_close lit p b a c idx stk n : ch c 93 = true ->
  Tr (VDone lit p ((ArrayItemBegin, b) :: (ArrayBegin, a) :: stk) (S n)) idx [c]
     (lit_end lit p (idx - 1) ++ [E ArrayItemEnd b (idx - 1); E ArrayEnd a idx])
     (Cfg (eq EndValue) [] stk n false).
Proof.
  intros Hc. rewrite (ch_byte c 93 x5d Hc eq_refl). apply Tr_one. intros s Hs. done_cases lit Hs;
  (destruct pcs as [|c0 pcs]; [discriminate Hn|]; cbn [length] in Hn;
   eexists; split; cycle 1; [intros pb r acc; step_conc x5d|cfg_solve]).
Qed.
Lemma T_after_item_comma c idx stk n : ch c 44 = true ->
  Tr (Cfg (eq AfterArrayItem) [] stk n false) idx [c] [] (Cfg (vs_fp VArr) [] stk n false).
Proof. intros Hc. rewrite (ch_byte c 44 x2c Hc eq_refl). conc_step x2c. Qed.
Lemma T_after_item_close a c idx stk n : ch c 93 = true ->
  Tr (Cfg (eq AfterArrayItem) [] ((ArrayBegin, a) :: stk) (S n) false) idx [c] [E ArrayEnd a idx]
     (Cfg (eq EndValue) [] stk n false).
Proof.
  intros Hc. rewrite (ch_byte c 93 x5d Hc eq_refl). apply Tr_one.
  intros s [f [pcs [cx [bnd [al [Hf [Hn [Hni ->]]]]]]]]; subst f.
  destruct pcs as [|c0 pcs]; [discriminate Hn|]; cbn [length] in Hn. fin_conc x5d.
Qed.
Lemma T_arr_empty_close a c idx stk n : ch c 93 = true ->
  Tr (Cfg (eq FoundArrayItemBeginOrEmpty) [] ((ArrayBegin, a) :: stk) (S n) false) idx [c] [E ArrayEnd a idx]
     (Cfg (eq EndValue) [] stk n false).
Proof.
  intros Hc. rewrite (ch_byte c 93 x5d Hc eq_refl). apply Tr_one.
  intros s [f [pcs [cx [bnd [al [Hf [Hn [Hni ->]]]]]]]]; subst f.
  destruct pcs as [|c0 pcs]; [discriminate Hn|]; cbn [length] in Hn. fin_conc x5d.
Qed.

Lemma T_val_blank lit p b c idx stk n : is_blank c = true ->
  Tr (VDone lit p ((ObjectValueBegin, b) :: stk) n) idx [c]
     (lit_end lit p (idx - 1) ++ [E ObjectValueEnd b (idx - 1)] ++ nl1 idx c)
     (Cfg (eq AfterObjectValue) [] stk n false).
Proof.
  intros Hb. apply Tr_one. intros s Hs. unfold nl1. done_cases lit Hs;
  (destruct (is_nl c) eqn:Hnl; (eexists; split; cycle 1; [intros pb r acc; step_tac c|cfg_solve])).
Qed.
Lemma T_val_comma lit p b c idx stk n : ch c 44 = true ->
  Tr (VDone lit p ((ObjectValueBegin, b) :: stk) n) idx [c]
     (lit_end lit p (idx - 1) ++ [E ObjectValueEnd b (idx - 1)])
     (Cfg (wfp WKey) [] stk n false).
Proof.
  intros Hc. rewrite (ch_byte c 44 x2c Hc eq_refl). apply Tr_one. intros s Hs. done_cases lit Hs;
  (eexists; split; cycle 1; [intros pb r acc; step_conc x2c|cfg_solve]).
Qed.
Lemma T_val_close lit p b a c idx stk n : ch c 125 = true ->
  Tr (VDone lit p ((ObjectValueBegin, b) :: (ObjectBegin, a) :: stk) (S n)) idx [c]
     (lit_end lit p (idx - 1) ++ [E ObjectValueEnd b (idx - 1); E ObjectEnd a idx])
     (Cfg (eq EndValue) [] stk n false).
Proof.
  intros Hc. rewrite (ch_byte c 125 x7d Hc eq_refl). apply Tr_one. intros s Hs. done_cases lit Hs;
  (destruct pcs as [|c0 pcs]; [discriminate Hn|]; cbn [length] in Hn;
   eexists; split; cycle 1; [intros pb r acc; step_conc x7d|cfg_solve]).
Qed.
Lemma T_after_val_comma c idx stk n : ch c 44 = true ->
  Tr (Cfg (eq AfterObjectValue) [] stk n false) idx [c] [] (Cfg (wfp WKey) [] stk n false).
Proof. intros Hc. rewrite (ch_byte c 44 x2c Hc eq_refl). conc_step x2c. Qed.
Lemma T_after_val_close a c idx stk n : ch c 125 = true ->
  Tr (Cfg (eq AfterObjectValue) [] ((ObjectBegin, a) :: stk) (S n) false) idx [c] [E ObjectEnd a idx]
     (Cfg (eq EndValue) [] stk n false).
Proof.
  intros Hc. rewrite (ch_byte c 125 x7d Hc eq_refl). apply Tr_one.
  intros s [f [pcs [cx [bnd [al [Hf [Hn [Hni ->]]]]]]]]; subst f.
  destruct pcs as [|c0 pcs]; [discriminate Hn|]; cbn [length] in Hn. fin_conc x7d.
Qed.
Lemma T_obj_empty_close a c idx stk n : ch c 125 = true ->
  Tr (Cfg (eq FoundObjectKeyBeginOrEmpty) [] ((ObjectBegin, a) :: stk) (S n) false) idx [c] [E ObjectEnd a idx]
     (Cfg (eq EndValue) [] stk n false).
Proof.
  intros Hc. rewrite (ch_byte c 125 x7d Hc eq_refl). apply Tr_one.
  intros s [f [pcs [cx [bnd [al [Hf [Hn [Hni ->]]]]]]]]; subst f.
  destruct pcs as [|c0 pcs]; [discriminate Hn|]; cbn [length] in Hn. fin_conc x7d.
Qed.

(* keys *)
Lemma T_key_start w c idx stk n : w = WKeyOrEmpty \/ w = WKey -> ch c 34 = true ->
  Tr (Cfg (wfp w) [] stk n false) idx [c] [E ObjectKeyBegin idx idx]
     (Cfg (eq InString) [] ((ObjectKeyBegin, idx) :: stk) n false).
Proof.
  intros Hw Hc. rewrite (ch_byte c 34 x22 Hc eq_refl). one_step x22.
  destruct Hw as [-> | ->]; cbn [wfp] in Hf; split_fp Hf f; fin_conc x22.
Qed.
Lemma T_key_blank b c idx stk n : is_blank c = true ->
  Tr (Cfg (eq EndValue) [] ((ObjectKeyBegin, b) :: stk) n false) idx [c]
     ([E ObjectKeyEnd b (idx - 1)] ++ nl1 idx c) (Cfg (eq AfterObjectKey) [] stk n false).
Proof.
  intros Hb. unfold nl1. apply Tr_one. intros s [f [pcs [cx [bnd [al [Hf [Hn [Hni ->]]]]]]]]; subst f.
  destruct (is_nl c) eqn:Hnl; fin_step c.
Qed.
Lemma T_key_colon b c idx stk n : ch c 58 = true ->
  Tr (Cfg (eq EndValue) [] ((ObjectKeyBegin, b) :: stk) n false) idx [c]
     [E ObjectKeyEnd b (idx - 1)] (Cfg (vs_fp VObj) [] stk n false).
Proof. intros Hc. rewrite (ch_byte c 58 x3a Hc eq_refl). conc_step x3a. Qed.
Lemma T_after_key_colon c idx stk n : ch c 58 = true ->
  Tr (Cfg (eq AfterObjectKey) [] stk n false) idx [c] [] (Cfg (vs_fp VObj) [] stk n false).
Proof. intros Hc. rewrite (ch_byte c 58 x3a Hc eq_refl). conc_step x3a. Qed.

(* the root *)
Lemma T_root_blank lit p c idx n : is_blank c = true ->
  Tr (VDone lit p [] n) idx [c] (lit_end lit p (idx - 1) ++ nl1 idx c) (Cfg (eq SEndTop) [] [] n false).
Proof.
  intros Hb. apply Tr_one. intros s Hs. unfold nl1. done_cases lit Hs;
  (destruct (is_nl c) eqn:Hnl; (eexists; split; cycle 1; [intros pb r acc; step_tac c|cfg_solve])).
Qed.

(* number tokens carry no exponent part (the schema scanner refuses 'e' and 'E' in a number) *)
Fixpoint no_exponent (v : jv) : bool :=
  match v with
  | JTok t => tok_noexp t
  | JArr0 _ | JObj0 _ => true
  | JArr items => forallb (fun i => let '(_, x, _) := i in no_exponent x) items
  | JObj ms => forallb (fun m => let '(_, _, _, _, x, _) := m in no_exponent x) ms
  end.

Definition is_tok (v : jv) : bool := match v with JTok _ => true | _ => false end.
Definition open_events (p : N) (v : jv) : list lexev :=
  match v with JTok _ => [E LiteralBegin p p] | _ => events_of p v end.
Lemma open_close p v :
  open_events p v ++ lit_end (is_tok v) p (p + len (render v) - 1) = events_of p v.
Proof. destruct v; cbn [open_events is_tok lit_end]; try apply app_nil_r. reflexivity. Qed.

Definition Vprop (x : jv) : Prop := forall k idx stk n,
  Tr (Cfg (vs_fp k) [] stk n false) idx (render x) (pre_evs k idx ++ open_events idx x)
     (VDone (is_tok x) idx (pre_stk k idx ++ stk) n).

Lemma Tr_ev P Q i bs evs evs' : Tr P i bs evs Q -> evs = evs' -> Tr P i bs evs' Q.
Proof. intros H ->. exact H. Qed.
Ltac len_solve := repeat (rewrite len_app || rewrite len_cons || rewrite len_nil); lia.
Ltac ev_fin := rewrite ?app_nil_r; repeat (progress (rewrite <- ?app_assoc; cbn [app])); try reflexivity;
  repeat match goal with
  | |- @eq (list _) (_ :: _) (_ :: _) => f_equal
  | |- @eq (list _) (_ ++ _) (_ ++ _) => f_equal
  | |- @eq lexev (E _ _ _) (E _ _ _) => f_equal
  | |- @eq (list lexev) (nls _ ?w) (nls _ ?w) => f_equal
  end; try reflexivity; try len_solve.

Lemma V_tok t : Grammar.wf (JTok t) = true -> tok_noexp t = true -> Vprop (JTok t).
Proof.
  intros Hw Hn k idx stk n. cbn [render open_events is_tok VDone].
  destruct (T_token t ((LiteralBegin, idx) :: pre_stk k idx ++ stk) n idx Hw Hn) as [c [r [g [u [-> [Hs Ht]]]]]].
  eapply Tr_cons; [apply T_start_lit; exact Hs|exact Ht|symmetry; apply app_nil_r].
Qed.

Lemma V_arr0 w : is_gap w = true -> Vprop (JArr0 w).
Proof.
  intros Hw k idx stk n. cbn [render open_events is_tok VDone events_of].
  eapply Tr_ev.
  - eapply Tr_trans; [apply T_start_arr; reflexivity|reflexivity|].
    eapply Tr_trans; [apply (T_gaps (eq FoundArrayItemBeginOrEmpty) w); [apply bclosed_eq; [reflexivity|discriminate]|exact Hw]
                     |reflexivity|].
    apply T_arr_empty_close; reflexivity.
  - rewrite <- app_assoc. reflexivity.
Qed.
Lemma V_obj0 w : is_gap w = true -> Vprop (JObj0 w).
Proof.
  intros Hw k idx stk n. cbn [render open_events is_tok VDone events_of].
  eapply Tr_ev.
  - eapply Tr_trans; [apply T_start_obj; reflexivity|reflexivity|].
    eapply Tr_trans; [apply (T_gaps (eq FoundObjectKeyBeginOrEmpty) w); [apply bclosed_eq; [reflexivity|discriminate]|exact Hw]
                     |reflexivity|].
    apply T_obj_empty_close; reflexivity.
  - rewrite <- app_assoc. reflexivity.
Qed.

(* ---- blanks and the separator after a value ---- *)
(* a '#' after a value: the value (and the item / property value / key) ends, a comment begins *)
Lemma T_item_hash lit p b idx stk n :
  Tr (VDone lit p ((ArrayItemBegin, b) :: stk) n) idx [x23]
     (lit_end lit p (idx - 1) ++ [E ArrayItemEnd b (idx - 1)])
     (Cfg (eq AnyCommentStart) [AfterArrayItem] stk n false).
Proof.
  apply Tr_one. intros s Hs. done_cases lit Hs;
  (eexists; split; cycle 1; [intros pb r acc; step_conc x23|cfg_solve]).
Qed.
Lemma T_val_hash lit p b idx stk n :
  Tr (VDone lit p ((ObjectValueBegin, b) :: stk) n) idx [x23]
     (lit_end lit p (idx - 1) ++ [E ObjectValueEnd b (idx - 1)])
     (Cfg (eq AnyCommentStart) [AfterObjectValue] stk n false).
Proof.
  apply Tr_one. intros s Hs. done_cases lit Hs;
  (eexists; split; cycle 1; [intros pb r acc; step_conc x23|cfg_solve]).
Qed.
Lemma T_key_hash b idx stk n :
  Tr (Cfg (eq EndValue) [] ((ObjectKeyBegin, b) :: stk) n false) idx [x23]
     [E ObjectKeyEnd b (idx - 1)] (Cfg (eq AnyCommentStart) [AfterObjectKey] stk n false).
Proof. conc_step x23. Qed.
Lemma T_root_hash lit p idx n :
  Tr (VDone lit p [] n) idx [x23] (lit_end lit p (idx - 1)) (Cfg (eq AnyCommentStart) [SEndTop] [] n false).
Proof.
  apply Tr_one. intros s Hs. done_cases lit Hs;
  (eexists; split; cycle 1; [intros pb r acc; step_conc x23|cfg_solve]).
Qed.

(* ---- a gap and the separator after a value ---- *)
Lemma tail_gap (VD R : sc -> Prop) g stk n (cl evsep : N -> list lexev) sep w2 q2 :
  waiting g = true -> g <> FoundObjectKeyBegin ->
  (forall c idx, is_blank c = true -> Tr VD idx [c] (cl (idx - 1) ++ nl1 idx c) (Cfg (eq g) [] stk n false)) ->
  (forall idx, Tr VD idx [x23] (cl (idx - 1)) (Cfg (eq AnyCommentStart) [g] stk n false)) ->
  (forall idx, Tr VD idx [sep] (cl (idx - 1) ++ evsep idx) R) ->
  (forall idx, Tr (Cfg (eq g) [] stk n false) idx [sep] (evsep idx) R) ->
  is_gap w2 = true ->
  Tr VD q2 (w2 ++ [sep]) (cl (q2 - 1) ++ nls q2 w2 ++ evsep (q2 + len w2)) R.
Proof.
  intros Hw Hne Hb Hh Hs1 Hs2 Hg. destruct w2 as [|c w2'].
  - cbn [app]. rewrite nls_nil, len_nil, N.add_0_r. apply Hs1.
  - destruct (gap_cons_cases false c w2' Hg) as [[Hc [H35 Hw']]|[-> Hw']]; cbn [app].
    + rewrite (nls_cons q2 c w2' H35).
      eapply Tr_ev.
      * eapply Tr_cons; [apply Hb; exact Hc| |reflexivity].
        eapply Tr_trans; [apply (T_gaps (eq g) w2'); [apply bclosed_eq; assumption|exact Hw']|reflexivity|apply Hs2].
      * rewrite <- !app_assoc. do 3 f_equal. f_equal. len_solve.
    + rewrite nls_hash.
      eapply Tr_ev.
      * eapply Tr_cons; [apply Hh| |reflexivity].
        eapply Tr_trans; [apply (T_gaps_hash (eq g) g w2'); [apply bclosed_eq; assumption|reflexivity|exact Hw']
                         |reflexivity|apply Hs2].
      * do 2 f_equal. f_equal. len_solve.
Qed.

Lemma item_tail_comma lit p b w2 sep q2 stk n : is_gap w2 = true -> ch sep 44 = true ->
  Tr (VDone lit p ((ArrayItemBegin, b) :: stk) n) q2 (w2 ++ [sep])
     (lit_end lit p (q2 - 1) ++ [E ArrayItemEnd b (q2 - 1)] ++ nls q2 w2) (Cfg (vs_fp VArr) [] stk n false).
Proof.
  intros Hw Hs. eapply Tr_ev.
  - apply (tail_gap _ _ AfterArrayItem stk n (fun e => lit_end lit p e ++ [E ArrayItemEnd b e]) (fun _ => []) sep w2 q2);
      [reflexivity|discriminate| | | | |exact Hw]; cbv beta.
    + intros c idx Hc. eapply Tr_ev; [apply T_item_blank; exact Hc|ev_fin].
    + intros idx. apply T_item_hash.
    + intros idx. eapply Tr_ev; [apply T_item_comma; exact Hs|ev_fin].
    + intros idx. apply T_after_item_comma; exact Hs.
  - cbv beta. ev_fin.
Qed.
Lemma item_tail_close lit p b a w2 sep q2 stk n : is_gap w2 = true -> ch sep 93 = true ->
  Tr (VDone lit p ((ArrayItemBegin, b) :: (ArrayBegin, a) :: stk) (S n)) q2 (w2 ++ [sep])
     (lit_end lit p (q2 - 1) ++ [E ArrayItemEnd b (q2 - 1)] ++ nls q2 w2 ++ [E ArrayEnd a (q2 + len w2)])
     (Cfg (eq EndValue) [] stk n false).
Proof.
  intros Hw Hs. eapply Tr_ev.
  - apply (tail_gap _ _ AfterArrayItem ((ArrayBegin, a) :: stk) (S n)
             (fun e => lit_end lit p e ++ [E ArrayItemEnd b e]) (fun i => [E ArrayEnd a i]) sep w2 q2);
      [reflexivity|discriminate| | | | |exact Hw]; cbv beta.
    + intros c idx Hc. eapply Tr_ev; [apply T_item_blank; exact Hc|ev_fin].
    + intros idx. apply T_item_hash.
    + intros idx. eapply Tr_ev; [apply T_item_close; exact Hs|ev_fin].
    + intros idx. apply T_after_item_close; exact Hs.
  - cbv beta. ev_fin.
Qed.
Lemma val_tail_comma lit p b w2 sep q2 stk n : is_gap w2 = true -> ch sep 44 = true ->
  Tr (VDone lit p ((ObjectValueBegin, b) :: stk) n) q2 (w2 ++ [sep])
     (lit_end lit p (q2 - 1) ++ [E ObjectValueEnd b (q2 - 1)] ++ nls q2 w2) (Cfg (wfp WKey) [] stk n false).
Proof.
  intros Hw Hs. eapply Tr_ev.
  - apply (tail_gap _ _ AfterObjectValue stk n (fun e => lit_end lit p e ++ [E ObjectValueEnd b e]) (fun _ => []) sep w2 q2);
      [reflexivity|discriminate| | | | |exact Hw]; cbv beta.
    + intros c idx Hc. eapply Tr_ev; [apply T_val_blank; exact Hc|ev_fin].
    + intros idx. apply T_val_hash.
    + intros idx. eapply Tr_ev; [apply T_val_comma; exact Hs|ev_fin].
    + intros idx. apply T_after_val_comma; exact Hs.
  - cbv beta. ev_fin.
Qed.
Lemma val_tail_close lit p b a w2 sep q2 stk n : is_gap w2 = true -> ch sep 125 = true ->
  Tr (VDone lit p ((ObjectValueBegin, b) :: (ObjectBegin, a) :: stk) (S n)) q2 (w2 ++ [sep])
     (lit_end lit p (q2 - 1) ++ [E ObjectValueEnd b (q2 - 1)] ++ nls q2 w2 ++ [E ObjectEnd a (q2 + len w2)])
     (Cfg (eq EndValue) [] stk n false).
Proof.
  intros Hw Hs. eapply Tr_ev.
  - apply (tail_gap _ _ AfterObjectValue ((ObjectBegin, a) :: stk) (S n)
             (fun e => lit_end lit p e ++ [E ObjectValueEnd b e]) (fun i => [E ObjectEnd a i]) sep w2 q2);
      [reflexivity|discriminate| | | | |exact Hw]; cbv beta.
    + intros c idx Hc. eapply Tr_ev; [apply T_val_blank; exact Hc|ev_fin].
    + intros idx. apply T_val_hash.
    + intros idx. eapply Tr_ev; [apply T_val_close; exact Hs|ev_fin].
    + intros idx. apply T_after_val_close; exact Hs.
  - cbv beta. ev_fin.
Qed.
Lemma key_tail b w2 sep q2 stk n : is_gap w2 = true -> ch sep 58 = true ->
  Tr (Cfg (eq EndValue) [] ((ObjectKeyBegin, b) :: stk) n false) q2 (w2 ++ [sep])
     ([E ObjectKeyEnd b (q2 - 1)] ++ nls q2 w2) (Cfg (vs_fp VObj) [] stk n false).
Proof.
  intros Hw Hs. eapply Tr_ev.
  - apply (tail_gap _ _ AfterObjectKey stk n (fun e => [E ObjectKeyEnd b e]) (fun _ => []) sep w2 q2);
      [reflexivity|discriminate| | | | |exact Hw]; cbv beta.
    + intros c idx Hc. apply T_key_blank; exact Hc.
    + intros idx. apply T_key_hash.
    + intros idx. eapply Tr_ev; [apply T_key_colon; exact Hs|ev_fin].
    + intros idx. apply T_after_key_colon; exact Hs.
  - cbv beta. ev_fin.
Qed.

(* ---- one array item / one object member, with the byte that follows it ---- *)
Lemma item_comma w1 x w2 sep q stk n :
  is_gap w1 = true -> Vprop x -> is_gap w2 = true -> ch sep 44 = true ->
  Tr (Cfg (vs_fp VArr) [] stk n false) q (ritem (w1, x, w2) ++ [sep])
     (item_events events_of q (w1, x, w2)) (Cfg (vs_fp VArr) [] stk n false).
Proof.
  intros H1 Hx H2 Hs. cbn [ritem item_events].
  eapply Tr_conv.
  - eapply Tr_trans; [apply (T_gaps (wfp (WVal VArr)) w1); [apply bclosed_wfp|exact H1]|reflexivity|].
    eapply Tr_trans; [apply (Hx VArr)|reflexivity|].
    apply item_tail_comma; [exact H2|exact Hs].
  - rewrite <- !app_assoc. reflexivity.
  - cbn [pre_evs pre_stk app]. rewrite <- (open_close (q + len w1) x). ev_fin.
Qed.
Lemma item_close w1 x w2 sep q a stk n :
  is_gap w1 = true -> Vprop x -> is_gap w2 = true -> ch sep 93 = true ->
  Tr (Cfg (vs_fp VArr) [] ((ArrayBegin, a) :: stk) (S n) false) q (ritem (w1, x, w2) ++ [sep])
     (item_events events_of q (w1, x, w2) ++ [E ArrayEnd a (q + len (ritem (w1, x, w2)))])
     (Cfg (eq EndValue) [] stk n false).
Proof.
  intros H1 Hx H2 Hs. cbn [ritem item_events].
  eapply Tr_conv.
  - eapply Tr_trans; [apply (T_gaps (wfp (WVal VArr)) w1); [apply bclosed_wfp|exact H1]|reflexivity|].
    eapply Tr_trans; [apply (Hx VArr)|reflexivity|].
    apply item_tail_close; [exact H2|exact Hs].
  - rewrite <- !app_assoc. reflexivity.
  - cbn [pre_evs pre_stk app]. rewrite <- (open_close (q + len w1) x). ev_fin.
Qed.

Definition item_ok (i : bytes * jv * bytes) : Prop :=
  let '(w1, x, w2) := i in is_gap w1 = true /\ Vprop x /\ is_gap w2 = true.
Definition mem_ok (m : bytes * bytes * bytes * bytes * jv * bytes) : Prop :=
  let '(w1, k, w2, w3, x, w4) := m in
  is_gap w1 = true /\ is_string_token k = true /\ is_gap w2 = true /\ is_gap w3 = true /\
  Vprop x /\ is_gap w4 = true.

Lemma items_run : forall items, items <> [] -> Forall item_ok items -> forall q a stk n,
  Tr (Cfg (vs_fp VArr) [] ((ArrayBegin, a) :: stk) (S n) false) q
     (join [x2c] (map ritem items) ++ [x5d])
     (items_events events_of q items ++ [E ArrayEnd a (q + len (join [x2c] (map ritem items)))])
     (Cfg (eq EndValue) [] stk n false).
Proof.
  induction items as [|[[w1 x] w2] l IH]; intros Hne HF q a stk n; [exfalso; apply Hne; reflexivity|].
  inversion HF as [|? ? Hi HF']; subst. cbn in Hi. destruct Hi as [H1 [Hx H2]].
  destruct l as [|j l].
  - cbn [map items_events]. rewrite join_one, app_nil_r. apply item_close; auto.
  - cbn [map] in IH |- *. rewrite join_cons2.
    change (items_events events_of q ((w1, x, w2) :: j :: l))
      with (item_events events_of q (w1, x, w2) ++ items_events events_of (q + len (ritem (w1, x, w2)) + 1) (j :: l)).
    eapply Tr_conv.
    + eapply Tr_trans; [apply (item_comma w1 x w2 x2c); auto|reflexivity|].
      apply IH; [discriminate|exact HF'].
    + rewrite <- !app_assoc. reflexivity.
    + replace (q + len (ritem (w1, x, w2) ++ [x2c])) with (q + len (ritem (w1, x, w2)) + 1) by len_solve.
      rewrite <- !app_assoc. do 3 f_equal. unfold E. f_equal. len_solve.
Qed.

Lemma key_run w k q stk n : w = WKeyOrEmpty \/ w = WKey -> is_string_token k = true ->
  Tr (Cfg (wfp w) [] stk n false) q k [E ObjectKeyBegin q q]
     (Cfg (eq EndValue) [] ((ObjectKeyBegin, q) :: stk) n false).
Proof.
  intros Hw Hk. destruct k as [|qc kr]; [discriminate Hk|]. unfold is_string_token in Hk.
  change Scanner.ch with ch in Hk. apply andb_prop in Hk. destruct Hk as [Hq Hb].
  destruct (lex_string_body kr) as [[|]|] eqn:El; try discriminate Hb.
  eapply Tr_cons; [apply T_key_start; [exact Hw|exact Hq]| |symmetry; apply app_nil_r].
  apply (T_string_body _ n (length kr) kr); [lia|exact El].
Qed.

Lemma mem_head w w1 k w2 w3 x q stk n :
  w = WKeyOrEmpty \/ w = WKey ->
  is_gap w1 = true -> is_string_token k = true -> is_gap w2 = true -> is_gap w3 = true -> Vprop x ->
  let q1 := q + len w1 in let q2 := q1 + len k in let q3 := q2 + len w2 + 1 in let q4 := q3 + len w3 in
  Tr (Cfg (wfp w) [] stk n false) q (w1 ++ k ++ w2 ++ [x3a] ++ w3 ++ render x)
     (nls q w1 ++ [E ObjectKeyBegin q1 q1; E ObjectKeyEnd q1 (q2 - 1)] ++ nls q2 w2 ++ nls q3 w3 ++
      [E ObjectValueBegin q4 q4] ++ open_events q4 x)
     (VDone (is_tok x) q4 ((ObjectValueBegin, q4) :: stk) n).
Proof.
  intros Hw H1 Hk H2 H3 Hx q1 q2 q3 q4.
  eapply Tr_conv.
  - eapply Tr_trans; [apply (T_gaps (wfp w) w1); [apply bclosed_wfp|exact H1]|reflexivity|].
    eapply Tr_trans; [apply (key_run w k); [exact Hw|exact Hk]|reflexivity|].
    eapply Tr_trans with (j := q3); [apply (key_tail _ w2 x3a); [exact H2|reflexivity]|subst q1 q2 q3; len_solve|].
    eapply Tr_trans with (j := q4); [apply (T_gaps (wfp (WVal VObj)) w3); [apply bclosed_wfp|exact H3]|reflexivity|].
    apply (Hx VObj).
  - rewrite <- !app_assoc. reflexivity.
  - subst q1 q2 q3 q4. cbn [pre_evs pre_stk app]. ev_fin.
Qed.

Lemma rmem_split w1 k w2 w3 x w4 (sep : byte) :
  rmem (w1, k, w2, w3, x, w4) ++ [sep] = (w1 ++ k ++ w2 ++ [x3a] ++ w3 ++ render x) ++ (w4 ++ [sep]).
Proof. cbn [rmem]. rewrite <- !app_assoc. reflexivity. Qed.

Lemma mem_comma w w1 k w2 w3 x w4 sep q stk n :
  w = WKeyOrEmpty \/ w = WKey -> mem_ok (w1, k, w2, w3, x, w4) -> ch sep 44 = true ->
  Tr (Cfg (wfp w) [] stk n false) q (rmem (w1, k, w2, w3, x, w4) ++ [sep])
     (mem_events events_of q (w1, k, w2, w3, x, w4)) (Cfg (wfp WKey) [] stk n false).
Proof.
  intros Hw [H1 [Hk [H2 [H3 [Hx H4]]]]] Hs. rewrite rmem_split. cbn [mem_events].
  eapply Tr_ev.
  - eapply Tr_trans; [apply (mem_head w w1 k w2 w3 x); assumption|reflexivity|].
    apply val_tail_comma; [exact H4|exact Hs].
  - cbv zeta. rewrite <- (open_close (q + len w1 + len k + len w2 + 1 + len w3) x).
    replace (q + len (w1 ++ k ++ w2 ++ [x3a] ++ w3 ++ render x))
      with (q + len w1 + len k + len w2 + 1 + len w3 + len (render x)) by len_solve.
    ev_fin.
Qed.
Lemma mem_close w w1 k w2 w3 x w4 sep q a stk n :
  w = WKeyOrEmpty \/ w = WKey -> mem_ok (w1, k, w2, w3, x, w4) -> ch sep 125 = true ->
  Tr (Cfg (wfp w) [] ((ObjectBegin, a) :: stk) (S n) false) q (rmem (w1, k, w2, w3, x, w4) ++ [sep])
     (mem_events events_of q (w1, k, w2, w3, x, w4) ++ [E ObjectEnd a (q + len (rmem (w1, k, w2, w3, x, w4)))])
     (Cfg (eq EndValue) [] stk n false).
Proof.
  intros Hw [H1 [Hk [H2 [H3 [Hx H4]]]]] Hs. rewrite rmem_split. cbn [mem_events].
  eapply Tr_ev.
  - eapply Tr_trans; [apply (mem_head w w1 k w2 w3 x); assumption|reflexivity|].
    apply val_tail_close; [exact H4|exact Hs].
  - cbv zeta. rewrite <- (open_close (q + len w1 + len k + len w2 + 1 + len w3) x).
    replace (q + len (w1 ++ k ++ w2 ++ [x3a] ++ w3 ++ render x))
      with (q + len w1 + len k + len w2 + 1 + len w3 + len (render x)) by len_solve.
    cbn [rmem]. ev_fin.
Qed.

Lemma mems_run : forall ms, ms <> [] -> Forall mem_ok ms -> forall w q a stk n,
  w = WKeyOrEmpty \/ w = WKey ->
  Tr (Cfg (wfp w) [] ((ObjectBegin, a) :: stk) (S n) false) q
     (join [x2c] (map rmem ms) ++ [x7d])
     (mems_events events_of q ms ++ [E ObjectEnd a (q + len (join [x2c] (map rmem ms)))])
     (Cfg (eq EndValue) [] stk n false).
Proof.
  induction ms as [|[[[[[w1 k] w2] w3] x] w4] l IH]; intros Hne HF w q a stk n Hw; [exfalso; apply Hne; reflexivity|].
  inversion HF as [|? ? Hi HF']; subst.
  destruct l as [|j l].
  - cbn [map mems_events]. rewrite join_one, app_nil_r. apply mem_close; auto.
  - cbn [map] in IH |- *. rewrite join_cons2.
    change (mems_events events_of q ((w1, k, w2, w3, x, w4) :: j :: l))
      with (mem_events events_of q (w1, k, w2, w3, x, w4) ++
            mems_events events_of (q + len (rmem (w1, k, w2, w3, x, w4)) + 1) (j :: l)).
    eapply Tr_conv.
    + eapply Tr_trans; [apply (mem_comma w w1 k w2 w3 x w4 x2c); auto|reflexivity|].
      apply IH; [discriminate|exact HF'|right; reflexivity].
    + rewrite <- !app_assoc. reflexivity.
    + replace (q + len (rmem (w1, k, w2, w3, x, w4) ++ [x2c])) with (q + len (rmem (w1, k, w2, w3, x, w4)) + 1) by len_solve.
      rewrite <- !app_assoc. do 3 f_equal. unfold E. f_equal. len_solve.
Qed.

(* ---- every well-formed value ---- *)
Lemma V_all : forall v, wfg is_gap v = true -> no_exponent v = true -> Vprop v.
Proof.
  induction v as [t|w|items IH|w|ms IH] using jv_ind2; intros Hw Hn.
  - apply V_tok; assumption.
  - apply V_arr0. exact Hw.
  - rewrite wfg_arr in Hw. apply andb_prop in Hw. destruct Hw as [Hlen Hw]. cbn [no_exponent] in Hn.
    assert (HF : Forall item_ok items).
    { rewrite forallb_forall in Hw, Hn. rewrite Forall_forall in IH |- *. intros [[w1 x] w2] Hin.
      specialize (Hw _ Hin). specialize (Hn _ Hin). specialize (IH _ Hin). cbn in Hw, Hn, IH |- *.
      apply andb_prop in Hw. destruct Hw as [Hw H2]. apply andb_prop in Hw. destruct Hw as [H1 Hx]. auto. }
    intros k idx stk n. rewrite render_arr. cbn [open_events is_tok VDone events_of].
    change (x5b :: join [x2c] (map ritem items) ++ [x5d]) with ([x5b] ++ (join [x2c] (map ritem items) ++ [x5d])).
    eapply Tr_ev.
    + eapply Tr_trans; [apply T_start_arr; reflexivity|reflexivity|].
      eapply Tr_weaken; [apply (items_run items); [intros ->; discriminate Hlen|exact HF]| |intros ? HH; exact HH].
      intros s Hs. eapply Cfg_sub; [|exact Hs]. intros f <-. left. reflexivity.
    + rewrite render_arr. ev_fin.
  - apply V_obj0. exact Hw.
  - rewrite wfg_obj in Hw. apply andb_prop in Hw. destruct Hw as [Hlen Hw]. cbn [no_exponent] in Hn.
    assert (HF : Forall mem_ok ms).
    { rewrite forallb_forall in Hw, Hn. rewrite Forall_forall in IH |- *. intros [[[[[w1 k] w2] w3] x] w4] Hin.
      specialize (Hw _ Hin). specialize (Hn _ Hin). specialize (IH _ Hin). cbn in Hw, Hn, IH |- *.
      repeat match type of Hw with (_ && _)%bool = true => apply andb_prop in Hw; destruct Hw as [Hw ?] end.
      repeat split; auto. }
    intros k idx stk n. rewrite render_obj. cbn [open_events is_tok VDone events_of].
    change (x7b :: join [x2c] (map rmem ms) ++ [x7d]) with ([x7b] ++ (join [x2c] (map rmem ms) ++ [x7d])).
    eapply Tr_ev.
    + eapply Tr_trans; [apply T_start_obj; reflexivity|reflexivity|].
      eapply Tr_weaken; [apply (mems_run ms); [intros ->; discriminate Hlen|exact HF|left; reflexivity]
                        | |intros ? HH; exact HH].
      intros s Hs. eapply Cfg_sub; [|exact Hs]. intros f <-. reflexivity.
    + rewrite render_obj. ev_fin.
Qed.

(* ---- the whole text ---- *)
Lemma cfg_new : Cfg (vs_fp VRoot) [] [] 0 false (new_scanner false).
Proof. exists FoundRootValue, [], (new_context CInitial), 0, true. repeat split. Qed.

(* at the end of the input nothing is open and the step is none of those that [tail] reports as an
   unfinished annotation start or ### comment *)
Lemma scan_closed bs evs (fp : st -> Prop) n u :
  (forall f, fp f -> unfinished_step f = false) ->
  Tr (Cfg (vs_fp VRoot) [] [] 0 false) 0 bs evs (Cfg fp [] [] n u) -> scan false bs = (evs, Done).
Proof.
  intros Hu H. destruct (H _ cfg_new None [] []) as [s' [pb' [[f [pcs [cx [bnd [al [Hf [Hn [Hni ->]]]]]]]] E1]]].
  rewrite app_nil_r in E1. unfold scan. rewrite E1.
  cbn [run s_stk s_step length tail]. rewrite (Hu f Hf). rewrite app_nil_r, frev_rev, rev_involutive. reflexivity.
Qed.
Lemma scan_open_lit bs evs (fp : st -> Prop) p n :
  (forall f, fp f -> unfinished_step f = false) ->
  Tr (Cfg (vs_fp VRoot) [] [] 0 false) 0 bs evs (Cfg fp [] [(LiteralBegin, p)] n false) ->
  scan false bs = (evs ++ [E LiteralEnd p (len bs - 1)], Done).
Proof.
  intros Hu H. destruct (H _ cfg_new None [] []) as [s' [pb' [[f [pcs [cx [bnd [al [Hf [Hn [Hni ->]]]]]]]] E1]]].
  rewrite app_nil_r in E1. unfold scan. rewrite E1.
  cbn [run s_stk length tail]. cbn. rewrite (Hu f Hf). cbv beta iota. rewrite app_nil_r.
  change (N.of_nat (length bs)) with (len bs).
  rewrite frev_rev. cbn [rev]. rewrite rev_involutive. reflexivity.
Qed.
Lemma litdone_finished f : litdone f -> unfinished_step f = false.
Proof. intros [-> | [-> | [-> | ->]]]; reflexivity. Qed.

Lemma scan_closed_gen bs evs (Q : sc -> Prop) :
  (forall s, Q s -> s_stk s = [] /\ unfinished_step (s_step s) = false) ->
  Tr (Cfg (vs_fp VRoot) [] [] 0 false) 0 bs evs Q -> scan false bs = (evs, Done).
Proof.
  intros HQ H. destruct (H _ cfg_new None [] []) as [s' [pb' [Hq E1]]].
  rewrite app_nil_r in E1. unfold scan. rewrite E1. cbn [run].
  destruct (HQ s' Hq) as [Hs Hu]. rewrite Hs. cbn [length tail]. rewrite Hs, Hu.
  rewrite app_nil_r, frev_rev, rev_involutive. reflexivity.
Qed.
Lemma GQ_closed fin (fp : st -> Prop) n s : (forall f, fp f -> unfinished_step f = false) ->
  GQ fin fp [] n s -> s_stk s = [] /\ unfinished_step (s_step s) = false.
Proof.
  intros Hu [[f [pcs [cx [bnd [al [Hf [Hn [Hni ->]]]]]]]]|[_ [g [_ [f [pcs [cx [bnd [al [Hf [Hn [Hni ->]]]]]]]]]]]].
  - split; [reflexivity|]. cbn [s_step]. apply Hu. exact Hf.
  - split; [reflexivity|]. cbn [s_step]. destruct Hf as [-> | ->]; reflexivity.
Qed.

(* the scan of a JSON value whose gaps hold blanks and line comments; the last gap may end inside a
   comment *)
Theorem scan_json_gaps : forall w1 v w2,
  is_gap w1 = true -> wfg is_gap v = true -> is_gap_end w2 = true -> no_exponent v = true ->
  scan false (w1 ++ render v ++ w2) = (text_events w1 v w2, Done).
Proof.
  intros w1 v w2 H1 Hv H2 Hn. unfold text_events.
  assert (Hpre : Tr (Cfg (vs_fp VRoot) [] [] 0 false) 0 (w1 ++ render v)
                    (nls 0 w1 ++ open_events (len w1) v) (VDone (is_tok v) (len w1) [] 0)).
  { eapply Tr_trans; [apply (T_gaps (wfp (WVal VRoot)) w1); [apply bclosed_wfp|exact H1]|reflexivity|].
    rewrite N.add_0_l. exact (V_all v Hv Hn VRoot (len w1) [] 0%nat). }
  destruct w2 as [|c w2'].
  - rewrite app_nil_r. rewrite nls_nil. rewrite app_nil_r.
    rewrite <- (open_close (len w1) v).
    destruct (is_tok v); cbn [VDone lit_end] in Hpre |- *.
    + rewrite (scan_open_lit _ _ _ _ _ litdone_finished Hpre). rewrite <- app_assoc. repeat f_equal. len_solve.
    + rewrite (scan_closed _ _ (eq EndValue) _ _ ltac:(intros f <-; reflexivity) Hpre). rewrite app_nil_r. reflexivity.
  - assert (Hcl : bclosed (eq SEndTop)) by (apply bclosed_eq; [reflexivity|discriminate]).
    set (q := len w1 + len (render v)).
    destruct (T_gaps_gen true (eq SEndTop) [] 0 Hcl (length w2') w2' (le_n _) (N.succ q)) as [G1 G2].
    assert (Hall : Tr (Cfg (vs_fp VRoot) [] [] 0 false) 0 ((w1 ++ render v) ++ c :: w2')
                      ((nls 0 w1 ++ open_events (len w1) v) ++
                       lit_end (is_tok v) (len w1) (q - 1) ++ nls q (c :: w2'))
                      (GQ true (eq SEndTop) [] 0)).
    { eapply Tr_trans; [exact Hpre|reflexivity|]. rewrite N.add_0_l, len_app. fold q.
      destruct (gap_cons_cases true c w2' H2) as [[Hc [H35 Hw']]|[-> Hw']].
      - rewrite (nls_cons q c w2' H35).
        eapply Tr_cons; [apply T_root_blank; exact Hc|apply (G1 Hw')|]. rewrite <- app_assoc. reflexivity.
      - rewrite nls_hash. eapply Tr_cons; [apply T_root_hash|apply (G2 GHash SEndTop ltac:(discriminate) eq_refl Hw')|reflexivity]. }
    rewrite <- app_assoc in Hall.
    rewrite (scan_closed_gen _ _ _ (fun s => GQ_closed true (eq SEndTop) 0 s ltac:(intros f <-; reflexivity)) Hall).
    rewrite <- (open_close (len w1) v). subst q. f_equal. ev_fin.
Qed.

Theorem scan_plain_json : forall w1 v w2,
  all_blank w1 = true -> Grammar.wf v = true -> all_blank w2 = true -> no_exponent v = true ->
  scan false (w1 ++ render v ++ w2) = (text_events w1 v w2, Done).
Proof.
  intros w1 v w2 H1 Hv H2 Hn. apply scan_json_gaps; [apply all_blank_gap; exact H1| |apply all_blank_gap; exact H2|exact Hn].
  apply (wfg_mono all_blank is_gap (all_blank_gap false)). rewrite wfg_blank. exact Hv.
Qed.

(* ================================================================== *)
(* B. the loader over the events of [render v]                          *)
(* ================================================================== *)
(* the tree the loader builds for a value that begins at offset p *)
Definition nd0 (k : nkind) (p e : N) (t : jt) (keys : list okey) : ndata := mknd k p e t [] [] [] [] keys false.
Definition tok_jt (t : bytes) : jt := match literal_json_type t with Some j => j | None => JUndef end.
Definition key_of (m : bytes * bytes * bytes * bytes * jv * bytes) : bytes :=
  let '(_, k, _, _, _, _) := m in Loader.unquote k.
Fixpoint keys_from (i : nat) (ms : list (bytes * bytes * bytes * bytes * jv * bytes)) : list okey :=
  match ms with
  | [] => []
  | m :: r => mkokey (key_of m) false i :: keys_from (Datatypes.S i) r
  end.
Section TN.
  Variable F : N -> jv -> tnode.
  Fixpoint item_nodes (q : N) (l : list (bytes * jv * bytes)) : list tnode :=
    match l with
    | [] => []
    | i :: r => (let '(w1, x, _) := i in F (q + len w1) x) :: item_nodes (q + len (ritem i) + 1) r
    end.
  Fixpoint mem_nodes (q : N) (l : list (bytes * bytes * bytes * bytes * jv * bytes)) : list tnode :=
    match l with
    | [] => []
    | m :: r => (let '(w1, k, w2, w3, x, _) := m in F (q + len w1 + len k + len w2 + 1 + len w3) x)
                :: mem_nodes (q + len (rmem m) + 1) r
    end.
End TN.
Fixpoint tnode_of (p : N) (v : jv) : tnode :=
  match v with
  | JTok t => TN (nd0 KLit p (p + len t - 1) (tok_jt t) []) []
  | JArr0 _ => TN (nd0 KArr p p JArray []) []
  | JArr items => TN (nd0 KArr p p JArray []) (rev (item_nodes tnode_of (p + 1) items))
  | JObj0 _ => TN (nd0 KObj p p JObject []) []
  | JObj ms => TN (nd0 KObj p p JObject (rev (keys_from 0 ms))) (rev (mem_nodes tnode_of (p + 1) ms))
  end.

Section LoaderRun.
Variable S : src.
Variable env : envt.

Definition LS (stk : list tnode) (root : option tnode) (st : lst) : Prop :=
  exists cnt, st = mklst MDefault cnt root stk None.

Definition LTr (P : lst -> Prop) (evs : list lexev) (Q : lst -> Prop) : Prop :=
  forall st, P st -> exists st', Q st' /\
    forall rest, run_events S env st (evs ++ rest) = run_events S env st' rest.

Lemma LTr_nil (P Q : lst -> Prop) : (forall st, P st -> Q st) -> LTr P [] Q.
Proof. intros H st Hs. exists st. split; [apply H; exact Hs|reflexivity]. Qed.
Lemma LTr_trans P Q R e1 e2 : LTr P e1 Q -> LTr Q e2 R -> LTr P (e1 ++ e2) R.
Proof.
  intros H1 H2 st Hs. destruct (H1 st Hs) as [s1 [Hq K1]]. destruct (H2 s1 Hq) as [s2 [Hr K2]].
  exists s2. split; [exact Hr|]. intros rest. rewrite <- app_assoc, K1, K2. reflexivity.
Qed.
Lemma LTr_ev P Q e e' : LTr P e Q -> e = e' -> LTr P e' Q.
Proof. intros H ->. exact H. Qed.
Lemma LTr_one (P Q : lst -> Prop) e :
  (forall st, P st -> exists st', Q st' /\ step S env st e = Ok st') -> LTr P [e] Q.
Proof.
  intros H st Hs. destruct (H st Hs) as [st' [Hq K]]. exists st'. split; [exact Hq|].
  intros rest. cbn [app run_events]. rewrite K. reflexivity.
Qed.
Lemma LTr_cons P Q R e es : LTr P [e] Q -> LTr Q es R -> LTr P (e :: es) R.
Proof. intros H1 H2. change (e :: es) with ([e] ++ es). eapply LTr_trans; eassumption. Qed.

(* line breaks only reset the counter of nodes per line *)
Lemma L_newline stk root q : LTr (LS stk root) [E NewLine q q] (LS stk root).
Proof.
  apply LTr_one. intros st [cnt ->]. eexists. split; [eexists; reflexivity|]. reflexivity.
Qed.
Lemma L_gev stk root : forall m w, (length w <= m)%nat -> forall g q,
  LTr (LS stk root) (gev g q w) (LS stk root).
Proof.
  induction m as [|m IH]; intros w Hm g q; (destruct w as [|c w]; [apply LTr_nil; auto|cbn [length] in Hm; try lia]).
  assert (Iw : forall g' q', LTr (LS stk root) (gev g' q' w) (LS stk root)) by (intros; apply IH; lia).
  assert (Hblk : LTr (LS stk root)
            match w with
            | x :: y :: r' => if (ch x 35 && ch y 35)%bool then gev GOut (q + 3) r' else gev GBlock (N.succ q) w
            | _ => []
            end (LS stk root)).
  { destruct w as [|x [|y r']]; try (apply LTr_nil; auto).
    destruct (ch x 35 && ch y 35)%bool; [apply IH; cbn [length] in Hm; lia|apply Iw]. }
  assert (Hnl2 : LTr (LS stk root) ([E NewLine (q - 1) (q - 1); E NewLine q q] ++ gev GOut (N.succ q) w) (LS stk root)).
  { cbn [app]. eapply LTr_cons; [apply L_newline|]. eapply LTr_cons; [apply L_newline|apply Iw]. }
  cbn [gev]. destruct g.
  - destruct (ch c 35); [apply Iw|]. destruct (is_nl c); [|apply Iw].
    cbn [app]. eapply LTr_cons; [apply L_newline|apply Iw].
  - destruct (ch c 35); [apply Iw|]. destruct (is_nl c); [exact Hnl2|apply Iw].
  - destruct (is_nl c); [exact Hnl2|apply Iw].
  - destruct (ch c 35); [apply Iw|apply LTr_nil; auto].
  - destruct (ch c 35); [exact Hblk|apply Iw].
Qed.
Lemma L_nls stk root w : forall q, LTr (LS stk root) (nls q w) (LS stk root).
Proof. intros q. apply (L_gev stk root (length w)). apply le_n. Qed.

(* ---- where a piece of the text lies ---- *)
Definition At (p : N) (bs : bytes) : Prop :=
  s_len S = len (s_text S) /\ exists pre post, s_text S = pre ++ bs ++ post /\ len pre = p.

Lemma At_sub p a b c : At p (a ++ b ++ c) -> At (p + len a) b.
Proof.
  intros [Hl [pre [post [Ht Hp]]]]. split; [exact Hl|].
  exists (pre ++ a), (c ++ post). split.
  - rewrite Ht, <- !app_assoc. reflexivity.
  - rewrite len_app, Hp. reflexivity.
Qed.
Lemma At_head p a b : At p (a ++ b) -> At p a.
Proof.
  intros H. assert (H' : At p ([] ++ a ++ b)) by exact H. apply At_sub in H'. rewrite len_nil, N.add_0_r in H'. exact H'.
Qed.
Lemma At_tail p a b : At p (a ++ b) -> At (p + len a) b.
Proof. intros H. apply (At_sub p a b []). rewrite app_nil_r. exact H. Qed.

Lemma firstn_len_app {A} (a b : list A) : firstn (length a) (a ++ b) = a.
Proof. induction a as [|x a IH]; cbn; [destruct b; reflexivity|rewrite IH; reflexivity]. Qed.
Lemma skipn_len_app {A} (a b : list A) : skipn (length a) (a ++ b) = b.
Proof. induction a as [|x a IH]; cbn; [reflexivity|exact IH]. Qed.

Lemma slice_at p bs : At p bs -> bs <> [] -> slice S p (p + len bs - 1) = Some bs.
Proof.
  intros [Hl [pre [post [Ht Hp]]]] Hne. unfold slice. cbv zeta.
  assert (Hb : 1 <= len bs). { destruct bs; [exfalso; apply Hne; reflexivity|rewrite len_cons; lia]. }
  replace (p + len bs - 1 + 1) with (p + len bs) by lia.
  assert (H1 : (p + len bs <? p) = false) by (apply N.ltb_ge; lia).
  assert (H2 : (s_len S <? p + len bs) = false).
  { apply N.ltb_ge. rewrite Hl, Ht, !len_app, Hp. lia. }
  rewrite H1, H2. cbn [orb]. f_equal.
  replace (p + len bs - p) with (len bs) by lia.
  rewrite Ht, <- Hp. unfold len. rewrite !Nat2N.id, skipn_len_app, firstn_len_app. reflexivity.
Qed.

(* ---- entering and leaving a value ---- *)
Definition after_open (stk : list tnode) : option (list tnode) :=
  match stk with
  | [] => Some []
  | TN d ch :: rest =>
    if nd_wait d then
      match nd_kind d with
      | KObj | KArr => Some (TN (set_wait false d) ch :: rest)
      | _ => None
      end
    else None
  end.
Definition root_open (stk : list tnode) (root : option tnode) : option tnode :=
  match stk with [] => None | _ => root end.
Definition attach_stk (n : tnode) (stk' : list tnode) : list tnode :=
  match stk' with [] => [] | TN pd pch :: r => TN pd (n :: pch) :: r end.
Definition attach_root (n : tnode) (stk' : list tnode) (root : option tnode) : option tnode :=
  match stk' with [] => Some n | _ => root end.

Definition kind_jt (t : ev) : option (nkind * jt) :=
  match t with
  | LiteralBegin => Some (KLit, JUndef) | ObjectBegin => Some (KObj, JObject) | ArrayBegin => Some (KArr, JArray)
  | _ => None
  end.

Lemma L_open t k j p stk stk' root : kind_jt t = Some (k, j) -> after_open stk = Some stk' ->
  LTr (LS stk root) [E t p p] (LS (TN (nd0 k p p j []) [] :: stk') (root_open stk root)).
Proof.
  intros Hk Ho. apply LTr_one. intros st [cnt ->].
  destruct stk as [|[d ch] rest]; cbn [after_open] in Ho.
  - inversion Ho; subst stk'.
    destruct t; try discriminate Hk; inversion Hk; subst k j;
      (eexists; split; [eexists; reflexivity|reflexivity]).
  - destruct d as [kd lb le jt0 cs note mval mst keys wt]. cbn [nd_wait nd_kind] in Ho.
    destruct wt; [|discriminate Ho].
    destruct kd; try discriminate Ho; inversion Ho; subst stk';
      (destruct t; try discriminate Hk; inversion Hk; subst k j;
       (eexists; split; [eexists; reflexivity|reflexivity])).
Qed.

Lemma L_close_lit p t stk' root : At p t -> t <> [] -> literal_json_type t <> None ->
  LTr (LS (TN (nd0 KLit p p JUndef []) [] :: stk') root) [E LiteralEnd p (p + len t - 1)]
      (LS (attach_stk (tnode_of p (JTok t)) stk') (attach_root (tnode_of p (JTok t)) stk' root)).
Proof.
  intros Ha Hne Hj. apply LTr_one. intros st [cnt ->].
  cbn [tnode_of]. unfold tok_jt. destruct (literal_json_type t) as [j|] eqn:Ej; [|exfalso; apply Hj; reflexivity].
  unfold step. cbn [l_mode e_type E]. unfold node_load. cbn [e_type E l_stack e_begin]. unfold grow.
  cbn [nd0 nd_kind e_type E]. unfold evalue, value. cbn [e_begin e_end E]. rewrite (slice_at p t Ha Hne), Ej.
  destruct stk' as [|[pd pch] r]; (eexists; split; [eexists; reflexivity|reflexivity]).
Qed.

Lemma L_close k j t p e ch keys stk' root :
  (k = KArr /\ t = ArrayEnd) \/ (k = KObj /\ t = ObjectEnd) ->
  LTr (LS (TN (nd0 k p p j keys) ch :: stk') root) [E t p e]
      (LS (attach_stk (TN (nd0 k p p j keys) ch) stk') (attach_root (TN (nd0 k p p j keys) ch) stk' root)).
Proof.
  intros Hk. apply LTr_one. intros st [cnt ->].
  destruct Hk as [[-> ->]|[-> ->]]; (destruct stk' as [|[pd pch] r]; (eexists; split; [eexists; reflexivity|reflexivity])).
Qed.

(* events that leave the open container as it is *)
Lemma L_stay k j t p b e ch keys stk' root :
  (k = KArr /\ t = ArrayItemEnd) \/ (k = KObj /\ (t = ObjectKeyBegin \/ t = ObjectValueEnd)) ->
  LTr (LS (TN (nd0 k p p j keys) ch :: stk') root) [E t b e] (LS (TN (nd0 k p p j keys) ch :: stk') root).
Proof.
  intros Hk. apply LTr_one. intros st [cnt ->].
  destruct Hk as [[-> ->]|[-> [-> | ->]]]; (eexists; split; [eexists; reflexivity|reflexivity]).
Qed.
(* the container waits for a child *)
Lemma L_wait k j t p b e ch keys stk' root :
  (k = KArr /\ t = ArrayItemBegin) \/ (k = KObj /\ t = ObjectValueBegin) ->
  LTr (LS (TN (nd0 k p p j keys) ch :: stk') root) [E t b e]
      (LS (TN (set_wait true (nd0 k p p j keys)) ch :: stk') root).
Proof.
  intros Hk. apply LTr_one. intros st [cnt ->].
  destruct Hk as [[-> ->]|[-> ->]]; (eexists; split; [eexists; reflexivity|reflexivity]).
Qed.
Lemma after_open_wait k j p ch keys stk' : k = KArr \/ k = KObj ->
  after_open (TN (set_wait true (nd0 k p p j keys)) ch :: stk') = Some (TN (nd0 k p p j keys) ch :: stk').
Proof. intros [-> | ->]; reflexivity. Qed.

(* a key: recorded unless it is already there *)
Lemma first_not_at c r : ch c 34 = true -> is_user_type_name (c :: r) = false.
Proof.
  intros H. unfold is_user_type_name. destruct r; [reflexivity|].
  assert (ch c 64 = false) as -> by blia. reflexivity.
Qed.

Lemma L_key p j q k ch keys stk' root :
  At q k -> is_string_token k = true ->
  existsb (fun o => (beq (k_key o) (Loader.unquote k) && Bool.eqb (k_short o) false)%bool) keys = false ->
  LTr (LS (TN (nd0 KObj p p j keys) ch :: stk') root) [E ObjectKeyEnd q (q + len k - 1)]
      (LS (TN (nd0 KObj p p j (mkokey (Loader.unquote k) false (length ch) :: keys)) ch :: stk') root).
Proof.
  intros Ha Hk Hd. apply LTr_one. intros st [cnt ->].
  assert (Hne : k <> []) by (intros ->; discriminate Hk).
  assert (Hs : is_user_type_name k = false).
  { destruct k as [|c r]; [reflexivity|]. unfold is_string_token in Hk. apply andb_prop in Hk. destruct Hk as [Hk _].
    apply first_not_at. exact Hk. }
  unfold step. cbn [l_mode e_type E]. unfold node_load. cbn [e_type E l_stack e_begin]. unfold grow.
  cbn [nd0 nd_kind nd_wait e_type E]. unfold add_key, evalue, value. cbn [e_begin e_end E].
  rewrite (slice_at q k Ha Hne). cbv zeta. rewrite Hs. change (nd_keys (nd0 KObj p p j keys)) with keys. rewrite Hd.
  eexists; split; [eexists; reflexivity|reflexivity].
Qed.
End LoaderRun.

(* ---- the JSON type the loader guesses for a literal ---- *)
Lemma lsb_last : forall m bs, (length bs <= m)%nat -> lex_string_body bs = Some [] ->
  exists b0 c, bs = b0 ++ [c] /\ ch c 34 = true.
Proof.
  induction m as [|m IH]; intros bs Hm H.
  - destruct bs; [discriminate H|cbn [length] in Hm; lia].
  - destruct bs as [|c r]; [discriminate H|]. cbn [length] in Hm. rewrite lsb_cons in H.
    change Scanner.ch with ch in H. change Scanner.is_ctl with is_ctl in H. change Scanner.is_hex with is_hex in H.
    destruct (ch c 34) eqn:E34.
    { inversion H; subst r. exists [], c. split; [reflexivity|exact E34]. }
    assert (Hrec : forall r', (length r' <= m)%nat -> lex_string_body r' = Some [] -> forall pre, c :: r = pre ++ r' ->
              exists b0 c0, c :: r = b0 ++ [c0] /\ ch c0 34 = true).
    { intros r' Hl Hr pre Hp. destruct (IH r' Hl Hr) as [b0 [c0 [E1 E2]]]. exists (pre ++ b0), c0.
      split; [rewrite Hp, E1, app_assoc; reflexivity|exact E2]. }
    destruct (ch c 92) eqn:E92.
    + destruct r as [|e r']; [discriminate H|]. cbn [length] in Hm.
      destruct (is_esc1 e).
      { apply (Hrec r' ltac:(lia) H [c; e]). reflexivity. }
      destruct (ch e 117); [|discriminate H].
      destruct r' as [|h1 [|h2 [|h3 [|h4 r']]]]; try discriminate H. cbn [length] in Hm.
      destruct (is_hex h1 && is_hex h2 && is_hex h3 && is_hex h4)%bool; [|discriminate H].
      apply (Hrec r' ltac:(lia) H [c; e; h1; h2; h3; h4]). reflexivity.
    + destruct (is_ctl c); [discriminate H|]. apply (Hrec r ltac:(lia) H [c]). reflexivity.
Qed.

Lemma in_quotes_string t : is_string_token t = true -> Loader.in_quotes t = true.
Proof.
  intros H. destruct t as [|q r]; [discriminate H|]. unfold is_string_token in H. apply andb_prop in H. destruct H as [Hq Hb].
  destruct (lex_string_body r) as [[|]|] eqn:El; try discriminate Hb.
  destruct (lsb_last (length r) r ltac:(lia) El) as [b0 [c [-> Hc]]].
  unfold Loader.in_quotes, Unquote.in_quotes. rewrite frev_rev, rev_app_distr. cbn [rev app].
  change (Unquote.bN q) with (bN q). change (Unquote.bN c) with (bN c).
  change (Scanner.ch q 34) with (ch q 34) in Hq. change ((ch q 34 && ch c 34)%bool = true). rewrite Hq, Hc. reflexivity.
Qed.

Definition has_dot (t : bytes) : bool := existsb (fun c => byte_eqb c x2e) t.
Lemma byte_eqb_ch c (d : byte) : byte_eqb c d = ch c (Byte.to_N d).
Proof. reflexivity. Qed.

Lemma has_e_noexp t : noexp t = true -> NumModel.has_byte (fun c => (byte_eqb c x65 || byte_eqb c x45)%bool) t = false.
Proof.
  unfold noexp, NumModel.has_byte. induction t as [|c r IH]; [reflexivity|]. cbn [forallb existsb].
  intros H. apply andb_prop in H. destruct H as [Hc Hr]. rewrite (IH Hr), orb_false_r.
  unfold not_e in Hc. rewrite !byte_eqb_ch. change (Byte.to_N x65) with 101. change (Byte.to_N x45) with 69.
  apply negb_true_iff in Hc. exact Hc.
Qed.

(* a number token without '.', 'e', 'E' is a sign and an integer part *)
Lemma int_token_parts c r : lex_int (c :: r) = Some [] -> noexp r = true -> has_dot r = false ->
  NumSpec.wf_ip (c :: r) = true.
Proof.
  intros H Hn Hd. unfold lex_int in H. change Scanner.ch with ch in H. change Scanner.is_digit19 with is_digit19 in H.
  assert (Hfe : forall bs, lex_frac_exp bs = Some [] -> noexp bs = true -> has_dot bs = false -> bs = []).
  { intros bs Hb Hnb Hdb. destruct bs as [|d bs']; [reflexivity|]. exfalso.
    unfold lex_frac_exp in Hb. change Scanner.ch with ch in Hb.
    cbn [has_dot existsb] in Hdb. apply orb_false_iff in Hdb. destruct Hdb as [Hd1 _].
    rewrite byte_eqb_ch in Hd1. change (Byte.to_N x2e) with 46 in Hd1. rewrite Hd1 in Hb.
    cbn [noexp forallb] in Hnb. apply andb_prop in Hnb. destruct Hnb as [Hc _]. unfold not_e in Hc.
    destruct (ch d 101 || ch d 69)%bool; [discriminate Hc|discriminate Hb]. }
  destruct (ch c 48) eqn:E48.
  - rewrite (Hfe r H Hn Hd). cbn [NumSpec.wf_ip]. unfold NumModel.is_digit. blia.
  - destruct (is_digit19 c) eqn:E19; [|discriminate H].
    assert (Hs : skip_digits r = []).
    { apply Hfe; [exact H|apply noexp_skip_digits; exact Hn|].
      rewrite (takedigits_skip r) in Hd. unfold has_dot in Hd. rewrite existsb_app in Hd.
      apply orb_false_iff in Hd. destruct Hd as [_ Hd]. exact Hd. }
    pose proof (skip_digits_nil_all r Hs) as Hall.
    assert (Hc : NumModel.is_nonzero_digit c = true) by (unfold NumModel.is_nonzero_digit; blia).
    assert (Had : NumSpec.all_digits (c :: r) = true).
    { unfold NumSpec.all_digits. cbn [forallb]. apply andb_true_intro. split; [unfold NumModel.is_digit; blia|].
      exact Hall. }
    cbn [NumSpec.wf_ip]. destruct r; [unfold NumModel.is_digit; blia|]. rewrite Hc, Had. reflexivity.
Qed.

Lemma scan_int_token t : is_number_token t = true -> noexp t = true -> has_dot t = false ->
  exists n, NumModel.scan t = Some n /\ NumModel.n_exp n = 0%nat.
Proof.
  unfold is_number_token. intros H Hn Hd.
  destruct (lex_number t) as [[|]|] eqn:El; try discriminate H. clear H.
  destruct t as [|c r]; [discriminate El|]. unfold lex_number in El. change Scanner.ch with ch in El.
  cbn [noexp forallb] in Hn. apply andb_prop in Hn. destruct Hn as [_ Hn].
  cbn [has_dot existsb] in Hd. apply orb_false_iff in Hd. destruct Hd as [_ Hd].
  assert (G : forall (neg : bool) ip, NumSpec.wf_ip ip = true ->
              exists n, NumModel.scan ((if neg then [x2d] else []) ++ ip) = Some n /\ NumModel.n_exp n = 0%nat).
  { intros neg ip Hip.
    destruct (NumProofs.scan_render_value (NumSpec.mknumeral neg ip None None)) as [n [Hs [Hc Hv]]].
    - unfold NumSpec.wf_numeral. cbn. rewrite Hip. reflexivity.
    - unfold NumSpec.exp_fits, NumSpec.exp_in_int, NumSpec.u_expval, NumSpec.u_fdigits.
      cbn [NumSpec.u_exp NumSpec.u_fd NumSpec.u_ip andb length].
      unfold NumModel.max_exponent_zeros.
      apply andb_true_intro. split; apply BinInt.Z.leb_le; lia.
    - unfold NumSpec.zero_int_then_exp. cbn. destruct ip as [|? [|]]; reflexivity.
    - unfold NumSpec.render in Hs. cbn in Hs. rewrite app_nil_r in Hs. exists n. split; [exact Hs|].
      apply (NumProofs.integer_iff n Hc).
      exists (if neg then BinInt.Z.opp (BinInt.Z.of_N (NumSpec.dec (ip ++ []))) else BinInt.Z.of_N (NumSpec.dec (ip ++ []))).
      rewrite Hv. unfold NumSpec.numeral_value, NumSpec.u_expval, NumSpec.u_fdigits. cbn.
      apply QArith_base.Qmult_1_r. }
  destruct (ch c 45) eqn:E45.
  - rewrite (ch_byte c 45 x2d E45 eq_refl). destruct r as [|d r']; [discriminate El|].
    cbn [noexp forallb] in Hn. apply andb_prop in Hn. destruct Hn as [_ Hn'].
    cbn [has_dot existsb] in Hd. apply orb_false_iff in Hd. destruct Hd as [_ Hd'].
    apply (G true (d :: r')). apply int_token_parts; assumption.
  - apply (G false (c :: r)). apply int_token_parts; assumption.
Qed.

Lemma beq_first c r (d : byte) l : byte_eqb c d = false -> beq (c :: r) (d :: l) = false.
Proof. intros H. cbn [beq]. rewrite H. reflexivity. Qed.

(* the JSON kind of a token, read off its text *)
Definition tok_kind (t : bytes) : jt :=
  match t with
  | [] => JUndef
  | c :: _ =>
    if ch c 34 then JString
    else if (ch c 116 || ch c 102)%bool then JBoolean
    else if ch c 110 then JNull
    else if has_dot t then JFloat else JInteger
  end.

Lemma tok_type t : Grammar.wf (JTok t) = true -> tok_noexp t = true -> literal_json_type t = Some (tok_kind t).
Proof.
  cbn [Grammar.wf]. unfold tok_noexp. intros Hw Hne. unfold literal_json_type.
  destruct (is_number_token t) eqn:En.
  - cbn [negb orb] in Hne. destruct t as [|c r]; [discriminate En|].
    pose proof En as En'. unfold is_number_token in En'.
    destruct (lex_number (c :: r)) as [x|] eqn:El; [|discriminate En'].
    pose proof (lex_number_start c r x El) as Hst.
    assert (Hq : Loader.in_quotes (c :: r) = false).
    { unfold Loader.in_quotes, Unquote.in_quotes. change (Unquote.bN c) with (bN c).
      assert (bN c =? 34 = false) as -> by blia. reflexivity. }
    rewrite Hq. unfold is.
    repeat match goal with |- context [of_string ?s] =>
      let v := eval vm_compute in (of_string s) in change (of_string s) with v end.
    rewrite (beq_first c r x74) by (rewrite byte_eqb_ch; cbn [Byte.to_N]; blia).
    rewrite (beq_first c r x66) by (rewrite byte_eqb_ch; cbn [Byte.to_N]; blia).
    rewrite (beq_first c r x6e) by (rewrite byte_eqb_ch; cbn [Byte.to_N]; blia). cbn [orb].
    unfold tok_kind.
    assert (ch c 34 = false) as -> by blia. assert (ch c 116 = false) as -> by blia.
    assert (ch c 102 = false) as -> by blia. assert (ch c 110 = false) as -> by blia. cbn [orb].
    unfold NumModel.is_integer, NumModel.is_float, NumModel.dot_without_exp.
    rewrite (has_e_noexp _ Hne). cbn [negb]. rewrite andb_true_r.
    change (NumModel.has_byte (fun c0 => byte_eqb c0 x2e) (c :: r)) with (has_dot (c :: r)).
    destruct (has_dot (c :: r)) eqn:Ed; [reflexivity|].
    destruct (scan_int_token (c :: r) En Hne Ed) as [n [Hs Hx]].
    rewrite Hs, Hx. reflexivity.
  - cbn [orb] in Hw. destruct (is_string_token t) eqn:Es.
    + rewrite (in_quotes_string t Es). destruct t as [|q r]; [discriminate Es|].
      unfold is_string_token in Es. apply andb_prop in Es. destruct Es as [Eq _].
      unfold tok_kind. change (Scanner.ch q 34) with (ch q 34) in Eq. rewrite Eq. reflexivity.
    + cbn [orb] in Hw. destruct (word_token_cases t Hw) as [-> | [-> | ->]]; vm_compute; reflexivity.
Qed.
Lemma tok_type_some t : Grammar.wf (JTok t) = true -> tok_noexp t = true -> literal_json_type t <> None.
Proof. intros Hw Hn. rewrite (tok_type t Hw Hn). discriminate. Qed.
Lemma tok_jt_kind t : Grammar.wf (JTok t) = true -> tok_noexp t = true -> tok_jt t = tok_kind t.
Proof. intros Hw Hn. unfold tok_jt. rewrite (tok_type t Hw Hn). reflexivity. Qed.

(* every object has pairwise distinct keys, compared as the loader stores them *)
Fixpoint keys_fresh (seen : list bytes) (ks : list bytes) : bool :=
  match ks with
  | [] => true
  | k :: r => (negb (existsb (fun s => beq s k) seen) && keys_fresh (k :: seen) r)%bool
  end.
Fixpoint distinct_keys (v : jv) : bool :=
  match v with
  | JTok _ | JArr0 _ | JObj0 _ => true
  | JArr items => forallb (fun i => let '(_, x, _) := i in distinct_keys x) items
  | JObj ms =>
    (keys_fresh [] (map key_of ms) &&
     forallb (fun m => let '(_, _, _, _, x, _) := m in distinct_keys x) ms)%bool
  end.

Section LoaderTree.
Variable S : src.
Variable env : envt.

Lemma At_part p bs a b c q : At S p bs -> bs = a ++ b ++ c -> q = p + len a -> At S q b.
Proof. intros H -> ->. apply (At_sub S p a b c H). Qed.

Fixpoint parts_at {A} (r : A -> bytes) (q : N) (l : list A) : Prop :=
  match l with
  | [] => True
  | a :: t => At S q (r a) /\ parts_at r (q + len (r a) + 1) t
  end.
Lemma parts_at_join {A} (r : A -> bytes) : forall l q, At S q (join [x2c] (map r l)) -> parts_at r q l.
Proof.
  induction l as [|a [|b l] IH]; intros q H; cbn [parts_at]; [exact I| |].
  - cbn [map] in H. rewrite join_one in H. split; [exact H|exact I].
  - cbn [map] in H, IH. rewrite join_cons2 in H. split.
    + apply (At_head S q _ _ H).
    + apply IH. apply (At_part q _ (r a ++ [x2c]) (join [x2c] (r b :: map r l)) [] _ H).
      * rewrite app_nil_r, <- app_assoc. reflexivity.
      * len_solve.
Qed.

Definition Bprop (x : jv) : Prop := forall p stk stk' root,
  At S p (render x) -> after_open stk = Some stk' ->
  LTr S env (LS stk root) (events_of p x)
      (LS (attach_stk (tnode_of p x) stk') (attach_root (tnode_of p x) stk' root)).

Lemma attach_root_open n stk stk' root : after_open stk = Some stk' ->
  attach_root n stk' (root_open stk root) = attach_root n stk' root.
Proof.
  destruct stk as [|[d ch] r]; cbn [after_open root_open]; [intros H; inversion H; reflexivity|reflexivity].
Qed.

Lemma B_tok t : Grammar.wf (JTok t) = true -> tok_noexp t = true -> Bprop (JTok t).
Proof.
  intros Hw Hn p stk stk' root Ha Ho. cbn [events_of render] in Ha |- *.
  assert (Hne : t <> []).
  { destruct (T_token t [] 0%nat 0 Hw Hn) as [c [r [g [u [-> _]]]]]. discriminate. }
  eapply LTr_cons; [apply (L_open S env LiteralBegin KLit JUndef); [reflexivity|exact Ho]|].
  rewrite <- (attach_root_open (tnode_of p (JTok t)) stk stk' root Ho).
  apply L_close_lit; [exact Ha|exact Hne|apply tok_type_some; assumption].
Qed.

Lemma B_arr0 w : Bprop (JArr0 w).
Proof.
  intros p stk stk' root Ha Ho. cbn [events_of tnode_of].
  eapply LTr_trans; [apply (L_open S env ArrayBegin KArr JArray); [reflexivity|exact Ho]|].
  eapply LTr_trans; [apply L_nls|].
  rewrite <- (attach_root_open (TN (nd0 KArr p p JArray []) []) stk stk' root Ho).
  apply L_close. left. split; reflexivity.
Qed.
Lemma B_obj0 w : Bprop (JObj0 w).
Proof.
  intros p stk stk' root Ha Ho. cbn [events_of tnode_of].
  eapply LTr_trans; [apply (L_open S env ObjectBegin KObj JObject); [reflexivity|exact Ho]|].
  eapply LTr_trans; [apply L_nls|].
  rewrite <- (attach_root_open (TN (nd0 KObj p p JObject []) []) stk stk' root Ho).
  apply L_close. right. split; reflexivity.
Qed.

(* ---- arrays ---- *)
Lemma B_items p stk' root : forall items q ch,
  Forall (fun i => Bprop (snd (fst i))) items -> parts_at ritem q items ->
  LTr S env (LS (TN (nd0 KArr p p JArray []) ch :: stk') root) (items_events events_of q items)
      (LS (TN (nd0 KArr p p JArray []) (rev (item_nodes tnode_of q items) ++ ch) :: stk') root).
Proof.
  induction items as [|[[w1 x] w2] l IH]; intros q ch HF Hat.
  - cbn [items_events item_nodes rev app]. apply LTr_nil. auto.
  - inversion HF as [|? ? Hx HF']; subst. cbn [fst snd] in Hx. destruct Hat as [Ha Hat'].
    cbn [items_events item_events item_nodes].
    match goal with |- context [rev (?a :: ?l) ++ ch] =>
      replace (rev (a :: l) ++ ch) with (rev l ++ a :: ch) by (cbn [rev]; rewrite <- app_assoc; reflexivity) end.
    eapply LTr_ev.
    + eapply LTr_trans; [apply L_nls|].
      eapply LTr_trans; [apply (L_wait S env KArr JArray ArrayItemBegin); left; split; reflexivity|].
      eapply LTr_trans.
      { eapply (Hx (q + len w1)).
        - apply (At_part q _ w1 (render x) w2 _ Ha); reflexivity.
        - apply after_open_wait. left. reflexivity. }
      cbn [attach_stk attach_root].
      eapply LTr_trans; [apply (L_stay S env KArr JArray ArrayItemEnd); left; split; reflexivity|].
      eapply LTr_trans; [apply L_nls|].
      apply (IH _ _ HF' Hat').
    + rewrite <- !app_assoc. reflexivity.
Qed.

(* ---- objects ---- *)
Lemma dup_check keys key : Forall (fun o => k_short o = false) keys ->
  existsb (fun o => (beq (k_key o) key && Bool.eqb (k_short o) false)%bool) keys =
  existsb (fun s => beq s key) (map k_key keys).
Proof.
  induction 1 as [|o r Ho _ IH]; [reflexivity|]. cbn [existsb map]. rewrite Ho, IH. cbn [Bool.eqb].
  rewrite andb_true_r. reflexivity.
Qed.

Lemma B_mems p stk' root : forall ms q ch keys,
  Forall (fun m => Bprop (snd (fst m))) ms ->
  Forall (fun m => let '(_, k, _, _, _, _) := m in is_string_token k = true) ms ->
  parts_at rmem q ms ->
  Forall (fun o => k_short o = false) keys -> keys_fresh (map k_key keys) (map key_of ms) = true ->
  LTr S env (LS (TN (nd0 KObj p p JObject keys) ch :: stk') root) (mems_events events_of q ms)
      (LS (TN (nd0 KObj p p JObject (rev (keys_from (length ch) ms) ++ keys))
              (rev (mem_nodes tnode_of q ms) ++ ch) :: stk') root).
Proof.
  induction ms as [|[[[[[w1 k] w2] w3] x] w4] l IH]; intros q ch keys HF HK Hat Hsh Hfr.
  - cbn [mems_events mem_nodes keys_from rev app]. apply LTr_nil. auto.
  - inversion HF as [|? ? Hx HF']; subst. cbn [fst snd] in Hx. destruct Hat as [Ha Hat'].
    inversion HK as [|? ? Hk HK']; subst.
    cbn [map keys_fresh key_of] in Hfr. apply andb_prop in Hfr. destruct Hfr as [Hnew Hfr'].
    apply negb_true_iff in Hnew.
    cbn [mems_events mem_events mem_nodes keys_from key_of].
    match goal with |- context [rev (?a :: ?l0) ++ ch] =>
      replace (rev (a :: l0) ++ ch) with (rev l0 ++ a :: ch) by (cbn [rev]; rewrite <- app_assoc; reflexivity) end.
    match goal with |- context [rev (?a :: ?l0) ++ keys] =>
      replace (rev (a :: l0) ++ keys) with (rev l0 ++ a :: keys) by (cbn [rev]; rewrite <- app_assoc; reflexivity) end.
    cbv zeta.
    eapply LTr_ev.
    + eapply LTr_trans; [apply L_nls|].
      eapply LTr_cons; [apply (L_stay S env KObj JObject ObjectKeyBegin); right; split; [reflexivity|left; reflexivity]|].
      eapply LTr_cons.
      { replace (q + len w1 + len k - 1) with ((q + len w1) + len k - 1) by lia.
        apply (L_key S env p JObject (q + len w1) k ch keys).
        - apply (At_part q _ w1 k (w2 ++ [x3a] ++ w3 ++ render x ++ w4) _ Ha); reflexivity.
        - exact Hk.
        - rewrite dup_check by exact Hsh. exact Hnew. }
      eapply LTr_trans; [apply L_nls|].
      eapply LTr_trans; [apply L_nls|].
      eapply LTr_trans; [apply (L_wait S env KObj JObject ObjectValueBegin); right; split; reflexivity|].
      eapply LTr_trans.
      { eapply (Hx (q + len w1 + len k + len w2 + 1 + len w3)).
        - apply (At_part q _ (w1 ++ k ++ w2 ++ [x3a] ++ w3) (render x) w4 _ Ha).
          + cbn [rmem]. rewrite <- !app_assoc. reflexivity.
          + len_solve.
        - apply after_open_wait. right. reflexivity. }
      cbn [attach_stk attach_root].
      eapply LTr_trans; [apply (L_stay S env KObj JObject ObjectValueEnd); right; split; [reflexivity|right; reflexivity]|].
      eapply LTr_trans; [apply L_nls|].
      apply (IH _ (tnode_of (q + len w1 + len k + len w2 + 1 + len w3) x :: ch)
                  (mkokey (Loader.unquote k) false (length ch) :: keys) HF' HK' Hat').
      * constructor; [reflexivity|exact Hsh].
      * exact Hfr'.
    + rewrite <- !app_assoc. reflexivity.
Qed.

(* ---- every value ---- *)
Lemma B_all gp : forall v, wfg gp v = true -> no_exponent v = true -> distinct_keys v = true -> Bprop v.
Proof.
  induction v as [t|w|items IH|w|ms IH] using jv_ind2; intros Hw Hn Hd.
  - apply B_tok; assumption.
  - apply B_arr0.
  - rewrite wfg_arr in Hw. apply andb_prop in Hw. destruct Hw as [Hlen Hw]. cbn [no_exponent distinct_keys] in Hn, Hd.
    assert (HF : Forall (fun i => Bprop (snd (fst i))) items).
    { rewrite forallb_forall in Hw, Hn, Hd. rewrite Forall_forall in IH |- *. intros [[w1 x] w2] Hin.
      specialize (Hw _ Hin). specialize (Hn _ Hin). specialize (Hd _ Hin). specialize (IH _ Hin).
      cbn in Hw, Hn, Hd, IH |- *.
      apply andb_prop in Hw. destruct Hw as [Hw H2]. apply andb_prop in Hw. destruct Hw as [H1 Hx]. auto. }
    intros p stk stk' root Ha Ho. rewrite render_arr in Ha. cbn [events_of tnode_of].
    eapply LTr_trans; [apply (L_open S env ArrayBegin KArr JArray); [reflexivity|exact Ho]|].
    eapply LTr_trans.
    { apply (B_items p stk' _ items (p + 1) [] HF). apply parts_at_join.
      apply (At_part p _ [x5b] (join [x2c] (map ritem items)) [x5d] _ Ha); reflexivity. }
    rewrite app_nil_r.
    rewrite <- (attach_root_open _ stk stk' root Ho).
    apply L_close. left. split; reflexivity.
  - apply B_obj0.
  - rewrite wfg_obj in Hw. apply andb_prop in Hw. destruct Hw as [Hlen Hw]. cbn [no_exponent distinct_keys] in Hn, Hd.
    apply andb_prop in Hd. destruct Hd as [Hfresh Hd].
    assert (HF : Forall (fun m => Bprop (snd (fst m))) ms /\
                 Forall (fun m => let '(_, k, _, _, _, _) := m in is_string_token k = true) ms).
    { rewrite forallb_forall in Hw, Hn, Hd. rewrite !Forall_forall in *. split; intros [[[[[w1 k] w2] w3] x] w4] Hin;
      specialize (Hw _ Hin); specialize (Hn _ Hin); specialize (Hd _ Hin); specialize (IH _ Hin);
      cbn in Hw, Hn, Hd, IH |- *;
      repeat match type of Hw with (_ && _)%bool = true => apply andb_prop in Hw; destruct Hw as [Hw ?] end; auto. }
    destruct HF as [HF HK].
    intros p stk stk' root Ha Ho. rewrite render_obj in Ha. cbn [events_of tnode_of].
    eapply LTr_trans; [apply (L_open S env ObjectBegin KObj JObject); [reflexivity|exact Ho]|].
    eapply LTr_trans.
    { apply (B_mems p stk' _ ms (p + 1) [] [] HF HK).
      - apply parts_at_join. apply (At_part p _ [x7b] (join [x2c] (map rmem ms)) [x7d] _ Ha); reflexivity.
      - constructor.
      - exact Hfresh. }
    rewrite !app_nil_r. cbn [length].
    rewrite <- (attach_root_open _ stk stk' root Ho).
    apply L_close. right. split; reflexivity.
Qed.
End LoaderTree.

(* ================================================================== *)
(* C. from the loader's tree to the result                              *)
(* ================================================================== *)
Definition no_annot : annot := mkannot [] [].
Fixpoint mirror (v : jv) : node :=
  match v with
  | JTok t => NLit t no_annot
  | JArr0 _ => NArr [] no_annot
  | JArr items => NArr (map (fun i => let '(_, x, _) := i in mirror x) items) no_annot
  | JObj0 _ => NObj [] no_annot
  | JObj ms => NObj (map (fun m => let '(_, k, _, _, x, _) := m in (Loader.unquote k, false, mirror x)) ms) no_annot
  end.

(* the AST view: token type and schema type from the kind of the value, the unquoted literal, no rules,
   no note, never a key shortcut; the children of an object carry their keys *)
Definition rekey (k : bytes) (s : bool) (a : ast) : ast :=
  match a with AN tk st _ _ v c r ch w tok => AN tk st k s v c r ch w tok end.
Fixpoint ast_mirror (key : bytes) (v : jv) : ast :=
  match v with
  | JTok t => AN (jt_token (tok_kind t)) (jt_string (tok_kind t)) key false (Loader.unquote t) [] [] [] no_annot t
  | JArr0 _ => AN (jt_token JArray) (jt_string JArray) key false [] [] [] [] no_annot []
  | JArr items =>
    AN (jt_token JArray) (jt_string JArray) key false [] [] []
       (map (fun i => let '(_, x, _) := i in ast_mirror [] x) items) no_annot []
  | JObj0 _ => AN (jt_token JObject) (jt_string JObject) key false [] [] [] [] no_annot []
  | JObj ms =>
    AN (jt_token JObject) (jt_string JObject) key false [] [] []
       (map (fun m => let '(_, k, _, _, x, _) := m in ast_mirror (Loader.unquote k) x) ms) no_annot []
  end.
Lemma rekey_mirror k x : rekey k false (ast_mirror [] x) = ast_mirror k x.
Proof. destruct x; reflexivity. Qed.

Lemma frev_map_rev {A B} (f : A -> B) l : frev (map f (rev l)) = map f l.
Proof. rewrite frev_rev, <- map_rev, rev_involutive. reflexivity. Qed.

Lemma members_keys_from {A} (f : bytes * bytes * bytes * bytes * jv * bytes -> A) : forall ms pre,
  members_of (keys_from (length pre) ms) (pre ++ map f ms) = Some (map (fun m => (key_of m, false, f m)) ms).
Proof.
  induction ms as [|m r IH]; intros pre; [reflexivity|].
  cbn [keys_from members_of map k_index k_key k_short].
  rewrite nth_error_app2 by lia. rewrite Nat.sub_diag. cbn [nth_error].
  specialize (IH (pre ++ [f m])). rewrite app_length in IH. cbn [length] in IH.
  rewrite Nat.add_1_r, <- app_assoc in IH. cbn [app] in IH. rewrite IH. reflexivity.
Qed.

Section Result.
Variable S : src.

(* both views are read off the tree by a conversion of the same shape *)
Definition Cprop {A} (conv : src -> tnode -> option A) (m : jv -> A) (x : jv) : Prop :=
  forall p, At S p (render x) -> conv S (tnode_of p x) = Some (m x).

Lemma C_items {A} (conv : src -> tnode -> option A) (m : jv -> A) : forall items q,
  Forall (fun i => Cprop conv m (snd (fst i))) items -> parts_at S ritem q items ->
  all_some (map (conv S) (item_nodes tnode_of q items)) = Some (map (fun i => let '(_, x, _) := i in m x) items).
Proof.
  induction items as [|[[w1 x] w2] l IH]; intros q HF Hat; [reflexivity|].
  inversion HF as [|? ? Hx HF']; subst. cbn [fst snd] in Hx. destruct Hat as [Ha Hat'].
  cbn [item_nodes map all_some].
  rewrite (Hx (q + len w1)) by (apply (At_part S q _ w1 (render x) w2 _ Ha); reflexivity).
  rewrite (IH _ HF' Hat'). reflexivity.
Qed.
Lemma C_mems {A} (conv : src -> tnode -> option A) (m : jv -> A) : forall ms q,
  Forall (fun i => Cprop conv m (snd (fst i))) ms -> parts_at S rmem q ms ->
  all_some (map (conv S) (mem_nodes tnode_of q ms)) = Some (map (fun i => let '(_, _, _, _, x, _) := i in m x) ms).
Proof.
  induction ms as [|[[[[[w1 k] w2] w3] x] w4] l IH]; intros q HF Hat; [reflexivity|].
  inversion HF as [|? ? Hx HF']; subst. cbn [fst snd] in Hx. destruct Hat as [Ha Hat'].
  cbn [mem_nodes map all_some].
  rewrite (Hx (q + len w1 + len k + len w2 + 1 + len w3)).
  - rewrite (IH _ HF' Hat'). reflexivity.
  - apply (At_part S q _ (w1 ++ k ++ w2 ++ [x3a] ++ w3) (render x) w4 _ Ha).
    + cbn [rmem]. rewrite <- !app_assoc. reflexivity.
    + len_solve.
Qed.

Lemma tok_nonempty t : Grammar.wf (JTok t) = true -> t <> [].
Proof. intros H ->. discriminate H. Qed.

Lemma C_node gp : forall x, wfg gp x = true -> Cprop to_node mirror x.
Proof.
  induction x as [t|w|items IH|w|ms IH] using jv_ind2; intros Hw p Ha.
  - cbn [tnode_of to_node map frev rev_append all_some nd0 nd_kind nd_lb nd_le mirror render] in Ha |- *.
    change (frev (@nil (option node))) with (@nil (option node)). cbn [all_some].
    rewrite (slice_at S p t Ha (tok_nonempty t Hw)). reflexivity.
  - reflexivity.
  - rewrite wfg_arr in Hw. apply andb_prop in Hw. destruct Hw as [_ Hw]. rewrite render_arr in Ha.
    assert (HF : Forall (fun i => Cprop to_node mirror (snd (fst i))) items).
    { rewrite forallb_forall in Hw. rewrite Forall_forall in IH |- *. intros [[w1 x] w2] Hin.
      specialize (Hw _ Hin). specialize (IH _ Hin). cbn in Hw, IH |- *.
      apply andb_prop in Hw. destruct Hw as [Hw _]. apply andb_prop in Hw. destruct Hw as [_ Hx]. auto. }
    cbn [tnode_of to_node mirror]. rewrite frev_map_rev.
    rewrite (C_items to_node mirror items (p + 1) HF).
    + reflexivity.
    + apply parts_at_join. apply (At_part S p _ [x5b] (join [x2c] (map ritem items)) [x5d] _ Ha); reflexivity.
  - reflexivity.
  - rewrite wfg_obj in Hw. apply andb_prop in Hw. destruct Hw as [_ Hw]. rewrite render_obj in Ha.
    assert (HF : Forall (fun i => Cprop to_node mirror (snd (fst i))) ms).
    { rewrite forallb_forall in Hw. rewrite Forall_forall in IH |- *. intros [[[[[w1 k] w2] w3] x] w4] Hin.
      specialize (Hw _ Hin). specialize (IH _ Hin). cbn in Hw, IH |- *.
      repeat match type of Hw with (_ && _)%bool = true => apply andb_prop in Hw; destruct Hw as [Hw ?] end; auto. }
    cbn [tnode_of to_node mirror]. rewrite frev_map_rev.
    rewrite (C_mems to_node mirror ms (p + 1) HF).
    + cbn [nd0 nd_kind nd_keys]. rewrite frev_rev, rev_involutive.
      pose proof (members_keys_from (fun m => let '(_, _, _, _, x, _) := m in mirror x) ms []) as Hm.
      cbn [length app] in Hm. rewrite Hm.
      do 2 f_equal. apply map_ext. intros [[[[[w1 k] w2] w3] x] w4]. reflexivity.
    + apply parts_at_join. apply (At_part S p _ [x7b] (join [x2c] (map rmem ms)) [x7d] _ Ha); reflexivity.
Qed.
End Result.

(* ================================================================== *)
(* D. the theorems                                                      *)
(* ================================================================== *)
Definition src_of (text : bytes) : src := mksrc text (N.of_nat (length text)).

Lemma At_text w1 v w2 : At (src_of (w1 ++ render v ++ w2)) (len w1) (render v).
Proof. split; [reflexivity|]. exists w1, w2. split; reflexivity. Qed.

(* the state of the loader at the end of the event stream of a plain JSON text *)
Lemma wf_wfg_gap v : Grammar.wf v = true -> wfg is_gap v = true.
Proof. intros H. apply (wfg_mono all_blank is_gap (all_blank_gap false)). rewrite wfg_blank. exact H. Qed.

Lemma load_state_gaps env w1 v w2 :
  is_gap w1 = true -> wfg is_gap v = true -> is_gap_end w2 = true ->
  no_exponent v = true -> distinct_keys v = true ->
  exists cnt,
    load_state env (w1 ++ render v ++ w2) =
    (Ok (mklst MDefault cnt (Some (tnode_of (len w1) v)) [] None), Done, src_of (w1 ++ render v ++ w2)).
Proof.
  intros H1 Hv H2 Hn Hd. unfold load_state. rewrite (scan_json_gaps w1 v w2 H1 Hv H2 Hn).
  fold (src_of (w1 ++ render v ++ w2)). set (S := src_of (w1 ++ render v ++ w2)).
  assert (HT : LTr S env (LS [] None) (text_events w1 v w2) (LS [] (Some (tnode_of (len w1) v)))).
  { unfold text_events.
    eapply LTr_trans; [apply L_nls|].
    eapply LTr_trans; [|apply L_nls].
    apply (B_all S env is_gap v Hv Hn Hd (len w1) [] [] None (At_text w1 v w2) eq_refl). }
  destruct (HT l0) as [st' [[cnt ->] K]]; [exists 0; reflexivity|].
  specialize (K []). rewrite app_nil_r in K. exists cnt. rewrite K. reflexivity.
Qed.
Lemma load_state_plain env w1 v w2 :
  all_blank w1 = true -> Grammar.wf v = true -> all_blank w2 = true ->
  no_exponent v = true -> distinct_keys v = true ->
  exists cnt,
    load_state env (w1 ++ render v ++ w2) =
    (Ok (mklst MDefault cnt (Some (tnode_of (len w1) v)) [] None), Done, src_of (w1 ++ render v ++ w2)).
Proof.
  intros H1 Hv H2 Hn Hd. apply load_state_gaps;
    [exact (all_blank_gap false w1 H1)|apply wf_wfg_gap; exact Hv|exact (all_blank_gap true w2 H2)|exact Hn|exact Hd].
Qed.

(* C13 (schema half): line comments in the gaps of a JSON value are transparent: the loader builds the
   tree of the value, whatever stands in the comments.  [is_gap]: blanks and line comments ('#', a body
   without line break that does not begin with '#', the line break: LF, CR or CRLF); the last gap may
   end inside a comment.  No condition on the tokens: '#', '/', '@' may occur in strings. *)
Theorem load_mirrors_json_with_comments : forall w1 v w2,
  is_gap w1 = true -> wfg is_gap v = true -> is_gap_end w2 = true ->
  no_exponent v = true -> distinct_keys v = true ->
  load (w1 ++ render v ++ w2) = LTree (Some (mirror v)).
Proof.
  intros w1 v w2 H1 Hv H2 Hn Hd. unfold load, load_with.
  destruct (load_state_gaps env0 w1 v w2 H1 Hv H2 Hn Hd) as [cnt ->].
  unfold finish, final_root. cbn [l_stack l_root].
  rewrite (C_node _ is_gap v Hv (len w1) (At_text w1 v w2)). reflexivity.
Qed.

(* T1, in its strongest form: no condition on '/', '#', '@' is needed *)
Theorem load_mirrors_json : forall w1 v w2,
  all_blank w1 = true -> Grammar.wf v = true -> all_blank w2 = true ->
  no_exponent v = true -> distinct_keys v = true ->
  load (w1 ++ render v ++ w2) = LTree (Some (mirror v)).
Proof.
  intros w1 v w2 H1 Hv H2 Hn Hd. apply load_mirrors_json_with_comments;
    [exact (all_blank_gap false w1 H1)|apply wf_wfg_gap; exact Hv|exact (all_blank_gap true w2 H2)|exact Hn|exact Hd].
Qed.

(* T1 as asked, with the one hypothesis that had to be added: number tokens carry no exponent *)
Theorem load_mirrors_plain_json : forall w1 v w2,
  all_blank w1 = true -> Grammar.wf v = true -> all_blank w2 = true ->
  SchemaProofs.plain (w1 ++ render v ++ w2) = true ->
  no_exponent v = true ->
  distinct_keys v = true ->
  load (w1 ++ render v ++ w2) = LTree (Some (mirror v)).
Proof. intros w1 v w2 H1 Hv H2 _ Hn Hd. apply load_mirrors_json; assumption. Qed.

(* ---- T2: the AST view ---- *)
Lemma C_ast S gp : forall x, wfg gp x = true -> no_exponent x = true -> Cprop S to_ast (ast_mirror []) x.
Proof.
  induction x as [t|w|items IH|w|ms IH] using jv_ind2; intros Hw Hn p Ha.
  - cbn [tnode_of render] in Ha |- *. unfold nd0. cbn [to_ast map nd_cs ast_rules ast_mirror].
    change (frev (@nil (option ast))) with (@nil (option ast)). cbn [all_some nd_kind nd_lb nd_le].
    rewrite (slice_at S p t Ha (tok_nonempty t Hw)).
    unfold ast_schema_type. cbn [nd_cs nd_jt nd_note chas cget type_bytes]. unfold annot_of. cbn [nd_cs nd_note written_rules].
    rewrite (tok_jt_kind t Hw Hn). reflexivity.
  - reflexivity.
  - rewrite wfg_arr in Hw. apply andb_prop in Hw. destruct Hw as [_ Hw]. rewrite render_arr in Ha.
    cbn [no_exponent] in Hn.
    assert (HF : Forall (fun i => Cprop S to_ast (ast_mirror []) (snd (fst i))) items).
    { rewrite forallb_forall in Hw, Hn. rewrite Forall_forall in IH |- *. intros [[w1 x] w2] Hin.
      specialize (Hw _ Hin). specialize (Hn _ Hin). specialize (IH _ Hin). cbn in Hw, Hn, IH |- *.
      apply andb_prop in Hw. destruct Hw as [Hw _]. apply andb_prop in Hw. destruct Hw as [_ Hx]. auto. }
    cbn [tnode_of]. unfold nd0. cbn [to_ast ast_mirror nd_cs ast_rules]. rewrite frev_map_rev.
    rewrite (C_items S to_ast (ast_mirror []) items (p + 1) HF).
    + reflexivity.
    + apply parts_at_join. apply (At_part S p _ [x5b] (join [x2c] (map ritem items)) [x5d] _ Ha); reflexivity.
  - reflexivity.
  - rewrite wfg_obj in Hw. apply andb_prop in Hw. destruct Hw as [_ Hw]. rewrite render_obj in Ha.
    cbn [no_exponent] in Hn.
    assert (HF : Forall (fun i => Cprop S to_ast (ast_mirror []) (snd (fst i))) ms).
    { rewrite forallb_forall in Hw, Hn. rewrite Forall_forall in IH |- *. intros [[[[[w1 k] w2] w3] x] w4] Hin.
      specialize (Hw _ Hin). specialize (Hn _ Hin). specialize (IH _ Hin). cbn in Hw, Hn, IH |- *.
      repeat match type of Hw with (_ && _)%bool = true => apply andb_prop in Hw; destruct Hw as [Hw ?] end; auto. }
    cbn [tnode_of]. unfold nd0. cbn [to_ast ast_mirror nd_cs ast_rules]. rewrite frev_map_rev.
    rewrite (C_mems S to_ast (ast_mirror []) ms (p + 1) HF).
    + cbn [nd_kind nd_keys]. rewrite frev_rev, rev_involutive.
      pose proof (members_keys_from (fun m => let '(_, _, _, _, x, _) := m in ast_mirror [] x) ms []) as Hm.
      cbn [length app] in Hm. rewrite Hm. rewrite map_map.
      do 2 f_equal. apply map_ext. intros [[[[[w1 k] w2] w3] x] w4]. cbn [key_of]. apply rekey_mirror.
    + apply parts_at_join. apply (At_part S p _ [x7b] (join [x2c] (map rmem ms)) [x7d] _ Ha); reflexivity.
Qed.

Theorem ast_mirrors_json_with_comments : forall w1 v w2,
  is_gap w1 = true -> wfg is_gap v = true -> is_gap_end w2 = true ->
  no_exponent v = true -> distinct_keys v = true ->
  finish to_ast (load_state env0 (w1 ++ render v ++ w2)) = (Some (Some (ast_mirror [] v)), LTree None).
Proof.
  intros w1 v w2 H1 Hv H2 Hn Hd.
  destruct (load_state_gaps env0 w1 v w2 H1 Hv H2 Hn Hd) as [cnt ->].
  unfold finish, final_root. cbn [l_stack l_root].
  rewrite (C_ast _ is_gap v Hv Hn (len w1) (At_text w1 v w2)). reflexivity.
Qed.
Theorem ast_mirrors_json : forall w1 v w2,
  all_blank w1 = true -> Grammar.wf v = true -> all_blank w2 = true ->
  no_exponent v = true -> distinct_keys v = true ->
  finish to_ast (load_state env0 (w1 ++ render v ++ w2)) = (Some (Some (ast_mirror [] v)), LTree None).
Proof.
  intros w1 v w2 H1 Hv H2 Hn Hd. apply ast_mirrors_json_with_comments;
    [exact (all_blank_gap false w1 H1)|apply wf_wfg_gap; exact Hv|exact (all_blank_gap true w2 H2)|exact Hn|exact Hd].
Qed.
Theorem ast_mirrors_plain_json : forall w1 v w2,
  all_blank w1 = true -> Grammar.wf v = true -> all_blank w2 = true ->
  SchemaProofs.plain (w1 ++ render v ++ w2) = true ->
  no_exponent v = true -> distinct_keys v = true ->
  finish to_ast (load_state env0 (w1 ++ render v ++ w2)) = (Some (Some (ast_mirror [] v)), LTree None).
Proof. intros w1 v w2 H1 Hv H2 _ Hn Hd. apply ast_mirrors_json; assumption. Qed.
(* what the model prints: "A:" and the JSON of that AST *)
Corollary loader_model_plain_json : forall w1 v w2,
  all_blank w1 = true -> Grammar.wf v = true -> all_blank w2 = true ->
  SchemaProofs.plain (w1 ++ render v ++ w2) = true ->
  no_exponent v = true -> distinct_keys v = true ->
  loader_model env0 (w1 ++ render v ++ w2) = [x41; colon] ++ print_ast (ast_mirror [] v).
Proof.
  intros w1 v w2 H1 Hv H2 Hp Hn Hd. unfold loader_model.
  rewrite (ast_mirrors_plain_json w1 v w2 H1 Hv H2 Hp Hn Hd). reflexivity.
Qed.

(* ---- corollaries on the shape of that AST ---- *)
Fixpoint ast_size (a : ast) : nat :=
  match a with AN _ _ _ _ _ _ _ ch _ _ => Datatypes.S (list_sum (map ast_size ch)) end.
Fixpoint count_values (v : jv) : nat :=
  match v with
  | JTok _ | JArr0 _ | JObj0 _ => 1
  | JArr items => Datatypes.S (list_sum (map (fun i => let '(_, x, _) := i in count_values x) items))
  | JObj ms => Datatypes.S (list_sum (map (fun m => let '(_, _, _, _, x, _) := m in count_values x) ms))
  end.
(* (key, raw literal token) of every node, parents first, children in order *)
Fixpoint ast_preorder (a : ast) : list (bytes * bytes) :=
  match a with AN _ _ key _ _ _ _ ch _ tok => (key, tok) :: flat_map ast_preorder ch end.
Fixpoint jv_preorder (key : bytes) (v : jv) : list (bytes * bytes) :=
  match v with
  | JTok t => [(key, t)]
  | JArr0 _ | JObj0 _ => [(key, [])]
  | JArr items => (key, []) :: flat_map (fun i => let '(_, x, _) := i in jv_preorder [] x) items
  | JObj ms => (key, []) :: flat_map (fun m => let '(_, k, _, _, x, _) := m in jv_preorder (Loader.unquote k) x) ms
  end.

Lemma ast_mirror_size : forall v key, ast_size (ast_mirror key v) = count_values v.
Proof.
  induction v as [t|w|items IH|w|ms IH] using jv_ind2; intros key; try reflexivity.
  - cbn [ast_mirror ast_size count_values]. f_equal. rewrite map_map. f_equal.
    apply map_ext_in. intros [[w1 x] w2] Hin. rewrite Forall_forall in IH. apply (IH _ Hin).
  - cbn [ast_mirror ast_size count_values]. f_equal. rewrite map_map. f_equal.
    apply map_ext_in. intros [[[[[w1 k] w2] w3] x] w4] Hin. rewrite Forall_forall in IH. apply (IH _ Hin).
Qed.
Lemma flat_map_ext_in {A B} (f g : A -> list B) l : (forall a, In a l -> f a = g a) -> flat_map f l = flat_map g l.
Proof. induction l as [|a l IH]; intros H; [reflexivity|]. cbn [flat_map]. rewrite (H a (or_introl eq_refl)), IH; [reflexivity|]. intros b Hb. apply H. right. exact Hb. Qed.
Lemma ast_mirror_preorder : forall v key, ast_preorder (ast_mirror key v) = jv_preorder key v.
Proof.
  induction v as [t|w|items IH|w|ms IH] using jv_ind2; intros key; try reflexivity.
  - cbn [ast_mirror ast_preorder jv_preorder]. f_equal. rewrite flat_map_concat_map, map_map, <- flat_map_concat_map.
    apply flat_map_ext_in. intros [[w1 x] w2] Hin. rewrite Forall_forall in IH. apply (IH _ Hin).
  - cbn [ast_mirror ast_preorder jv_preorder]. f_equal. rewrite flat_map_concat_map, map_map, <- flat_map_concat_map.
    apply flat_map_ext_in. intros [[[[[w1 k] w2] w3] x] w4] Hin. rewrite Forall_forall in IH. apply (IH _ Hin).
Qed.

Corollary ast_node_count_plain_json : forall w1 v w2 a,
  all_blank w1 = true -> Grammar.wf v = true -> all_blank w2 = true ->
  SchemaProofs.plain (w1 ++ render v ++ w2) = true ->
  no_exponent v = true -> distinct_keys v = true ->
  fst (finish to_ast (load_state env0 (w1 ++ render v ++ w2))) = Some (Some a) ->
  ast_size a = count_values v.
Proof.
  intros w1 v w2 a H1 Hv H2 Hp Hn Hd Ha.
  rewrite (ast_mirrors_plain_json w1 v w2 H1 Hv H2 Hp Hn Hd) in Ha. inversion Ha. apply ast_mirror_size.
Qed.
Corollary ast_preorder_plain_json : forall w1 v w2 a,
  all_blank w1 = true -> Grammar.wf v = true -> all_blank w2 = true ->
  SchemaProofs.plain (w1 ++ render v ++ w2) = true ->
  no_exponent v = true -> distinct_keys v = true ->
  fst (finish to_ast (load_state env0 (w1 ++ render v ++ w2))) = Some (Some a) ->
  ast_preorder a = jv_preorder [] v.
Proof.
  intros w1 v w2 a H1 Hv H2 Hp Hn Hd Ha.
  rewrite (ast_mirrors_plain_json w1 v w2 H1 Hv H2 Hp Hn Hd) in Ha. inversion Ha. apply ast_mirror_preorder.
Qed.

(* ---- T3: duplicate keys ---- *)
(* the offset of the opening quote of the first key, in source order, that repeats an earlier key of
   its own object (keys compared as the loader stores them) *)
Section Dup.
  Variable F : N -> jv -> option N.
  Fixpoint items_dup (q : N) (l : list (bytes * jv * bytes)) : option N :=
    match l with
    | [] => None
    | i :: r =>
      match (let '(w1, x, _) := i in F (q + len w1) x) with
      | Some d => Some d
      | None => items_dup (q + len (ritem i) + 1) r
      end
    end.
  Fixpoint mems_dup (seen : list bytes) (q : N) (l : list (bytes * bytes * bytes * bytes * jv * bytes)) : option N :=
    match l with
    | [] => None
    | m :: r =>
      if existsb (fun s => beq s (key_of m)) seen
      then Some (let '(w1, _, _, _, _, _) := m in q + len w1)
      else match (let '(w1, k, w2, w3, x, _) := m in F (q + len w1 + len k + len w2 + 1 + len w3) x) with
           | Some d => Some d
           | None => mems_dup (key_of m :: seen) (q + len (rmem m) + 1) r
           end
    end.
End Dup.
Fixpoint dup_pos (p : N) (v : jv) : option N :=
  match v with
  | JTok _ | JArr0 _ | JObj0 _ => None
  | JArr items => items_dup dup_pos (p + 1) items
  | JObj ms => mems_dup dup_pos [] (p + 1) ms
  end.

Lemma mems_dup_none F seen : forall ms q, mems_dup F seen q ms = None ->
  keys_fresh seen (map key_of ms) = true.
Proof.
  intros ms. revert seen. induction ms as [|m r IH]; intros seen q H; [reflexivity|].
  cbn [mems_dup] in H. cbn [map keys_fresh].
  destruct (existsb (fun s => beq s (key_of m)) seen); [discriminate H|]. cbn [negb andb].
  destruct m as [[[[[w1 k] w2] w3] x] w4].
  destruct (F (q + len w1 + len k + len w2 + 1 + len w3) x); [discriminate H|]. apply (IH _ _ H).
Qed.

Lemma dup_none_distinct : forall v p, dup_pos p v = None -> distinct_keys v = true.
Proof.
  induction v as [t|w|items IH|w|ms IH] using jv_ind2; intros p H; try reflexivity.
  - cbn [dup_pos] in H. cbn [distinct_keys]. revert H. generalize (p + 1). clear p.
    induction items as [|[[w1 x] w2] l IHl]; intros q H; [reflexivity|].
    inversion IH as [|? ? Hx IH']; subst. cbn [fst snd] in Hx.
    cbn [items_dup] in H. cbn [forallb].
    destruct (dup_pos (q + len w1) x) eqn:E; [discriminate H|].
    rewrite (Hx _ E). apply (IHl IH' _ H).
  - cbn [dup_pos] in H. cbn [distinct_keys]. rewrite (mems_dup_none _ _ _ _ H). cbn [andb].
    revert H. generalize (p + 1). generalize (@nil bytes). clear p.
    induction ms as [|[[[[[w1 k] w2] w3] x] w4] l IHl]; intros seen q H; [reflexivity|].
    inversion IH as [|? ? Hx IH']; subst. cbn [fst snd] in Hx.
    cbn [mems_dup] in H. cbn [forallb].
    destruct (existsb _ seen); [discriminate H|].
    destruct (dup_pos (q + len w1 + len k + len w2 + 1 + len w3) x) eqn:E; [discriminate H|].
    rewrite (Hx _ E). apply (IHl IH' _ _ H).
Qed.

Section LoaderDup.
Variable S : src.
Variable env : envt.

Definition LFail (P : lst -> Prop) (evs : list lexev) (d : N) : Prop :=
  forall st, P st -> forall rest, run_events S env st (evs ++ rest) = Fail (FDoc 402 d).

Lemma LFail_after P Q e1 e2 d : LTr S env P e1 Q -> LFail Q e2 d -> LFail P (e1 ++ e2) d.
Proof.
  intros H1 H2 st Hs rest. destruct (H1 st Hs) as [s1 [Hq K1]]. rewrite <- app_assoc, K1. apply (H2 s1 Hq).
Qed.
Lemma LFail_before P e1 e2 d : LFail P e1 d -> LFail P (e1 ++ e2) d.
Proof. intros H st Hs rest. rewrite <- app_assoc. apply (H st Hs). Qed.
Lemma LFail_ev P e e' d : LFail P e d -> e = e' -> LFail P e' d.
Proof. intros H ->. exact H. Qed.

Lemma L_key_dup p j q k ch keys stk' root :
  At S q k -> is_string_token k = true ->
  existsb (fun o => (beq (k_key o) (Loader.unquote k) && Bool.eqb (k_short o) false)%bool) keys = true ->
  LFail (LS (TN (nd0 KObj p p j keys) ch :: stk') root) [E ObjectKeyEnd q (q + len k - 1)] q.
Proof.
  intros Ha Hk Hd st [cnt ->] rest.
  assert (Hne : k <> []) by (intros ->; discriminate Hk).
  assert (Hs : is_user_type_name k = false).
  { destruct k as [|c r]; [reflexivity|]. unfold is_string_token in Hk. apply andb_prop in Hk. destruct Hk as [Hk _].
    apply first_not_at. exact Hk. }
  cbn [app run_events]. unfold step. cbn [l_mode e_type E]. unfold node_load. cbn [e_type E l_stack e_begin]. unfold grow.
  cbn [nd0 nd_kind nd_wait e_type E]. unfold add_key, evalue, value. cbn [e_begin e_end E].
  rewrite (slice_at S q k Ha Hne). cbv zeta. rewrite Hs. change (nd_keys (nd0 KObj p p j keys)) with keys. rewrite Hd.
  reflexivity.
Qed.

Definition Dprop (x : jv) : Prop := forall p stk stk' root d,
  At S p (render x) -> after_open stk = Some stk' -> dup_pos p x = Some d ->
  LFail (LS stk root) (events_of p x) d.

Definition DB (x : jv) : Prop := Dprop x /\ (forall q, dup_pos q x = None -> Bprop S env x).

Lemma D_items p stk' root : forall items q ch d,
  Forall (fun i => DB (snd (fst i))) items ->
  parts_at S ritem q items -> items_dup dup_pos q items = Some d ->
  LFail (LS (TN (nd0 KArr p p JArray []) ch :: stk') root) (items_events events_of q items) d.
Proof.
  induction items as [|[[w1 x] w2] l IH]; intros q ch d HF Hat Hd; [discriminate Hd|].
  inversion HF as [|? ? [HDx HBx] HF']; subst. cbn [fst snd] in HDx, HBx. destruct Hat as [Ha Hat'].
  cbn [items_dup] in Hd. cbn [items_events item_events].
  assert (Hax : At S (q + len w1) (render x)) by (apply (At_part S q _ w1 (render x) w2 _ Ha); reflexivity).
  destruct (dup_pos (q + len w1) x) as [d0|] eqn:Ex.
  - inversion Hd; subst d0. apply LFail_before.
    eapply LFail_after; [apply L_nls|].
    eapply LFail_after; [apply (L_wait S env KArr JArray ArrayItemBegin); left; split; reflexivity|].
    apply LFail_before.
    eapply (HDx (q + len w1)); [exact Hax|apply after_open_wait; left; reflexivity|exact Ex].
  - eapply LFail_ev.
    + eapply LFail_after; [apply L_nls|].
      eapply LFail_after; [apply (L_wait S env KArr JArray ArrayItemBegin); left; split; reflexivity|].
      eapply LFail_after.
      { eapply (HBx _ Ex (q + len w1)); [exact Hax|apply after_open_wait; left; reflexivity]. }
      cbn [attach_stk attach_root].
      eapply LFail_after; [apply (L_stay S env KArr JArray ArrayItemEnd); left; split; reflexivity|].
      eapply LFail_after; [apply L_nls|].
      apply (IH _ _ d HF' Hat' Hd).
    + rewrite <- !app_assoc. reflexivity.
Qed.

Lemma D_mems p stk' root : forall ms q ch keys d,
  Forall (fun m => DB (snd (fst m))) ms ->
  Forall (fun m => let '(_, k, _, _, _, _) := m in is_string_token k = true) ms ->
  parts_at S rmem q ms ->
  Forall (fun o => k_short o = false) keys -> mems_dup dup_pos (map k_key keys) q ms = Some d ->
  LFail (LS (TN (nd0 KObj p p JObject keys) ch :: stk') root) (mems_events events_of q ms) d.
Proof.
  induction ms as [|[[[[[w1 k] w2] w3] x] w4] l IH]; intros q ch keys d HF HK Hat Hsh Hd; [discriminate Hd|].
  inversion HF as [|? ? [HDx HBx] HF']; subst. cbn [fst snd] in HDx, HBx. destruct Hat as [Ha Hat'].
  inversion HK as [|? ? Hk HK']; subst.
  cbn [mems_dup key_of] in Hd. cbn [mems_events mem_events]. cbv zeta.
  assert (Hak : At S (q + len w1) k).
  { apply (At_part S q _ w1 k (w2 ++ [x3a] ++ w3 ++ render x ++ w4) _ Ha); reflexivity. }
  assert (Hax : At S (q + len w1 + len k + len w2 + 1 + len w3) (render x)).
  { apply (At_part S q _ (w1 ++ k ++ w2 ++ [x3a] ++ w3) (render x) w4 _ Ha).
    - cbn [rmem]. rewrite <- !app_assoc. reflexivity.
    - len_solve. }
  replace (q + len w1 + len k - 1) with ((q + len w1) + len k - 1) by lia.
  destruct (existsb (fun s => beq s (Loader.unquote k)) (map k_key keys)) eqn:Edup.
  - inversion Hd; subst d. apply LFail_before.
    eapply LFail_after; [apply L_nls|].
    change ([E ObjectKeyBegin (q + len w1) (q + len w1); E ObjectKeyEnd (q + len w1) (q + len w1 + len k - 1)] ++
            nls (q + len w1 + len k) w2 ++ nls (q + len w1 + len k + len w2 + 1) w3 ++
            [E ObjectValueBegin (q + len w1 + len k + len w2 + 1 + len w3) (q + len w1 + len k + len w2 + 1 + len w3)] ++
            events_of (q + len w1 + len k + len w2 + 1 + len w3) x ++
            [E ObjectValueEnd (q + len w1 + len k + len w2 + 1 + len w3)
               (q + len w1 + len k + len w2 + 1 + len w3 + len (render x) - 1)] ++
            nls (q + len w1 + len k + len w2 + 1 + len w3 + len (render x)) w4)
      with ([E ObjectKeyBegin (q + len w1) (q + len w1)] ++ [E ObjectKeyEnd (q + len w1) (q + len w1 + len k - 1)] ++
            (nls (q + len w1 + len k) w2 ++ nls (q + len w1 + len k + len w2 + 1) w3 ++
            [E ObjectValueBegin (q + len w1 + len k + len w2 + 1 + len w3) (q + len w1 + len k + len w2 + 1 + len w3)] ++
            events_of (q + len w1 + len k + len w2 + 1 + len w3) x ++
            [E ObjectValueEnd (q + len w1 + len k + len w2 + 1 + len w3)
               (q + len w1 + len k + len w2 + 1 + len w3 + len (render x) - 1)] ++
            nls (q + len w1 + len k + len w2 + 1 + len w3 + len (render x)) w4)).
    eapply LFail_after; [apply (L_stay S env KObj JObject ObjectKeyBegin); right; split; [reflexivity|left; reflexivity]|].
    apply LFail_before.
    apply (L_key_dup p JObject (q + len w1) k ch keys); [exact Hak|exact Hk|].
    rewrite dup_check by exact Hsh. exact Edup.
  - assert (Hpre : LTr S env (LS (TN (nd0 KObj p p JObject keys) ch :: stk') root)
        (nls q w1 ++ [E ObjectKeyBegin (q + len w1) (q + len w1); E ObjectKeyEnd (q + len w1) (q + len w1 + len k - 1)] ++
         nls (q + len w1 + len k) w2 ++ nls (q + len w1 + len k + len w2 + 1) w3 ++
         [E ObjectValueBegin (q + len w1 + len k + len w2 + 1 + len w3) (q + len w1 + len k + len w2 + 1 + len w3)])
        (LS (TN (set_wait true (nd0 KObj p p JObject (mkokey (Loader.unquote k) false (length ch) :: keys))) ch :: stk') root)).
    { eapply LTr_trans; [apply L_nls|].
      eapply LTr_cons; [apply (L_stay S env KObj JObject ObjectKeyBegin); right; split; [reflexivity|left; reflexivity]|].
      eapply LTr_cons.
      { apply (L_key S env p JObject (q + len w1) k ch keys); [exact Hak|exact Hk|].
        rewrite dup_check by exact Hsh. exact Edup. }
      eapply LTr_trans; [apply L_nls|].
      eapply LTr_trans; [apply L_nls|].
      apply (L_wait S env KObj JObject ObjectValueBegin); right; split; reflexivity. }
    destruct (dup_pos (q + len w1 + len k + len w2 + 1 + len w3) x) as [d0|] eqn:Ex.
    + inversion Hd; subst d0. apply LFail_before.
      eapply LFail_ev.
      * eapply LFail_after; [exact Hpre|]. apply LFail_before.
        eapply (HDx _); [exact Hax|apply after_open_wait; right; reflexivity|exact Ex].
      * rewrite <- !app_assoc. reflexivity.
    + eapply LFail_ev.
      * eapply LFail_after; [exact Hpre|].
        eapply LFail_after.
        { eapply (HBx _ Ex _); [exact Hax|apply after_open_wait; right; reflexivity]. }
        cbn [attach_stk attach_root].
        eapply LFail_after; [apply (L_stay S env KObj JObject ObjectValueEnd); right; split; [reflexivity|right; reflexivity]|].
        eapply LFail_after; [apply L_nls|].
        apply (IH _ (tnode_of (q + len w1 + len k + len w2 + 1 + len w3) x :: ch)
                  (mkokey (Loader.unquote k) false (length ch) :: keys) d HF' HK' Hat').
        -- constructor; [reflexivity|exact Hsh].
        -- exact Hd.
      * rewrite <- !app_assoc. reflexivity.
Qed.

Lemma D_all gp : forall v, wfg gp v = true -> no_exponent v = true -> Dprop v.
Proof.
  induction v as [t|w|items IH|w|ms IH] using jv_ind2; intros Hw Hn p stk stk' root d Ha Ho Hd;
    try discriminate Hd.
  - rewrite wfg_arr in Hw. apply andb_prop in Hw. destruct Hw as [Hlen Hw]. cbn [no_exponent] in Hn.
    assert (HF : Forall (fun i => DB (snd (fst i))) items).
    { rewrite forallb_forall in Hw, Hn. rewrite Forall_forall in IH |- *. intros [[w1 x] w2] Hin.
      specialize (Hw _ Hin). specialize (Hn _ Hin). specialize (IH _ Hin). cbn in Hw, Hn, IH |- *.
      apply andb_prop in Hw. destruct Hw as [Hw H2]. apply andb_prop in Hw. destruct Hw as [H1 Hx].
      split; [auto|]. intros q Hq. apply (B_all S env gp); [exact Hx|exact Hn|apply (dup_none_distinct x q Hq)]. }
    rewrite render_arr in Ha. cbn [events_of dup_pos] in Hd |- *.
    eapply LFail_after; [apply (L_open S env ArrayBegin KArr JArray); [reflexivity|exact Ho]|].
    apply LFail_before.
    apply (D_items p stk' _ items (p + 1) [] d HF); [|exact Hd].
    apply parts_at_join. apply (At_part S p _ [x5b] (join [x2c] (map ritem items)) [x5d] _ Ha); reflexivity.
  - rewrite wfg_obj in Hw. apply andb_prop in Hw. destruct Hw as [Hlen Hw]. cbn [no_exponent] in Hn.
    assert (HF : Forall (fun m => DB (snd (fst m))) ms /\
                 Forall (fun m => let '(_, k, _, _, _, _) := m in is_string_token k = true) ms).
    { rewrite forallb_forall in Hw, Hn. rewrite !Forall_forall in *. split; intros [[[[[w1 k] w2] w3] x] w4] Hin;
      specialize (Hw _ Hin); specialize (Hn _ Hin); specialize (IH _ Hin);
      cbn in Hw, Hn, IH |- *;
      repeat match type of Hw with (_ && _)%bool = true => apply andb_prop in Hw; destruct Hw as [Hw ?] end; auto.
      split; [auto|]. intros q Hq. apply (B_all S env gp); [assumption|exact Hn|apply (dup_none_distinct x q Hq)]. }
    destruct HF as [HF HK].
    rewrite render_obj in Ha. cbn [events_of dup_pos] in Hd |- *.
    eapply LFail_after; [apply (L_open S env ObjectBegin KObj JObject); [reflexivity|exact Ho]|].
    apply LFail_before.
    apply (D_mems p stk' _ ms (p + 1) [] [] d HF HK); [|constructor|exact Hd].
    apply parts_at_join. apply (At_part S p _ [x7b] (join [x2c] (map rmem ms)) [x7d] _ Ha); reflexivity.
Qed.
End LoaderDup.

Theorem duplicate_key_refused_json : forall w1 v w2 d,
  all_blank w1 = true -> Grammar.wf v = true -> all_blank w2 = true -> no_exponent v = true ->
  dup_pos (len w1) v = Some d ->
  load (w1 ++ render v ++ w2) = LError 402 d.
Proof.
  intros w1 v w2 d H1 Hv H2 Hn Hd. unfold load, load_with, load_state.
  rewrite (scan_plain_json w1 v w2 H1 Hv H2 Hn).
  fold (src_of (w1 ++ render v ++ w2)). set (S := src_of (w1 ++ render v ++ w2)).
  assert (HT : LFail S env0 (LS [] None) (text_events w1 v w2) d).
  { unfold text_events. eapply LFail_after; [apply L_nls|]. apply LFail_before.
    apply (D_all S env0 all_blank v ltac:(rewrite wfg_blank; exact Hv) Hn (len w1) [] [] None d (At_text w1 v w2) eq_refl Hd). }
  specialize (HT l0 (ex_intro _ 0 eq_refl) []). rewrite app_nil_r in HT. rewrite HT. reflexivity.
Qed.

(* ---- the same in the "first repeated key" form, for the top-level object ---- *)
Lemma mems_dup_some_fresh F seen : forall ms q d, mems_dup F seen q ms = Some d ->
  keys_fresh seen (map key_of ms) = true ->
  exists m, In m ms /\ exists q', (let '(w1, k, w2, w3, x, _) := m in F q' x) = Some d.
Proof.
  intros ms. revert seen. induction ms as [|m r IH]; intros seen q d H Hf; [discriminate H|].
  cbn [mems_dup] in H. cbn [map keys_fresh] in Hf. apply andb_prop in Hf. destruct Hf as [Hn Hf].
  apply negb_true_iff in Hn. rewrite Hn in H.
  destruct m as [[[[[w1 k] w2] w3] x] w4].
  destruct (F (q + len w1 + len k + len w2 + 1 + len w3) x) as [d0|] eqn:E.
  - inversion H; subst d0. exists (w1, k, w2, w3, x, w4). split; [left; reflexivity|]. eexists. exact E.
  - destruct (IH _ _ _ H Hf) as [m' [Hin Hm']]. exists m'. split; [right; exact Hin|exact Hm'].
Qed.

Lemma distinct_dup_none : forall v p, distinct_keys v = true -> dup_pos p v = None.
Proof.
  induction v as [t|w|items IH|w|ms IH] using jv_ind2; intros p H; try reflexivity.
  - cbn [dup_pos]. cbn [distinct_keys] in H. revert H. generalize (p + 1). clear p.
    induction items as [|[[w1 x] w2] l IHl]; intros q H; [reflexivity|].
    inversion IH as [|? ? Hx IH']; subst. cbn [fst snd] in Hx.
    cbn [forallb] in H. apply andb_prop in H. destruct H as [H1 H2].
    cbn [items_dup]. rewrite (Hx _ H1). apply (IHl IH' _ H2).
  - cbn [dup_pos]. cbn [distinct_keys] in H. apply andb_prop in H. destruct H as [Hf H].
    destruct (mems_dup dup_pos [] (p + 1) ms) as [d|] eqn:E; [exfalso|reflexivity].
    destruct (mems_dup_some_fresh _ _ _ _ _ E Hf) as [[[[[[w1 k] w2] w3] x] w4] [Hin [q' Hq']]].
    rewrite Forall_forall in IH. rewrite forallb_forall in H.
    specialize (IH _ Hin). specialize (H _ Hin). cbn in IH, H. rewrite (IH q' H) in Hq'. discriminate Hq'.
Qed.

Definition mem_value (m : bytes * bytes * bytes * bytes * jv * bytes) : jv := let '(_, _, _, _, x, _) := m in x.

Lemma mems_dup_skip : forall pre seen q rest,
  keys_fresh seen (map key_of pre) = true -> forallb (fun m => distinct_keys (mem_value m)) pre = true ->
  mems_dup dup_pos seen q (pre ++ rest) =
  mems_dup dup_pos (rev (map key_of pre) ++ seen) (q + len (flat_map (fun m => rmem m ++ [x2c]) pre)) rest.
Proof.
  induction pre as [|m r IH]; intros seen q rest Hf Hd.
  - cbn [app map rev flat_map]. rewrite len_nil, N.add_0_r. reflexivity.
  - cbn [map keys_fresh] in Hf. apply andb_prop in Hf. destruct Hf as [Hn Hf]. apply negb_true_iff in Hn.
    cbn [forallb] in Hd. apply andb_prop in Hd. destruct Hd as [Hd1 Hd2].
    cbn [app mems_dup]. rewrite Hn. destruct m as [[[[[w1 k] w2] w3] x] w4]. cbn [mem_value] in Hd1.
    rewrite (distinct_dup_none x _ Hd1). rewrite (IH _ _ rest Hf Hd2).
    cbn [map rev flat_map]. rewrite <- app_assoc. cbn [app]. f_equal. len_solve.
Qed.

Lemma existsb_rev' {A} (f : A -> bool) l : existsb f (rev l) = existsb f l.
Proof.
  induction l as [|a l IH]; [reflexivity|]. cbn [rev existsb]. rewrite existsb_app, IH. cbn [existsb].
  rewrite orb_false_r. apply orb_comm.
Qed.

Theorem duplicate_key_refused_first : forall w1 pre w1j k w2j w3j x w4j post w2,
  let ms := pre ++ (w1j, k, w2j, w3j, x, w4j) :: post in
  all_blank w1 = true -> Grammar.wf (JObj ms) = true -> all_blank w2 = true -> no_exponent (JObj ms) = true ->
  keys_fresh [] (map key_of pre) = true ->
  forallb (fun m => distinct_keys (mem_value m)) pre = true ->
  existsb (fun s => beq s (Loader.unquote k)) (map key_of pre) = true ->
  load (w1 ++ render (JObj ms) ++ w2) =
  LError 402 (len w1 + 1 + len (flat_map (fun m => rmem m ++ [x2c]) pre) + len w1j).
Proof.
  intros w1 pre w1j k w2j w3j x w4j post w2 ms H1 Hv H2 Hn Hf Hd He.
  apply duplicate_key_refused_json; try assumption.
  cbn [dup_pos]. unfold ms. rewrite (mems_dup_skip pre [] _ _ Hf Hd). cbn [mems_dup key_of].
  rewrite app_nil_r, existsb_rev', He. reflexivity.
Qed.

(* ---- [distinct_keys] in words: the keys of every object, as stored, are pairwise different ---- *)
Lemma beq_eq a : forall b, beq a b = true <-> a = b.
Proof.
  induction a as [|x a IH]; intros [|y b]; cbn [beq]; split; intros H; try reflexivity; try discriminate H.
  - apply andb_prop in H. destruct H as [H1 H2]. apply byte_eqb_eq in H1. apply IH in H2. subst. reflexivity.
  - inversion H; subst. apply andb_true_intro. split; [unfold byte_eqb; apply N.eqb_refl|apply IH; reflexivity].
Qed.
Lemma existsb_beq_In k seen : existsb (fun s => beq s k) seen = true <-> In k seen.
Proof.
  rewrite existsb_exists. split.
  - intros [s [Hin Hs]]. apply beq_eq in Hs. subst. exact Hin.
  - intros Hin. exists k. split; [exact Hin|apply beq_eq; reflexivity].
Qed.
Lemma keys_fresh_spec : forall ks seen,
  keys_fresh seen ks = true <-> NoDup ks /\ forall k, In k ks -> ~ In k seen.
Proof.
  induction ks as [|k r IH]; intros seen; cbn [keys_fresh].
  - split; [intros _; split; [constructor|intros k []]|reflexivity].
  - rewrite andb_true_iff, negb_true_iff, IH. split.
    + intros [Hn [Hd Hs]]. split.
      * constructor; [|exact Hd]. intros Hin. apply (Hs k Hin). left. reflexivity.
      * intros k' [<-|Hin] Hse.
        -- apply existsb_beq_In in Hse. rewrite Hse in Hn. discriminate Hn.
        -- apply (Hs k' Hin). right. exact Hse.
    + intros [Hd Hs]. inversion Hd as [|? ? Hni Hd']; subst. split; [|split; [exact Hd'|]].
      * destruct (existsb (fun s => beq s k) seen) eqn:E; [|reflexivity].
        apply existsb_beq_In in E. exfalso. apply (Hs k (or_introl eq_refl) E).
      * intros k' Hin [<-|Hse]; [exact (Hni Hin)|exact (Hs k' (or_intror Hin) Hse)].
Qed.
Corollary keys_fresh_NoDup ks : keys_fresh [] ks = true <-> NoDup ks.
Proof.
  rewrite keys_fresh_spec. split; [intros [H _]; exact H|intros H; split; [exact H|intros k _ []]].
Qed.
Lemma distinct_keys_obj ms :
  distinct_keys (JObj ms) = true <->
  NoDup (map key_of ms) /\ forall m, In m ms -> distinct_keys (mem_value m) = true.
Proof.
  cbn [distinct_keys]. rewrite andb_true_iff, keys_fresh_NoDup, forallb_forall.
  split; intros [H1 H2]; (split; [exact H1|]); intros [[[[[w1 k] w2] w3] x] w4] Hin; apply (H2 _ Hin).
Qed.
