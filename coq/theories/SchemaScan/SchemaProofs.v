(* SchemaProofs.v — proofs about the schema scanner model of SchemaScanner.v:
   P1 no internal panic (scan, schema_len), P2 error positions, P3 spans, P4 Len is a prefix length,
   P5 agreement with the JSON scanner on plain JSON. *)
From Coq Require Import List NArith Bool Arith Lia.
From Coq Require Import Strings.Byte.
Import ListNotations.
From JS Require Import Common.Wire SchemaScan.SchemaScanner.
From JS Require Json.Scanner.

(* ================================================================== *)
(* 0. generalities                                                     *)
(* ================================================================== *)
Lemma frev_rev {A} (l : list A) : frev l = rev l.
Proof. unfold frev. symmetry. apply rev_alt. Qed.

Definition types (stk : list (ev * N)) : list ev := map fst stk.

Lemma ev_eqb_eq a b : ev_eqb a b = true -> a = b.
Proof. destruct a, b; cbn; intros H; try reflexivity; discriminate H. Qed.
Lemma ev_eqb_refl a : ev_eqb a a = true.
Proof. destruct a; reflexivity. Qed.

(* ---- the types-only stack machine ---- *)
Definition tpf (v : list ev) (e : ev) : option (list ev) :=
  match e with
  | NewLine | EndTop => Some v
  | _ =>
    if is_opening e then Some (e :: v)
    else match v with
         | [] => None
         | p :: r => if (nonscalar_pair p e || scalar_pair p e)%bool then Some r else None
         end
  end.
Fixpoint tpfs (v : list ev) (fs : list ev) : option (list ev) :=
  match fs with
  | [] => Some v
  | e :: r => match tpf v e with None => None | Some v' => tpfs v' r end
  end.

Lemma tpfs_app v a b :
  tpfs v (a ++ b) = match tpfs v a with Some v' => tpfs v' b | None => None end.
Proof.
  revert v. induction a as [|e a IH]; intros v; cbn [app tpfs]; [reflexivity|].
  destruct (tpf v e); [apply IH|reflexivity].
Qed.

Lemma process_found_types i pb htc stk e stk' x :
  process_found i pb htc stk e = Some (stk', x) -> tpf (types stk) e = Some (types stk').
Proof.
  unfold process_found, tpf.
  destruct e; cbn [is_opening is_ann_begin]; intros H; try (inversion H; subst; reflexivity);
  (destruct stk as [|[p b] rest]; [discriminate H|]; cbn [types map fst];
   destruct (nonscalar_pair p _); [inversion H; subst; reflexivity|];
   destruct (scalar_pair p _); cbn [orb]; [|discriminate H];
   try (destruct pb; [|discriminate H]); inversion H; subst; reflexivity).
Qed.

Lemma process_found_some i pb htc stk e v :
  tpf (types stk) e = Some v -> (e = MixedValueEnd -> pb <> None) ->
  exists stk' x, process_found i pb htc stk e = Some (stk', x) /\ types stk' = v.
Proof.
  unfold process_found, tpf.
  destruct e; cbn [is_opening is_ann_begin]; intros H Hp;
  try (inversion H; subst; eexists; eexists; split; reflexivity);
  (destruct stk as [|[p b] rest]; [discriminate H|]; cbn [types map fst] in H;
   destruct (nonscalar_pair p _); cbn [orb] in H;
   [inversion H; subst; eexists; eexists; split; reflexivity|];
   destruct (scalar_pair p _); [|discriminate H];
   try (destruct pb; [|exfalso; apply Hp; reflexivity]);
   inversion H; subst; eexists; eexists; split; reflexivity).
Qed.

Lemma process_finds_some i pb htc fs : forall stk acc v,
  tpfs (types stk) fs = Some v -> (In MixedValueEnd fs -> pb <> None) ->
  exists stk' acc', process_finds i pb htc stk fs acc = (stk', acc', true) /\ types stk' = v.
Proof.
  induction fs as [|e r IH]; intros stk acc v H Hp; cbn [tpfs process_finds] in *.
  - inversion H; subst. eexists; eexists; split; reflexivity.
  - destruct (tpf (types stk) e) as [v1|] eqn:E; [|discriminate H].
    destruct (process_found_some i pb htc stk e v1 E) as [stk1 [x [E1 E2]]].
    { intros ->. apply Hp. left. reflexivity. }
    rewrite E1. subst v1. apply IH; [exact H|]. intros Hin. apply Hp. right. exact Hin.
Qed.

(* ================================================================== *)
(* 1. the invariant                                                    *)
(* ================================================================== *)
(* which opening event may lie directly on which, and which may lie at the bottom *)
Definition adj (up lo : ev) : bool :=
  match up, lo with
  | LiteralBegin, (ObjectValueBegin | ArrayItemBegin)
  | ObjectBegin, (ObjectValueBegin | ArrayItemBegin | InlineAnnotationBegin | MultiLineAnnotationBegin)
  | ArrayBegin, (ObjectValueBegin | ArrayItemBegin)
  | ObjectKeyBegin, ObjectBegin | KeyShortcutBegin, ObjectBegin
  | ObjectValueBegin, ObjectBegin | ArrayItemBegin, ArrayBegin
  | MixedValueBegin, (ObjectValueBegin | ArrayItemBegin)
  | TypesShortcutBegin, MixedValueBegin
  | InlineAnnotationTextBegin, InlineAnnotationBegin
  | MultiLineAnnotationTextBegin, MultiLineAnnotationBegin
  | InlineAnnotationBegin, (ObjectBegin | ArrayBegin)
  | MultiLineAnnotationBegin, (ObjectBegin | ArrayBegin) => true
  | _, _ => false
  end.
Definition bot (e : ev) : bool :=
  match e with
  | LiteralBegin | ObjectBegin | ArrayBegin | MixedValueBegin
  | InlineAnnotationBegin | MultiLineAnnotationBegin => true
  | _ => false
  end.
Fixpoint wf (v : list ev) : bool :=
  match v with
  | [] => true
  | e :: r => (match r with [] => bot e | lo :: _ => adj e lo end && wf r)%bool
  end.

(* the context types recorded for a stack *)
Fixpoint ctys (v : list ev) : list ctype :=
  match v with
  | [] => []
  | ObjectBegin :: r => CObject :: ctys r
  | ArrayBegin :: r => CArray :: ctys r
  | MixedValueBegin :: r => match r with [] => [CShortcut] | _ => ctys r end
  | _ :: r => ctys r
  end.
Definition ctx_ok (v : list ev) (cx : ctx) (pcs : list ctx) : Prop :=
  c_type cx :: map c_type pcs = ctys v ++ [CInitial].

(* steps from which an annotation may start; steps from which a comment may start *)
Definition hostA (f : st) : bool :=
  match f with
  | FoundRootValue | FoundObjectKeyBeginOrEmpty | FoundObjectKeyBegin | FoundObjectValueBegin
  | FoundArrayItemBeginOrEmpty | FoundArrayItemBegin | AfterObjectKey | AfterObjectValue
  | AfterArrayItem | SEndTop => true
  | _ => false
  end.
Definition cframe (f : st) : bool :=
  match f with
  | NoAnnot g => hostA g
  | FoundObjectKeyBeginAfterNewLine | InlineAnnotationTextPrefix | MultiLineAnnotationTextPrefix
  | EndTopAfterNewLine | InlineAnnotationTextSkip => true
  | _ => hostA f
  end.

(* syntactic equality test on event types (computes by pattern matching) *)
Definition eqev (a b : ev) : bool :=
  match a, b with
  | LiteralBegin, LiteralBegin => true
  | LiteralEnd, LiteralEnd => true
  | ObjectBegin, ObjectBegin => true
  | ObjectEnd, ObjectEnd => true
  | ObjectKeyBegin, ObjectKeyBegin => true
  | ObjectKeyEnd, ObjectKeyEnd => true
  | ObjectValueBegin, ObjectValueBegin => true
  | ObjectValueEnd, ObjectValueEnd => true
  | ArrayBegin, ArrayBegin => true
  | ArrayEnd, ArrayEnd => true
  | ArrayItemBegin, ArrayItemBegin => true
  | ArrayItemEnd, ArrayItemEnd => true
  | InlineAnnotationBegin, InlineAnnotationBegin => true
  | InlineAnnotationEnd, InlineAnnotationEnd => true
  | InlineAnnotationTextBegin, InlineAnnotationTextBegin => true
  | InlineAnnotationTextEnd, InlineAnnotationTextEnd => true
  | MultiLineAnnotationBegin, MultiLineAnnotationBegin => true
  | MultiLineAnnotationEnd, MultiLineAnnotationEnd => true
  | MultiLineAnnotationTextBegin, MultiLineAnnotationTextBegin => true
  | MultiLineAnnotationTextEnd, MultiLineAnnotationTextEnd => true
  | NewLine, NewLine => true
  | TypesShortcutBegin, TypesShortcutBegin => true
  | TypesShortcutEnd, TypesShortcutEnd => true
  | KeyShortcutBegin, KeyShortcutBegin => true
  | KeyShortcutEnd, KeyShortcutEnd => true
  | MixedValueBegin, MixedValueBegin => true
  | MixedValueEnd, MixedValueEnd => true
  | EndTop, EndTop => true
  | _, _ => false
  end.
Lemma eqev_eq a b : eqev a b = true -> a = b.
Proof. destruct a, b; cbn; intros H; try reflexivity; discriminate H. Qed.

Definition is_nil {A} (l : list A) : bool := match l with [] => true | _ => false end.
Definition top_is (v : list ev) (e : ev) : bool :=
  match v with x :: _ => eqev x e | [] => false end.

(* what the stack looks like when the step function is [f] *)
Fixpoint shape (f : st) (v : list ev) : bool :=
  match f with
  | FoundRootValue | SEndTop | EndTopAfterNewLine => is_nil v
  | FoundObjectKeyBeginOrEmpty | FoundObjectKeyBegin | FoundObjectKeyBeginAfterNewLine
  | FoundObjectValueBegin | AfterObjectKey | AfterObjectValue => top_is v ObjectBegin
  | FoundArrayItemBeginOrEmpty | FoundArrayItemBegin | AfterArrayItem => top_is v ArrayBegin
  | TypesShortcutBeginOfSchemaName | TypesShortcutSchemaName | TypesShortcutBeforePipe
  | TypesShortcutAfterPipe => top_is v TypesShortcutBegin
  | InlineAnnotation | InlineAnnotationTextPrefix | InlineAnnotationTextPrefix2 =>
    top_is v InlineAnnotationBegin
  | InlineAnnotationText => top_is v InlineAnnotationTextBegin
  | MultiLineAnnotation | MultiLineAnnotationTextPrefix | MultiLineAnnotationTextPrefix2
  | SMultiLineAnnotationEnd => top_is v MultiLineAnnotationBegin
  | MultiLineAnnotationText => top_is v MultiLineAnnotationTextBegin
  | NoAnnot g => (hostA g && shape g v)%bool
  | _ => true
  end.

(* the returnToStep entries of the annotations open in the stack *)
Fixpoint aframes (v : list ev) (r : list st) : bool :=
  match v with
  | [] => is_nil r
  | e :: v' =>
    if is_ann_begin e then
      match r with
      | g :: r' => (hostA g && shape g v' && aframes v' r')%bool
      | [] => false
      end
    else aframes v' r
  end.
Definition is_in_string (f : st) : bool := match f with InString => true | _ => false end.
Definition rts_base (f : st) (rts : list st) (v : list ev) : bool :=
  match f with
  | InStringEscU | InStringEscU1 | InStringEscU12 | InStringEscU123 =>
    match rts with g :: r => (is_in_string g && aframes v r)%bool | [] => false end
  | AnyAnnotationStart | InlineAnnotationStart | InlineAnnotationTextSkip =>
    match rts with g :: r => (hostA g && shape g v && aframes v r)%bool | [] => false end
  | _ => aframes v rts
  end.
(* a comment returns to the step it interrupted; that step may itself be waiting for its own
   returnToStep entry (InlineAnnotationTextSkip, fix 0196ace) *)
Definition rts_ok (f : st) (rts : list st) (v : list ev) : bool :=
  match f with
  | AnyCommentStart | InlineComment | MultiLineComment | MultiLineCommentStart =>
    match rts with g :: r => (cframe g && shape g v && rts_base g r v)%bool | [] => false end
  | _ => rts_base f rts v
  end.

(* [Good0]: the invariant for a scanner whose queue of finds is still to be applied: it speaks
   about the stack as it will be after the queue is drained *)
Definition Good0 (s : sc) : Prop :=
  exists v, tpfs (types (s_stk s)) (rev (s_finds s)) = Some v /\
            wf v = true /\ ctx_ok v (s_cx s) (s_pcs s) /\
            shape (s_step s) v = true /\ rts_ok (s_step s) (s_rts s) v = true.
Definition Good (s : sc) : Prop := Good0 s /\ s_back s = false /\ s_skip s = false.

Definition okres (r : res sc) : Prop :=
  match r with ROk s1 => Good s1 | RErr _ => True | RPanic => False end.

(* queued events that only close scalar events: then the real stack is the future stack with
   some scalar opening events on top *)
Definition is_cl (e : ev) : bool :=
  match e with
  | NewLine | LiteralEnd | ObjectKeyEnd | ObjectValueEnd | ArrayItemEnd
  | InlineAnnotationTextEnd | MultiLineAnnotationTextEnd | InlineAnnotationEnd
  | KeyShortcutEnd | TypesShortcutEnd | MixedValueEnd => true
  | _ => false
  end.
Definition closing_only (fs : list ev) : bool := forallb is_cl fs.
Definition not_ob (e : ev) : bool :=
  match e with ObjectBegin | ArrayBegin => false | _ => true end.

Lemma tpf_cl v e v' : is_cl e = true -> tpf v e = Some v' ->
  v' = v \/ exists p, v = p :: v' /\ not_ob p = true.
Proof.
  destruct e; cbn [is_cl]; intros Hc; try discriminate Hc; unfold tpf; cbn [is_opening];
  try (intros H; inversion H; left; reflexivity);
  (destruct v as [|p r]; [discriminate|]; destruct p; cbn [nonscalar_pair scalar_pair orb];
   intros H; try discriminate H; inversion H; subst; right; eexists; split; reflexivity).
Qed.

Lemma tpfs_cl fs : forall v v', closing_only fs = true -> tpfs v fs = Some v' ->
  exists pre, v = pre ++ v' /\ forallb not_ob pre = true.
Proof.
  induction fs as [|e r IH]; intros v v' Hc H; cbn [tpfs closing_only forallb] in *.
  - inversion H; subst. exists []. split; reflexivity.
  - apply andb_prop in Hc. destruct Hc as [Hc1 Hc2].
    destruct (tpf v e) as [v1|] eqn:E; [|discriminate H].
    destruct (IH v1 v' Hc2 H) as [pre [E1 E2]].
    destruct (tpf_cl v e v1 Hc1 E) as [->|[p [-> Hp]]].
    + exists pre. split; assumption.
    + exists (p :: pre). subst v1. split; [reflexivity|]. cbn [forallb]. rewrite Hp, E2. reflexivity.
Qed.

(* ---- isFoundLastObjectEndOnAnnotation ---- *)
Lemma sty_types stk n : sty stk n = nth_error (types stk) n.
Proof. unfold sty, types. symmetry. revert stk. induction n; intros [|x r]; cbn; auto. Qed.

Lemma not_ob_ob p : not_ob p = true -> ev_eqb p ObjectBegin = false.
Proof. destruct p; cbn; intros H; try reflexivity; discriminate H. Qed.

Lemma ifl_sound stk pre rest x :
  types stk = pre ++ ObjectBegin :: rest -> forallb not_ob pre = true ->
  is_found_last_object_end_on_annotation stk = Some x ->
  is_ann_begin x = true /\ exists r, rest = x :: r.
Proof.
  intros Et Hp. unfold is_found_last_object_end_on_annotation. rewrite !sty_types, Et. clear Et stk.
  destruct pre as [|p0 [|p1 [|p2 [|p3 pre]]]]; cbn [forallb] in Hp;
    repeat match type of Hp with (_ && _)%bool = true => apply andb_prop in Hp; destruct Hp as [? Hp] end;
    repeat match goal with H : not_ob _ = true |- _ => apply not_ob_ob in H end;
    cbn [app nth_error ty_is ty_ann]; intros Hfl.
  all: repeat match type of Hfl with
       | context [ev_eqb ?p ?e] =>
         is_var p; let E := fresh "E" in destruct (ev_eqb p e) eqn:E;
         [apply ev_eqb_eq in E; subst p|]
       end; cbn in Hfl; try discriminate Hfl.
  all: try congruence.
  all: destruct rest as [|y rest]; cbn [ty_ann] in Hfl; [discriminate Hfl|];
       destruct (is_ann_begin y) eqn:Ey; [|discriminate Hfl]; inversion Hfl; subst;
       split; [exact Ey|eexists; reflexivity].
Qed.

(* ================================================================== *)
(* 2. symbolic execution of the state functions                        *)
(* ================================================================== *)
#[local] Arguments ch : simpl never.
#[local] Arguments is_nl : simpl never.
#[local] Arguments is_blank : simpl never.
#[local] Arguments is_space : simpl never.
#[local] Arguments is_digit : simpl never.
#[local] Arguments is_digit19 : simpl never.
#[local] Arguments is_hex : simpl never.
#[local] Arguments is_ctl : simpl never.
#[local] Arguments is_name : simpl never.
#[local] Arguments bN : simpl never.
#[local] Arguments N.eqb : simpl never.
#[local] Arguments is_new_line : simpl never.
#[local] Arguments Good : simpl never.
#[local] Arguments Good0 : simpl never.
#[local] Arguments ctx_ok : simpl never.
#[local] Arguments tpfs : simpl never.
#[local] Arguments wf : simpl never.
#[local] Arguments rev : simpl never.
#[local] Arguments types : simpl never.
#[local] Arguments is_found_last_object_end_on_annotation : simpl never.
#[local] Arguments is_inside_multi_line_annotation : simpl never.

Lemma is_new_line_cases s c :
  (is_new_line s c = ROk true /\ is_nl c = true) \/
  (is_new_line s c = ROk false /\ is_nl c = false) \/
  (exists code, is_new_line s c = RErr code).
Proof.
  unfold is_new_line. destruct (is_nl c); [|right; left; split; reflexivity].
  destruct (s_ann s); [left; split; reflexivity|right; right; eexists; reflexivity|left; split; reflexivity].
Qed.

Ltac inner t :=
  lazymatch t with
  | match ?x with _ => _ end => inner x
  | _ => t
  end.

(* one step of case analysis on the scrutinee that blocks the computation of the result *)
Ltac exec1 :=
  lazymatch goal with
  | |- okres ?r =>
    let d := inner r in
    tryif constr_eq d r then fail "leaf" else
    lazymatch d with
    | is_new_line ?s ?c =>
      let E := fresh "Enl" in let E' := fresh "Enl" in
      destruct (is_new_line_cases s c) as [[E E']|[[E E']|[? E]]]; rewrite E
    | st_found_array_end _ => fail "call"
    | _ => tryif is_var d then destruct d else destruct d eqn:?
    end
  end; cbn.
Ltac exec := repeat exec1.

Ltac dsc s := destruct s as [step rts stk pcs cx finds ann unf lc bnd allow htc back skip].

(* take the invariant apart *)
Ltac good_inv HG :=
  let v := fresh "v" in
  destruct HG as [[v [Hv [Hwf [Hcx [Hsh Hrt]]]]] [Hbk Hsk]]; cbn in Hv, Hwf, Hcx, Hsh, Hrt, Hbk, Hsk.

(* the top of the future stack, from the shape *)
Ltac top_inv H :=
  lazymatch type of H with
  | top_is ?v _ = true =>
    let y := fresh "y" in
    destruct v as [|y v]; [discriminate H|]; cbn [top_is] in H; apply eqev_eq in H; subst y
  | is_nil ?v = true => destruct v; [clear H|discriminate H]
  end.

(* the element below a known top, from well-formedness *)
Ltac wf_next H :=
  lazymatch type of H with
  | wf (_ :: ?v) = true =>
    let y := fresh "y" in
    unfold wf in H; fold wf in H;
    destruct v as [|y v]; cbn [bot adj andb] in H; [try discriminate H|];
    [..|destruct y; cbn [bot adj andb] in H; try discriminate H]
  end.

Ltac unf :=
  lazy beta iota zeta delta
    [found push_rts pop_rts set_context restore_context ann_none is_annotation_start
     is_comment_start switch_to_comment switch_to_annotation leave_inline_annotation
     err_char err_key new_context
     set_step set_rts set_stk set_pcs set_cx set_finds set_ann set_unf set_bnd set_allow
     set_htc set_back set_skip
     s_step s_rts s_stk s_pcs s_cx s_finds s_ann s_unf s_lc s_bnd s_allow s_htc s_back s_skip].
(* the same with the continuations that depend on the opcode of stateBeginValue *)
Ltac unf2 :=
  lazy beta iota zeta delta
    [found push_rts pop_rts set_context restore_context ann_none is_annotation_start
     is_comment_start switch_to_comment switch_to_annotation leave_inline_annotation
     switch_begin founds fold_left allow_annotation_for_array_item okres
     err_char err_key new_context
     set_step set_rts set_stk set_pcs set_cx set_finds set_ann set_unf set_bnd set_allow
     set_htc set_back set_skip
     s_step s_rts s_stk s_pcs s_cx s_finds s_ann s_unf s_lc s_bnd s_allow s_htc s_back s_skip].

Lemma rev_cons_app {A} (x : A) l : rev (x :: l) = rev l ++ [x].
Proof. reflexivity. Qed.
Lemma tpfs_one v e : tpfs v [e] = tpf v e.
Proof. unfold tpfs. destruct (tpf v e); reflexivity. Qed.
Lemma tpfs_nil v : tpfs v [] = Some v.
Proof. reflexivity. Qed.
Lemma wf_tail e v : wf (e :: v) = true -> wf v = true.
Proof. unfold wf; fold wf. intros H. apply andb_prop in H. apply H. Qed.
Lemma forallb_rev {A} (f : A -> bool) l : forallb f (rev l) = forallb f l.
Proof.
  induction l as [|x l IH]; [reflexivity|]. rewrite rev_cons_app, forallb_app, IH. cbn [forallb].
  rewrite andb_true_r. apply andb_comm.
Qed.

(* the future stack of a scanner with some more finds queued *)
Ltac vst_solve Hv :=
  repeat rewrite rev_cons_app; repeat rewrite tpfs_app; rewrite ?Hv; cbn [rev app];
  repeat (first [rewrite tpfs_one | rewrite tpfs_nil];
          cbn [tpf is_opening nonscalar_pair scalar_pair orb]);
  try reflexivity.

Ltac ctx_solve :=
  unfold ctx_ok in *; cbn [ctys map c_type app] in *;
  repeat match goal with H : _ :: _ = _ :: _ |- _ => inversion H; clear H end;
  try congruence.

Lemma ctx_ok_pcs_ob v cx : ~ ctx_ok (ObjectBegin :: v) cx [].
Proof. unfold ctx_ok. cbn. intros H. inversion H. destruct (ctys v); discriminate. Qed.

Lemma found_object_end_ok s v0 :
  tpfs (types (s_stk s)) (rev (s_finds s)) = Some (ObjectBegin :: v0) ->
  wf (ObjectBegin :: v0) = true -> ctx_ok (ObjectBegin :: v0) (s_cx s) (s_pcs s) ->
  aframes v0 (s_rts s) = true -> closing_only (s_finds s) = true ->
  s_back s = false -> s_skip s = false ->
  okres (st_found_object_end s).
Proof.
  dsc s. cbn. intros Hv Hwf Hcx Hrt Hcl Hbk Hsk. unfold st_found_object_end. unf.
  destruct pcs as [|c0 pcs]; [exfalso; exact (ctx_ok_pcs_ob _ _ Hcx)|]. cbn.
  pose proof (wf_tail _ _ Hwf) as Hwf0.
  assert (Hbase : forall f, shape f v0 = true -> rts_ok f rts v0 = aframes v0 rts ->
     Good (mksc f rts stk pcs c0 (ObjectEnd :: finds) ann unf lc bnd allow htc back skip)).
  { intros f Hf Hr. split; [|split; assumption]. exists v0. cbn.
    split; [vst_solve Hv|]. split; [exact Hwf0|]. split; [ctx_solve|]. split; [exact Hf|].
    rewrite Hr. exact Hrt. }
  destruct (match ann with ANone => true | _ => false end).
  { apply Hbase; reflexivity. }
  destruct (is_found_last_object_end_on_annotation stk) as [x|] eqn:Ex; [|apply Hbase; reflexivity].
  destruct (tpfs_cl (rev finds) _ _ (eq_trans (forallb_rev _ _) Hcl) Hv) as [pre [Ep Hp]].
  destruct (ifl_sound stk pre v0 x Ep Hp Ex) as [Hx [r ->]].
  destruct x; try discriminate Hx; apply Hbase; reflexivity.
Qed.

Lemma hostA_rts_ok g r v : hostA g = true -> rts_ok g r v = aframes v r.
Proof. destruct g; cbn; intros H; try discriminate H; reflexivity. Qed.
Lemma cframe_rts_ok g r v : cframe g = true -> rts_ok g r v = rts_base g r v.
Proof. destruct g; cbn; intros H; try discriminate H; reflexivity. Qed.

Lemma wf_cons2 a b v : wf (a :: b :: v) = (adj a b && wf (b :: v))%bool.
Proof. reflexivity. Qed.
Lemma wf_one a : wf [a] = bot a.
Proof. unfold wf. apply andb_true_r. Qed.

Ltac norm_hyps :=
  repeat match goal with
  | H : (_ && _)%bool = true |- _ => apply andb_prop in H; destruct H
  | H : true = true |- _ => clear H
  end.
Ltac use_hyps :=
  repeat match goal with H : ?x = true |- context [?x] => rewrite H end.

Ltac wf_solve :=
  rewrite ?wf_cons2, ?wf_one; cbn [adj bot andb];
  first [ assumption | reflexivity
        | eapply wf_tail; eassumption
        | eapply wf_tail; eapply wf_tail; eassumption
        | eapply wf_tail; eapply wf_tail; eapply wf_tail; eassumption
        | eapply wf_tail; eapply wf_tail; eapply wf_tail; eapply wf_tail; eassumption ].
Ltac bool_solve :=
  repeat match goal with
  | H : _ = true |- _ => progress cbn in H
  end;
  cbn; norm_hyps;
  repeat match goal with
  | |- context [rts_ok ?g _ _] =>
    is_var g; first [rewrite (hostA_rts_ok g) by assumption | rewrite (cframe_rts_ok g) by assumption]
  end;
  use_hyps; try reflexivity.

(* [Good] of an explicit scanner record *)
Ltac leaf :=
  lazymatch goal with
  | |- Good _ =>
    split; [|split; cbn; first [assumption | reflexivity]];
    eexists; cbn; split; [match goal with Hv : tpfs _ _ = Some _ |- _ => vst_solve Hv end|];
    split; [wf_solve|]; split; [ctx_solve|]; split; bool_solve
  | |- True => exact I
  end.

Definition stepis (f : st) (c : byte) (s : sc) : Prop :=
  s_step s = f \/ (s_step s = NoAnnot f /\ ch c 47 = false).

Lemma found_array_end_ok s v0 :
  tpfs (types (s_stk s)) (rev (s_finds s)) = Some (ArrayBegin :: v0) ->
  wf (ArrayBegin :: v0) = true -> ctx_ok (ArrayBegin :: v0) (s_cx s) (s_pcs s) ->
  aframes v0 (s_rts s) = true -> closing_only (s_finds s) = true ->
  s_back s = false -> s_skip s = false ->
  okres (st_found_array_end s).
Proof.
  dsc s. cbn. intros Hv Hwf Hcx Hrt Hcl Hbk Hsk. unfold st_found_array_end. unf.
  destruct (tpfs_cl (rev finds) _ _ (eq_trans (forallb_rev _ _) Hcl) Hv) as [pre [Ep Hp]].
  assert (Hne : stk <> []) by (intros ->; destruct pre; discriminate Ep).
  destruct pcs as [|c0 pcs]; [exfalso; ctx_solve; destruct (ctys v0); discriminate|].
  destruct stk as [|x stk]; [congruence|].
  destruct (match ann with ANone => true | _ => false end); cbn; leaf.
Qed.

#[local] Arguments closing_only : simpl never.
Lemma closing_only_cons e fs : closing_only (e :: fs) = (is_cl e && closing_only fs)%bool.
Proof. reflexivity. Qed.

Ltac host_start s HG Hst :=
  dsc s;
  let v := fresh "v" in
  destruct HG as [[v [Hv [Hwf [Hcx [Hsh Hrt]]]]] [Hbk Hsk]]; cbn in Hv, Hwf, Hcx, Hsh, Hrt, Hbk, Hsk;
  destruct Hst as [Hst|[Hst Hc47]]; cbn in Hst; subst; cbn in Hsh, Hrt;
  try top_inv Hsh;
  match goal with Hcl : closing_only _ = true |- _ => cbn in Hcl end.

Ltac side :=
  lazymatch goal with
  | |- tpfs _ _ = Some _ => match goal with Hv : tpfs _ _ = Some _ |- _ => vst_solve Hv end
  | |- wf _ = true => wf_solve
  | |- ctx_ok _ _ _ => first [assumption | ctx_solve]
  | |- closing_only _ = true =>
    rewrite ?closing_only_cons; cbn [is_cl andb]; first [assumption | reflexivity]
  | |- _ = _ => first [reflexivity | assumption | bool_solve]
  end.

Ltac fin :=
  unf2;
  repeat match goal with
  | |- Good ?t =>
    match t with
    | context [match ?x with _ => _ end] =>
      let d := inner x in (tryif is_var d then destruct d else destruct d eqn:?); cbn
    end
  end;
  first [ solve [leaf]
        | exfalso; congruence
        | eapply found_object_end_ok; cbn; side
        | eapply found_array_end_ok; cbn; side ].

Lemma after_object_key_ok c s :
  Good s -> closing_only (s_finds s) = true -> stepis AfterObjectKey c s ->
  okres (st_after_object_key c s).
Proof.
  intros HG Hcl Hst. host_start s HG Hst; unfold st_after_object_key; unf; rewrite ?Hc47; exec; fin.
Qed.

Lemma after_object_value_ok c s :
  Good s -> closing_only (s_finds s) = true -> stepis AfterObjectValue c s ->
  okres (st_after_object_value c s).
Proof.
  intros HG Hcl Hst. host_start s HG Hst; unfold st_after_object_value; unf; rewrite ?Hc47; exec; fin.
Qed.

Lemma after_array_item_ok c s :
  Good s -> closing_only (s_finds s) = true -> stepis AfterArrayItem c s ->
  okres (st_after_array_item c s).
Proof.
  intros HG Hcl Hst. host_start s HG Hst; unfold st_after_array_item; unf; rewrite ?Hc47; exec; fin.
Qed.

Lemma end_top_ok c la s :
  Good s -> closing_only (s_finds s) = true -> stepis SEndTop c s ->
  okres (st_end_top c la s).
Proof.
  intros HG Hcl Hst. host_start s HG Hst; unfold st_end_top; unf; rewrite ?Hc47; exec; fin.
Qed.

Ltac unfst :=
  unfold st_found_root_value, st_found_object_key_begin_or_empty, st_found_object_key_begin,
    st_found_object_key_begin_after_new_line, st_found_object_value_begin,
    st_found_array_item_begin_or_empty, st_found_array_item_begin, st_begin_array_item_or_empty,
    key_begin_tail, begin_key_shortcut, st_begin_key_or_empty,
    st_begin_annotation_object_key_or_empty, st_begin_annotation_object_key,
    st_in_annotation_object_key_first_letter, st_begin_string, st_begin_value.

Lemma found_root_value_ok c s :
  Good s -> closing_only (s_finds s) = true -> stepis FoundRootValue c s ->
  okres (st_found_root_value c s).
Proof.
  intros HG Hcl Hst. host_start s HG Hst; unfst; unf; rewrite ?Hc47; exec; fin.
Qed.

Lemma found_object_key_begin_or_empty_ok c s :
  Good s -> closing_only (s_finds s) = true -> stepis FoundObjectKeyBeginOrEmpty c s ->
  okres (st_found_object_key_begin_or_empty c s).
Proof.
  intros HG Hcl Hst. host_start s HG Hst; unfst; unf; rewrite ?Hc47; exec; fin.
Qed.

Lemma found_object_key_begin_ok c pb s :
  Good s -> closing_only (s_finds s) = true -> stepis FoundObjectKeyBegin c s ->
  okres (st_found_object_key_begin c pb s).
Proof.
  intros HG Hcl Hst. host_start s HG Hst; unfst; unf; rewrite ?Hc47; exec; fin.
Qed.

Lemma found_object_value_begin_ok c s :
  Good s -> closing_only (s_finds s) = true -> stepis FoundObjectValueBegin c s ->
  okres (st_found_object_value_begin c s).
Proof.
  intros HG Hcl Hst. host_start s HG Hst; unfst; unf; rewrite ?Hc47; exec; fin.
Qed.

Lemma found_array_item_begin_or_empty_ok c s :
  Good s -> closing_only (s_finds s) = true -> stepis FoundArrayItemBeginOrEmpty c s ->
  okres (st_found_array_item_begin_or_empty c s).
Proof.
  intros HG Hcl Hst. host_start s HG Hst; unfst; unf; rewrite ?Hc47; exec;
  try match goal with
  | |- context [st_found_array_end ?s'] =>
    let H := fresh "Hae" in
    assert (H : okres (st_found_array_end s')) by (eapply found_array_end_ok; cbn; side);
    destruct (st_found_array_end s'); cbn in H |- *; [exact H|exact I|exact H]
  end; fin.
Qed.

Lemma found_array_item_begin_ok c s :
  Good s -> closing_only (s_finds s) = true -> stepis FoundArrayItemBegin c s ->
  okres (st_found_array_item_begin c s).
Proof.
  intros HG Hcl Hst. host_start s HG Hst; unfst; unf; rewrite ?Hc47; exec; fin.
Qed.

(* ---- stateEndValue ---- *)
Definition Kspec (c : byte) (k : st -> sc -> res sc) : Prop :=
  forall f s, hostA f = true -> stepis f c s -> Good s -> closing_only (s_finds s) = true ->
              okres (k f s).


Lemma types_cons t b r : types ((t, b) :: r) = t :: types r.
Proof. reflexivity. Qed.

Lemma end_value_switch_ok c k s t v0 :
  Kspec c k ->
  tpfs (types (s_stk s)) (rev (s_finds s)) = Some (t :: v0) ->
  wf (t :: v0) = true -> ctx_ok (t :: v0) (s_cx s) (s_pcs s) ->
  aframes (t :: v0) (s_rts s) = true -> closing_only (s_finds s) = true ->
  (t = InlineAnnotationBegin -> s_finds s = []) ->
  s_back s = false -> s_skip s = false ->
  okres (end_value_switch c k t s).
Proof.
  intros HK. dsc s. cbn. intros Hv Hwf Hcx Hrt Hcl Hia Hbk Hsk. subst.
  destruct t; unfold end_value_switch; try exact I.
  - (* ObjectKeyBegin *) wf_next Hwf. unf. apply after_object_key_ok; [leaf|cbn; side|left; reflexivity].
  - (* ObjectValueBegin *) wf_next Hwf. unf. apply after_object_value_ok; [leaf|cbn; side|left; reflexivity].
  - (* ArrayItemBegin *) wf_next Hwf. unf. apply after_array_item_ok; [leaf|cbn; side|left; reflexivity].
  - (* InlineAnnotationBegin *)
    specialize (Hia eq_refl). subst finds. unf. destruct lc; [|exact I].
    destruct stk as [|[t b] stk]; [discriminate Hv|].
    change (rev []) with (@nil ev) in Hv. rewrite tpfs_nil, types_cons in Hv. inversion Hv; subst.
    cbn in Hrt. destruct rts as [|g rts]; [discriminate Hrt|]. norm_hyps. cbn.
    apply HK; [assumption|left; reflexivity| |reflexivity].
    split; [|split; reflexivity]. exists (types stk). cbn. split; [reflexivity|].
    split; [wf_solve|]. split; [ctx_solve|]. split; [assumption|].
    rewrite hostA_rts_ok by assumption. assumption.
  - (* TypesShortcutBegin *)
    wf_next Hwf. wf_next Hwf.
    + unfold finish_shortcut. unf. destruct (c_type cx) eqn:Ec; cbn; try solve [exfalso; ctx_solve].
      destruct pcs as [|c0 pcs]; [solve [exfalso; ctx_solve]|]. unf.
      apply HK; [reflexivity|left; reflexivity|leaf|cbn; side].
    + wf_next Hwf. unfold finish_shortcut. unf. destruct (c_type cx) eqn:Ec; cbn; try solve [exfalso; ctx_solve].
      apply HK; [reflexivity|left; reflexivity|leaf|cbn; side].
    + wf_next Hwf. unfold finish_shortcut. unf. destruct (c_type cx) eqn:Ec; cbn; try solve [exfalso; ctx_solve].
      apply HK; [reflexivity|left; reflexivity|leaf|cbn; side].
  - (* KeyShortcutBegin *) wf_next Hwf. unf. apply after_object_key_ok; [leaf|cbn; side|left; reflexivity].
Qed.

Lemma end_value_ok c la k s :
  Kspec c k -> s_finds s = [] ->
  wf (types (s_stk s)) = true -> ctx_ok (types (s_stk s)) (s_cx s) (s_pcs s) ->
  aframes (types (s_stk s)) (s_rts s) = true ->
  s_back s = false -> s_skip s = false ->
  okres (st_end_value c la k s).
Proof.
  intros HK. dsc s. cbn. intros Hf Hwf Hcx Hrt Hbk Hsk. subst.
  assert (Hv : tpfs (types stk) (rev []) = Some (types stk)) by reflexivity.
  unfold st_end_value. unf.
  destruct stk as [|[t0 b0] rest].
  - apply end_top_ok; [leaf|reflexivity|left; reflexivity].
  - rewrite types_cons in *.
    destruct (ev_eqb t0 LiteralBegin) eqn:E0.
    + apply ev_eqb_eq in E0. subst t0.
      destruct rest as [|[t1 b1] rest].
      * change (types []) with (@nil ev) in *. apply end_top_ok; [leaf|reflexivity|left; reflexivity].
      * rewrite types_cons in *.
        eapply (end_value_switch_ok c k _ t1 (types rest) HK); cbn;
          try (intros ->; rewrite !wf_cons2 in Hwf; discriminate Hwf); try side.
    + eapply (end_value_switch_ok c k _ t0 (types rest) HK); cbn; try reflexivity; try assumption.
Qed.

(* ---- the other state functions, from a scanner whose queue is empty ---- *)

Ltac good_start HG :=
  let v := fresh "v" in
  destruct HG as [[v [Hv [Hwf [Hcx [Hsh Hrt]]]]] [Hbk Hsk]]; cbn in Hv, Hwf, Hcx, Hsh, Hrt, Hbk, Hsk;
  subst; try top_inv Hsh.

Ltac bool_contra :=
  repeat match goal with H : _ = true |- _ => progress cbn in H end;
  norm_hyps;
  match goal with
  | H : false = true |- _ => discriminate H
  | E : ev_eqb _ _ = false |- _ => vm_compute in E; discriminate E
  | _ => congruence
  end.

Ltac fin2 :=
  unf2;
  repeat match goal with
  | |- Good ?t =>
    match t with
    | context [match ?x with _ => _ end] =>
      let d := inner x in (tryif is_var d then destruct d else destruct d eqn:?); cbn
    end
  end;
  first [ solve [leaf]
        | exfalso; bool_contra
        | eapply found_object_end_ok; cbn; side
        | eapply found_array_end_ok; cbn; side ].

Ltac unflit :=
  unfold st_in_string, st_in_string_esc, hex_then, st_neg, st_dot, expect, expect_last,
    st_types_shortcut_begin_of_schema_name, st_types_shortcut_after_pipe,
    st_in_annotation_object_key_first_letter.

Lemma lit_ok c la pb k s :
  Good s -> s_finds s = [] ->
  match s_step s with
  | InString | InStringEsc | InStringEscU | InStringEscU1 | InStringEscU12 | Neg | Dot
  | ST | STr | STru | SF | SFa | SFal | SFals | SN | SNu | SNul
  | TypesShortcutBeginOfSchemaName | TypesShortcutAfterPipe | InAnnotationObjectKeyFirstLetter => True
  | _ => False
  end ->
  okres (dispatch c la pb k (s_step s) s).
Proof.
  intros HG Hf Hst. dsc s. cbn in Hst, Hf. subst finds.
  destruct step; try (exfalso; exact Hst); clear Hst;
    (good_start HG; lazy beta iota delta [dispatch]; unflit; unf; exec; fin2).
Qed.

Ltac fin3 HK :=
  first [ fin2
        | eapply end_value_ok; [exact HK|cbn; side ..] ].

Lemma evl_ok c la pb k s :
  Kspec c k -> Good s -> s_finds s = [] ->
  match s_step s with
  | EndValue | S0 | S1 | Dot0 | KeyShortcut | InAnnotationObjectKey | InAnnotationObjectKeyAfter => True
  | _ => False
  end ->
  okres (dispatch c la pb k (s_step s) s).
Proof.
  intros HK HG Hf Hst. dsc s. cbn in Hst, Hf. subst finds.
  destruct step; try (exfalso; exact Hst); clear Hst;
    (good_start HG; change (rev []) with (@nil ev) in Hv; rewrite tpfs_nil in Hv;
     inversion Hv; subst v;
     assert (Hv' : tpfs (types stk) (rev []) = Some (types stk)) by reflexivity;
     lazy beta iota delta [dispatch];
     unfold st_1, st_0, st_dot0, st_key_shortcut, st_in_annotation_object_key,
       st_in_annotation_object_key_after; unf; exec; fin3 HK).
Qed.

Lemma ts_ok c la pb k s :
  Kspec c k -> Good s -> s_finds s = [] ->
  match s_step s with
  | TypesShortcutSchemaName | TypesShortcutBeforePipe => True
  | _ => False
  end ->
  okres (dispatch c la pb k (s_step s) s).
Proof.
  intros HK HG Hf Hst. dsc s. cbn in Hst, Hf. subst finds.
  destruct step; try (exfalso; exact Hst); clear Hst;
    (good_start HG;
     assert (Hty : types stk = TypesShortcutBegin :: v)
       by (change (rev []) with (@nil ev) in Hv; rewrite tpfs_nil in Hv; inversion Hv; reflexivity);
     wf_next Hwf; wf_next Hwf; try wf_next Hwf;
     lazy beta iota delta [dispatch];
     unfold st_types_shortcut_schema_name, st_types_shortcut_before_pipe, finish_shortcut; unf; exec;
     first [ fin2
           | solve [exfalso; ctx_solve]
           | solve [unf; apply HK; [reflexivity|left; reflexivity|leaf|cbn; side]]
           | eapply end_value_ok; [exact HK|cbn; rewrite ?Hty; side ..] ]).
Qed.

(* ---- annotations ---- *)
Lemma brace_facts c : ch c 123 = true ->
  ch c 47 = false /\ ch c 35 = false /\ is_nl c = false /\ is_blank c = false.
Proof.
  intros H. assert (Hb : bN c = 123%N) by (apply N.eqb_eq; exact H).
  unfold is_blank, is_space, is_nl, ch. rewrite Hb. repeat split; reflexivity.
Qed.

Lemma root_brace c s : ch c 123 = true ->
  st_found_root_value c s =
  ROk (switch_begin [] true BVObject (set_step FoundObjectKeyBeginOrEmpty s)).
Proof.
  intros H. destruct (brace_facts c H) as [H1 [H2 [H3 H4]]].
  unfold st_found_root_value, st_begin_value, is_annotation_start, is_comment_start, is_new_line.
  rewrite H1, H2, H3, H4, H. destruct (s_ann s); reflexivity.
Qed.

Lemma ann_start_ok c la pb k s :
  Good s -> s_finds s = [] ->
  match s_step s with
  | AnyAnnotationStart | InlineAnnotationStart => True
  | _ => False
  end ->
  okres (dispatch c la pb k (s_step s) s).
Proof.
  intros HG Hf Hst. dsc s. cbn in Hst, Hf. subst finds.
  destruct step; try (exfalso; exact Hst); clear Hst;
    (good_start HG; destruct rts as [|g rts]; [discriminate Hrt|]; norm_hyps;
     destruct g; try discriminate;
     match goal with H : shape _ _ = true |- _ => cbn in H; top_inv H end;
     lazy beta iota delta [dispatch];
     unfold st_any_annotation_start, st_inline_annotation_start, begin_inline_annotation;
     unf; exec; fin2).
Qed.

Lemma ann_ok c la pb k s :
  Good s -> s_finds s = [] ->
  match s_step s with
  | InlineAnnotation
  | InlineAnnotationTextPrefix | InlineAnnotationTextPrefix2 | InlineAnnotationText
  | InlineAnnotationTextSkip
  | MultiLineAnnotation | MultiLineAnnotationTextPrefix | MultiLineAnnotationTextPrefix2
  | SMultiLineAnnotationEnd | MultiLineAnnotationText => True
  | _ => False
  end ->
  okres (dispatch c la pb k (s_step s) s).
Proof.
  intros HG Hf Hst. dsc s. cbn in Hst, Hf. subst finds.
  destruct step; try (exfalso; exact Hst); clear Hst;
    (good_start HG;
     try match type of Hwf with
         | wf (InlineAnnotationTextBegin :: _) = true => wf_next Hwf
         | wf (MultiLineAnnotationTextBegin :: _) = true => wf_next Hwf
         end;
     lazy beta iota delta [dispatch];
     unfold st_inline_annotation, st_inline_annotation_text_prefix, st_inline_annotation_text_prefix2,
       st_inline_annotation_text_skip, st_multi_line_annotation,
       st_multi_line_annotation_text_prefix, st_multi_line_annotation_text_prefix2,
       st_multi_line_annotation_end, st_multi_line_annotation_text, st_inline_annotation_text;
     unf; exec; rewrite ?root_brace by assumption; fin2).
Qed.

(* ---- \uXXXX, comments, the closure after an inline annotation ---- *)
Lemma escu123_ok c la pb k s :
  Good s -> s_finds s = [] -> s_step s = InStringEscU123 ->
  okres (dispatch c la pb k (s_step s) s).
Proof.
  intros HG Hf Hst. dsc s. cbn in Hst, Hf. subst finds step.
  good_start HG. destruct rts as [|g rts]; [discriminate Hrt|]. norm_hyps.
  destruct g; try discriminate.
  lazy beta iota delta [dispatch]. unfold st_in_string_esc_u123. unf. exec; fin2.
Qed.

(* the result of the state function the byte is given to: the scanner is good, and either it is a
   normal return, or stateInlineComment stepped back (only NewLine is queued and the step is the
   one the comment interrupted), or stateMultiLineComment skipped two bytes (which exist) *)
Definition is_comment (f : st) : bool :=
  match f with
  | AnyCommentStart | InlineComment | MultiLineComment | MultiLineCommentStart => true
  | _ => false
  end.
Definition okresB (la : bytes) (fe : st) (r : res sc) : Prop :=
  match r with
  | ROk s1 =>
    Good0 s1 /\
    ((s_back s1 = false /\ s_skip s1 = false) \/
     (s_back s1 = true /\ s_skip s1 = false /\ s_finds s1 = [NewLine] /\ cframe (s_step s1) = true /\
      is_comment fe = true) \/
     (s_back s1 = false /\ s_skip s1 = true /\ 2 <= length la /\ is_comment fe = true))
  | RErr _ => True
  | RPanic => False
  end.
Lemma okres_B la fe r : okres r -> okresB la fe r.
Proof.
  destruct r as [s1| |]; cbn; auto. intros [H0 [H1 H2]]. split; [exact H0|]. left. split; assumption.
Qed.

Ltac leaf0 :=
  eexists; cbn; split; [match goal with Hv : tpfs _ _ = Some _ |- _ => vst_solve Hv end|];
  split; [wf_solve|]; split; [ctx_solve|]; split; bool_solve.

Lemma comment_ok c la pb k s :
  Good s -> s_finds s = [] ->
  match s_step s with
  | AnyCommentStart | InlineComment | MultiLineComment | MultiLineCommentStart => True
  | _ => False
  end ->
  okresB la (s_step s) (dispatch c la pb k (s_step s) s).
Proof.
  intros HG Hf Hst. dsc s. cbn in Hst, Hf. subst finds.
  destruct step; try (exfalso; exact Hst); clear Hst;
    (good_start HG; destruct rts as [|g rts]; [discriminate Hrt|]; norm_hyps;
     lazy beta iota delta [dispatch];
     unfold st_any_comment_start, st_multi_line_comment_start, st_inline_comment, st_multi_line_comment, next_is; unf;
     repeat (lazymatch goal with
             | |- okresB _ _ ?r =>
               let d := inner r in
               tryif constr_eq d r then fail else (tryif is_var d then destruct d else destruct d eqn:?)
             end; cbn);
     try exact I;
     repeat (match goal with |- context [existsb ?f ?l] => destruct (existsb f l) eqn:? end; cbn);
     (split; [solve [leaf0]|]; cbn;
      first [ left; split; reflexivity
            | right; left; repeat split; first [reflexivity|assumption]
            | right; right; repeat split; try reflexivity; cbn; lia ])).
Qed.

Lemma noannot_ok c la pb k s g :
  Kspec c k -> Good s -> s_finds s = [] -> s_step s = NoAnnot g ->
  okres (dispatch c la pb k (s_step s) s).
Proof.
  intros HK HG Hf Hst. rewrite Hst. lazy beta iota delta [dispatch]. unfold is_annotation_start, err_char.
  destruct (ch c 47) eqn:E; [exact I|].
  assert (Hh : hostA g = true).
  { destruct HG as [[v [_ [_ [_ [Hsh _]]]]] _]. rewrite Hst in Hsh. cbn in Hsh.
    apply andb_prop in Hsh. apply Hsh. }
  apply HK; [exact Hh|right; split; assumption|exact HG|rewrite Hf; reflexivity].
Qed.

Lemma after_new_line_ok c la pb k s :
  Good s -> s_finds s = [] -> s_step s = FoundObjectKeyBeginAfterNewLine ->
  okres (dispatch c la pb k (s_step s) s).
Proof.
  intros HG Hf Hst. dsc s. cbn in Hst, Hf. subst finds step.
  good_start HG. assert (Hcl : closing_only [] = true) by reflexivity.
  lazy beta iota delta [dispatch]. unfst. unf. exec; fin2.
Qed.

Lemma end_top_after_new_line_ok c la pb k s :
  Good s -> s_finds s = [] -> s_step s = EndTopAfterNewLine ->
  okres (dispatch c la pb k (s_step s) s).
Proof.
  intros HG Hf Hst. dsc s. cbn in Hst, Hf. subst finds step.
  good_start HG. assert (Hcl : closing_only [] = true) by reflexivity.
  lazy beta iota delta [dispatch]. unfold st_end_top_after_new_line, st_end_top. unf. exec; fin2.
Qed.

(* ---- every state function ---- *)
Lemma dispatch_ok c la pb k s :
  Kspec c k -> Good s -> s_finds s = [] -> okresB la (s_step s) (dispatch c la pb k (s_step s) s).
Proof.
  intros HK HG Hf.
  assert (Hcl : closing_only (s_finds s) = true) by (rewrite Hf; reflexivity).
  destruct (s_step s) eqn:E;
    first
      [ apply okres_B; rewrite <- E;
        first [ apply lit_ok; [assumption|assumption|rewrite E; exact I]
              | apply evl_ok; [assumption|assumption|assumption|rewrite E; exact I]
              | apply ts_ok; [assumption|assumption|assumption|rewrite E; exact I]
              | apply ann_start_ok; [assumption|assumption|rewrite E; exact I]
              | apply ann_ok; [assumption|assumption|rewrite E; exact I]
              | apply escu123_ok; assumption
              | apply after_new_line_ok; assumption
              | apply end_top_after_new_line_ok; assumption
              | eapply noannot_ok; eassumption ]
      | rewrite <- E; apply comment_ok; [assumption|assumption|rewrite E; exact I]
      | apply okres_B; lazy beta iota delta [dispatch];
        first [ apply found_root_value_ok | apply found_object_key_begin_or_empty_ok
              | apply found_object_key_begin_ok | apply found_object_value_begin_ok
              | apply found_array_item_begin_or_empty_ok | apply found_array_item_begin_ok
              | apply after_object_key_ok | apply after_object_value_ok
              | apply after_array_item_ok | apply end_top_ok ];
        [assumption|assumption|left; assumption] ].
Qed.

Lemma call_S n c la pb f s : call (S n) c la pb f s = dispatch c la pb (call n c la pb) f s.
Proof. reflexivity. Qed.

Lemma call_host n c la pb : Kspec c (call (S n) c la pb).
Proof.
  intros f s Hh Hst HG Hcl. rewrite call_S.
  destruct f; try discriminate Hh; lazy beta iota delta [dispatch];
    first [ apply found_root_value_ok | apply found_object_key_begin_or_empty_ok
          | apply found_object_key_begin_ok | apply found_object_value_begin_ok
          | apply found_array_item_begin_or_empty_ok | apply found_array_item_begin_ok
          | apply after_object_key_ok | apply after_object_value_ok
          | apply after_array_item_ok | apply end_top_ok ]; assumption.
Qed.

Lemma call_ok c la pb s :
  Good s -> s_finds s = [] -> okresB la (s_step s) (call call_fuel c la pb (s_step s) s).
Proof.
  intros HG Hf. change call_fuel with (S (S 14)). rewrite call_S.
  apply dispatch_ok; [apply call_host|assumption|assumption].
Qed.

(* ================================================================== *)
(* 3. Next(): one byte, the whole text, the end of input               *)
(* ================================================================== *)
Ltac execP1 :=
  lazymatch goal with
  | |- ?P ?r =>
    let d := inner r in
    tryif constr_eq d r then fail "leaf" else
    lazymatch d with
    | is_new_line ?s ?c =>
      let E := fresh "Enl" in let E' := fresh "Enl" in
      destruct (is_new_line_cases s c) as [[E E']|[[E E']|[? E]]]; rewrite E; [rewrite ?E'|rewrite ?E'|]
    | _ => tryif is_var d then destruct d else destruct d eqn:?
    end
  end; cbn.

(* MixedValueEnd reads the byte before the current one: it is never queued for the first byte *)
Definition nomve (r : res sc) : Prop :=
  match r with ROk s1 => ~ In MixedValueEnd (s_finds s1) | _ => True end.
Lemma root_no_mve c la pb n s : s_finds s = [] -> nomve (call (S n) c la pb FoundRootValue s).
Proof.
  intros Hf. dsc s. cbn in Hf. subst finds. rewrite call_S. lazy beta iota delta [dispatch].
  unfst. unf. repeat execP1; unf2; cbn; intuition discriminate.
Qed.

Lemma good0_drain s1 stk' :
  Good0 s1 ->
  (forall v, tpfs (types (s_stk s1)) (rev (s_finds s1)) = Some v -> types stk' = v) ->
  Good0 (set_back false (set_finds [] (set_stk stk' s1))).
Proof.
  destruct s1. intros [v [Hv R]] H. exists v. cbn in *. rewrite (H v Hv). split; [reflexivity|exact R].
Qed.

Lemma cframe_not_comment f : cframe f = true -> is_comment f = false.
Proof. destruct f; cbn; intros H; try reflexivity; discriminate H. Qed.

Lemma rts_ok_comment f rts v : is_comment f = true -> rts_ok f rts v = true -> 1 <= length rts.
Proof.
  destruct f; cbn; intros H; try discriminate H; destruct rts; intros H'; try discriminate H'; cbn; lia.
Qed.

Definition rb_ok (la : bytes) (r : list lexev * (sc + outcome)) : Prop :=
  match snd r with
  | inr Panic => False
  | inr _ => True
  | inl s' => Good0 s' /\ s_finds s' = [] /\ s_back s' = false /\ (s_skip s' = true -> 2 <= length la)
  end.

Lemma read_byte_ok la c : forall fuel s idx pb acc,
  Good s -> s_finds s = [] -> (pb = None -> s_step s = FoundRootValue) ->
  1 <= fuel -> (is_comment (s_step s) = true -> 2 <= fuel) ->
  rb_ok la (read_byte fuel s idx pb c la acc).
Proof.
  induction fuel as [|fuel IH]; intros s idx pb acc HG Hf Hpb H1 H2; [lia|].
  cbn [read_byte].
  pose proof (call_ok c la pb s HG Hf) as H.
  pose proof (root_no_mve c la pb 15 s Hf) as Hm. change (S 15) with call_fuel in Hm.
  destruct (call call_fuel c la pb (s_step s) s) as [s1|code|] eqn:Ec; cbn [okresB] in H;
    [|exact I|exact H].
  destruct H as [HG0 Hd].
  destruct Hd as [[Hb Hs]|[[Hb [Hs [Hfd [Hcf Hcm]]]]|[Hb [Hs [Hla Hcm]]]]]; rewrite Hb.
  - (* normal return *)
    destruct HG0 as [v [Hv R]].
    destruct (process_finds_some idx pb (s_htc s1) (frev (s_finds s1)) (s_stk s1) acc v) as [stk' [acc' [Ep Et]]].
    { rewrite frev_rev. exact Hv. }
    { intros Hin Hn. specialize (Hpb Hn). rewrite Hpb in Ec. rewrite Ec in Hm. cbn in Hm.
      apply Hm. rewrite frev_rev in Hin. apply in_rev. exact Hin. }
    rewrite Ep. unfold rb_ok. cbn [snd].
    split; [apply good0_drain; [exists v; split; assumption|intros v' Hv'; congruence]|].
    destruct s1; cbn in *. repeat split. intros Hx. congruence.
  - (* stateInlineComment stepped back *)
    rewrite Hfd. cbn [frev rev_append process_finds process_found].
    assert (Hc2 : is_comment (s_step s) = true) by exact Hcm.
    specialize (H2 Hc2).
    apply IH.
    + split; [|destruct s1; cbn in *; split; [reflexivity|assumption]].
      apply good0_drain; [exact HG0|]. intros v Hv. rewrite Hfd in Hv. cbn in Hv. inversion Hv. reflexivity.
    + destruct s1; reflexivity.
    + intros Hn. specialize (Hpb Hn). rewrite Hpb in Hc2. discriminate Hc2.
    + lia.
    + intros Hx. exfalso. destruct s1; cbn in *. rewrite (cframe_not_comment _ Hcf) in Hx. discriminate Hx.
  - (* stateMultiLineComment skipped two bytes *)
    destruct HG0 as [v [Hv R]].
    destruct (process_finds_some idx pb (s_htc s1) (frev (s_finds s1)) (s_stk s1) acc v) as [stk' [acc' [Ep Et]]].
    { rewrite frev_rev. exact Hv. }
    { intros Hin Hn. specialize (Hpb Hn). rewrite Hpb in Hcm. discriminate Hcm. }
    rewrite Ep. unfold rb_ok. cbn [snd].
    split; [apply good0_drain; [exists v; split; assumption|intros v' Hv'; congruence]|].
    destruct s1; cbn in *. repeat split. intros _. exact Hla.
Qed.

Definition r_out (r : list lexev * outcome * sc * option byte) : outcome := snd (fst (fst r)).
Definition r_sc (r : list lexev * outcome * sc * option byte) : sc := snd (fst r).
Definition r_acc (r : list lexev * outcome * sc * option byte) : list lexev := fst (fst (fst r)).

Lemma good_skip_false s : Good0 s -> s_finds s = [] -> s_back s = false ->
  Good (set_skip false s) /\ s_finds (set_skip false s) = [].
Proof.
  destruct s. cbn. intros [v R] Hf Hb. subst. split; [|reflexivity].
  split; [exists v; exact R|split; reflexivity].
Qed.

Lemma run_ok_n n : forall bs s idx pb acc, length bs <= n ->
  Good s -> s_finds s = [] -> (pb = None -> s_step s = FoundRootValue) ->
  r_out (run s idx pb bs acc) <> Panic /\
  (r_out (run s idx pb bs acc) = Done ->
   Good (r_sc (run s idx pb bs acc)) /\ s_finds (r_sc (run s idx pb bs acc)) = []).
Proof.
  induction n as [|n IH]; intros bs s idx pb acc Hn HG Hf Hpb;
    (destruct bs as [|c r]; cbn [run]; [|cbn [length] in Hn; try lia]).
  1,2: (unfold r_out, r_sc; cbn; (split; [discriminate|]); intros _; split; assumption).
  - pose proof (read_byte_ok r c (S (length (s_rts s))) s idx pb acc HG Hf Hpb) as H.
    assert (H1 : 1 <= S (length (s_rts s))) by lia.
    assert (H2 : is_comment (s_step s) = true -> 2 <= S (length (s_rts s))).
    { intros Hc. destruct HG as [[v [_ [_ [_ [_ Hr]]]]] _].
      pose proof (rts_ok_comment _ _ _ Hc Hr). lia. }
    specialize (H H1 H2). unfold rb_ok in H.
    destruct (read_byte (S (length (s_rts s))) s idx pb c r acc) as [acc' [s'|o]]; cbn [snd] in H.
    + destruct H as [HG0 [Hf' [Hb' Hsk]]].
      destruct (s_skip s') eqn:Es.
      * specialize (Hsk eq_refl).
        destruct r as [|x [|y r2]]; cbn [length] in Hsk, Hn; try lia.
        destruct (good_skip_false s' HG0 Hf' Hb') as [G1 G2].
        apply IH; [lia|exact G1|exact G2|discriminate].
      * apply IH; [lia|split; [exact HG0|split; assumption]|exact Hf'|discriminate].
    + unfold r_out; cbn. split; [destruct o; [discriminate|discriminate|destruct H]|].
      intros _. unfold r_sc; cbn. split; assumption.
Qed.

Lemma run_ok bs s idx pb acc :
  Good s -> s_finds s = [] -> (pb = None -> s_step s = FoundRootValue) ->
  r_out (run s idx pb bs acc) <> Panic /\
  (r_out (run s idx pb bs acc) = Done ->
   Good (r_sc (run s idx pb bs acc)) /\ s_finds (r_sc (run s idx pb bs acc)) = []).
Proof. apply (run_ok_n (length bs)). lia. Qed.

Lemma s_stk_set_stk stk s : s_stk (set_stk stk s) = stk.
Proof. destruct s; reflexivity. Qed.

Lemma tail_no_panic size lastb : forall fuel s index acc,
  wf (types (s_stk s)) = true ->
  (top_is (types (s_stk s)) TypesShortcutBegin = true -> index = size /\ lastb <> None) ->
  length (s_stk s) < fuel ->
  snd (tail fuel s index size lastb acc) <> Panic.
Proof.
  induction fuel as [|fuel IH]; intros s index acc Hwf Hts Hl; [lia|].
  cbn [tail]. destruct (s_stk s) as [|[t b] rest] eqn:Es;
    [destruct (unfinished_step (s_step s)); discriminate|].
  rewrite types_cons in Hwf, Hts. cbn [length] in Hl.
  destruct t; try discriminate.
  - (* LiteralBegin *)
    cbn [ev_eqb ev_code andb]. change (0 =? 0)%N with true. cbn [andb].
    destruct (s_unf s); [discriminate|].
    unfold process_found. cbn [is_opening nonscalar_pair scalar_pair].
    apply IH; rewrite s_stk_set_stk; [eapply wf_tail; exact Hwf| |lia].
    destruct rest as [|[t1 b1] rest]; [discriminate|]. rewrite types_cons in *. rewrite wf_cons2 in Hwf.
    destruct t1; try discriminate Hwf; discriminate.
  - (* InlineAnnotationBegin *)
    cbn [ev_eqb ev_code andb]. change (12 =? 0)%N with false. cbn [andb].
    unfold process_found. cbn [is_opening nonscalar_pair scalar_pair].
    apply IH; rewrite s_stk_set_stk; [eapply wf_tail; exact Hwf| |lia].
    destruct rest as [|[t1 b1] rest]; [discriminate|]. rewrite types_cons in *. rewrite wf_cons2 in Hwf.
    destruct t1; try discriminate Hwf; discriminate.
  - (* InlineAnnotationTextBegin *)
    cbn [ev_eqb ev_code andb]. change (14 =? 0)%N with false. cbn [andb].
    unfold process_found. cbn [is_opening nonscalar_pair scalar_pair].
    apply IH; rewrite s_stk_set_stk; [eapply wf_tail; exact Hwf| |lia].
    destruct rest as [|[t1 b1] rest]; [discriminate|]. rewrite types_cons in *. rewrite wf_cons2 in Hwf.
    destruct t1; try discriminate Hwf; discriminate.
  - (* TypesShortcutBegin *)
    destruct (s_unf s); [discriminate|].
    destruct (Hts eq_refl) as [-> Hlb]. rewrite N.eqb_refl.
    destruct lastb as [x|]; [|congruence].
    destruct rest as [|[t1 b1] rest]; [discriminate Hwf|]. rewrite types_cons in *. rewrite wf_cons2 in Hwf.
    destruct t1; try discriminate Hwf.
    unfold process_found. cbn [is_opening nonscalar_pair scalar_pair].
    apply IH; rewrite s_stk_set_stk; [eapply wf_tail; eapply wf_tail; exact Hwf| |cbn [length] in Hl; lia].
    cbn [andb] in Hwf.
    destruct rest as [|[t2 b2] rest]; [discriminate|]. rewrite types_cons in *. rewrite wf_cons2 in Hwf.
    destruct t2; try discriminate Hwf; discriminate.
Qed.

Lemma last_byte_some r : forall d, d <> None -> last_byte r d <> None.
Proof. induction r as [|c r IH]; intros d Hd; cbn [last_byte]; [exact Hd|]. apply IH. discriminate. Qed.

Lemma good_new lc : Good (new_scanner lc).
Proof.
  split; [|split; reflexivity]. exists []. cbn. repeat split; reflexivity.
Qed.

Lemma good_types s : Good s -> s_finds s = [] ->
  wf (types (s_stk s)) = true /\ ctx_ok (types (s_stk s)) (s_cx s) (s_pcs s) /\
  shape (s_step s) (types (s_stk s)) = true /\ rts_ok (s_step s) (s_rts s) (types (s_stk s)) = true.
Proof.
  intros [[v [Hv R]] _] Hf. rewrite Hf in Hv. change (rev []) with (@nil ev) in Hv.
  rewrite tpfs_nil in Hv. inversion Hv; subst v. exact R.
Qed.

(* P1 *)
Theorem schema_scan_no_panic : forall lc bs, snd (scan lc bs) <> Panic.
Proof.
  intros lc bs. unfold scan.
  assert (Hpb : @None byte = None -> s_step (new_scanner lc) = FoundRootValue) by reflexivity.
  pose proof (run_ok bs (new_scanner lc) 0%N None [] (good_new lc) eq_refl Hpb) as [H1 H2].
  destruct bs as [|c0 r0]; [destruct lc; vm_compute; discriminate|].
  destruct (run (new_scanner lc) 0%N None (c0 :: r0) []) as [[[acc o] s] pb'].
  unfold r_out, r_sc in *; cbn [fst snd] in *.
  destruct o; [|discriminate|exact H1].
  destruct (H2 eq_refl) as [HG Hf]. destruct (good_types s HG Hf) as [Hwf _].
  pose proof (tail_no_panic (N.of_nat (length (c0 :: r0))) (last_byte (c0 :: r0) None)
                (S (length (s_stk s))) s (N.of_nat (length (c0 :: r0))) acc Hwf) as Ht.
  destruct (tail (S (length (s_stk s))) s (N.of_nat (length (c0 :: r0))) (N.of_nat (length (c0 :: r0)))
                 (last_byte (c0 :: r0) None) acc) as [acc' o'].
  cbn [snd] in *. apply Ht; [|lia].
  intros _. split; [reflexivity|]. cbn [last_byte]. apply last_byte_some. discriminate.
Qed.

(* ================================================================== *)
(* 4. error positions (P2)                                             *)
(* ================================================================== *)
Lemma read_byte_err c la : forall fuel s idx pb acc code p,
  snd (read_byte fuel s idx pb c la acc) = inr (Err code p) -> p = idx.
Proof.
  induction fuel as [|fuel IH]; intros s idx pb acc code p; cbn [read_byte]; [discriminate|].
  destruct (call call_fuel c la pb (s_step s) s) as [s1|code'|]; cbn [snd];
    [|intros H; inversion H; reflexivity|discriminate].
  destruct (process_finds _ _ _ _ _ _) as [[stk' acc'] ok].
  destruct ok; [|discriminate].
  destruct (s_back s1); [apply IH|discriminate].
Qed.

Lemma run_pos_n n : forall bs s idx pb acc code p, length bs <= n ->
  r_out (run s idx pb bs acc) = Err code p -> (idx <= p < idx + N.of_nat (length bs))%N.
Proof.
  induction n as [|n IH]; intros bs s idx pb acc code p Hn;
    (destruct bs as [|c r]; cbn [run]; [unfold r_out; cbn; discriminate|cbn [length] in Hn; try lia]).
  pose proof (read_byte_err c r (S (length (s_rts s))) s idx pb acc) as Hr.
  destruct (read_byte (S (length (s_rts s))) s idx pb c r acc) as [acc' [s'|o]]; cbn [snd] in Hr.
  - destruct (s_skip s').
    + destruct r as [|x [|y r2]]; try (unfold r_out; cbn; discriminate).
      intros H. apply IH in H; [|cbn [length] in Hn; lia]. cbn [length]. lia.
    + intros H. apply IH in H; [|lia]. cbn [length]. lia.
  - unfold r_out; cbn. intros ->. specialize (Hr code p eq_refl). subst. cbn [length]. lia.
Qed.

Lemma tail_err size lastb : forall fuel s index acc code p,
  snd (tail fuel s index size lastb acc) = Err code p -> p = (size - 1)%N.
Proof.
  induction fuel as [|fuel IH]; intros s index acc code p; cbn [tail]; [discriminate|].
  destruct (s_stk s) as [|[t b] rest];
    [destruct (unfinished_step (s_step s)); cbn [snd]; intros H; inversion H; reflexivity|].
  destruct t; try (cbn [snd]; intros H; inversion H; reflexivity).
  - destruct (ev_eqb LiteralBegin LiteralBegin && s_unf s)%bool;
      [cbn [snd]; intros H; inversion H; reflexivity|].
    destruct (process_found _ _ _ _ _) as [[stk' x]|]; [apply IH|discriminate].
  - destruct (ev_eqb InlineAnnotationBegin LiteralBegin && s_unf s)%bool;
      [cbn [snd]; intros H; inversion H; reflexivity|].
    destruct (process_found _ _ _ _ _) as [[stk' x]|]; [apply IH|discriminate].
  - destruct (ev_eqb InlineAnnotationTextBegin LiteralBegin && s_unf s)%bool;
      [cbn [snd]; intros H; inversion H; reflexivity|].
    destruct (process_found _ _ _ _ _) as [[stk' x]|]; [apply IH|discriminate].
  - destruct (s_unf s); [cbn [snd]; intros H; inversion H; reflexivity|].
    destruct (process_found _ _ _ _ TypesShortcutEnd) as [[stk1 x1]|]; [|discriminate].
    destruct (process_found _ _ _ _ MixedValueEnd) as [[stk2 x2]|]; [apply IH|discriminate].
Qed.

(* P2 *)
Theorem schema_error_position_inside : forall lc bs c p,
  snd (scan lc bs) = Err c p -> bs <> [] -> (N.to_nat p < length bs)%nat.
Proof.
  intros lc bs c p H Hne. unfold scan in H.
  pose proof (run_pos_n (length bs) bs (new_scanner lc) 0%N None [] c p (le_n _)) as Hr.
  assert (Hl : 0 < length bs) by (destruct bs; [congruence|cbn [length]; lia]).
  destruct (run (new_scanner lc) 0%N None bs []) as [[[acc o] s] pb'].
  unfold r_out in Hr; cbn [fst snd] in Hr.
  destruct o.
  - pose proof (tail_err (N.of_nat (length bs)) (last_byte bs None) (S (length (s_stk s))) s
                  (N.of_nat (length bs)) acc c p) as Ht.
    destruct (tail _ _ _ _ _ _) as [acc' o']. cbn [snd] in *. specialize (Ht H). lia.
  - cbn [snd] in H. specialize (Hr H). lia.
  - discriminate H.
Qed.

(* ================================================================== *)
(* 5. spans (P3)                                                       *)
(* ================================================================== *)
(* a state function leaves the stack alone, except stateEndValue in lengthComputing mode, which
   drops the top *)
Definition suffix {A} (a b : list A) : Prop := exists pre, b = pre ++ a.
Lemma suffix_refl {A} (a : list A) : suffix a a.
Proof. exists []. reflexivity. Qed.
Lemma suffix_cons {A} (x : A) a b : suffix a b -> suffix a (x :: b).
Proof. intros [pre ->]. exists (x :: pre). reflexivity. Qed.

Definition stk_res (stk0 : list (ev * N)) (r : res sc) : Prop :=
  match r with ROk s1 => suffix (s_stk s1) stk0 | _ => True end.
Definition Kstk (k : st -> sc -> res sc) : Prop := forall f s, stk_res (s_stk s) (k f s).

Ltac unfall :=
  unfold st_found_root_value, st_found_object_key_begin_or_empty, st_found_object_key_begin,
    st_found_object_key_begin_after_new_line, st_found_object_value_begin,
    st_found_array_item_begin_or_empty, st_found_array_item_begin, st_begin_array_item_or_empty,
    key_begin_tail, begin_key_shortcut, st_begin_key_or_empty,
    st_begin_annotation_object_key_or_empty, st_begin_annotation_object_key,
    st_in_annotation_object_key_first_letter, st_begin_string, st_begin_value,
    st_after_object_key, st_after_object_value, st_after_array_item, st_end_top_after_new_line, st_end_top,
    st_found_object_end, st_found_array_end,
    st_in_string, st_in_string_esc, hex_then, st_in_string_esc_u123, st_neg, st_dot, expect,
    expect_last, st_types_shortcut_begin_of_schema_name, st_types_shortcut_after_pipe,
    st_any_comment_start, st_multi_line_comment_start, st_inline_comment, st_multi_line_comment, next_is,
    st_any_annotation_start, st_inline_annotation_start, begin_inline_annotation,
    st_inline_annotation, st_inline_annotation_text_prefix, st_inline_annotation_text_prefix2,
    st_inline_annotation_text_skip, st_multi_line_annotation,
    st_multi_line_annotation_text_prefix, st_multi_line_annotation_text_prefix2,
    st_multi_line_annotation_end, st_multi_line_annotation_text, st_inline_annotation_text,
    finish_shortcut.

Ltac stk_leaf Hk :=
  unf2; cbn;
  repeat match goal with
  | |- suffix ?t _ =>
    match t with
    | context [match ?x with _ => _ end] =>
      let d := inner x in (tryif is_var d then destruct d else destruct d eqn:?); cbn
    end
  end;
  first [ exact I
        | apply suffix_refl
        | apply suffix_cons; apply suffix_refl
        | match goal with
          | |- stk_res ?stk (?k ?f ?s') =>
            let H := fresh in
            pose proof (Hk f s') as H; cbn in H;
            destruct (k f s'); cbn in *; first [exact I | exact H | apply suffix_cons; exact H]
          end ].

Lemma after_stk c k t s : Kstk k -> stk_res (s_stk s) (end_value_switch c k t s).
Proof.
  intros Hk. dsc s. cbn. destruct t; unfold end_value_switch; try exact I;
    unfall; unf; repeat execP1; stk_leaf Hk.
Qed.

Lemma end_value_stk c la k s : Kstk k -> stk_res (s_stk s) (st_end_value c la k s).
Proof.
  intros Hk. unfold st_end_value.
  destruct (s_stk s) as [|[t0 b0] rest] eqn:Es.
  - dsc s. cbn in Es. subst. unfall. unf. repeat execP1; stk_leaf Hk.
  - destruct (ev_eqb t0 LiteralBegin).
    + destruct rest as [|[t1 b1] rest].
      * dsc s. cbn in Es. subst. unfall. unf. repeat execP1; stk_leaf Hk.
      * pose proof (after_stk c k t1 (found LiteralEnd s) Hk) as H.
        replace (s_stk (found LiteralEnd s)) with ((t0, b0) :: (t1, b1) :: rest) in H
          by (destruct s; cbn in *; congruence).
        exact H.
    + rewrite <- Es. apply after_stk. exact Hk.
Qed.

Lemma dispatch_stk c la pb k f s : Kstk k -> stk_res (s_stk s) (dispatch c la pb k f s).
Proof.
  intros Hk.
  destruct f; lazy beta iota delta [dispatch];
    unfold st_1, st_0, st_dot0, st_key_shortcut, st_in_annotation_object_key,
      st_in_annotation_object_key_after, st_types_shortcut_schema_name, st_types_shortcut_before_pipe;
    (dsc s; unfall; unf; repeat execP1;
     rewrite ?root_brace by assumption;
     first [ stk_leaf Hk | exact (end_value_stk _ _ _ _ Hk) ]).
Qed.

Lemma call_stk c la pb : forall n, Kstk (call n c la pb).
Proof.
  induction n as [|n IH]; intros f s; [exact I|]. rewrite call_S. apply dispatch_stk. exact IH.
Qed.

Definition stk_lt (n : N) (stk : list (ev * N)) : Prop := Forall (fun p => (snd p < n)%N) stk.
Definition ev_lt (n : N) (e : lexev) : Prop := (e_begin e < n /\ e_end e < n)%N.

Lemma stk_lt_suffix n a b : suffix a b -> stk_lt n b -> stk_lt n a.
Proof. intros [pre ->] H. apply Forall_app in H. apply H. Qed.

Lemma process_found_bound n i pb htc stk e stk' x : (i < n)%N -> stk_lt n stk ->
  process_found i pb htc stk e = Some (stk', x) -> stk_lt n stk' /\ ev_lt n x.
Proof.
  intros Hi Hs. unfold process_found, ev_lt.
  destruct e; cbn [is_opening is_ann_begin]; intros H;
    try (inversion H; subst; cbn [e_begin e_end];
         split; [first [assumption|constructor; [cbn [snd]; lia|assumption]]|split; lia]);
    (destruct stk as [|[p b] rest]; [discriminate H|];
     inversion Hs as [|? ? Hb Hr]; subst; cbn [snd] in Hb;
     destruct (nonscalar_pair p _);
     [inversion H; subst; cbn [e_begin e_end]; split; [assumption|split; lia]|];
     destruct (scalar_pair p _); [|discriminate H];
     try (destruct pb as [y|]; [|discriminate H]; destruct (ch y 32));
     inversion H; subst; cbn [e_begin e_end]; split; try assumption; split; lia).
Qed.

Lemma process_finds_bound n i pb htc fs : forall stk acc stk' acc' ok, (i < n)%N -> stk_lt n stk ->
  Forall (ev_lt n) acc ->
  process_finds i pb htc stk fs acc = (stk', acc', ok) -> stk_lt n stk' /\ Forall (ev_lt n) acc'.
Proof.
  induction fs as [|e r IH]; intros stk acc stk' acc' ok Hi Hs Ha; cbn [process_finds].
  - intros H. inversion H; subst. split; assumption.
  - destruct (process_found i pb htc stk e) as [[stk1 x]|] eqn:E.
    + destruct (process_found_bound n i pb htc stk e stk1 x Hi Hs E) as [H1 H2].
      apply IH; [exact Hi|exact H1|constructor; assumption].
    + intros H. inversion H; subst. split; assumption.
Qed.

Lemma read_byte_bound n c la : forall fuel s idx pb acc, (idx < n)%N -> stk_lt n (s_stk s) ->
  Forall (ev_lt n) acc ->
  Forall (ev_lt n) (fst (read_byte fuel s idx pb c la acc)) /\
  match snd (read_byte fuel s idx pb c la acc) with inl s' => stk_lt n (s_stk s') | inr _ => True end.
Proof.
  induction fuel as [|fuel IH]; intros s idx pb acc Hi Hs Ha; cbn [read_byte]; [split; [exact Ha|exact I]|].
  pose proof (call_stk c la pb call_fuel (s_step s) s) as Hk.
  destruct (call call_fuel c la pb (s_step s) s) as [s1|code|]; cbn [fst snd]; try (split; [exact Ha|exact I]).
  cbn in Hk. pose proof (stk_lt_suffix n _ _ Hk Hs) as Hs1.
  destruct (process_finds (if s_back s1 then (idx - 1)%N else idx) (if s_back s1 then None else pb)
              (s_htc s1) (s_stk s1) (frev (s_finds s1)) acc) as [[stk' acc'] ok] eqn:Ep.
  apply process_finds_bound with (n := n) in Ep; [|destruct (s_back s1); lia|exact Hs1|exact Ha].
  destruct Ep as [E1 E2].
  destruct ok; [|split; [exact E2|exact I]].
  destruct (s_back s1).
  - apply IH; [exact Hi| |exact E2]. destruct s1; exact E1.
  - cbn [fst snd]. split; [exact E2|]. destruct s1; exact E1.
Qed.

Lemma run_bound_n n m : forall bs s idx pb acc, length bs <= m ->
  (idx + N.of_nat (length bs) <= n)%N -> stk_lt n (s_stk s) -> Forall (ev_lt n) acc ->
  Forall (ev_lt n) (r_acc (run s idx pb bs acc)) /\ stk_lt n (s_stk (r_sc (run s idx pb bs acc))).
Proof.
  induction m as [|m IH]; intros bs s idx pb acc Hm Hi Hs Ha;
    (destruct bs as [|c r]; cbn [run]; [unfold r_acc, r_sc; cbn; split; assumption|cbn [length] in Hm; try lia]).
  cbn [length] in Hi.
  destruct (read_byte_bound n c r (S (length (s_rts s))) s idx pb acc) as [H1 H2]; [lia|exact Hs|exact Ha|].
  destruct (read_byte (S (length (s_rts s))) s idx pb c r acc) as [acc' [s'|o]]; cbn [fst snd] in H1, H2.
  - destruct (s_skip s').
    + destruct r as [|x [|y r2]]; try (unfold r_acc, r_sc; cbn; split; assumption).
      cbn [length] in Hi, Hm. apply IH; [lia|lia|destruct s'; exact H2|exact H1].
    + apply IH; [lia|lia|exact H2|exact H1].
  - unfold r_acc, r_sc; cbn. split; assumption.
Qed.

Definition ev_le (n : N) (e : lexev) : Prop := (e_begin e < n /\ e_end e <= n)%N.
Lemma ev_lt_le n e : ev_lt n e -> ev_le n e.
Proof. unfold ev_lt, ev_le. lia. Qed.

(* not closed by the end-of-input rule *)
Definition ncl (v : list ev) : bool :=
  match v with
  | (LiteralBegin | InlineAnnotationBegin | InlineAnnotationTextBegin | TypesShortcutBegin) :: _ => false
  | _ => true
  end.

Lemma tail_bound size lastb : forall fuel s index acc,
  wf (types (s_stk s)) = true -> stk_lt size (s_stk s) -> Forall (ev_le size) acc ->
  (index = size \/ (index = (size + 1)%N /\ top_is (types (s_stk s)) InlineAnnotationBegin = true) \/
   ncl (types (s_stk s)) = true) ->
  Forall (ev_le size) (fst (tail fuel s index size lastb acc)).
Proof.
  induction fuel as [|fuel IH]; intros s index acc Hwf Hs Ha Hi; cbn [tail]; [exact Ha|].
  destruct (s_stk s) as [|[t b] rest] eqn:Es; [destruct (unfinished_step (s_step s)); exact Ha|].
  rewrite types_cons in Hwf, Hi. inversion Hs as [|? ? Hb Hr]; subst. cbn [snd] in Hb.
  destruct t; try exact Ha.
  - (* LiteralBegin *)
    destruct (ev_eqb LiteralBegin LiteralBegin && s_unf s)%bool; [exact Ha|].
    unfold process_found. cbn [is_opening nonscalar_pair scalar_pair].
    apply IH; rewrite ?s_stk_set_stk; [eapply wf_tail; exact Hwf|exact Hr| |].
    + constructor; [|exact Ha]. unfold ev_le; cbn [e_begin e_end].
      destruct Hi as [->|[[_ H]|H]]; [lia|discriminate H|discriminate H].
    + right; right. destruct rest as [|[t1 b1] rest]; [reflexivity|]. rewrite types_cons in *.
      rewrite wf_cons2 in Hwf. destruct t1; try discriminate Hwf; reflexivity.
  - (* InlineAnnotationBegin *)
    destruct (ev_eqb InlineAnnotationBegin LiteralBegin && s_unf s)%bool; [exact Ha|].
    unfold process_found. cbn [is_opening nonscalar_pair scalar_pair].
    apply IH; rewrite ?s_stk_set_stk; [eapply wf_tail; exact Hwf|exact Hr| |].
    + constructor; [|exact Ha]. unfold ev_le; cbn [e_begin e_end].
      destruct Hi as [->|[[-> _]|H]]; [lia|lia|discriminate H].
    + right; right. destruct rest as [|[t1 b1] rest]; [reflexivity|]. rewrite types_cons in *.
      rewrite wf_cons2 in Hwf. destruct t1; try discriminate Hwf; reflexivity.
  - (* InlineAnnotationTextBegin *)
    destruct (ev_eqb InlineAnnotationTextBegin LiteralBegin && s_unf s)%bool; [exact Ha|].
    unfold process_found. cbn [is_opening nonscalar_pair scalar_pair].
    assert (Hix : index = size) by (destruct Hi as [->|[[_ H]|H]]; [reflexivity|discriminate H|discriminate H]).
    subst index.
    apply IH; rewrite ?s_stk_set_stk; [eapply wf_tail; exact Hwf|exact Hr| |].
    + constructor; [|exact Ha]. unfold ev_le; cbn [e_begin e_end]. lia.
    + right; left. split; [lia|]. destruct rest as [|[t1 b1] rest]; [discriminate Hwf|]. rewrite types_cons in *.
      rewrite wf_cons2 in Hwf. destruct t1; try discriminate Hwf; reflexivity.
  - (* TypesShortcutBegin *)
    destruct (s_unf s); [exact Ha|].
    assert (Hix : index = size) by (destruct Hi as [->|[[_ H]|H]]; [reflexivity|discriminate H|discriminate H]).
    subst index. rewrite N.eqb_refl.
    destruct rest as [|[t1 b1] rest]; [discriminate Hwf|]. rewrite types_cons in *. rewrite wf_cons2 in Hwf.
    destruct t1; try discriminate Hwf. cbn [andb] in Hwf.
    inversion Hr as [|? ? Hb1 Hr1]; subst. cbn [snd] in Hb1.
    unfold process_found. cbn [is_opening nonscalar_pair scalar_pair].
    destruct lastb as [y|]; [|cbn [fst]; constructor; [unfold ev_le; cbn [e_begin e_end]; lia|exact Ha]].
    apply IH; rewrite ?s_stk_set_stk; [eapply wf_tail; exact Hwf|exact Hr1| |].
    + constructor; [|constructor; [|exact Ha]]; unfold ev_le; cbn [e_begin e_end];
        [destruct (ch y 32); lia|lia].
    + right; right. destruct rest as [|[t2 b2] rest]; [reflexivity|]. rewrite types_cons in *.
      rewrite wf_cons2 in Hwf. destruct t2; try discriminate Hwf; reflexivity.
Qed.

Lemma Forall_frev {A} (P : A -> Prop) l : Forall P l -> Forall P (frev l).
Proof. rewrite frev_rev. apply Forall_rev. Qed.

(* P3: every delivered event begins inside the text and ends inside it or, for an event closed by
   the end of input, at most at the size of the text *)
Theorem schema_spans_inside : forall lc bs evs o, scan lc bs = (evs, o) ->
  Forall (fun e => (N.to_nat (e_begin e) < length bs)%nat /\ (N.to_nat (e_end e) <= length bs)%nat) evs.
Proof.
  intros lc bs evs o H. unfold scan in H.
  set (size := N.of_nat (length bs)) in *.
  assert (Hconv : forall l, Forall (ev_le size) l ->
    Forall (fun e => (N.to_nat (e_begin e) < length bs)%nat /\ (N.to_nat (e_end e) <= length bs)%nat) l).
  { intros l Hl. eapply Forall_impl; [|exact Hl]. unfold ev_le, size. intros e. cbn beta. lia. }
  assert (Hpb : @None byte = None -> s_step (new_scanner lc) = FoundRootValue) by reflexivity.
  pose proof (run_ok bs (new_scanner lc) 0%N None [] (good_new lc) eq_refl Hpb) as [_ H2].
  destruct (run_bound_n size (length bs) bs (new_scanner lc) 0%N None []) as [B1 B2];
    [lia|unfold size; lia|constructor|constructor|].
  destruct (run (new_scanner lc) 0%N None bs []) as [[[acc o1] s] pb'].
  unfold r_out, r_sc, r_acc in *; cbn [fst snd] in *.
  assert (Hacc : Forall (ev_le size) acc) by (eapply Forall_impl; [|exact B1]; apply ev_lt_le).
  destruct o1.
  - destruct (H2 eq_refl) as [HG Hf]. destruct (good_types s HG Hf) as [Hwf _].
    pose proof (tail_bound size (last_byte bs None) (S (length (s_stk s))) s size acc Hwf B2 Hacc
                  (or_introl eq_refl)) as Ht.
    destruct (tail (S (length (s_stk s))) s size size (last_byte bs None) acc) as [acc' o'].
    cbn [fst] in Ht. inversion H; subst. apply Hconv. apply Forall_frev. exact Ht.
  - inversion H; subst. apply Hconv. apply Forall_frev. exact Hacc.
  - inversion H; subst. apply Hconv. apply Forall_frev. exact Hacc.
Qed.

(* ================================================================== *)
(* 6. Schema.Len (P1 second half, P4)                                  *)
(* ================================================================== *)
Lemma length_loop_le size : forall evs len, Forall (ev_le size) evs -> (len <= size)%N ->
  (fst (length_loop size evs len) <= size)%N.
Proof.
  induction evs as [|e r IH]; intros len Hf Hl; cbn [length_loop]; [exact Hl|].
  inversion Hf as [|? ? [_ He] Hr]; subst.
  destruct (e_type e); try (apply IH; [exact Hr|]; destruct (N.eqb_spec (e_end e) size); lia).
  cbn [fst]. destruct (e_htc e); lia.
Qed.

Lemma scan_spans_N lc bs : Forall (ev_le (N.of_nat (length bs))) (fst (scan lc bs)).
Proof.
  pose proof (schema_spans_inside lc bs (fst (scan lc bs)) (snd (scan lc bs))) as H.
  eapply Forall_impl; [|apply H; destruct (scan lc bs); reflexivity].
  intros e. unfold ev_le. cbn beta. lia.
Qed.

Lemma drop_leading_newlines_Forall (P : lexev -> Prop) evs :
  Forall P evs -> Forall P (drop_leading_newlines evs).
Proof.
  induction evs as [|e r IH]; intros H; cbn [drop_leading_newlines]; [exact H|].
  inversion H as [|? ? He Hr]; subst. destruct (e_type e); try exact H. apply IH. exact Hr.
Qed.

Theorem schema_len_no_panic : forall bs, schema_len bs <> VPanic.
Proof.
  intros bs. unfold schema_len.
  pose proof (schema_scan_no_panic true bs) as Hp.
  pose proof (scan_spans_N true bs) as Hs.
  destruct (scan true bs) as [evs o]. cbn [fst snd] in *.
  pose proof (length_loop_le (N.of_nat (length bs)) (drop_leading_newlines evs) 0%N
                (drop_leading_newlines_Forall _ _ Hs) (N.le_0_l _)) as Hl.
  destruct (length_loop (N.of_nat (length bs)) (drop_leading_newlines evs) 0) as [raw stopped].
  cbn [fst] in Hl.
  destruct (N.ltb_spec (N.of_nat (length bs)) raw) as [Hlt|_]; [lia|].
  destruct (negb (has_example 0 (upto_end_top (drop_leading_newlines evs))));
  destruct (N.of_nat (length (trim_blank_rev (frev (firstn (N.to_nat raw) bs)))) =? 0)%N;
    (destruct stopped; [discriminate|]; destruct o; [discriminate|discriminate|exfalso; apply Hp; reflexivity]).
Qed.

Lemma trim_blank_rev_spec l :
  exists pre, l = pre ++ trim_blank_rev l /\
              (forall c t, trim_blank_rev l = c :: t -> is_blank c = false).
Proof.
  induction l as [|x l IH]; cbn [trim_blank_rev].
  - exists []. split; [reflexivity|]. intros c t H. discriminate H.
  - destruct (is_blank x) eqn:Ex.
    + destruct IH as [pre [E1 E2]]. exists (x :: pre). split; [cbn [app]; f_equal; exact E1|exact E2].
    + exists []. split; [reflexivity|]. intros c t H. inversion H; subst. exact Ex.
Qed.

(* what Len returns: the length of a prefix of the text that does not end in a blank *)
Lemma len_prefix_gen (bs : bytes) (raw : nat) :
  let n := length (trim_blank_rev (frev (firstn raw bs))) in
  n <= length bs /\ (forall c, nth_error bs (n - 1) = Some c -> 0 < n -> is_blank c = false).
Proof.
  cbn zeta. set (p := firstn raw bs). rewrite frev_rev.
  destruct (trim_blank_rev_spec (rev p)) as [pre [E1 E2]].
  set (t := trim_blank_rev (rev p)) in *.
  assert (Hp : p = rev t ++ rev pre).
  { rewrite <- (rev_involutive p), E1, rev_app_distr. reflexivity. }
  assert (Hlen : length t <= length p).
  { rewrite Hp, app_length, rev_length. lia. }
  assert (Hpl : length p <= length bs) by (unfold p; rewrite firstn_length; lia).
  split; [lia|].
  intros c Hn Hpos. destruct t as [|c0 t'] eqn:Et; [cbn in Hpos; lia|].
  specialize (E2 c0 t' eq_refl).
  assert (Hc : nth_error p (length (c0 :: t') - 1) = Some c0).
  { rewrite Hp. rewrite nth_error_app1 by (rewrite rev_length; cbn [length]; lia).
    change (rev (c0 :: t')) with (rev t' ++ [c0]). cbn [length]. rewrite nth_error_app2 by (rewrite rev_length; lia).
    rewrite rev_length. replace (S (length t') - 1 - length t') with 0 by lia. reflexivity. }
  assert (Hb : nth_error bs (length (c0 :: t') - 1) = Some c0).
  { rewrite <- (firstn_skipn raw bs). fold p. rewrite nth_error_app1; [exact Hc|]. lia. }
  rewrite Hb in Hn. inversion Hn; subst. exact E2.
Qed.

(* P4: what Len returns is a prefix length: positive, not longer than the text, not ending in a
   blank (after the fix c67ddfe a trimmed length of 0 is the error 202) *)
Theorem schema_len_positive_always : forall bs n, schema_len bs = VLen n -> (0 < n)%N.
Proof.
  intros bs n. unfold schema_len.
  destruct (scan true bs) as [evs o].
  destruct (length_loop (N.of_nat (length bs)) (drop_leading_newlines evs) 0) as [raw stopped].
  assert (Hk : (if negb (has_example 0 (upto_end_top (drop_leading_newlines evs))) then VErr code_empty_schema 0
                else if (N.of_nat (length bs) <? raw)%N then VPanic
                else if (N.of_nat (length (trim_blank_rev (frev (firstn (N.to_nat raw) bs)))) =? 0)%N
                     then VErr code_empty_schema 0
                     else VLen (N.of_nat (length (trim_blank_rev (frev (firstn (N.to_nat raw) bs)))))) = VLen n ->
               (0 < n)%N).
  { destruct (negb (has_example 0 (upto_end_top (drop_leading_newlines evs)))); [discriminate|].
    destruct (N.of_nat (length bs) <? raw)%N; [discriminate|].
    destruct (N.eqb_spec (N.of_nat (length (trim_blank_rev (frev (firstn (N.to_nat raw) bs))))) 0) as [E|E];
      [discriminate|]. intros H. inversion H; subst. lia. }
  destruct stopped; [exact Hk|]. destruct o; [exact Hk|discriminate|discriminate].
Qed.

Theorem schema_len_prefix : forall bs n, schema_len bs = VLen n ->
  (0 < n)%N /\ (N.to_nat n <= length bs)%nat /\
  (forall c, nth_error bs (N.to_nat n - 1) = Some c -> is_blank c = false).
Proof.
  intros bs n Hn. pose proof (schema_len_positive_always bs n Hn) as Hpos.
  split; [exact Hpos|]. revert Hn. unfold schema_len.
  destruct (scan true bs) as [evs o].
  destruct (length_loop (N.of_nat (length bs)) (drop_leading_newlines evs) 0) as [raw stopped].
  pose proof (len_prefix_gen bs (N.to_nat raw)) as Hg. cbn zeta in Hg.
  assert (Hk : (if negb (has_example 0 (upto_end_top (drop_leading_newlines evs))) then VErr code_empty_schema 0
                else if (N.of_nat (length bs) <? raw)%N then VPanic
                else if (N.of_nat (length (trim_blank_rev (frev (firstn (N.to_nat raw) bs)))) =? 0)%N
                     then VErr code_empty_schema 0
                     else VLen (N.of_nat (length (trim_blank_rev (frev (firstn (N.to_nat raw) bs)))))) = VLen n ->
               (N.to_nat n <= length bs)%nat /\
               (forall c, nth_error bs (N.to_nat n - 1) = Some c -> is_blank c = false)).
  { destruct (negb (has_example 0 (upto_end_top (drop_leading_newlines evs)))); [discriminate|].
    destruct (N.of_nat (length bs) <? raw)%N; [discriminate|].
    destruct (N.of_nat (length (trim_blank_rev (frev (firstn (N.to_nat raw) bs)))) =? 0)%N; [discriminate|].
    intros H. inversion H; subst.
    rewrite Nat2N.id in *. destruct Hg as [G1 G2]. split; [exact G1|]. intros c Hc. apply G2; [exact Hc|lia]. }
  destruct stopped; [exact Hk|]. destruct o; [exact Hk|discriminate|discriminate].
Qed.

(* ================================================================== *)
(* 7. agreement with the JSON scanner on plain JSON (P5)               *)
(* ================================================================== *)

(* event types: JSON scanner -> schema scanner, and back (anything else -> EndTop) *)
Definition sj (e : Scanner.ev) : ev :=
  match e with
  | Scanner.LiteralBegin => LiteralBegin | Scanner.LiteralEnd => LiteralEnd
  | Scanner.ObjectBegin => ObjectBegin | Scanner.ObjectEnd => ObjectEnd
  | Scanner.ObjectKeyBegin => ObjectKeyBegin | Scanner.ObjectKeyEnd => ObjectKeyEnd
  | Scanner.ObjectValueBegin => ObjectValueBegin | Scanner.ObjectValueEnd => ObjectValueEnd
  | Scanner.ArrayBegin => ArrayBegin | Scanner.ArrayEnd => ArrayEnd
  | Scanner.ArrayItemBegin => ArrayItemBegin | Scanner.ArrayItemEnd => ArrayItemEnd
  | Scanner.EndTop => EndTop
  end.
Definition tj (e : ev) : Scanner.ev :=
  match e with
  | LiteralBegin => Scanner.LiteralBegin | LiteralEnd => Scanner.LiteralEnd
  | ObjectBegin => Scanner.ObjectBegin | ObjectEnd => Scanner.ObjectEnd
  | ObjectKeyBegin => Scanner.ObjectKeyBegin | ObjectKeyEnd => Scanner.ObjectKeyEnd
  | ObjectValueBegin => Scanner.ObjectValueBegin | ObjectValueEnd => Scanner.ObjectValueEnd
  | ArrayBegin => Scanner.ArrayBegin | ArrayEnd => Scanner.ArrayEnd
  | ArrayItemBegin => Scanner.ArrayItemBegin | ArrayItemEnd => Scanner.ArrayItemEnd
  | _ => Scanner.EndTop
  end.
Lemma tj_sj e : tj (sj e) = e.
Proof. destruct e; reflexivity. Qed.

Definition is_newline_ev (e : lexev) : bool := match e_type e with NewLine => true | _ => false end.
Definition to_json_ev (e : lexev) : Scanner.lexev :=
  Scanner.mkev (tj (e_type e)) (e_begin e) (e_end e).
(* no comment, annotation or shortcut can start: the bytes / # @ do not occur *)
Definition plainc (c : byte) : bool := negb (ch c 47 || ch c 35 || ch c 64).
Definition plain (bs : bytes) : bool := forallb plainc bs.

(* the step functions the two scanners share *)
Definition js (f : st) : option Scanner.st :=
  match f with
  | FoundRootValue => Some Scanner.FoundRootValue
  | FoundObjectKeyBeginOrEmpty => Some Scanner.FoundObjectKeyBeginOrEmpty
  | FoundObjectKeyBegin | FoundObjectKeyBeginAfterNewLine => Some Scanner.FoundObjectKeyBegin
  | FoundObjectValueBegin => Some Scanner.FoundObjectValueBegin
  | FoundArrayItemBeginOrEmpty => Some Scanner.FoundArrayItemBeginOrEmpty
  | FoundArrayItemBegin => Some Scanner.FoundArrayItemBegin
  | EndValue => Some Scanner.EndValue
  | AfterObjectKey => Some Scanner.AfterObjectKey
  | AfterObjectValue => Some Scanner.AfterObjectValue
  | AfterArrayItem => Some Scanner.AfterArrayItem
  | SEndTop => Some Scanner.SEndTop
  | InString => Some Scanner.InString
  | InStringEsc => Some Scanner.InStringEsc
  | InStringEscU => Some Scanner.InStringEscU
  | InStringEscU1 => Some Scanner.InStringEscU1
  | InStringEscU12 => Some Scanner.InStringEscU12
  | InStringEscU123 => Some Scanner.InStringEscU123
  | Neg => Some Scanner.Neg | S1 => Some Scanner.S1 | S0 => Some Scanner.S0
  | Dot => Some Scanner.Dot | Dot0 => Some Scanner.Dot0
  | ST => Some Scanner.ST | STr => Some Scanner.STr | STru => Some Scanner.STru
  | SF => Some Scanner.SF | SFa => Some Scanner.SFa | SFal => Some Scanner.SFal
  | SFals => Some Scanner.SFals
  | SN => Some Scanner.SN | SNu => Some Scanner.SNu | SNul => Some Scanner.SNul
  | _ => None
  end.
Definition isU (f : st) : bool :=
  match f with InStringEscU | InStringEscU1 | InStringEscU12 | InStringEscU123 => true | _ => false end.
Definition sjp (p : Scanner.ev * N) : ev * N := (sj (fst p), snd p).

(* the schema scanner [s] (queue aside) stands where the JSON scanner (q, u, jstk) stands *)
Definition Rel (s : sc) (q : Scanner.st) (u : bool) (jstk : list (Scanner.ev * N)) : Prop :=
  js (s_step s) = Some q /\ s_unf s = u /\ s_stk s = map sjp jstk /\ s_ann s = ANone /\
  s_lc s = false /\ s_htc s = false /\ s_back s = false /\ s_skip s = false /\
  (isU (s_step s) = true -> exists r, s_rts s = InString :: r).

Definition nonnl (e : ev) : bool := match e with NewLine => false | _ => true end.
Definition simR (jr : Scanner.sres) (jstk : list (Scanner.ev * N)) (r : res sc) : Prop :=
  match r with
  | ROk s1 => exists q' u' fs, jr = Some (Scanner.mkctl q' u', fs) /\
                               map sj fs = filter nonnl (rev (s_finds s1)) /\ Rel s1 q' u' jstk
  | _ => True
  end.

Lemma blank_eq c : Scanner.is_blank c = is_blank c.
Proof.
  unfold Scanner.is_blank, is_blank, is_space, is_nl. cbv zeta. change (Scanner.bN c) with (bN c).
  destruct (bN c =? 32)%N, (bN c =? 9)%N, (bN c =? 10)%N, (bN c =? 13)%N; reflexivity.
Qed.
Lemma nl_blank c : is_nl c = true -> is_blank c = true.
Proof. unfold is_blank. intros ->. apply orb_true_r. Qed.
Lemma plainc_facts c : plainc c = true -> ch c 47 = false /\ ch c 35 = false /\ ch c 64 = false.
Proof.
  unfold plainc. destruct (ch c 47), (ch c 35), (ch c 64); cbn; intros H; try discriminate H; auto.
Qed.

Lemma nl_not_93 c : is_nl c = true -> ch c 93 = false.
Proof.
  unfold is_nl, ch. cbv zeta. destruct (N.eqb_spec (bN c) 10) as [->|_]; [reflexivity|].
  destruct (N.eqb_spec (bN c) 13) as [->|_]; [reflexivity|discriminate].
Qed.

Ltac junfold :=
  unfold Scanner.step, Scanner.state0, Scanner.found_value, Scanner.begin_value, Scanner.end_value,
    Scanner.after_object_key, Scanner.after_object_value, Scanner.after_array_item,
    Scanner.found_object_end, Scanner.found_array_end, Scanner.end_top, Scanner.begin_string,
    Scanner.expect, Scanner.prepend, Scanner.ret;
  cbn [Scanner.c_st Scanner.c_unf map fst];
  change Scanner.ch with ch; change Scanner.is_digit with is_digit;
  change Scanner.is_digit19 with is_digit19; change Scanner.is_hex with is_hex;
  change Scanner.is_ctl with is_ctl; rewrite ?blank_eq.

Ltac use_tests :=
  repeat match goal with
  | H : is_nl ?c = true |- _ =>
    lazymatch goal with
    | H' : is_blank c = true |- _ => fail
    | _ => pose proof (nl_blank c H); pose proof (nl_not_93 c H)
    end
  end;
  repeat match goal with
  | H : ?t = true |- context [?t] => rewrite H
  | H : ?t = false |- context [?t] => rewrite H
  | H : negb ?t = false |- context [?t] => apply negb_false_iff in H; rewrite H
  | H : negb ?t = true |- context [?t] => apply negb_true_iff in H; rewrite H
  end.

Ltac rel_solve :=
  unfold Rel; cbn;
  repeat match goal with |- _ /\ _ => split end;
  try reflexivity; try assumption;
  try (intros Hu; first [discriminate Hu | eexists; reflexivity | assumption]).

Ltac sim_leaf :=
  unf2; cbn [simR];
  lazymatch goal with
  | |- True => exact I
  | |- simR _ _ _ => idtac
  | _ => idtac
  end;
  first [ exact I
        | solve [exfalso;
                 match goal with
                 | H : is_nl ?c = true, H' : is_blank ?c = false |- _ =>
                   rewrite (nl_blank c H) in H'; discriminate H'
                 end]
        | eexists; eexists; eexists; split; [junfold; use_tests; cbn; reflexivity|];
          split; [cbn; reflexivity|rel_solve] ].

Lemma end_value_sim c la k s q0 u jstk :
  Rel s q0 u jstk -> s_finds s = [] -> plainc c = true ->
  simR (Scanner.end_value false (map fst jstk) u c) jstk (st_end_value c la k s).
Proof.
  intros HR Hf Hp. destruct (plainc_facts c Hp) as [H47 [H35 H64]].
  dsc s. destruct HR as [Hq [Hu [Hs [Ha [Hl [Hh [Hb [Hk Hr]]]]]]]]. cbn in *. subst.
  destruct jstk as [|[e0 b0] r0];
    [|destruct e0; try (destruct r0 as [|[e1 b1] r1]; [|destruct e1])];
    cbn [map]; unfold sjp; cbn [sj fst snd]; unfold st_end_value, end_value_switch; unfall; unf;
    rewrite ?H47, ?H35, ?H64;
    repeat match goal with |- context [ev_eqb ?a ?b] =>
      let r := eval vm_compute in (ev_eqb a b) in change (ev_eqb a b) with r end;
    cbn [andb orb]; repeat execP1; try sim_leaf.
Qed.

#[local] Arguments st_end_value : simpl never.
Ltac ev_leaf Hp :=
  lazymatch goal with
  | |- simR _ ?j (st_end_value ?c ?la ?k _) =>
    unfold Scanner.step, Scanner.state0; cbn [Scanner.c_st Scanner.c_unf];
    change Scanner.ch with ch; change Scanner.is_digit with is_digit; use_tests;
    eapply (end_value_sim c la k _ _ _ j); [rel_solve|reflexivity|exact Hp]
  end.

Lemma dispatch_sim c la pb k s q u jstk :
  Rel s q u jstk -> s_finds s = [] -> plainc c = true ->
  simR (Scanner.step false (Scanner.mkctl q u) (map fst jstk) c) jstk (dispatch c la pb k (s_step s) s).
Proof.
  intros HR Hf Hp. destruct (plainc_facts c Hp) as [H47 [H35 H64]].
  dsc s. destruct HR as [Hq [Hu [Hs [Ha [Hl [Hh [Hb [Hk Hr]]]]]]]]. cbn in *. subst.
  destruct step; try discriminate Hq; cbn in Hq; inversion Hq; subst q; clear Hq;
    try (destruct (Hr eq_refl) as [r0 ->]); clear Hr;
    (destruct jstk as [|[e0 b0] j0]; cbn [map]; unfold sjp; cbn [fst snd];
     lazy beta iota delta [dispatch];
     unfold st_1, st_0, st_dot0; unfall; unf; rewrite ?H47, ?H35, ?H64; cbn [andb orb negb];
     repeat execP1; first [ev_leaf Hp | sim_leaf]).
Qed.

(* ---- the stack and the spans ---- *)
Definition conv (acc : list lexev) : list Scanner.lexev :=
  map to_json_ev (filter (fun e => negb (is_newline_ev e)) acc).

Lemma pfound_sim i pb htc jstk je stk1 x :
  process_found i pb htc (map sjp jstk) (sj je) = Some (stk1, x) ->
  exists jstk1, Scanner.process_found i jstk je = Some (jstk1, to_json_ev x) /\
                stk1 = map sjp jstk1 /\ is_newline_ev x = false.
Proof.
  unfold process_found, Scanner.process_found.
  destruct je; cbn [sj is_opening Scanner.is_opening is_ann_begin]; intros H;
    try (inversion H; subst; eexists; split; [reflexivity|split; reflexivity]);
    (destruct jstk as [|[p b] rest]; [discriminate H|]; cbn [map] in H; unfold sjp in H at 1;
     cbn [fst snd] in H;
     destruct p; cbn [sj nonscalar_pair scalar_pair Scanner.nonscalar_pair Scanner.scalar_pair] in H |- *;
     try discriminate H; inversion H; subst; eexists; split; [reflexivity|split; reflexivity]).
Qed.

Lemma pf_sim i pb htc : forall fs jfs jstk acc stk' acc',
  map sj jfs = filter nonnl fs ->
  process_finds i pb htc (map sjp jstk) fs acc = (stk', acc', true) ->
  exists jstk', Scanner.process_finds i jstk jfs (conv acc) = Some (jstk', frev (conv acc')) /\
                stk' = map sjp jstk'.
Proof.
  induction fs as [|e r IH]; intros jfs jstk acc stk' acc' Hm H; cbn [process_finds] in H.
  - inversion H; subst. destruct jfs; [|discriminate Hm]. exists jstk. split; reflexivity.
  - destruct (process_found i pb htc (map sjp jstk) e) as [[stk1 x]|] eqn:E; [|discriminate H].
    cbn [filter] in Hm. destruct (nonnl e) eqn:En.
    + destruct jfs as [|je jr]; [discriminate Hm|]. cbn [map] in Hm. inversion Hm as [[Hm1 Hm2]].
      rewrite <- Hm1 in E.
      destruct (pfound_sim i pb htc jstk je stk1 x E) as [jstk1 [E1 [E2 E3]]]. subst stk1.
      destruct (IH jr jstk1 (x :: acc) stk' acc' Hm2 H) as [jstk' [I1 I2]].
      exists jstk'. split; [|exact I2]. cbn [Scanner.process_finds]. rewrite E1.
      unfold conv in I1 at 1. cbn [filter] in I1. rewrite E3 in I1. cbn [negb map] in I1. exact I1.
    + destruct e; try discriminate En. unfold process_found in E. inversion E; subst.
      destruct (IH jfs jstk (mkev NewLine i i htc :: acc) stk' acc' Hm H) as [jstk' [I1 I2]].
      exists jstk'. split; [|exact I2]. exact I1.
Qed.

Lemma frev_invol {A} (l : list A) : frev (frev l) = l.
Proof. rewrite !frev_rev. apply rev_involutive. Qed.

Lemma jpf_acc i : forall fs stk a1 a2,
  Scanner.process_finds i stk fs (a1 ++ a2) =
  match Scanner.process_finds i stk fs a1 with
  | Some (s', l) => Some (s', frev (frev l ++ a2))
  | None => None
  end.
Proof.
  induction fs as [|e r IH]; intros stk a1 a2; cbn [Scanner.process_finds].
  - rewrite frev_invol. reflexivity.
  - destruct (Scanner.process_found i stk e) as [[stk1 x]|]; [|reflexivity].
    apply (IH stk1 (x :: a1) a2).
Qed.

Lemma rel_drain s1 q u jstk jstk' :
  Rel s1 q u jstk ->
  Rel (set_back false (set_finds [] (set_stk (map sjp jstk') s1))) q u jstk'.
Proof.
  destruct s1. unfold Rel. cbn. intros [H1 [H2 [H3 [H4 [H5 [H6 [H7 [H8 H9]]]]]]]].
  repeat split; assumption || reflexivity.
Qed.

Lemma plain_cons c r : plain (c :: r) = true -> plainc c = true /\ plain r = true.
Proof. unfold plain. cbn [forallb]. intros H. apply andb_prop in H. exact H. Qed.

Lemma run_sim bs : forall s q u jstk idx pb acc accF sF pbF,
  Rel s q u jstk -> s_finds s = [] -> plain bs = true ->
  run s idx pb bs acc = (accF, Done, sF, pbF) ->
  exists qF uF jstkF,
    Scanner.run false (Scanner.mkcfg (Scanner.mkctl q u) jstk) idx bs (conv acc) =
      (frev (conv accF), Scanner.Done, Scanner.mkcfg (Scanner.mkctl qF uF) jstkF,
       (idx + N.of_nat (length bs))%N) /\
    Rel sF qF uF jstkF /\ s_finds sF = [].
Proof.
  induction bs as [|c r IH]; intros s q u jstk idx pb acc accF sF pbF HR Hf Hp H.
  - cbn [run] in H. inversion H; subst. exists q, u, jstk. cbn [Scanner.run length].
    rewrite N.add_0_r. split; [reflexivity|split; assumption].
  - destruct (plain_cons c r Hp) as [Hpc Hpr].
    cbn [run read_byte] in H.
    pose proof (dispatch_sim c r pb (call 15 c r pb) s q u jstk HR Hf Hpc) as Hd.
    change call_fuel with 16 in H. rewrite call_S in H.
    destruct (dispatch c r pb (call 15 c r pb) (s_step s) s) as [s1|code|]; [|discriminate H|discriminate H].
    cbn [simR] in Hd. destruct Hd as [q' [u' [fs [Hstep [Hfs HR1]]]]].
    assert (Hb1 : s_back s1 = false) by apply HR1.
    assert (Hk1 : s_skip s1 = false) by apply HR1.
    assert (Hs1 : s_stk s1 = map sjp jstk) by apply HR1.
    rewrite Hb1, Hs1 in H.
    destruct (process_finds idx pb (s_htc s1) (map sjp jstk) (frev (s_finds s1)) acc) as [[stk' acc'] ok] eqn:Ep.
    destruct ok; [|discriminate H].
    rewrite frev_rev in Ep.
    destruct (pf_sim idx pb (s_htc s1) _ fs jstk acc stk' acc' Hfs Ep) as [jstk' [J1 J2]].
    subst stk'.
    pose proof (jpf_acc idx fs jstk [] (conv acc)) as Ja. cbn [app] in Ja. rewrite J1 in Ja.
    destruct (Scanner.process_finds idx jstk fs []) as [[js' l]|] eqn:Ej; [|discriminate Ja].
    inversion Ja as [[Ja1 Ja2]]. subst js'.
    assert (Hl : frev l ++ conv acc = conv acc').
    { rewrite <- (frev_invol (conv acc')), Ja2, frev_invol. reflexivity. }
    assert (Hsk2 : s_skip (set_back false (set_finds [] (set_stk (map sjp jstk') s1))) = false)
      by (destruct s1; exact Hk1).
    rewrite Hsk2 in H.
    destruct (IH _ q' u' jstk' (N.succ idx) (Some c) acc' accF sF pbF
                 (rel_drain s1 q' u' jstk jstk' HR1) ltac:(destruct s1; reflexivity) Hpr H)
      as [qF [uF [jstkF [R1 [R2 R3]]]]].
    exists qF, uF, jstkF. split; [|split; assumption].
    cbn [Scanner.run Scanner.k_ctl Scanner.k_stk]. rewrite Hstep, Ej, Hl, R1.
    f_equal. cbn [length]. lia.
Qed.

Lemma filter_rev {A} (f : A -> bool) l : filter f (rev l) = rev (filter f l).
Proof.
  induction l as [|x l IH]; [reflexivity|]. change (rev (x :: l)) with (rev l ++ [x]).
  rewrite filter_app, IH. cbn [filter]. destruct (f x); cbn [rev]; [reflexivity|apply app_nil_r].
Qed.
Lemma conv_frev acc :
  map to_json_ev (filter (fun e => negb (is_newline_ev e)) (frev acc)) = frev (conv acc).
Proof. unfold conv. rewrite !frev_rev, filter_rev, map_rev. reflexivity. Qed.

Lemma rel_new : Rel (new_scanner false) Scanner.FoundRootValue false [].
Proof. unfold Rel. cbn. repeat split; try reflexivity. intros H; discriminate H. Qed.

Lemma sj_closable e :
  match sj e with
  | InlineAnnotationBegin | InlineAnnotationTextBegin | TypesShortcutBegin => False
  | _ => True
  end.
Proof. destruct e; exact I. Qed.

(* P5 *)
Theorem schema_events_agree_with_json : forall bs evs,
  scan false bs = (evs, Done) -> plain bs = true ->
  map to_json_ev (filter (fun e => negb (is_newline_ev e)) evs) = fst (Scanner.scan false bs).
Proof.
  intros bs evs H Hp. unfold scan in H.
  assert (Hpb : @None byte = None -> s_step (new_scanner false) = FoundRootValue) by reflexivity.
  pose proof (run_ok bs (new_scanner false) 0%N None [] (good_new false) eq_refl Hpb) as [_ HG].
  destruct (run (new_scanner false) 0%N None bs []) as [[[acc o] s] pb'] eqn:Er.
  unfold r_out, r_sc in HG. cbn [fst snd] in HG.
  destruct o; [|inversion H|inversion H].
  destruct (HG eq_refl) as [HGs Hfs]. destruct (good_types s HGs Hfs) as [Hwf _].
  destruct (run_sim bs (new_scanner false) _ _ [] 0%N None [] acc s pb' rel_new eq_refl Hp Er)
    as [qF [uF [jstkF [Rj [HR _]]]]].
  unfold Scanner.scan, Scanner.cfg0. change (conv []) with (@nil Scanner.lexev) in Rj. rewrite Rj.
  rewrite frev_invol. cbn [N.add].
  destruct HR as [_ [Hu [Hs _]]].
  set (size := N.of_nat (length bs)) in *.
  cbn [tail] in H.
  destruct jstkF as [|[e0 b0] j0].
  - (* nothing open *)
    cbn [map] in Hs. rewrite Hs in H.
    destruct (unfinished_step (s_step s)); [inversion H|]. inversion H; subst.
    cbn [Scanner.tail Scanner.k_stk fst]. apply conv_frev.
  - cbn [map] in Hs. unfold sjp in Hs at 1. cbn [fst snd] in Hs. rewrite Hs in H, Hwf.
    rewrite types_cons in Hwf.
    pose proof (sj_closable e0) as Hc.
    destruct e0; cbn [sj] in H, Hc, Hwf; try (inversion H; fail); try (exfalso; exact Hc).
    (* a literal ended by the end of input *)
    cbn [ev_eqb ev_code] in H. change (0 =? 0)%N with true in H. cbn [andb] in H.
    rewrite Hu in H. destruct uF; [inversion H|].
    unfold process_found in H. cbn [is_opening nonscalar_pair scalar_pair length] in H.
    destruct j0 as [|[e1 b1] j1].
    + cbn [map length tail] in H. rewrite s_stk_set_stk in H.
      destruct (unfinished_step _); [inversion H|]. inversion H; subst.
      cbn [Scanner.tail Scanner.k_stk Scanner.k_ctl Scanner.c_unf fst].
      rewrite conv_frev. unfold conv. cbn [filter is_newline_ev e_type negb map to_json_ev tj e_begin e_end].
      reflexivity.
    + exfalso. cbn [map] in H, Hwf. unfold sjp in H at 1, Hwf at 1. cbn [fst snd] in H, Hwf.
      rewrite types_cons, wf_cons2 in Hwf.
      cbn [length tail] in H. rewrite s_stk_set_stk in H.
      destruct e1; cbn [sj adj andb] in Hwf, H; try discriminate Hwf; inversion H.
Qed.

(* ================================================================== *)
(* 8. kept for compatibility: positivity for a text that begins with a value (now a special case) *)
(* ================================================================== *)
Theorem schema_len_positive : forall pre c r n,
  forallb is_blank pre = true -> is_blank c = false -> ch c 35 = false -> ch c 47 = false ->
  schema_len (pre ++ c :: r) = VLen n -> (0 < n)%N.
Proof. intros pre c r n _ _ _ _ H. exact (schema_len_positive_always _ _ H). Qed.

(* ================================================================== *)
(* 9. the end of input inside an opener (fixes 0219b8c, ca80efc)       *)
(* ================================================================== *)
Lemma s_step_set_stk stk s : s_step (set_stk stk s) = s_step s.
Proof. destruct s; reflexivity. Qed.

Lemma tail_done_step size lastb : forall fuel s index acc acc',
  tail fuel s index size lastb acc = (acc', Done) -> unfinished_step (s_step s) = false.
Proof.
  induction fuel as [|fuel IH]; intros s index acc acc'; cbn [tail]; [discriminate|].
  destruct (s_stk s) as [|[t b] rest].
  - destruct (unfinished_step (s_step s)); [discriminate|reflexivity].
  - destruct t; try discriminate.
    + destruct (ev_eqb LiteralBegin LiteralBegin && s_unf s)%bool; [discriminate|].
      destruct (process_found _ _ _ _ _) as [[stk' x]|]; [|discriminate].
      intros H. apply IH in H. rewrite s_step_set_stk in H. exact H.
    + destruct (ev_eqb InlineAnnotationBegin LiteralBegin && s_unf s)%bool; [discriminate|].
      destruct (process_found _ _ _ _ _) as [[stk' x]|]; [|discriminate].
      intros H. apply IH in H. rewrite s_step_set_stk in H. exact H.
    + destruct (ev_eqb InlineAnnotationTextBegin LiteralBegin && s_unf s)%bool; [discriminate|].
      destruct (process_found _ _ _ _ _) as [[stk' x]|]; [|discriminate].
      intros H. apply IH in H. rewrite s_step_set_stk in H. exact H.
    + destruct (s_unf s); [discriminate|].
      destruct (process_found _ _ _ _ TypesShortcutEnd) as [[stk1 x1]|]; [|discriminate].
      destruct (process_found _ _ _ _ MixedValueEnd) as [[stk2 x2]|]; [|discriminate].
      intros H. apply IH in H. rewrite s_step_set_stk in H. exact H.
Qed.

(* an accepted text never ends after the first byte of // or /*, after ##, or inside a ### comment *)
Theorem scan_done_not_unfinished : forall lc bs, snd (scan lc bs) = Done ->
  r_out (run (new_scanner lc) 0%N None bs []) = Done /\
  unfinished_step (s_step (r_sc (run (new_scanner lc) 0%N None bs []))) = false.
Proof.
  intros lc bs. unfold scan.
  destruct (run (new_scanner lc) 0%N None bs []) as [[[acc o] s] pb']. unfold r_out, r_sc. cbn [fst snd].
  destruct o; [|discriminate|discriminate].
  destruct (tail (S (length (s_stk s))) s (N.of_nat (length bs)) (N.of_nat (length bs)) (last_byte bs None) acc)
    as [acc' o'] eqn:Et.
  cbn [snd]. intros ->. split; [reflexivity|]. exact (tail_done_step _ _ _ _ _ _ _ Et).
Qed.

(* conversely: when the bytes are consumed without error, nothing is open, and the step is one of the
   four unfinished ones, the text is refused at its last byte *)
Theorem scan_ends_inside_opener : forall lc bs,
  r_out (run (new_scanner lc) 0%N None bs []) = Done ->
  s_stk (r_sc (run (new_scanner lc) 0%N None bs [])) = [] ->
  unfinished_step (s_step (r_sc (run (new_scanner lc) 0%N None bs []))) = true ->
  snd (scan lc bs) = Err code_unexpected_eof (N.of_nat (length bs) - 1)%N.
Proof.
  intros lc bs. unfold scan.
  destruct (run (new_scanner lc) 0%N None bs []) as [[[acc o] s] pb']. unfold r_out, r_sc. cbn [fst snd].
  intros -> Hs Hu. rewrite Hs. cbn [length tail]. rewrite Hs, Hu. reflexivity.
Qed.

(* a concrete family: blanks, then the first byte of an annotation opener, or ## *)
Lemma blank_not_opener b : is_blank b = true -> ch b 47 = false /\ ch b 35 = false.
Proof.
  unfold is_blank, is_space, is_nl, ch. cbv zeta. intros H.
  destruct (N.eqb_spec (bN b) 32) as [->|_]; [split; reflexivity|].
  destruct (N.eqb_spec (bN b) 9) as [->|_]; [split; reflexivity|].
  destruct (N.eqb_spec (bN b) 10) as [->|_]; [split; reflexivity|].
  destruct (N.eqb_spec (bN b) 13) as [->|_]; [split; reflexivity|discriminate H].
Qed.

Lemma root_blank_rb lc n idx pb b la acc : is_blank b = true ->
  read_byte (S n) (new_scanner lc) idx pb b la acc =
  (if is_nl b then mkev NewLine idx idx false :: acc else acc, inl (new_scanner lc)).
Proof.
  intros Hb. destruct (blank_not_opener b Hb) as [H47 H35].
  unfold new_scanner. cbn [read_byte s_step]. change call_fuel with 16. rewrite call_S.
  lazy beta iota delta [dispatch]. unfst. unf. rewrite H47, H35. unfold is_new_line. cbn [s_ann]. rewrite Hb.
  destruct (is_nl b); reflexivity.
Qed.

Lemma run_blank_prefix lc rest : forall pre idx pb acc, forallb is_blank pre = true ->
  exists pb' acc', run (new_scanner lc) idx pb (pre ++ rest) acc =
                   run (new_scanner lc) (idx + N.of_nat (length pre))%N pb' rest acc'.
Proof.
  induction pre as [|b pre IH]; intros idx pb acc Hb.
  - exists pb, acc. cbn [app length]. rewrite N.add_0_r. reflexivity.
  - cbn [forallb] in Hb. apply andb_prop in Hb. destruct Hb as [Hb1 Hb2].
    cbn [app run]. change (length (s_rts (new_scanner lc))) with 0.
    rewrite (root_blank_rb lc 0 idx pb b (pre ++ rest) acc Hb1).
    change (s_skip (new_scanner lc)) with false. cbv iota.
    destruct (IH (N.succ idx) (Some b) (if is_nl b then mkev NewLine idx idx false :: acc else acc) Hb2)
      as [pb' [acc' E]].
    exists pb', acc'. rewrite E. f_equal. cbn [length]. lia.
Qed.

Theorem scan_blank_then_slash : forall lc pre, forallb is_blank pre = true ->
  snd (scan lc (pre ++ [x2f])) = Err code_unexpected_eof (N.of_nat (length pre)).
Proof.
  intros lc pre Hb.
  destruct (run_blank_prefix lc [x2f] pre 0%N None [] Hb) as [pb' [acc' E]].
  assert (Hrun : exists acc2 s2 pb2,
            run (new_scanner lc) 0%N None (pre ++ [x2f]) [] = (acc2, Done, s2, pb2) /\
            s_stk s2 = [] /\ s_step s2 = AnyAnnotationStart).
  { rewrite E. destruct lc; vm_compute; eexists; eexists; eexists; repeat split. }
  destruct Hrun as [acc2 [s2 [pb2 [Er [Hs Hst]]]]].
  pose proof (scan_ends_inside_opener lc (pre ++ [x2f])) as H. rewrite Er in H.
  unfold r_out, r_sc in H. cbn [fst snd] in H. rewrite Hst in H. specialize (H eq_refl Hs eq_refl).
  rewrite H. rewrite app_length. cbn [length]. f_equal. lia.
Qed.

Theorem scan_blank_then_two_hashes : forall lc pre, forallb is_blank pre = true ->
  snd (scan lc (pre ++ [x23; x23])) = Err code_unexpected_eof (N.of_nat (length pre) + 1)%N.
Proof.
  intros lc pre Hb.
  destruct (run_blank_prefix lc [x23; x23] pre 0%N None [] Hb) as [pb' [acc' E]].
  assert (Hrun : exists acc2 s2 pb2,
            run (new_scanner lc) 0%N None (pre ++ [x23; x23]) [] = (acc2, Done, s2, pb2) /\
            s_stk s2 = [] /\ s_step s2 = MultiLineCommentStart).
  { rewrite E. destruct lc; vm_compute; eexists; eexists; eexists; repeat split. }
  destruct Hrun as [acc2 [s2 [pb2 [Er [Hs Hst]]]]].
  pose proof (scan_ends_inside_opener lc (pre ++ [x23; x23])) as H. rewrite Er in H.
  unfold r_out, r_sc in H. cbn [fst snd] in H. rewrite Hst in H. specialize (H eq_refl Hs eq_refl).
  rewrite H. rewrite app_length. cbn [length]. f_equal. lia.
Qed.

(* "an accepted text followed by a blank and '/' is refused at that '/' with Err 303" is FALSE in
   general: inside an inline annotation text or a comment '/' is just text; after a non-empty array
   an annotation is not allowed (304); after an inline annotation has ended with its line, '/' is
   an invalid character (301); in length mode a byte after an annotation object ends the schema *)
Definition of_codes (l : list N) : bytes :=
  map (fun n => match Byte.of_N n with Some b => b | None => x00 end) l.
Example blank_slash_after_accepted_text :
  (* "1" *)
  snd (scan false (of_codes [49]%N ++ [x20; x2f])) = Err 303 2 /\
  (* "1 // abc" *)
  snd (scan false (of_codes [49; 32; 47; 47; 32; 97; 98; 99]%N)) = Done /\
  snd (scan false (of_codes [49; 32; 47; 47; 32; 97; 98; 99]%N ++ [x20; x2f])) = Done /\
  (* "1 # c" *)
  snd (scan false (of_codes [49; 32; 35; 32; 99]%N ++ [x20; x2f])) = Done /\
  (* "[1,2]" *)
  snd (scan false (of_codes [91; 49; 44; 50; 93]%N)) = Done /\
  snd (scan false (of_codes [91; 49; 44; 50; 93]%N ++ [x20; x2f])) = Err 304 6 /\
  (* "1 // abc" LF *)
  snd (scan false (of_codes [49; 32; 47; 47; 32; 97; 98; 99; 10]%N)) = Done /\
  snd (scan false (of_codes [49; 32; 47; 47; 32; 97; 98; 99; 10]%N ++ [x20; x2f])) = Err 301 10 /\
  (* "1 // {a:1}" *)
  snd (scan true (of_codes [49; 32; 47; 47; 32; 123; 97; 58; 49; 125]%N)) = Done /\
  snd (scan true (of_codes [49; 32; 47; 47; 32; 123; 97; 58; 49; 125]%N ++ [x20; x2f])) = Done /\
  snd (scan false (of_codes [49; 32; 47; 47; 32; 123; 97; 58; 49; 125]%N ++ [x20; x2f])) = Err 301 11.
Proof. vm_compute. repeat split; reflexivity. Qed.
