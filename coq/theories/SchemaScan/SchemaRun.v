(* SchemaRun.v — wire front end of the schema scanner model.  line = "<mode> <hex of the text, or ->"
   modes: s = raw event stream of scanner.New(file) / Next(), S = the same with scanner.ComputeLength,
          l = Schema.Len() of jschema.New("s", text). *)
From Coq Require Import List NArith Bool Arith.
From Coq Require Import Strings.Byte.
Import ListNotations.
From JS Require Import Common.Wire SchemaScan.SchemaScanner.

Definition w_panic : bytes := [x50; x41; x4e; x49; x43].
Definition w_err (c p : N) : bytes := [x45] ++ print_N c ++ [x40] ++ print_N p.
Definition print_sev (e : lexev) : bytes :=
  print_N (ev_code (e_type e)) ++ [colon] ++ print_N (e_begin e) ++ [colon] ++ print_N (e_end e).
Definition print_soutcome (o : outcome) : bytes :=
  match o with
  | Done => [x65; x6f; x66]
  | Err c p => w_err c p
  | Panic => w_panic
  end.
Definition schema_events (lc : bool) (bs : bytes) : bytes :=
  let '(evs, o) := scan lc bs in
  join [comma] (map print_sev evs) ++ [bar] ++ print_soutcome o.
Definition print_slen (v : verdict) : bytes :=
  match v with
  | VLen n => print_N n
  | VErr c p => w_err c p
  | VPanic => w_panic
  end.

Definition schema_scan_model_line (line : bytes) : bytes :=
  match split_on sp line with
  | [[m]; h] =>
    match unhex (match h with [x2d] => [] | _ => h end) with
    | None => [x42; x41; x44]
    | Some bs =>
      if byte_eqb m x73 then schema_events false bs
      else if byte_eqb m x53 then schema_events true bs
      else if byte_eqb m x6c then print_slen (schema_len bs)
      else [x42; x41; x44]
    end
  | _ => [x42; x41; x44]
  end.
