(* ErrTables.v — decidable checks over the error tables that tools/tabx translates from
   /repo/errors/code.go and every error construction site (Gen/ErrTables.v).
   errors.Errorf.Error panics when the number of %s/%q placeholders differs from the
   number of arguments or the code has no template; ErrorCode.Error (a bare code used as
   an error value) panics when its template has any placeholder. *)
From Coq Require Import List String ZArith Bool Ascii.
Import ListNotations.
From JS Require Import Gen.ErrTables.
Open Scope string_scope.

Fixpoint count_placeholders (s : string) : Z :=
  match s with
  | EmptyString => 0
  | String "%"%char (String c r as t) =>
    if (Ascii.eqb c "s"%char || Ascii.eqb c "q"%char)%bool then 1 + count_placeholders r
    else count_placeholders t
  | String _ r => count_placeholders r
  end.

Fixpoint lookup (k : string) (l : list (string * string)) : option string :=
  match l with
  | [] => None
  | (k', v) :: r => if String.eqb k k' then Some v else lookup k r
  end.

Definition template_of (code : string) : option string := lookup code err_templates.

Definition code_has_template (c : string * Z) : bool :=
  match template_of (fst c) with Some _ => true | None => false end.

Definition format_site_ok (s : string * Z * string * Z) : bool :=
  let '(_, _, code, nargs) := s in
  match template_of code with
  | Some t => Z.eqb (count_placeholders t) nargs
  | None => false
  end.

Definition bare_site_ok (s : string * Z * string) : bool :=
  let '(_, _, code) := s in
  match template_of code with
  | Some t => Z.eqb (count_placeholders t) 0
  | None => false
  end.

(* codes are pairwise distinct numbers, templates are keyed by declared codes *)
Fixpoint nodup_z (l : list Z) : bool :=
  match l with
  | [] => true
  | x :: r => negb (existsb (Z.eqb x) r) && nodup_z r
  end.
Definition template_key_declared (t : string * string) : bool :=
  existsb (fun c => String.eqb (fst c) (fst t)) err_codes.

Definition failing_format_sites := filter (fun s => negb (format_site_ok s)) err_format_sites.
Definition failing_bare_sites := filter (fun s => negb (bare_site_ok s)) err_bare_sites.
Definition codes_without_template := filter (fun c => negb (code_has_template c)) err_codes.
