(* NumModel.v — executable model of /repo/internal/json/{scanner,number,guess}.go:
   the exact-decimal number type used by min/max/precision/integer tests.
   Follows the Go code state by state (9 scanner states, intLen/fraLen/expBegin,
   ParseInt with uint wrap-around, getNatural's three cases, both trims, Cmp by
   length-then-digits and zero-padded fractions, Guess.IsInteger/IsFloat).
   No proofs in this file. *)
From Coq Require Import List ZArith NArith Bool Arith Lia.
From Coq Require Import Strings.Byte.
Import ListNotations.
From JS Require Import Common.Wire.

Definition is_digit (c : byte) : bool :=
  let n := Byte.to_N c in (N.leb 48 n && N.leb n 57)%bool.
Definition is_nonzero_digit (c : byte) : bool :=
  let n := Byte.to_N c in (N.leb 49 n && N.leb n 57)%bool.
Definition dig (c : byte) : N := (Byte.to_N c - 48)%N.

Inductive nst := SStart | SMinus | SFirstZero | SInteger | SPoint | SFraction | SExp | SExpSign | SExpNumber.

Record sacc := mkacc {
  a_intLen : Z; a_fraLen : Z; a_expBegin : nat; a_negative : bool; a_finished : bool }.

Definition acc0 : sacc := mkacc 0 0 0 false false.

Definition inc_int (a : sacc) := mkacc (a_intLen a + 1) (a_fraLen a) (a_expBegin a) (a_negative a) (a_finished a).
Definition inc_fra (a : sacc) := mkacc (a_intLen a) (a_fraLen a + 1) (a_expBegin a) (a_negative a) (a_finished a).
Definition set_expBegin_if_unset (a : sacc) (idx : nat) :=
  mkacc (a_intLen a) (a_fraLen a) (if Nat.eqb (a_expBegin a) 0 then idx else a_expBegin a) (a_negative a) (a_finished a).
Definition set_finished (a : sacc) (b : bool) :=
  mkacc (a_intLen a) (a_fraLen a) (a_expBegin a) (a_negative a) b.
Definition set_negative (a : sacc) :=
  mkacc (a_intLen a) (a_fraLen a) (a_expBegin a) true false.

(* one call of s.stateFn(c) with s.index = idx; None = the state function returned false *)
Definition nstep (st : nst) (a : sacc) (idx : nat) (c : byte) : option (nst * sacc) :=
  match st with
  | SStart =>
    if byte_eqb c x2d then Some (SMinus, set_negative a)
    else if byte_eqb c x30 then Some (SFirstZero, inc_int a)
    else if is_nonzero_digit c then Some (SInteger, inc_int a)
    else None
  | SMinus =>
    if byte_eqb c x30 then Some (SFirstZero, inc_int a)
    else if is_nonzero_digit c then Some (SInteger, inc_int a)
    else None
  | SFirstZero =>
    if byte_eqb c x2e then Some (SPoint, a) else None
  | SInteger =>
    if is_digit c then Some (SInteger, inc_int a)
    else if byte_eqb c x2e then Some (SPoint, a)
    else if (byte_eqb c x65 || byte_eqb c x45)%bool then Some (SExp, a)
    else None
  | SPoint =>
    if is_digit c then Some (SFraction, inc_fra a) else None
  | SFraction =>
    if is_digit c then Some (SFraction, inc_fra a)
    else if (byte_eqb c x65 || byte_eqb c x45)%bool then Some (SExp, a)
    else None
  | SExp =>
    if byte_eqb c x2b then Some (SExpSign, a)
    else if byte_eqb c x2d then Some (SExpSign, set_expBegin_if_unset a idx)
    else if is_digit c then Some (SExp, set_expBegin_if_unset a idx)
    else None
  | SExpSign =>
    if is_digit c then Some (SExpNumber, set_expBegin_if_unset a idx) else None
  | SExpNumber =>
    if is_digit c then Some (SExpNumber, a) else None
  end.

Fixpoint nrun (st : nst) (a : sacc) (idx : nat) (bs : bytes) : option sacc :=
  match bs with
  | [] => Some a
  | c :: r =>
    match nstep st (set_finished a true) idx c with
    | Some (st', a') => nrun st' a' (S idx) r
    | None => None
    end
  end.

(* bytes.ParseUint / ParseInt: a value that does not fit a uint is an error (since the fix c58a671;
   before it the arithmetic wrapped modulo 2^64): the test is  u > (MaxUint - d) / 10  before  u*10 + d *)
Definition two64 : N := 18446744073709551616%N.
Definition max_int : N := 9223372036854775807%N.
Fixpoint parse_uint_aux (u : N) (bs : bytes) : option N :=
  match bs with
  | [] => Some u
  | c :: r => if is_digit c
              then if N.ltb ((two64 - 1 - dig c) / 10) u then None else parse_uint_aux (u * 10 + dig c) r
              else None
  end.
Definition parse_uint (bs : bytes) : option N :=
  match bs with [] => None | _ => parse_uint_aux 0 bs end.
Definition parse_int (bs : bytes) : option Z :=
  match bs with
  | [] => None     (* Go would index b[0] out of range; unreachable: expBegin < len value *)
  | c :: r =>
    if byte_eqb c x2d
    then match parse_uint r with
         | Some u => if N.ltb max_int u then None else Some (- Z.of_N u)%Z
         | None => None end
    else match parse_uint bs with
         | Some u => if N.ltb max_int u then None else Some (Z.of_N u)
         | None => None end
  end.

(* appendDigits: skip '-' and '.', copy digits, stop at anything else *)
Fixpoint append_digits (bs : bytes) : bytes :=
  match bs with
  | [] => []
  | c :: r =>
    if (byte_eqb c x2d || byte_eqb c x2e)%bool then append_digits r
    else if is_digit c then c :: append_digits r
    else []
  end.

Definition zeros (n : nat) : bytes := repeat x30 n.

Record number := mknum { n_neg : bool; n_nat : bytes; n_exp : nat }.

(* strip at most [k] leading '0' *)
Fixpoint trim_leading (k : nat) (ds : bytes) : bytes :=
  match k, ds with
  | S k', c :: r => if byte_eqb c x30 then trim_leading k' r else ds
  | _, _ => ds
  end.
(* strip at most [k] trailing '0' from a reversed list; returns (rest reversed, remaining k) *)
Fixpoint trim_trailing_rev (k : nat) (rds : bytes) : bytes * nat :=
  match k, rds with
  | S k', c :: r => if byte_eqb c x30 then trim_trailing_rev k' r else (rds, k)
  | _, _ => (rds, k)
  end.

Definition normalise (neg : bool) (nat0 : bytes) (fra : nat) : option number :=
  let len := length nat0 in
  if Nat.ltb len fra then None                       (* "incorrect exponent value" *)
  else
    let nat1 := trim_leading (len - fra) nat0 in
    if Nat.ltb (length nat1) fra then None
    else
      let '(r, fra') := trim_trailing_rev fra (rev nat1) in
      let nat2 := rev r in
      Some (mknum (neg && negb (Nat.eqb (length nat2) 0))%bool nat2 fra').

Definition max_exponent_zeros : Z := 10000%Z.

Definition scan (value : bytes) : option number :=
  match nrun SStart acc0 0 value with
  | None => None
  | Some a =>
    if negb (a_finished a) then None
    else
      let oe := if Nat.eqb (a_expBegin a) 0 then Some 0%Z else parse_int (skipn (a_expBegin a) value) in
      match oe with
      | None => None
      | Some e =>
        (* setExp (fix dbc9afe): an exponent that would add more than max_exponent_zeros zeros to the written digits is refused
           before anything is allocated *)
        if (Z.ltb (max_exponent_zeros + a_fraLen a) e || Z.ltb (max_exponent_zeros + a_intLen a) (- e))%bool then None else
        let intLen := (a_intLen a + e)%Z in
        let fraLen := (a_fraLen a - e)%Z in
        let ds := append_digits value in
        let '(nat0, fra) :=
          if Z.ltb intLen 0 then (zeros (Z.to_nat (- intLen)) ++ ds, Z.to_nat fraLen)
          else if Z.ltb fraLen 0 then (ds ++ zeros (Z.to_nat (- fraLen)), 0)
          else (ds, Z.to_nat fraLen) in
        normalise (a_negative a) nat0 fra
      end
  end.

Definition n_int (n : number) : bytes := firstn (length (n_nat n) - n_exp n) (n_nat n).
Definition n_fra (n : number) : bytes := skipn (length (n_nat n) - n_exp n) (n_nat n).

(* Cmp *)
Fixpoint lex_cmp (x y : bytes) : comparison :=
  match x, y with
  | a :: x', b :: y' =>
    match N.compare (Byte.to_N a) (Byte.to_N b) with
    | Eq => lex_cmp x' y'
    | c => c
    end
  | _, _ => Eq
  end.
Definition cmp_int (x y : bytes) : comparison :=
  let xl := length x in let yl := length y in
  if (negb (Nat.eqb xl yl) || Nat.eqb xl 0)%bool
  then (if Nat.ltb xl yl then Lt else if Nat.ltb yl xl then Gt else Eq)
  else lex_cmp x y.
(* cmpFra pads the shorter fraction with zero digits *)
Fixpoint cmp_zeros_vs (y : bytes) : comparison :=      (* 000... against y *)
  match y with
  | [] => Eq
  | b :: y' => match N.compare 0 (dig b) with Eq => cmp_zeros_vs y' | c => c end
  end.
Fixpoint cmp_vs_zeros (x : bytes) : comparison :=      (* x against 000... *)
  match x with
  | [] => Eq
  | a :: x' => match N.compare (dig a) 0 with Eq => cmp_vs_zeros x' | c => c end
  end.
Fixpoint cmp_fra (x y : bytes) : comparison :=
  match x with
  | [] => cmp_zeros_vs y
  | a :: x' =>
    match y with
    | [] => cmp_vs_zeros x
    | b :: y' => match N.compare (dig a) (dig b) with Eq => cmp_fra x' y' | c => c end
    end
  end.
Definition cmp_abs (n m : number) : comparison :=
  match cmp_int (n_int n) (n_int m) with
  | Eq => cmp_fra (n_fra n) (n_fra m)
  | c => c
  end.
Definition cmp (n m : number) : comparison :=
  if Bool.eqb (n_neg n) (n_neg m)
  then (if n_neg n then CompOpp (cmp_abs n m) else cmp_abs n m)
  else (if n_neg n then Lt else Gt).

Definition num_string (n : number) : bytes :=
  (if n_neg n then [x2d] else []) ++
  (match n_int n with [] => [x30] | i => i end) ++
  (match n_fra n with [] => [] | f => x2e :: f end).

(* Guess.IsInteger / IsFloat *)
Definition has_byte (p : byte -> bool) (bs : bytes) : bool := existsb p bs.
Definition dot_without_exp (bs : bytes) : bool :=
  (has_byte (fun c => byte_eqb c x2e) bs &&
   negb (has_byte (fun c => (byte_eqb c x65 || byte_eqb c x45)%bool) bs))%bool.
Definition is_integer (bs : bytes) : bool :=
  if dot_without_exp bs then false
  else match scan bs with Some n => Nat.eqb (n_exp n) 0 | None => false end.
Definition is_float (bs : bytes) : bool :=
  if dot_without_exp bs then true
  else match scan bs with Some n => negb (Nat.eqb (n_exp n) 0) | None => false end.

(* min / max / precision verdicts as the constraint code evaluates them
   (c_min.go, c_max.go, c_precision.go): true = value accepted *)
Definition min_ok (exclusive : bool) (bound v : number) : bool :=
  match cmp bound v with
  | Lt => true
  | Eq => negb exclusive
  | Gt => false
  end.
Definition max_ok (exclusive : bool) (bound v : number) : bool :=
  match cmp bound v with
  | Gt => true
  | Eq => negb exclusive
  | Lt => false
  end.
Definition precision_ok (p : nat) (v : number) : bool := Nat.leb (n_exp v) p.

(* ---------- wire ---------- *)
Definition print_cmp (c : comparison) : bytes :=
  match c with Lt => [x2d; x31] | Eq => [x30] | Gt => [x31] end.
Definition err_bytes : bytes := [x45; x52; x52].
Definition num_one (bs : bytes) : bytes :=
  match scan bs with
  | None => err_bytes ++ [bar] ++ print_bool (is_integer bs) ++ print_bool (is_float bs)
  | Some n => num_string n ++ [bar] ++ print_nat (n_exp n) ++ [bar] ++
              print_bool (is_integer bs) ++ print_bool (is_float bs)
  end.
(* line:  "N <numeral>"  or  "C <numeral> <numeral>" *)
Definition num_model_line (line : bytes) : bytes :=
  match split_on sp line with
  | [[x4e]; a] => num_one a
  | [[x43]; a; b] =>
    match scan a, scan b with
    | Some n, Some m => print_cmp (cmp n m)
    | _, _ => err_bytes
    end
  | _ => [x42; x41; x44]
  end.
