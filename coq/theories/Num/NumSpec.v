(* NumSpec.v — what an RFC 8259 numeral is and what it denotes, written without
   reference to the scanner: a numeral is the rendering of its components, its value
   is an exact rational.  No proofs in this file. *)
From Coq Require Import List ZArith NArith QArith Bool Arith.
From Coq Require Import Strings.Byte.
Import ListNotations.
From JS Require Import Common.Wire Num.NumModel.

Inductive esign := ENone | EPlus | EMinus.
Record numeral := mknumeral {
  u_neg : bool;                        (* leading '-' *)
  u_ip : bytes;                        (* integer part digits *)
  u_fd : option bytes;                 (* digits after '.', if any *)
  u_exp : option (bool * esign * bytes) (* upper-case E?, sign, exponent digits *)
}.

Definition all_digits (ds : bytes) : bool := forallb is_digit ds.
Definition wf_ip (ip : bytes) : bool :=
  match ip with
  | [] => false
  | [c] => is_digit c
  | c :: _ => (is_nonzero_digit c && all_digits ip)%bool
  end.
Definition nonempty_digits (ds : bytes) : bool :=
  match ds with [] => false | _ => all_digits ds end.
Definition wf_numeral (u : numeral) : bool :=
  (wf_ip (u_ip u) &&
   match u_fd u with None => true | Some fd => nonempty_digits fd end &&
   match u_exp u with None => true | Some (_, _, ed) => nonempty_digits ed end)%bool.

Definition render (u : numeral) : bytes :=
  (if u_neg u then [x2d] else []) ++ u_ip u ++
  (match u_fd u with None => [] | Some fd => x2e :: fd end) ++
  (match u_exp u with
   | None => []
   | Some (up, sg, ed) =>
     (if up then x45 else x65) ::
     (match sg with ENone => [] | EPlus => [x2b] | EMinus => [x2d] end) ++ ed
   end).

(* decimal value of a digit string *)
Definition dec (ds : bytes) : N := fold_left (fun acc c => (acc * 10 + dig c)%N) ds 0%N.

Definition u_fdigits (u : numeral) : bytes := match u_fd u with None => [] | Some fd => fd end.
Definition u_expval (u : numeral) : Z :=
  match u_exp u with
  | None => 0
  | Some (_, EMinus, ed) => - Z.of_N (dec ed)
  | Some (_, _, ed) => Z.of_N (dec ed)
  end.

(* exact value: mantissa * 10^scale as a rational *)
Definition pow10 (k : Z) : Q :=
  if Z.leb 0 k then inject_Z (10 ^ k) else Qinv (inject_Z (10 ^ (- k))).
Definition numeral_value (u : numeral) : Q :=
  let m := Z.of_N (dec (u_ip u ++ u_fdigits u)) in
  (inject_Z (if u_neg u then - m else m)) *
  pow10 (u_expval u - Z.of_nat (length (u_fdigits u))).

(* value of the library's normalised number *)
Definition number_value (n : number) : Q :=
  let m := Z.of_N (dec (n_nat n)) in
  Qmake (if n_neg n then - m else m) (Z.to_pos (10 ^ Z.of_nat (n_exp n))).

(* the exponent fits Go's int (the library parses it with ParseInt) *)
Definition exp_in_int (u : numeral) : bool :=
  match u_exp u with
  | None => true
  | Some (_, _, ed) => N.leb (dec ed) max_int
  end.
(* the library can represent the number: the exponent fits Go's int and (setExp, fix dbc9afe)
   it does not add more than max_exponent_zeros (10000) zeros to the written digits:
   e <= 10000 + (fraction digits written)  and  -e <= 10000 + (integer digits written) *)
Definition exp_fits (u : numeral) : bool :=
  (exp_in_int u &&
   Z.leb (u_expval u) (max_exponent_zeros + Z.of_nat (length (u_fdigits u))) &&
   Z.leb (- u_expval u) (max_exponent_zeros + Z.of_nat (length (u_ip u))))%bool.
(* the one RFC shape the scanner refuses (known finding C10-zero-int-exponent):
   integer part "0" followed directly by an exponent *)
Definition zero_int_then_exp (u : numeral) : bool :=
  match u_ip u, u_fd u, u_exp u with
  | [c], None, Some _ => byte_eqb c x30
  | _, _, _ => false
  end.

(* normal form of the library's number: integer part without leading zero, fraction
   without trailing zero, no negative zero *)
Definition canonical (n : number) : Prop :=
  (n_exp n <= length (n_nat n))%nat /\
  all_digits (n_nat n) = true /\
  (match n_int n with c :: _ => byte_eqb c x30 = false | [] => True end) /\
  (n_exp n <> 0%nat -> match rev (n_nat n) with c :: _ => byte_eqb c x30 = false | [] => False end) /\
  (n_nat n = [] -> n_neg n = false).

Definition Qcmp_bool_le (a b : Q) : bool := match Qcompare a b with Gt => false | _ => true end.
Definition Qcmp_bool_lt (a b : Q) : bool := match Qcompare a b with Lt => true | _ => false end.
