(* NumProofs.v — proofs tying the executable model NumModel.v to the spec NumSpec.v
   (property C10: exact decimal arithmetic). *)
From Coq Require Import List ZArith NArith QArith Bool Arith Lia.
From Coq Require Import ZifyBool ZifyNat ZifyN.
From Coq Require Import Strings.Byte.
Import ListNotations.
From JS Require Import Common.Wire Num.NumModel Num.NumSpec.

Local Open Scope N_scope.

(* ------------------------------------------------------------------ *)
(* bytes *)

Lemma byte_eqb_true : forall a b, byte_eqb a b = true <-> a = b.
Proof.
  intros a b. unfold byte_eqb. rewrite N.eqb_eq. split.
  - intro H.
    assert (Hx : Byte.of_N (Byte.to_N a) = Byte.of_N (Byte.to_N b)) by (rewrite H; reflexivity).
    rewrite !Byte.of_to_N in Hx. congruence.
  - intros ->. reflexivity.
Qed.

Lemma byte_eqb_refl : forall a, byte_eqb a a = true.
Proof. intro a. apply byte_eqb_true. reflexivity. Qed.

Lemma to_N_inj : forall a b, Byte.to_N a = Byte.to_N b -> a = b.
Proof. intros a b H. apply byte_eqb_true. unfold byte_eqb. apply N.eqb_eq. exact H. Qed.

Lemma is_digit_range : forall c, is_digit c = true <-> 48 <= Byte.to_N c <= 57.
Proof. intro c. unfold is_digit. cbv zeta. lia. Qed.

Lemma is_nonzero_digit_range : forall c, is_nonzero_digit c = true <-> 49 <= Byte.to_N c <= 57.
Proof. intro c. unfold is_nonzero_digit. cbv zeta. lia. Qed.

Lemma nonzero_is_digit : forall c, is_nonzero_digit c = true -> is_digit c = true.
Proof. intros c H. apply is_digit_range. apply is_nonzero_digit_range in H. lia. Qed.

Lemma dig_lt10 : forall c, is_digit c = true -> dig c < 10.
Proof. intros c H. apply is_digit_range in H. unfold dig. lia. Qed.

Lemma eqb_to_N : forall c d, byte_eqb c d = N.eqb (Byte.to_N c) (Byte.to_N d).
Proof. reflexivity. Qed.

Lemma digit_not_x2d : forall c, is_digit c = true -> byte_eqb c x2d = false.
Proof. intros c H. apply is_digit_range in H. rewrite eqb_to_N. change (Byte.to_N x2d) with 45. lia. Qed.
Lemma digit_not_x2e : forall c, is_digit c = true -> byte_eqb c x2e = false.
Proof. intros c H. apply is_digit_range in H. rewrite eqb_to_N. change (Byte.to_N x2e) with 46. lia. Qed.
Lemma digit_not_x2b : forall c, is_digit c = true -> byte_eqb c x2b = false.
Proof. intros c H. apply is_digit_range in H. rewrite eqb_to_N. change (Byte.to_N x2b) with 43. lia. Qed.

Lemma digit_zero_iff : forall c, is_digit c = true -> (byte_eqb c x30 = true <-> dig c = 0).
Proof.
  intros c H. apply is_digit_range in H. rewrite eqb_to_N. change (Byte.to_N x30) with 48.
  unfold dig. lia.
Qed.

Lemma digit_nonzero_iff : forall c, is_digit c = true -> (byte_eqb c x30 = false <-> 0 < dig c).
Proof.
  intros c H. apply is_digit_range in H. rewrite eqb_to_N. change (Byte.to_N x30) with 48.
  unfold dig. lia.
Qed.

Lemma nonzero_digit_split : forall c, is_nonzero_digit c = true <-> (is_digit c = true /\ byte_eqb c x30 = false).
Proof.
  intro c. rewrite is_nonzero_digit_range, is_digit_range, eqb_to_N.
  change (Byte.to_N x30) with 48. lia.
Qed.

(* ------------------------------------------------------------------ *)
(* all_digits *)

Lemma all_digits_app : forall a b, all_digits (a ++ b) = (all_digits a && all_digits b)%bool.
Proof. intros a b. unfold all_digits. apply forallb_app. Qed.

Lemma all_digits_cons : forall c a, all_digits (c :: a) = (is_digit c && all_digits a)%bool.
Proof. reflexivity. Qed.

Lemma all_digits_rev : forall a, all_digits (rev a) = all_digits a.
Proof.
  induction a as [|c a IH]; [reflexivity|].
  cbn [rev]. rewrite all_digits_app, IH, !all_digits_cons. cbn [all_digits forallb].
  destruct (is_digit c), (all_digits a); reflexivity.
Qed.

Lemma all_digits_zeros : forall k, all_digits (zeros k) = true.
Proof. induction k as [|k IH]; [reflexivity|]. unfold zeros in *. cbn [repeat]. rewrite all_digits_cons, IH. reflexivity. Qed.

Lemma all_digits_firstn : forall k a, all_digits a = true -> all_digits (firstn k a) = true.
Proof.
  intros k a H. rewrite <- (firstn_skipn k a), all_digits_app in H.
  apply andb_true_iff in H. tauto.
Qed.
Lemma all_digits_skipn : forall k a, all_digits a = true -> all_digits (skipn k a) = true.
Proof.
  intros k a H. rewrite <- (firstn_skipn k a), all_digits_app in H.
  apply andb_true_iff in H. tauto.
Qed.

(* ------------------------------------------------------------------ *)
(* dec *)

Definition p10 (k : nat) : N := 10 ^ N.of_nat k.

Lemma p10_0 : p10 0 = 1.
Proof. reflexivity. Qed.
Lemma p10_S : forall k, p10 (S k) = 10 * p10 k.
Proof. intro k. unfold p10. rewrite Nat2N.inj_succ, N.pow_succ_r'. reflexivity. Qed.
Lemma p10_pos : forall k, 0 < p10 k.
Proof. intro k. unfold p10. apply N.neq_0_lt_0. apply N.pow_nonzero. discriminate. Qed.
Lemma p10_add : forall a b, p10 (a + b) = p10 a * p10 b.
Proof. intros a b. unfold p10. rewrite Nat2N.inj_add, N.pow_add_r. reflexivity. Qed.

Lemma dec_fold : forall ds acc,
  fold_left (fun acc c => acc * 10 + dig c) ds acc = acc * p10 (length ds) + dec ds.
Proof.
  unfold dec. induction ds as [|c ds IH]; intro acc.
  - cbn [fold_left length]. rewrite p10_0. lia.
  - cbn [fold_left length]. rewrite IH. rewrite (IH (0 * 10 + dig c)). rewrite p10_S. lia.
Qed.

Lemma dec_nil : dec [] = 0.
Proof. reflexivity. Qed.

Lemma dec_cons : forall c ds, dec (c :: ds) = dig c * p10 (length ds) + dec ds.
Proof. intros c ds. unfold dec at 1. cbn [fold_left]. rewrite dec_fold. lia. Qed.

Lemma dec_app : forall a b, dec (a ++ b) = dec a * p10 (length b) + dec b.
Proof.
  intros a b. unfold dec at 1. rewrite fold_left_app. rewrite dec_fold. reflexivity.
Qed.

Lemma dec_snoc : forall a c, dec (a ++ [c]) = dec a * 10 + dig c.
Proof.
  intros a c. rewrite dec_app. cbn [length]. rewrite p10_S, p10_0, dec_cons, dec_nil.
  cbn [length]. rewrite p10_0. lia.
Qed.

Lemma dec_lt : forall b, all_digits b = true -> dec b < p10 (length b).
Proof.
  induction b as [|c b IH]; intro H.
  - rewrite dec_nil. apply p10_pos.
  - rewrite all_digits_cons in H. apply andb_true_iff in H. destruct H as [Hc Hb].
    rewrite dec_cons. cbn [length]. rewrite p10_S. specialize (IH Hb).
    pose proof (dig_lt10 c Hc) as Hd. nia.
Qed.

Lemma dec_zeros : forall k, dec (zeros k) = 0.
Proof.
  induction k as [|k IH]; [reflexivity|]. unfold zeros in *. cbn [repeat].
  rewrite dec_cons, IH. reflexivity.
Qed.

Lemma zeros_length : forall k, length (zeros k) = k.
Proof. intro k. apply repeat_length. Qed.

Lemma dec_lead_nonzero : forall c a, is_digit c = true -> byte_eqb c x30 = false ->
  p10 (length a) <= dec (c :: a).
Proof.
  intros c a Hc Hz. rewrite dec_cons. apply digit_nonzero_iff in Hz; [|exact Hc].
  pose proof (p10_pos (length a)). nia.
Qed.

(* ------------------------------------------------------------------ *)
(* comparison toolkit *)

Lemma compare_lex : forall a b r s M, r < M -> s < M ->
  N.compare (a * M + r) (b * M + s) = match N.compare a b with Eq => N.compare r s | c => c end.
Proof.
  intros a b r s M Hr Hs.
  destruct (N.compare_spec a b) as [Hab|Hab|Hab].
  - subst b. destruct (N.compare_spec r s) as [Hrs|Hrs|Hrs].
    + apply N.compare_eq_iff. lia.
    + apply N.compare_lt_iff. lia.
    + apply N.compare_gt_iff. lia.
  - apply N.compare_lt_iff. nia.
  - apply N.compare_gt_iff. nia.
Qed.

Lemma compare_scale : forall a b k, 0 < k -> N.compare (a * k) (b * k) = N.compare a b.
Proof.
  intros a b k Hk. destruct (N.compare_spec a b) as [H|H|H].
  - subst. apply N.compare_refl.
  - apply N.compare_lt_iff. nia.
  - apply N.compare_gt_iff. nia.
Qed.

Lemma cmp_zeros_vs_spec : forall y, all_digits y = true -> cmp_zeros_vs y = N.compare 0 (dec y).
Proof.
  induction y as [|b y IH]; intro H; [reflexivity|].
  rewrite all_digits_cons in H. apply andb_true_iff in H. destruct H as [Hb Hy].
  cbn [cmp_zeros_vs]. rewrite dec_cons, (IH Hy).
  pose proof (p10_pos (length y)) as Hp.
  destruct (N.compare_spec 0 (dig b)) as [H|H|H].
  - rewrite <- H. rewrite N.mul_0_l, N.add_0_l. reflexivity.
  - symmetry. apply N.compare_lt_iff. nia.
  - lia.
Qed.

Lemma cmp_vs_zeros_spec : forall x, all_digits x = true -> cmp_vs_zeros x = N.compare (dec x) 0.
Proof.
  induction x as [|b y IH]; intro H; [reflexivity|].
  rewrite all_digits_cons in H. apply andb_true_iff in H. destruct H as [Hb Hy].
  cbn [cmp_vs_zeros]. rewrite dec_cons, (IH Hy).
  pose proof (p10_pos (length y)) as Hp.
  destruct (N.compare_spec (dig b) 0) as [H|H|H].
  - rewrite H. rewrite N.mul_0_l, N.add_0_l. reflexivity.
  - lia.
  - symmetry. apply N.compare_gt_iff. nia.
Qed.

Lemma cmp_fra_spec : forall x y, all_digits x = true -> all_digits y = true ->
  cmp_fra x y = N.compare (dec x * p10 (length y)) (dec y * p10 (length x)).
Proof.
  induction x as [|a x IH]; intros y Hx Hy.
  - cbn [cmp_fra length]. rewrite p10_0, dec_nil, N.mul_0_l, N.mul_1_r.
    apply cmp_zeros_vs_spec. exact Hy.
  - destruct y as [|b y].
    + change (cmp_fra (a :: x) []) with (cmp_vs_zeros (a :: x)).
      cbn [length]. rewrite p10_0, dec_nil, N.mul_0_l, N.mul_1_r.
      apply cmp_vs_zeros_spec. exact Hx.
    + rewrite all_digits_cons in Hx, Hy.
      apply andb_true_iff in Hx. destruct Hx as [Ha Hx].
      apply andb_true_iff in Hy. destruct Hy as [Hb Hy].
      cbn [cmp_fra]. rewrite (IH y Hx Hy). rewrite !dec_cons. cbn [length]. rewrite !p10_S.
      pose proof (dec_lt x Hx) as Lx. pose proof (dec_lt y Hy) as Ly.
      set (X := p10 (length x)) in *. set (Y := p10 (length y)) in *.
      set (dx := dec x) in *. set (dy := dec y) in *.
      assert (HX : 0 < X) by apply p10_pos. assert (HY : 0 < Y) by apply p10_pos.
      replace ((dig a * X + dx) * (10 * Y)) with ((dig a * (X * Y) + dx * Y) * 10) by lia.
      replace ((dig b * Y + dy) * (10 * X)) with ((dig b * (X * Y) + dy * X) * 10) by lia.
      rewrite compare_scale by lia.
      rewrite compare_lex; [reflexivity| nia | nia].
Qed.

Lemma lex_cmp_spec : forall x y, length x = length y -> all_digits x = true -> all_digits y = true ->
  lex_cmp x y = N.compare (dec x) (dec y).
Proof.
  induction x as [|a x IH]; intros y Hl Hx Hy.
  - destruct y; [reflexivity|discriminate].
  - destruct y as [|b y]; [discriminate|].
    cbn [length] in Hl. injection Hl as Hl.
    rewrite all_digits_cons in Hx, Hy.
    apply andb_true_iff in Hx. destruct Hx as [Ha Hx].
    apply andb_true_iff in Hy. destruct Hy as [Hb Hy].
    cbn [lex_cmp]. rewrite (IH y Hl Hx Hy). rewrite !dec_cons. rewrite <- Hl.
    rewrite compare_lex; [| apply dec_lt; exact Hx | rewrite Hl; apply dec_lt; exact Hy].
    apply is_digit_range in Ha. apply is_digit_range in Hb.
    assert (E : N.compare (Byte.to_N a) (Byte.to_N b) = N.compare (dig a) (dig b)).
    { unfold dig. destruct (N.compare_spec (Byte.to_N a) (Byte.to_N b)) as [H|H|H]; symmetry.
      - apply N.compare_eq_iff. lia.
      - apply N.compare_lt_iff. lia.
      - apply N.compare_gt_iff. lia. }
    rewrite E. reflexivity.
Qed.

Definition nolead (i : bytes) : Prop :=
  match i with c :: _ => byte_eqb c x30 = false | [] => True end.
Definition notrail (f : bytes) : Prop :=
  match rev f with c :: _ => byte_eqb c x30 = false | [] => True end.

Lemma nolead_lower : forall i, all_digits i = true -> nolead i -> i <> [] ->
  p10 (length i - 1) <= dec i.
Proof.
  intros i Hd Hn Hne. destruct i as [|c i]; [congruence|].
  rewrite all_digits_cons in Hd. apply andb_true_iff in Hd. destruct Hd as [Hc Hd].
  cbn [length]. replace (S (length i) - 1)%nat with (length i) by lia.
  apply dec_lead_nonzero; assumption.
Qed.

Lemma p10_mono : forall a b, (a <= b)%nat -> p10 a <= p10 b.
Proof.
  intros a b H. unfold p10. apply N.pow_le_mono_r; lia.
Qed.

Lemma cmp_int_spec : forall x y, all_digits x = true -> all_digits y = true ->
  nolead x -> nolead y -> cmp_int x y = N.compare (dec x) (dec y).
Proof.
  intros x y Hx Hy Nx Ny. unfold cmp_int. cbv zeta.
  destruct (Nat.eqb (length x) (length y)) eqn:El.
  - apply Nat.eqb_eq in El. cbn [negb orb].
    destruct (Nat.eqb (length x) 0) eqn:E0.
    + apply Nat.eqb_eq in E0. rewrite <- El, E0. cbn.
      destruct x; [|discriminate]. destruct y; [|cbn in El; discriminate]. reflexivity.
    + apply lex_cmp_spec; assumption.
  - apply Nat.eqb_neq in El. cbn [negb orb].
    destruct (Nat.ltb (length x) (length y)) eqn:Elt.
    + apply Nat.ltb_lt in Elt. symmetry. apply N.compare_lt_iff.
      pose proof (dec_lt x Hx) as Lx.
      assert (Hne : y <> []) by (intro; subst; cbn in Elt; lia).
      pose proof (nolead_lower y Hy Ny Hne) as Ly.
      pose proof (p10_mono (length x) (length y - 1) ltac:(lia)). lia.
    + apply Nat.ltb_ge in Elt.
      assert (Hgt : (length y < length x)%nat) by lia.
      apply Nat.ltb_lt in Hgt. rewrite Hgt. apply Nat.ltb_lt in Hgt.
      symmetry. apply N.compare_gt_iff.
      pose proof (dec_lt y Hy) as Lx.
      assert (Hne : x <> []) by (intro; subst; cbn in Hgt; lia).
      pose proof (nolead_lower x Hx Nx Hne) as Ly.
      pose proof (p10_mono (length y) (length x - 1) ltac:(lia)). lia.
Qed.

(* ------------------------------------------------------------------ *)
(* structure of a canonical number *)

Lemma canonical_parts : forall n, canonical n ->
  n_nat n = n_int n ++ n_fra n /\ length (n_fra n) = n_exp n /\
  all_digits (n_int n) = true /\ all_digits (n_fra n) = true /\
  nolead (n_int n) /\ notrail (n_fra n) /\
  (n_neg n = true -> 0 < dec (n_nat n)).
Proof.
  intros n (Hle & Hd & Hlead & Htrail & Hneg).
  assert (Hsplit : n_nat n = n_int n ++ n_fra n).
  { unfold n_int, n_fra. symmetry. apply firstn_skipn. }
  assert (Hlen : length (n_fra n) = n_exp n).
  { unfold n_fra. rewrite skipn_length. lia. }
  assert (Hnt : notrail (n_fra n)).
  { unfold notrail. destruct (Nat.eq_dec (n_exp n) 0) as [E|E].
    - destruct (n_fra n); [reflexivity|]. cbn in Hlen. lia.
    - specialize (Htrail E). rewrite Hsplit, rev_app_distr in Htrail.
      destruct (rev (n_fra n)) as [|c r] eqn:Er.
      + apply (f_equal (@length _)) in Er. rewrite rev_length in Er. cbn in Er. lia.
      + exact Htrail. }
  split; [exact Hsplit|]. split; [exact Hlen|].
  split; [apply all_digits_firstn; exact Hd|].
  split; [apply all_digits_skipn; exact Hd|].
  split; [exact Hlead|]. split; [exact Hnt|].
  intro Hn.
  destruct (n_nat n) as [|c0 r0] eqn:En; [specialize (Hneg eq_refl); congruence|].
  rewrite <- En in *. clear c0 r0 En.
  assert (Hdi : all_digits (n_int n) = true) by (apply all_digits_firstn; exact Hd).
  assert (Hdf : all_digits (n_fra n) = true) by (apply all_digits_skipn; exact Hd).
  rewrite Hsplit. rewrite dec_app.
  destruct (n_fra n) as [|c f] eqn:Ef.
  - destruct (n_int n) as [|c i] eqn:Ei.
    + rewrite Hsplit in Hneg. specialize (Hneg eq_refl). congruence.
    + rewrite all_digits_cons in Hdi. apply andb_true_iff in Hdi. destruct Hdi as [Hc Hdi].
      pose proof (dec_lead_nonzero c i Hc Hlead). pose proof (p10_pos (length i)).
      pose proof (p10_pos (@length byte [])). rewrite dec_nil. nia.
  - unfold notrail in Hnt.
    assert (Hex : exists g d, c :: f = g ++ [d]).
    { exists (removelast (c :: f)), (last (c :: f) c). apply app_removelast_last. discriminate. }
    destruct Hex as (g & d & Eg). rewrite Eg in *.
    rewrite rev_app_distr in Hnt. cbn [rev app] in Hnt.
    rewrite all_digits_app in Hdf. apply andb_true_iff in Hdf. destruct Hdf as [_ Hdd].
    rewrite all_digits_cons in Hdd. apply andb_true_iff in Hdd. destruct Hdd as [Hdd _].
    apply digit_nonzero_iff in Hnt; [|exact Hdd].
    rewrite dec_snoc. lia.
Qed.

Lemma canonical_dec_split : forall n, canonical n ->
  dec (n_nat n) = dec (n_int n) * p10 (n_exp n) + dec (n_fra n) /\ dec (n_fra n) < p10 (n_exp n).
Proof.
  intros n Hc. destruct (canonical_parts n Hc) as (Hs & Hl & Hi & Hf & _).
  split.
  - rewrite Hs at 1. rewrite dec_app, Hl. reflexivity.
  - rewrite <- Hl. apply dec_lt. exact Hf.
Qed.

Lemma cmp_abs_spec : forall n m, canonical n -> canonical m ->
  cmp_abs n m = N.compare (dec (n_nat n) * p10 (n_exp m)) (dec (n_nat m) * p10 (n_exp n)).
Proof.
  intros n m Hn Hm.
  destruct (canonical_parts n Hn) as (_ & Hln & Hin & Hfn & Nn & _).
  destruct (canonical_parts m Hm) as (_ & Hlm & Him & Hfm & Nm & _).
  destruct (canonical_dec_split n Hn) as (Dn & Ln).
  destruct (canonical_dec_split m Hm) as (Dm & Lm).
  unfold cmp_abs. rewrite (cmp_int_spec _ _ Hin Him Nn Nm).
  rewrite (cmp_fra_spec _ _ Hfn Hfm). rewrite Hln, Hlm. rewrite Dn, Dm.
  set (I := dec (n_int n)) in *. set (J := dec (n_int m)) in *.
  set (F := dec (n_fra n)) in *. set (G := dec (n_fra m)) in *.
  set (P := p10 (n_exp n)) in *. set (R := p10 (n_exp m)) in *.
  assert (HP : 0 < P) by apply p10_pos. assert (HR : 0 < R) by apply p10_pos.
  replace ((I * P + F) * R) with (I * (P * R) + F * R) by lia.
  replace ((J * R + G) * P) with (J * (P * R) + G * P) by lia.
  rewrite compare_lex; [reflexivity | nia | nia].
Qed.

(* ------------------------------------------------------------------ *)
(* bridge to Q *)

Lemma den_p10 : forall e, Zpos (Z.to_pos (10 ^ Z.of_nat e)) = Z.of_N (p10 e).
Proof.
  intro e. rewrite Z2Pos.id by (apply Z.pow_pos_nonneg; lia).
  unfold p10. rewrite N2Z.inj_pow. rewrite nat_N_Z. reflexivity.
Qed.

Definition sgn_of (b : bool) (m : Z) : Z := if b then (- m)%Z else m.

Lemma number_value_eq : forall n,
  number_value n = Qmake (sgn_of (n_neg n) (Z.of_N (dec (n_nat n)))) (Z.to_pos (10 ^ Z.of_nat (n_exp n))).
Proof. reflexivity. Qed.

Lemma Qcompare_number : forall n m,
  Qcompare (number_value n) (number_value m) =
  Z.compare (sgn_of (n_neg n) (Z.of_N (dec (n_nat n))) * Z.of_N (p10 (n_exp m)))
            (sgn_of (n_neg m) (Z.of_N (dec (n_nat m))) * Z.of_N (p10 (n_exp n))).
Proof.
  intros n m. rewrite !number_value_eq. unfold Qcompare. cbn [Qnum Qden].
  rewrite !den_p10. reflexivity.
Qed.

Theorem cmp_exact : forall n m, canonical n -> canonical m ->
  cmp n m = Qcompare (number_value n) (number_value m).
Proof.
  intros n m Hn Hm. rewrite Qcompare_number. unfold cmp.
  rewrite (cmp_abs_spec n m Hn Hm).
  destruct (canonical_parts n Hn) as (_ & _ & _ & _ & _ & _ & Pn).
  destruct (canonical_parts m Hm) as (_ & _ & _ & _ & _ & _ & Pm).
  pose proof (p10_pos (n_exp n)) as HP. pose proof (p10_pos (n_exp m)) as HR.
  set (A := dec (n_nat n)) in *. set (B := dec (n_nat m)) in *.
  set (P := p10 (n_exp n)) in *. set (R := p10 (n_exp m)) in *.
  destruct (n_neg n) eqn:En, (n_neg m) eqn:Em; cbn [Bool.eqb sgn_of].
  - rewrite !Z.mul_opp_l, <- !N2Z.inj_mul. rewrite Z.compare_opp, N2Z.inj_compare.
    symmetry. apply N.compare_antisym.
  - specialize (Pn eq_refl). symmetry. apply Z.compare_lt_iff. nia.
  - specialize (Pm eq_refl). symmetry. apply Z.compare_gt_iff. nia.
  - rewrite <- !N2Z.inj_mul, N2Z.inj_compare. reflexivity.
Qed.

(* ------------------------------------------------------------------ *)
(* uniqueness of canonical forms *)

Lemma lex_cmp_eq : forall x y, length x = length y -> lex_cmp x y = Eq -> x = y.
Proof.
  induction x as [|a x IH]; intros y Hl H.
  - destruct y; [reflexivity|discriminate].
  - destruct y as [|b y]; [discriminate|]. cbn [length] in Hl. injection Hl as Hl.
    cbn [lex_cmp] in H.
    destruct (N.compare_spec (Byte.to_N a) (Byte.to_N b)) as [E|E|E]; try discriminate.
    apply to_N_inj in E. subst b. f_equal. apply IH; assumption.
Qed.

Lemma cmp_int_eq : forall x y, cmp_int x y = Eq -> x = y.
Proof.
  intros x y. unfold cmp_int. cbv zeta.
  destruct (Nat.eqb (length x) (length y)) eqn:El; cbn [negb orb].
  - apply Nat.eqb_eq in El. destruct (Nat.eqb (length x) 0) eqn:E0.
    + apply Nat.eqb_eq in E0. intros _.
      destruct x; [|discriminate]. destruct y; [reflexivity|]. cbn in El. discriminate.
    + apply lex_cmp_eq. exact El.
  - apply Nat.eqb_neq in El.
    destruct (Nat.ltb (length x) (length y)) eqn:E1; [discriminate|].
    destruct (Nat.ltb (length y) (length x)) eqn:E2; [discriminate|].
    apply Nat.ltb_ge in E1. apply Nat.ltb_ge in E2. lia.
Qed.

Lemma notrail_tail : forall a x, notrail (a :: x) -> notrail x.
Proof.
  intros a x. unfold notrail. cbn [rev]. destruct (rev x) as [|b l]; [trivial|].
  cbn [app]. trivial.
Qed.

Lemma snoc_view : forall (x : bytes), x <> [] -> exists g d, x = g ++ [d].
Proof.
  intros x H. destruct x as [|c x]; [congruence|].
  exists (removelast (c :: x)), (last (c :: x) c). apply app_removelast_last. discriminate.
Qed.

Lemma notrail_last : forall f, all_digits f = true -> notrail f -> f <> [] ->
  exists q d, dec f = q * 10 + d /\ 0 < d < 10.
Proof.
  intros f Hd Hn Hne. destruct (snoc_view f Hne) as (g & d & ->).
  unfold notrail in Hn. rewrite rev_app_distr in Hn. cbn [rev app] in Hn.
  rewrite all_digits_app in Hd. apply andb_true_iff in Hd. destruct Hd as [_ Hd].
  rewrite all_digits_cons in Hd. apply andb_true_iff in Hd. destruct Hd as [Hd _].
  exists (dec g), (dig d). rewrite dec_snoc. split; [reflexivity|].
  apply digit_nonzero_iff in Hn; [|exact Hd]. pose proof (dig_lt10 d Hd). lia.
Qed.

Lemma cmp_fra_eq : forall x y, all_digits x = true -> all_digits y = true ->
  notrail x -> notrail y -> cmp_fra x y = Eq -> x = y.
Proof.
  induction x as [|a x IH]; intros y Hx Hy Nx Ny H.
  - cbn [cmp_fra] in H. rewrite (cmp_zeros_vs_spec y Hy) in H.
    destruct y as [|b y]; [reflexivity|].
    destruct (notrail_last (b :: y) Hy Ny ltac:(discriminate)) as (q & d & E & Hd).
    apply N.compare_eq_iff in H. lia.
  - destruct y as [|b y].
    + change (cmp_fra (a :: x) []) with (cmp_vs_zeros (a :: x)) in H.
      rewrite (cmp_vs_zeros_spec _ Hx) in H.
      destruct (notrail_last (a :: x) Hx Nx ltac:(discriminate)) as (q & d & E & Hd).
      apply N.compare_eq_iff in H. lia.
    + cbn [cmp_fra] in H.
      rewrite all_digits_cons in Hx, Hy.
      apply andb_true_iff in Hx. destruct Hx as [Ha Hx].
      apply andb_true_iff in Hy. destruct Hy as [Hb Hy].
      destruct (N.compare_spec (dig a) (dig b)) as [E|E|E]; try discriminate.
      assert (a = b).
      { apply to_N_inj. apply is_digit_range in Ha. apply is_digit_range in Hb.
        unfold dig in E. lia. }
      subst b. f_equal. apply IH; try assumption.
      * eapply notrail_tail; eassumption.
      * eapply notrail_tail; eassumption.
Qed.

Theorem canonical_unique : forall n m, canonical n -> canonical m ->
  Qeq (number_value n) (number_value m) -> n = m.
Proof.
  intros n m Hn Hm HQ. apply Qeq_alt in HQ. rewrite <- (cmp_exact n m Hn Hm) in HQ.
  destruct (canonical_parts n Hn) as (Sn & Ln & _ & Fn & _ & Tn & _).
  destruct (canonical_parts m Hm) as (Sm & Lm & _ & Fm & _ & Tm & _).
  unfold cmp in HQ.
  assert (Hneg : n_neg n = n_neg m).
  { destruct (n_neg n), (n_neg m); cbn in HQ; try reflexivity; discriminate. }
  assert (Habs : cmp_abs n m = Eq).
  { rewrite <- Hneg in HQ. rewrite Bool.eqb_reflx in HQ.
    destruct (n_neg n); [|exact HQ]. destruct (cmp_abs n m); cbn in HQ; congruence. }
  unfold cmp_abs in Habs.
  destruct (cmp_int (n_int n) (n_int m)) eqn:Ei; try discriminate.
  apply cmp_int_eq in Ei.
  apply (cmp_fra_eq _ _ Fn Fm Tn Tm) in Habs.
  assert (Hnat : n_nat n = n_nat m) by (rewrite Sn, Sm, Ei, Habs; reflexivity).
  assert (Hexp : n_exp n = n_exp m) by (rewrite <- Ln, <- Lm, Habs; reflexivity).
  destruct n as [a b c], m as [a' b' c']. cbn [n_neg n_nat n_exp] in *. subst. reflexivity.
Qed.

(* ------------------------------------------------------------------ *)
(* min / max *)

Theorem min_ok_exact : forall ex b v, canonical b -> canonical v ->
  min_ok ex b v = if ex then Qcmp_bool_lt (number_value b) (number_value v) else Qcmp_bool_le (number_value b) (number_value v).
Proof.
  intros ex b v Hb Hv. unfold min_ok, Qcmp_bool_lt, Qcmp_bool_le.
  rewrite (cmp_exact b v Hb Hv).
  destruct (Qcompare (number_value b) (number_value v)), ex; reflexivity.
Qed.

Theorem max_ok_exact : forall ex b v, canonical b -> canonical v ->
  max_ok ex b v = if ex then Qcmp_bool_lt (number_value v) (number_value b) else Qcmp_bool_le (number_value v) (number_value b).
Proof.
  intros ex b v Hb Hv. unfold max_ok, Qcmp_bool_lt, Qcmp_bool_le.
  rewrite (cmp_exact b v Hb Hv).
  rewrite <- (Qcompare_antisym (number_value b) (number_value v)).
  destruct (Qcompare (number_value b) (number_value v)), ex; reflexivity.
Qed.

(* ------------------------------------------------------------------ *)
(* integer / precision *)

Lemma canonical_last_digit : forall n, canonical n -> n_exp n <> 0%nat ->
  exists q d, dec (n_nat n) = q * 10 + d /\ 0 < d < 10.
Proof.
  intros n Hn He.
  destruct (canonical_parts n Hn) as (Sn & Ln & _ & Fn & _ & Tn & _).
  assert (Hne : n_fra n <> []) by (intro E; rewrite E in Ln; cbn in Ln; lia).
  destruct (notrail_last _ Fn Tn Hne) as (q & d & E & Hd).
  destruct (canonical_dec_split n Hn) as (Dn & _).
  exists (dec (n_int n) * p10 (n_exp n - 1) + q), d. split; [|exact Hd].
  rewrite Dn, E. replace (n_exp n) with (S (n_exp n - 1)) at 1 by lia. rewrite p10_S. lia.
Qed.

Lemma Z_p10 : forall k, (10 ^ Z.of_nat k)%Z = Z.of_N (p10 k).
Proof. intro k. unfold p10. rewrite N2Z.inj_pow, nat_N_Z. reflexivity. Qed.

Theorem precision_iff : forall p n, canonical n ->
  (precision_ok p n = true <-> exists z : Z, Qeq (number_value n * inject_Z (10 ^ Z.of_nat p)) (inject_Z z)).
Proof.
  intros p n Hn. unfold precision_ok. rewrite Nat.leb_le.
  rewrite number_value_eq. unfold Qeq, Qmult, inject_Z. cbn [Qnum Qden].
  rewrite Pos.mul_1_r. rewrite den_p10, Z_p10.
  set (A := dec (n_nat n)).
  split.
  - intro Hle. exists (sgn_of (n_neg n) (Z.of_N A) * Z.of_N (p10 (p - n_exp n)))%Z.
    replace p with (n_exp n + (p - n_exp n))%nat at 1 by lia. rewrite p10_add.
    rewrite N2Z.inj_mul. ring.
  - intros (z & Hz).
    destruct (le_lt_dec (n_exp n) p) as [Hle|Hgt]; [exact Hle|exfalso].
    destruct (canonical_last_digit n Hn ltac:(lia)) as (q & d & E & Hd). fold A in E.
    replace (n_exp n) with (p + S (n_exp n - p - 1))%nat in Hz by lia.
    rewrite p10_add, p10_S in Hz.
    pose proof (p10_pos p) as Hp.
    set (K := p10 (n_exp n - p - 1)) in *. set (P := p10 p) in *.
    rewrite !N2Z.inj_mul in Hz. change (Z.of_N 10) with 10%Z in Hz.
    assert (Hz' : (sgn_of (n_neg n) (Z.of_N A) = 10 * (z * Z.of_N K))%Z).
    { apply (Z.mul_cancel_r _ _ (Z.of_N P)); [lia|]. rewrite Z.mul_1_r in Hz. rewrite Hz. ring. }
    rewrite E in Hz'. unfold sgn_of in Hz'.
    set (w := (z * Z.of_N K)%Z) in *. destruct (n_neg n); lia.
Qed.

Theorem integer_iff : forall n, canonical n ->
  (n_exp n = 0%nat <-> exists z : Z, Qeq (number_value n) (inject_Z z)).
Proof.
  intros n Hn. pose proof (precision_iff 0 n Hn) as H.
  unfold precision_ok in H. rewrite Nat.leb_le in H.
  split.
  - intro E. destruct (proj1 H ltac:(lia)) as (z & Hz). exists z.
    rewrite <- Hz. change (inject_Z (10 ^ Z.of_nat 0)) with 1%Q. rewrite Qmult_1_r. reflexivity.
  - intros (z & Hz). assert (n_exp n <= 0)%nat; [|lia]. apply H. exists z.
    rewrite <- Hz. change (inject_Z (10 ^ Z.of_nat 0)) with 1%Q. rewrite Qmult_1_r. reflexivity.
Qed.

(* ------------------------------------------------------------------ *)
(* normalise *)

Lemma zeros_S : forall k, zeros (S k) = x30 :: zeros k.
Proof. reflexivity. Qed.

Lemma zeros_snoc : forall k, zeros k ++ [x30] = x30 :: zeros k.
Proof. induction k as [|k IH]; [reflexivity|]. rewrite zeros_S. cbn [app]. rewrite IH. reflexivity. Qed.

Lemma rev_zeros : forall k, rev (zeros k) = zeros k.
Proof.
  induction k as [|k IH]; [reflexivity|]. rewrite zeros_S. cbn [rev]. rewrite IH. apply zeros_snoc.
Qed.

Lemma trim_leading_spec : forall k ds,
  exists j, (j <= k)%nat /\ ds = zeros j ++ trim_leading k ds /\
            (j = k \/ nolead (trim_leading k ds)).
Proof.
  induction k as [|k IH]; intro ds.
  - exists 0%nat. cbn [trim_leading]. destruct ds; (split; [lia|split; [reflexivity|left; reflexivity]]).
  - destruct ds as [|c r].
    + exists 0%nat. cbn [trim_leading]. split; [lia|]. split; [reflexivity|]. right. exact I.
    + cbn [trim_leading]. destruct (byte_eqb c x30) eqn:Ec.
      * apply byte_eqb_true in Ec. subst c.
        destruct (IH r) as (j & Hj & Hr & Hn). exists (S j). split; [lia|].
        split; [rewrite zeros_S; cbn [app]; f_equal; exact Hr|].
        destruct Hn as [Hn|Hn]; [left; lia|right; exact Hn].
      * exists 0%nat. split; [lia|]. split; [reflexivity|]. right. exact Ec.
Qed.

Lemma trim_trailing_rev_spec : forall k rds r k', trim_trailing_rev k rds = (r, k') ->
  exists j, (j <= k)%nat /\ k' = (k - j)%nat /\ rds = zeros j ++ r /\ (k' = 0%nat \/ nolead r).
Proof.
  induction k as [|k IH]; intros rds r k' H.
  - exists 0%nat. cbn [trim_trailing_rev] in H. destruct rds; injection H as <- <-;
      (split; [lia|split; [reflexivity|split; [reflexivity|left; reflexivity]]]).
  - destruct rds as [|c rr].
    + cbn [trim_trailing_rev] in H. injection H as <- <-. exists 0%nat.
      split; [lia|]. split; [lia|]. split; [reflexivity|]. right. exact I.
    + cbn [trim_trailing_rev] in H. destruct (byte_eqb c x30) eqn:Ec.
      * apply byte_eqb_true in Ec. subst c.
        destruct (IH rr r k' H) as (j & Hj & Hk & Hr & Hn). exists (S j).
        split; [lia|]. split; [lia|]. split; [rewrite zeros_S; cbn [app]; f_equal; exact Hr|exact Hn].
      * injection H as <- <-. exists 0%nat. split; [lia|]. split; [lia|]. split; [reflexivity|].
        right. exact Ec.
Qed.

Lemma nolead_firstn : forall k x, nolead x -> nolead (firstn k x).
Proof. intros k x H. destruct k, x; cbn; trivial. Qed.

Lemma sgn_of_mul : forall b a k, (sgn_of b (a * k) = sgn_of b a * k)%Z.
Proof. intros b a k. destruct b; cbn [sgn_of]; ring. Qed.

Lemma normalise_spec : forall neg nat0 fra, all_digits nat0 = true -> (fra <= length nat0)%nat ->
  exists n, normalise neg nat0 fra = Some n /\ canonical n /\
    (sgn_of (n_neg n) (Z.of_N (dec (n_nat n))) * Z.of_N (p10 fra) =
     sgn_of neg (Z.of_N (dec nat0)) * Z.of_N (p10 (n_exp n)))%Z.
Proof.
  intros neg nat0 fra Hd Hle. unfold normalise. cbv zeta.
  destruct (Nat.ltb (length nat0) fra) eqn:E1; [apply Nat.ltb_lt in E1; lia|]. clear E1.
  destruct (trim_leading_spec (length nat0 - fra) nat0) as (j & Hj & Hsplit & Hlead).
  set (nat1 := trim_leading (length nat0 - fra) nat0) in *.
  assert (Hlen1 : length nat0 = (j + length nat1)%nat).
  { rewrite Hsplit at 1. rewrite app_length, zeros_length. reflexivity. }
  assert (Hd1 : all_digits nat1 = true).
  { rewrite Hsplit, all_digits_app in Hd. apply andb_true_iff in Hd. tauto. }
  assert (Hdec1 : dec nat0 = dec nat1).
  { rewrite Hsplit at 1. rewrite dec_app, dec_zeros. lia. }
  destruct (Nat.ltb (length nat1) fra) eqn:E2; [apply Nat.ltb_lt in E2; lia|]. clear E2.
  destruct (trim_trailing_rev fra (rev nat1)) as [r fra'] eqn:Et.
  destruct (trim_trailing_rev_spec _ _ _ _ Et) as (t & Ht & Hfra' & Hr & Htrail).
  assert (Hnat1 : nat1 = rev r ++ zeros t).
  { rewrite <- (rev_involutive nat1), Hr, rev_app_distr, rev_zeros. reflexivity. }
  set (nat2 := rev r) in *.
  assert (Hlen2 : length nat1 = (length nat2 + t)%nat).
  { rewrite Hnat1 at 1. rewrite app_length, zeros_length. reflexivity. }
  assert (Hd2 : all_digits nat2 = true).
  { rewrite Hnat1, all_digits_app in Hd1. apply andb_true_iff in Hd1. tauto. }
  eexists. split; [reflexivity|]. split.
  - unfold canonical, n_int. cbn [n_neg n_nat n_exp].
    split; [lia|]. split; [exact Hd2|]. split; [|split].
    + assert (Hint : firstn (length nat2 - fra') nat2 = firstn (length nat1 - fra) nat1).
      { rewrite Hnat1. rewrite firstn_app.
        replace (length (nat2 ++ zeros t) - fra - length nat2)%nat with 0%nat
          by (rewrite app_length, zeros_length; lia).
        cbn [firstn]. rewrite app_nil_r. f_equal. rewrite app_length, zeros_length. lia. }
      rewrite Hint. destruct Hlead as [Hlead|Hlead].
      * replace (length nat1 - fra)%nat with 0%nat by lia. exact I.
      * apply nolead_firstn. exact Hlead.
    + intro Hne. unfold nat2. rewrite rev_involutive.
      destruct Htrail as [Htrail|Htrail]; [congruence|].
      destruct r as [|c r']; [|exact Htrail].
      cbn in Hlen2. lia.
    + intro Hnil. rewrite Hnil. cbn. apply andb_false_r.
  - cbn [n_neg n_nat n_exp].
    assert (Hval : (Z.of_N (dec nat2) * Z.of_N (p10 fra) = Z.of_N (dec nat0) * Z.of_N (p10 fra'))%Z).
    { rewrite Hdec1, Hnat1, dec_app, dec_zeros, zeros_length. fold nat2.
      replace fra with (t + fra')%nat at 1 by lia. rewrite p10_add. lia. }
    destruct (Nat.eqb (length nat2) 0) eqn:E0.
    + apply Nat.eqb_eq in E0. destruct nat2; [|discriminate].
      rewrite dec_nil in *. rewrite andb_false_r. cbn [sgn_of].
      destruct neg; cbn [sgn_of]; lia.
    + cbn [negb]. rewrite andb_true_r. destruct neg; cbn [sgn_of]; lia.
Qed.

(* ------------------------------------------------------------------ *)
(* the scanner over blocks of a rendered numeral *)

Lemma nrun_cons : forall st a i c r,
  nrun st a i (c :: r) =
  match nstep st (set_finished a true) i c with
  | Some (st', a') => nrun st' a' (S i) r
  | None => None
  end.
Proof. reflexivity. Qed.

Lemma nrun_int_digits : forall ds rest il fl eb ng i, all_digits ds = true ->
  nrun SInteger (mkacc il fl eb ng true) i (ds ++ rest) =
  nrun SInteger (mkacc (il + Z.of_nat (length ds)) fl eb ng true) (i + length ds) rest.
Proof.
  induction ds as [|c ds IH]; intros rest il fl eb ng i H.
  - cbn [app length]. rewrite Z.add_0_r, Nat.add_0_r. reflexivity.
  - rewrite all_digits_cons in H. apply andb_true_iff in H. destruct H as [Hc Hd].
    cbn [app]. rewrite nrun_cons. unfold nstep. rewrite Hc.
    unfold inc_int, set_finished. cbn [a_intLen a_fraLen a_expBegin a_negative a_finished].
    rewrite (IH rest _ _ _ _ _ Hd). cbn [length].
    replace (il + 1 + Z.of_nat (length ds))%Z with (il + Z.of_nat (S (length ds)))%Z by lia.
    replace (S i + length ds)%nat with (i + S (length ds))%nat by lia. reflexivity.
Qed.

Lemma nrun_fra_digits : forall ds rest il fl eb ng i, all_digits ds = true ->
  nrun SFraction (mkacc il fl eb ng true) i (ds ++ rest) =
  nrun SFraction (mkacc il (fl + Z.of_nat (length ds)) eb ng true) (i + length ds) rest.
Proof.
  induction ds as [|c ds IH]; intros rest il fl eb ng i H.
  - cbn [app length]. rewrite Z.add_0_r, Nat.add_0_r. reflexivity.
  - rewrite all_digits_cons in H. apply andb_true_iff in H. destruct H as [Hc Hd].
    cbn [app]. rewrite nrun_cons. unfold nstep. rewrite Hc.
    unfold inc_fra, set_finished. cbn [a_intLen a_fraLen a_expBegin a_negative a_finished].
    rewrite (IH rest _ _ _ _ _ Hd). cbn [length].
    replace (fl + 1 + Z.of_nat (length ds))%Z with (fl + Z.of_nat (S (length ds)))%Z by lia.
    replace (S i + length ds)%nat with (i + S (length ds))%nat by lia. reflexivity.
Qed.

Lemma nrun_expnum_digits : forall ds il fl eb ng i, all_digits ds = true ->
  nrun SExpNumber (mkacc il fl eb ng true) i ds = Some (mkacc il fl eb ng true).
Proof.
  induction ds as [|c ds IH]; intros il fl eb ng i H; [reflexivity|].
  rewrite all_digits_cons in H. apply andb_true_iff in H. destruct H as [Hc Hd].
  rewrite nrun_cons. unfold nstep. rewrite Hc.
  unfold set_finished. cbn [a_intLen a_fraLen a_expBegin a_negative a_finished].
  apply IH. exact Hd.
Qed.

Lemma nrun_exp_digits : forall ds il fl eb ng i, all_digits ds = true -> eb <> 0%nat ->
  nrun SExp (mkacc il fl eb ng true) i ds = Some (mkacc il fl eb ng true).
Proof.
  induction ds as [|c ds IH]; intros il fl eb ng i H Heb; [reflexivity|].
  rewrite all_digits_cons in H. apply andb_true_iff in H. destruct H as [Hc Hd].
  rewrite nrun_cons. unfold nstep.
  rewrite (digit_not_x2b c Hc), (digit_not_x2d c Hc), Hc.
  unfold set_expBegin_if_unset, set_finished. cbn [a_intLen a_fraLen a_expBegin a_negative a_finished].
  apply Nat.eqb_neq in Heb. rewrite Heb. apply Nat.eqb_neq in Heb.
  apply IH; assumption.
Qed.

Definition sign_bytes (neg : bool) : bytes := if neg then [x2d] else [].
Definition esign_bytes (sg : esign) : bytes :=
  match sg with ENone => [] | EPlus => [x2b] | EMinus => [x2d] end.
Definition echar (up : bool) : byte := if up then x45 else x65.

Lemma nrun_sign : forall neg R, exists st0, (st0 = SStart \/ st0 = SMinus) /\
  nrun SStart acc0 0 (sign_bytes neg ++ R) = nrun st0 (mkacc 0 0 0 neg false) (length (sign_bytes neg)) R.
Proof.
  intros [|] R.
  - exists SMinus. split; [right; reflexivity|]. reflexivity.
  - exists SStart. split; [left; reflexivity|]. reflexivity.
Qed.

Lemma nrun_first_digit : forall st ng f i c rest, (st = SStart \/ st = SMinus) -> is_digit c = true ->
  nrun st (mkacc 0 0 0 ng f) i (c :: rest) =
  nrun (if byte_eqb c x30 then SFirstZero else SInteger) (mkacc 1 0 0 ng true) (S i) rest.
Proof.
  intros st ng f i c rest Hst Hc. rewrite nrun_cons.
  assert (Hnz : byte_eqb c x30 = false -> is_nonzero_digit c = true).
  { intro Hz. apply nonzero_digit_split. split; assumption. }
  destruct Hst as [-> | ->]; unfold nstep.
  - rewrite (digit_not_x2d c Hc). destruct (byte_eqb c x30) eqn:Ez.
    + reflexivity.
    + rewrite (Hnz eq_refl). reflexivity.
  - destruct (byte_eqb c x30) eqn:Ez.
    + reflexivity.
    + rewrite (Hnz eq_refl). reflexivity.
Qed.

Lemma nrun_ip : forall st ng f i ip rest, (st = SStart \/ st = SMinus) -> wf_ip ip = true ->
  exists st1, (st1 = SInteger \/ (st1 = SFirstZero /\ ip = [x30])) /\
    nrun st (mkacc 0 0 0 ng f) i (ip ++ rest) =
    nrun st1 (mkacc (Z.of_nat (length ip)) 0 0 ng true) (i + length ip) rest.
Proof.
  intros st ng f i ip rest Hst Hwf.
  destruct ip as [|c ip']; [discriminate|].
  assert (Hc : is_digit c = true).
  { destruct ip'; cbn [wf_ip] in Hwf; [exact Hwf|].
    apply andb_true_iff in Hwf. destruct Hwf as [Hwf _]. apply nonzero_is_digit. exact Hwf. }
  cbn [app]. rewrite (nrun_first_digit st ng f i c (ip' ++ rest) Hst Hc).
  destruct ip' as [|d ip''].
  - cbn [app length]. destruct (byte_eqb c x30) eqn:Ez.
    + apply byte_eqb_true in Ez. subst c. exists SFirstZero. split; [right; split; reflexivity|].
      replace (i + 1)%nat with (S i) by lia. reflexivity.
    + exists SInteger. split; [left; reflexivity|].
      replace (i + 1)%nat with (S i) by lia. reflexivity.
  - cbn [wf_ip] in Hwf. apply andb_true_iff in Hwf. destruct Hwf as [Hnz Hall].
    apply nonzero_digit_split in Hnz. destruct Hnz as [_ Hz]. rewrite Hz.
    rewrite all_digits_cons in Hall. apply andb_true_iff in Hall. destruct Hall as [_ Hall].
    exists SInteger. split; [left; reflexivity|].
    rewrite (nrun_int_digits (d :: ip'') rest _ _ _ _ _ Hall).
    f_equal.
    + f_equal. cbn [length]. lia.
    + cbn [length]. lia.
Qed.

Lemma nrun_fd : forall st il ng i fd rest, (st = SFirstZero \/ st = SInteger) ->
  nonempty_digits fd = true ->
  nrun st (mkacc il 0 0 ng true) i (x2e :: fd ++ rest) =
  nrun SFraction (mkacc il (Z.of_nat (length fd)) 0 ng true) (S i + length fd) rest.
Proof.
  intros st il ng i fd rest Hst Hfd.
  destruct fd as [|c fd']; [discriminate|]. cbn [nonempty_digits] in Hfd.
  rewrite all_digits_cons in Hfd. apply andb_true_iff in Hfd. destruct Hfd as [Hc Hd].
  assert (H1 : nrun st (mkacc il 0 0 ng true) i (x2e :: (c :: fd') ++ rest) =
               nrun SPoint (mkacc il 0 0 ng true) (S i) ((c :: fd') ++ rest)).
  { destruct Hst as [-> | ->]; reflexivity. }
  rewrite H1. cbn [app]. rewrite nrun_cons. unfold nstep. rewrite Hc.
  unfold inc_fra, set_finished. cbn [a_intLen a_fraLen a_expBegin a_negative a_finished].
  rewrite (nrun_fra_digits fd' rest _ _ _ _ _ Hd). f_equal.
  - f_equal. cbn [length]. lia.
  - cbn [length]. lia.
Qed.

Lemma nrun_exp : forall st il fl ng i up sg ed, (st = SInteger \/ st = SFraction) ->
  nonempty_digits ed = true ->
  nrun st (mkacc il fl 0 ng true) i (echar up :: esign_bytes sg ++ ed) =
  Some (mkacc il fl (match sg with EPlus => S (S i) | _ => S i end) ng true).
Proof.
  intros st il fl ng i up sg ed Hst Hed.
  destruct ed as [|c ed']; [discriminate|]. cbn [nonempty_digits] in Hed.
  rewrite all_digits_cons in Hed. apply andb_true_iff in Hed. destruct Hed as [Hc Hd].
  assert (H1 : forall R, nrun st (mkacc il fl 0 ng true) i (echar up :: R) =
                         nrun SExp (mkacc il fl 0 ng true) (S i) R).
  { intro R. destruct Hst as [-> | ->]; destruct up; reflexivity. }
  rewrite H1. destruct sg; cbn [esign_bytes app].
  - rewrite nrun_cons. unfold nstep.
    rewrite (digit_not_x2b c Hc), (digit_not_x2d c Hc), Hc.
    unfold set_expBegin_if_unset, set_finished. cbn [a_intLen a_fraLen a_expBegin a_negative a_finished].
    cbn [Nat.eqb]. apply nrun_exp_digits; [exact Hd|lia].
  - assert (H2 : nrun SExp (mkacc il fl 0 ng true) (S i) (x2b :: c :: ed') =
                 nrun SExpSign (mkacc il fl 0 ng true) (S (S i)) (c :: ed')) by reflexivity.
    rewrite H2. rewrite nrun_cons. unfold nstep. rewrite Hc.
    unfold set_expBegin_if_unset, set_finished. cbn [a_intLen a_fraLen a_expBegin a_negative a_finished].
    cbn [Nat.eqb]. apply nrun_expnum_digits. exact Hd.
  - assert (H2 : nrun SExp (mkacc il fl 0 ng true) (S i) (x2d :: c :: ed') =
                 nrun SExpSign (mkacc il fl (S i) ng true) (S (S i)) (c :: ed')) by reflexivity.
    rewrite H2. rewrite nrun_cons. unfold nstep. rewrite Hc.
    unfold set_expBegin_if_unset, set_finished. cbn [a_intLen a_fraLen a_expBegin a_negative a_finished].
    cbn [Nat.eqb]. apply nrun_expnum_digits. exact Hd.
Qed.

(* ------------------------------------------------------------------ *)
(* a rendered numeral, block by block *)

Definition fd_bytes (fd : option bytes) : bytes :=
  match fd with None => [] | Some fd => x2e :: fd end.
Definition exp_bytes (ex : option (bool * esign * bytes)) : bytes :=
  match ex with None => [] | Some (up, sg, ed) => echar up :: esign_bytes sg ++ ed end.

Lemma render_blocks : forall u,
  render u = sign_bytes (u_neg u) ++ u_ip u ++ fd_bytes (u_fd u) ++ exp_bytes (u_exp u).
Proof.
  intros [neg ip fd ex]. unfold render. cbn [u_neg u_ip u_fd u_exp].
  destruct ex as [[[up sg] ed]|]; reflexivity.
Qed.

Definition exp_begin (u : numeral) : nat :=
  match u_exp u with
  | None => 0
  | Some (_, sg, _) =>
    length (sign_bytes (u_neg u) ++ u_ip u ++ fd_bytes (u_fd u)) +
    match sg with EPlus => 2 | _ => 1 end
  end.

Lemma wf_numeral_parts : forall u, wf_numeral u = true ->
  wf_ip (u_ip u) = true /\
  match u_fd u with None => True | Some fd => nonempty_digits fd = true end /\
  match u_exp u with None => True | Some (_, _, ed) => nonempty_digits ed = true end.
Proof.
  intros u H. unfold wf_numeral in H.
  apply andb_true_iff in H. destruct H as [H H3].
  apply andb_true_iff in H. destruct H as [H1 H2].
  split; [exact H1|]. split.
  - destruct (u_fd u); [exact H2|exact I].
  - destruct (u_exp u) as [[[up sg] ed]|]; [exact H3|exact I].
Qed.

Lemma nrun_render : forall u, wf_numeral u = true -> zero_int_then_exp u = false ->
  nrun SStart acc0 0 (render u) =
  Some (mkacc (Z.of_nat (length (u_ip u))) (Z.of_nat (length (u_fdigits u))) (exp_begin u) (u_neg u) true).
Proof.
  intros u Hwf Hz. rewrite render_blocks.
  destruct (wf_numeral_parts u Hwf) as (Hip & Hfd & Hex).
  destruct u as [neg ip fd ex]. unfold exp_begin, u_fdigits, zero_int_then_exp in *.
  cbn [u_neg u_ip u_fd u_exp] in *.
  destruct (nrun_sign neg (ip ++ fd_bytes fd ++ exp_bytes ex)) as (st0 & Hst0 & ->).
  destruct (nrun_ip st0 neg false (length (sign_bytes neg)) ip (fd_bytes fd ++ exp_bytes ex) Hst0 Hip)
    as (st1 & Hst1 & ->).
  destruct fd as [fd|]; cbn [fd_bytes app].
  - assert (Hst1' : st1 = SFirstZero \/ st1 = SInteger) by (destruct Hst1 as [H|[H _]]; auto).
    rewrite (nrun_fd st1 _ neg _ fd (exp_bytes ex) Hst1' Hfd).
    destruct ex as [[[up sg] ed]|]; cbn [exp_bytes].
    + rewrite (nrun_exp SFraction _ _ neg _ up sg ed (or_intror eq_refl) Hex).
      f_equal. f_equal. rewrite !app_length. cbn [length]. destruct sg; lia.
    + reflexivity.
  - destruct ex as [[[up sg] ed]|]; cbn [exp_bytes].
    + assert (Hst1' : st1 = SInteger).
      { destruct Hst1 as [H|[_ H]]; [exact H|]. subst ip. cbn in Hz. discriminate. }
      subst st1.
      rewrite (nrun_exp SInteger _ _ neg _ up sg ed (or_introl eq_refl) Hex).
      f_equal. f_equal. rewrite !app_length. cbn [length]. destruct sg; lia.
    + reflexivity.
Qed.

Lemma skipn_len_app : forall (P X : bytes) k, k = length P -> skipn k (P ++ X) = X.
Proof.
  intros P X k ->. rewrite skipn_app. rewrite skipn_all, Nat.sub_diag. reflexivity.
Qed.

Lemma skipn_exp_begin : forall u up sg ed, u_exp u = Some (up, sg, ed) ->
  skipn (exp_begin u) (render u) = (match sg with EMinus => [x2d] | _ => [] end) ++ ed.
Proof.
  intros u up sg ed He. rewrite render_blocks. unfold exp_begin. rewrite He. cbn [exp_bytes].
  set (P := sign_bytes (u_neg u) ++ u_ip u ++ fd_bytes (u_fd u)).
  replace (sign_bytes (u_neg u) ++ u_ip u ++ fd_bytes (u_fd u) ++ echar up :: esign_bytes sg ++ ed)
    with (P ++ echar up :: esign_bytes sg ++ ed) by (unfold P; rewrite <- !app_assoc; reflexivity).
  destruct sg; cbn [esign_bytes app].
  - change (P ++ echar up :: ed) with (P ++ [echar up] ++ ed). rewrite app_assoc.
    apply skipn_len_app. rewrite app_length. reflexivity.
  - change (P ++ echar up :: x2b :: ed) with (P ++ [echar up; x2b] ++ ed). rewrite app_assoc.
    apply skipn_len_app. rewrite app_length. reflexivity.
  - change (P ++ echar up :: x2d :: ed) with (P ++ [echar up] ++ x2d :: ed). rewrite app_assoc.
    apply skipn_len_app. rewrite app_length. reflexivity.
Qed.

(* ------------------------------------------------------------------ *)
(* ParseInt *)

Lemma max_int_lt_two64 : max_int < two64.
Proof. reflexivity. Qed.

Lemma no_overflow_test : forall u d, u * 10 + d < two64 -> N.ltb ((two64 - 1 - d) / 10) u = false.
Proof.
  intros u d H. apply N.ltb_ge. apply N.div_le_lower_bound; lia.
Qed.

Lemma overflow_test_fits : forall u d, d <= 9 -> u <= (two64 - 1 - d) / 10 -> u * 10 + d < two64.
Proof.
  intros u d Hd H.
  assert (H9 : d < two64) by (unfold two64; lia).
  pose proof (N.mul_div_le (two64 - 1 - d) 10 ltac:(lia)) as Hm.
  assert (10 * u <= two64 - 1 - d) by (etransitivity; [apply N.mul_le_mono_l; exact H | exact Hm]).
  lia.
Qed.

Lemma parse_uint_aux_spec : forall bs u, all_digits bs = true ->
  u * p10 (length bs) + dec bs < two64 ->
  parse_uint_aux u bs = Some (u * p10 (length bs) + dec bs).
Proof.
  induction bs as [|c r IH]; intros u Hd Hlt.
  - cbn [parse_uint_aux length]. rewrite p10_0, dec_nil. f_equal. lia.
  - rewrite all_digits_cons in Hd. apply andb_true_iff in Hd. destruct Hd as [Hc Hd].
    cbn [parse_uint_aux]. rewrite Hc.
    cbn [length] in *. rewrite p10_S in *. rewrite dec_cons in *.
    pose proof (p10_pos (length r)) as Hp.
    assert (Hsmall : u * 10 + dig c < two64) by nia.
    rewrite (no_overflow_test u (dig c) Hsmall).
    rewrite IH; [f_equal; lia | exact Hd | lia].
Qed.

(* ParseUint is exact: whatever it returns is the number the digits spell, and it refuses
   (rather than wraps) exactly when that number does not fit 64 bits *)
Lemma parse_uint_aux_exact : forall bs u n, all_digits bs = true ->
  parse_uint_aux u bs = Some n -> n = u * p10 (length bs) + dec bs /\ n < two64 \/ bs = [] /\ n = u.
Proof.
  induction bs as [|c r IH]; intros u n Hd H.
  - right. cbn [parse_uint_aux] in H. inversion H. split; reflexivity.
  - left. rewrite all_digits_cons in Hd. apply andb_true_iff in Hd. destruct Hd as [Hc Hd].
    cbn [parse_uint_aux] in H. rewrite Hc in H.
    destruct (N.ltb ((two64 - 1 - dig c) / 10) u) eqn:Et; [discriminate|].
    apply N.ltb_ge in Et.
    assert (Hfit : u * 10 + dig c < two64) by (apply overflow_test_fits; [pose proof (dig_lt10 c Hc); lia | exact Et]).
    cbn [length]. rewrite p10_S, dec_cons.
    destruct (IH _ _ Hd H) as [[E L]|[E1 E2]].
    + split; [rewrite E; lia | exact L].
    + subst r. subst n. cbn [length]. rewrite p10_0, dec_nil. split; [lia | exact Hfit].
Qed.

Theorem parse_uint_exact : forall bs n, all_digits bs = true -> parse_uint bs = Some n ->
  n = dec bs /\ n < two64.
Proof.
  intros bs n Hd H. destruct bs as [|c r]; [discriminate|]. unfold parse_uint in H.
  destruct (parse_uint_aux_exact (c :: r) 0 n Hd H) as [[E L]|[E _]]; [|discriminate].
  split; [rewrite E; lia | exact L].
Qed.

Lemma parse_uint_aux_overflow : forall bs u, all_digits bs = true -> u < two64 ->
  two64 <= u * p10 (length bs) + dec bs -> parse_uint_aux u bs = None.
Proof.
  induction bs as [|c r IH]; intros u Hd Hu Hge.
  - cbn [length] in Hge. rewrite p10_0, dec_nil in Hge. lia.
  - rewrite all_digits_cons in Hd. apply andb_true_iff in Hd. destruct Hd as [Hc Hd].
    cbn [parse_uint_aux]. rewrite Hc.
    destruct (N.ltb ((two64 - 1 - dig c) / 10) u) eqn:Et; [reflexivity|].
    apply N.ltb_ge in Et.
    assert (Hfit : u * 10 + dig c < two64) by (apply overflow_test_fits; [pose proof (dig_lt10 c Hc); lia | exact Et]).
    apply IH; [exact Hd | exact Hfit |].
    cbn [length] in Hge. rewrite p10_S, dec_cons in Hge. lia.
Qed.

Theorem parse_uint_refuses_overflow : forall bs, all_digits bs = true -> two64 <= dec bs ->
  parse_uint bs = None.
Proof.
  intros bs Hd Hge. destruct bs as [|c r]; [reflexivity|]. unfold parse_uint.
  apply parse_uint_aux_overflow; [exact Hd | reflexivity | lia].
Qed.

Lemma parse_uint_spec : forall ed, nonempty_digits ed = true -> dec ed <= max_int ->
  parse_uint ed = Some (dec ed).
Proof.
  intros ed Hne Hle. destruct ed as [|c r]; [discriminate|]. cbn [nonempty_digits] in Hne.
  unfold parse_uint. pose proof max_int_lt_two64.
  rewrite (parse_uint_aux_spec (c :: r) 0 Hne); [f_equal; lia | lia].
Qed.

Lemma parse_int_pos : forall ed, nonempty_digits ed = true -> dec ed <= max_int ->
  parse_int ed = Some (Z.of_N (dec ed)).
Proof.
  intros ed Hne Hle. pose proof (parse_uint_spec ed Hne Hle) as Hp.
  destruct ed as [|c r]; [discriminate|]. cbn [nonempty_digits] in Hne.
  rewrite all_digits_cons in Hne. apply andb_true_iff in Hne. destruct Hne as [Hc _].
  unfold parse_int. rewrite (digit_not_x2d c Hc). rewrite Hp.
  apply N.ltb_ge in Hle. rewrite Hle. reflexivity.
Qed.

Lemma parse_int_neg : forall ed, nonempty_digits ed = true -> dec ed <= max_int ->
  parse_int (x2d :: ed) = Some (- Z.of_N (dec ed))%Z.
Proof.
  intros ed Hne Hle. pose proof (parse_uint_spec ed Hne Hle) as Hp.
  unfold parse_int. rewrite byte_eqb_refl. rewrite Hp.
  apply N.ltb_ge in Hle. rewrite Hle. reflexivity.
Qed.

(* ------------------------------------------------------------------ *)
(* appendDigits *)

Lemma append_digits_digits : forall ds rest, all_digits ds = true ->
  append_digits (ds ++ rest) = ds ++ append_digits rest.
Proof.
  induction ds as [|c ds IH]; intros rest H; [reflexivity|].
  rewrite all_digits_cons in H. apply andb_true_iff in H. destruct H as [Hc Hd].
  cbn [app append_digits]. rewrite (digit_not_x2d c Hc), (digit_not_x2e c Hc), Hc.
  cbn [orb]. f_equal. apply IH. exact Hd.
Qed.

Lemma wf_ip_digits : forall ip, wf_ip ip = true -> all_digits ip = true.
Proof.
  intros ip H. destruct ip as [|c [|d r]]; [discriminate| |].
  - cbn [wf_ip] in H. rewrite all_digits_cons, H. reflexivity.
  - cbn [wf_ip] in H. apply andb_true_iff in H. tauto.
Qed.

Lemma nonempty_digits_all : forall ds, nonempty_digits ds = true -> all_digits ds = true.
Proof. intros [|c r] H; [discriminate|exact H]. Qed.

Lemma append_digits_render : forall u, wf_numeral u = true ->
  append_digits (render u) = u_ip u ++ u_fdigits u.
Proof.
  intros u Hwf. rewrite render_blocks.
  destruct (wf_numeral_parts u Hwf) as (Hip & Hfd & Hex).
  destruct u as [neg ip fd ex]. unfold u_fdigits. cbn [u_neg u_ip u_fd u_exp] in *.
  assert (Hs : forall R, append_digits (sign_bytes neg ++ R) = append_digits R)
    by (intro R; destruct neg; reflexivity).
  rewrite Hs. rewrite (append_digits_digits ip _ (wf_ip_digits ip Hip)). f_equal.
  assert (He : append_digits (exp_bytes ex) = []).
  { destruct ex as [[[[|] sg] ed]|]; reflexivity. }
  destruct fd as [fd|]; cbn [fd_bytes app].
  - change (append_digits (x2e :: fd ++ exp_bytes ex)) with (append_digits (fd ++ exp_bytes ex)).
    rewrite (append_digits_digits fd _ (nonempty_digits_all fd Hfd)). rewrite He. apply app_nil_r.
  - exact He.
Qed.

(* ------------------------------------------------------------------ *)
(* bridge between the scaled-integer statements and Q *)

Lemma numeral_value_eq : forall u,
  numeral_value u =
  (inject_Z (sgn_of (u_neg u) (Z.of_N (dec (u_ip u ++ u_fdigits u)))) *
   pow10 (u_expval u - Z.of_nat (length (u_fdigits u))))%Q.
Proof. reflexivity. Qed.

Lemma bridge_pos : forall (a s : Z) en (k : Z), (0 <= k)%Z ->
  (a = s * 10 ^ k * Z.of_N (p10 en))%Z ->
  Qeq (a # Z.to_pos (10 ^ Z.of_nat en)) (inject_Z s * pow10 k).
Proof.
  intros a s en k Hk Ha. unfold pow10.
  destruct (Z.leb_spec 0 k) as [_|Hlt]; [|lia].
  unfold Qeq, Qmult, inject_Z. cbn [Qnum Qden]. rewrite den_p10. rewrite Ha.
  change (Z.pos (1 * 1)) with 1%Z. ring.
Qed.

Lemma bridge_neg : forall (a s : Z) en (k : Z), (0 <= k)%Z ->
  (a * 10 ^ k = s * Z.of_N (p10 en))%Z ->
  Qeq (a # Z.to_pos (10 ^ Z.of_nat en)) (inject_Z s * pow10 (- k)).
Proof.
  intros a s en k Hk Ha. unfold pow10.
  destruct (Z.eq_dec k 0) as [E|E].
  - subst k. change (0 <=? - 0)%Z with true. cbv iota.
    change (10 ^ (- 0))%Z with 1%Z. change (10 ^ 0)%Z with 1%Z in Ha.
    unfold Qeq, Qmult, inject_Z. cbn [Qnum Qden]. rewrite den_p10.
    change (Z.pos (1 * 1)) with 1%Z. lia.
  - destruct (Z.leb_spec 0 (- k)) as [Hge|_]; [lia|].
    rewrite Z.opp_involutive.
    assert (Hpos : (0 < 10 ^ k)%Z) by (apply Z.pow_pos_nonneg; lia).
    destruct (10 ^ k)%Z as [|p|p] eqn:Ep; try lia.
    change (Qinv (inject_Z (Z.pos p))) with (1 # p).
    unfold Qeq, Qmult, inject_Z. cbn [Qnum Qden]. rewrite den_p10.
    rewrite Pos.mul_1_l. lia.
Qed.

Lemma exp_fits_parts : forall u, exp_fits u = true ->
  exp_in_int u = true /\
  (u_expval u <= max_exponent_zeros + Z.of_nat (length (u_fdigits u)))%Z /\
  (- u_expval u <= max_exponent_zeros + Z.of_nat (length (u_ip u)))%Z.
Proof.
  intros u H. unfold exp_fits in H.
  apply andb_true_iff in H. destruct H as [H H3].
  apply andb_true_iff in H. destruct H as [H1 H2].
  apply Z.leb_le in H2. apply Z.leb_le in H3.
  split; [exact H1|]. split; [exact H2|exact H3].
Qed.

(* ParseInt on the exponent text needs only that the exponent fits Go's int *)
Lemma exp_parse_in_int : forall u, wf_numeral u = true -> exp_in_int u = true ->
  (if Nat.eqb (exp_begin u) 0 then Some 0%Z else parse_int (skipn (exp_begin u) (render u))) =
  Some (u_expval u).
Proof.
  intros u Hwf Hfit. destruct (wf_numeral_parts u Hwf) as (_ & _ & Hex).
  destruct (u_exp u) as [[[up sg] ed]|] eqn:He.
  - rewrite (skipn_exp_begin u up sg ed He).
    unfold exp_begin, u_expval, exp_in_int in *. rewrite He in *.
    apply N.leb_le in Hfit.
    assert (Hnz : Nat.eqb (length (sign_bytes (u_neg u) ++ u_ip u ++ fd_bytes (u_fd u)) +
                           match sg with EPlus => 2 | _ => 1 end) 0 = false).
    { apply Nat.eqb_neq. destruct sg; lia. }
    rewrite Hnz. destruct sg; cbn [app].
    + apply parse_int_pos; assumption.
    + apply parse_int_pos; assumption.
    + apply parse_int_neg; assumption.
  - unfold exp_begin, u_expval. rewrite He. reflexivity.
Qed.

Lemma exp_parse : forall u, wf_numeral u = true -> exp_fits u = true ->
  (if Nat.eqb (exp_begin u) 0 then Some 0%Z else parse_int (skipn (exp_begin u) (render u))) =
  Some (u_expval u).
Proof.
  intros u Hwf Hfit. apply exp_parse_in_int; [exact Hwf|].
  apply exp_fits_parts in Hfit. tauto.
Qed.

Theorem scan_render_value : forall u, wf_numeral u = true -> exp_fits u = true -> zero_int_then_exp u = false ->
  exists n, scan (render u) = Some n /\ canonical n /\ Qeq (number_value n) (numeral_value u).
Proof.
  intros u Hwf Hfit Hz. unfold scan.
  rewrite (nrun_render u Hwf Hz). cbn [a_finished negb a_expBegin a_intLen a_fraLen a_negative].
  rewrite (exp_parse u Hwf Hfit). rewrite (append_digits_render u Hwf).
  destruct (wf_numeral_parts u Hwf) as (Hip & Hfd & _).
  assert (Hdi : all_digits (u_ip u) = true) by (apply wf_ip_digits; exact Hip).
  assert (Hdf : all_digits (u_fdigits u) = true).
  { unfold u_fdigits. destruct (u_fd u); [apply nonempty_digits_all; exact Hfd|reflexivity]. }
  assert (Hds : all_digits (u_ip u ++ u_fdigits u) = true)
    by (rewrite all_digits_app, Hdi, Hdf; reflexivity).
  rewrite numeral_value_eq.
  set (ds := u_ip u ++ u_fdigits u) in *.
  assert (Hlen : length ds = (length (u_ip u) + length (u_fdigits u))%nat)
    by (unfold ds; apply app_length).
  set (IL := Z.of_nat (length (u_ip u))) in *.
  set (FL := Z.of_nat (length (u_fdigits u))) in *.
  set (e := u_expval u) in *.
  assert (HlenZ : Z.of_nat (length ds) = (IL + FL)%Z) by lia.
  assert (HIL : (0 <= IL)%Z) by lia. assert (HFL : (0 <= FL)%Z) by lia.
  destruct (exp_fits_parts u Hfit) as (_ & Hb1 & Hb2). fold e FL in Hb1. fold e IL in Hb2.
  clearbody IL FL e ds. clear Hlen Hwf Hfit Hz Hip Hfd Hdi Hdf.
  (* setExp's bound holds: this is the new content of exp_fits *)
  assert (Hbound : (Z.ltb (max_exponent_zeros + FL) e || Z.ltb (max_exponent_zeros + IL) (- e))%bool = false).
  { apply orb_false_iff. split; apply Z.ltb_ge; assumption. }
  rewrite Hbound. clear Hbound Hb1 Hb2.
  destruct (Z.ltb_spec (IL + e) 0) as [H1|H1].
  - (* leading zeros are prepended *)
    cbv beta iota.
    assert (Hd0 : all_digits (zeros (Z.to_nat (- (IL + e))) ++ ds) = true)
      by (rewrite all_digits_app, all_digits_zeros, Hds; reflexivity).
    assert (Hl0 : (Z.to_nat (FL - e) <= length (zeros (Z.to_nat (- (IL + e))) ++ ds))%nat)
      by (rewrite app_length, zeros_length; lia).
    destruct (normalise_spec (u_neg u) _ _ Hd0 Hl0) as (n & Hn & Hc & Hv).
    exists n. split; [exact Hn|]. split; [exact Hc|].
    rewrite number_value_eq. replace (e - FL)%Z with (- (FL - e))%Z by lia.
    apply bridge_neg; [lia|].
    rewrite dec_app, dec_zeros in Hv. rewrite N.mul_0_l, N.add_0_l in Hv.
    rewrite <- Z_p10 in Hv. rewrite Z2Nat.id in Hv by lia. exact Hv.
  - destruct (Z.ltb_spec (FL - e) 0) as [H2|H2].
    + (* trailing zeros are appended *)
      cbv beta iota.
      assert (Hd0 : all_digits (ds ++ zeros (Z.to_nat (- (FL - e)))) = true)
        by (rewrite all_digits_app, all_digits_zeros, Hds; reflexivity).
      assert (Hl0 : (0 <= length (ds ++ zeros (Z.to_nat (- (FL - e)))))%nat) by lia.
      destruct (normalise_spec (u_neg u) _ _ Hd0 Hl0) as (n & Hn & Hc & Hv).
      exists n. split; [exact Hn|]. split; [exact Hc|].
      rewrite number_value_eq.
      apply bridge_pos; [lia|].
      rewrite dec_app, dec_zeros, zeros_length in Hv. rewrite N.add_0_r, p10_0 in Hv.
      rewrite N2Z.inj_mul, sgn_of_mul in Hv.
      rewrite <- (Z_p10 (Z.to_nat _)) in Hv. rewrite Z2Nat.id in Hv by lia.
      replace (- (FL - e))%Z with (e - FL)%Z in Hv by lia.
      change (Z.of_N 1) with 1%Z in Hv. lia.
    + cbv beta iota.
      assert (Hl0 : (Z.to_nat (FL - e) <= length ds)%nat) by lia.
      destruct (normalise_spec (u_neg u) _ _ Hds Hl0) as (n & Hn & Hc & Hv).
      exists n. split; [exact Hn|]. split; [exact Hc|].
      rewrite number_value_eq. replace (e - FL)%Z with (- (FL - e))%Z by lia.
      apply bridge_neg; [lia|].
      rewrite <- Z_p10 in Hv. rewrite Z2Nat.id in Hv by lia. exact Hv.
Qed.

(* ------------------------------------------------------------------ *)
(* the refused RFC shape, and negative zero *)

Theorem zero_int_exp_refuted : exists u, wf_numeral u = true /\ exp_fits u = true /\ scan (render u) = None.
Proof.
  exists (mknumeral false [x30] None (Some (false, ENone, [x31]))).
  split; [vm_compute; reflexivity|]. split; vm_compute; reflexivity.
Qed.

(* every numeral of the refused shape is refused, whatever its exponent *)
Lemma zero_int_exp_scan_none : forall u, wf_numeral u = true -> zero_int_then_exp u = true ->
  scan (render u) = None.
Proof.
  intros u Hwf Hz. unfold scan. rewrite render_blocks.
  destruct u as [neg ip fd ex]. unfold zero_int_then_exp in Hz. cbn [u_neg u_ip u_fd u_exp] in *.
  destruct ip as [|c [|d ip']]; try discriminate.
  destruct fd as [fd|]; [discriminate|].
  destruct ex as [[[up sg] ed]|]; [|discriminate].
  apply byte_eqb_true in Hz. subst c.
  destruct (nrun_sign neg ([x30] ++ fd_bytes None ++ exp_bytes (Some (up, sg, ed)))) as (st0 & Hst0 & ->).
  cbn [fd_bytes exp_bytes app].
  rewrite (nrun_first_digit st0 neg false _ x30 _ Hst0 eq_refl).
  rewrite byte_eqb_refl. rewrite nrun_cons.
  assert (Hstep : forall a i, nstep SFirstZero a i (echar up) = None) by (intros a i; destruct up; reflexivity).
  rewrite Hstep. reflexivity.
Qed.

(* the bound of exp_fits is exact: a well-formed numeral whose exponent fits Go's int but breaks
   the bound is refused, so the library never expands more than max_exponent_zeros zeros.
   No side condition on zero_int_then_exp: that shape is refused anyway. *)
Theorem scan_refuses_large_exponent : forall u, wf_numeral u = true -> exp_in_int u = true ->
  exp_fits u = false -> scan (render u) = None.
Proof.
  intros u Hwf Hint Hfit.
  destruct (zero_int_then_exp u) eqn:Hz; [apply zero_int_exp_scan_none; assumption|].
  unfold scan.
  rewrite (nrun_render u Hwf Hz). cbn [a_finished negb a_expBegin a_intLen a_fraLen a_negative].
  rewrite (exp_parse_in_int u Hwf Hint).
  unfold exp_fits in Hfit. rewrite Hint in Hfit. cbn [andb] in Hfit.
  assert (Hbound : (Z.ltb (max_exponent_zeros + Z.of_nat (length (u_fdigits u))) (u_expval u) ||
                    Z.ltb (max_exponent_zeros + Z.of_nat (length (u_ip u))) (- u_expval u))%bool = true).
  { apply andb_false_iff in Hfit. apply orb_true_iff.
    destruct Hfit as [H|H]; apply Z.leb_gt in H; [left|right]; apply Z.ltb_lt; exact H. }
  rewrite Hbound. reflexivity.
Qed.

Lemma canonical_zero : canonical (mknum false [] 0).
Proof.
  unfold canonical, n_int. cbn [n_neg n_nat n_exp length firstn Nat.sub rev].
  split; [lia|]. split; [reflexivity|]. split; [exact I|]. split; [intro H; congruence|reflexivity].
Qed.

Theorem neg_zero_is_zero : forall u, wf_numeral u = true -> exp_fits u = true -> zero_int_then_exp u = false ->
  Qeq (numeral_value u) 0 -> scan (render u) = Some (mknum false [] 0).
Proof.
  intros u Hwf Hfit Hz H0.
  destruct (scan_render_value u Hwf Hfit Hz) as (n & Hs & Hc & Hv).
  rewrite Hs. f_equal. apply canonical_unique; [exact Hc|exact canonical_zero|].
  rewrite Hv, H0. reflexivity.
Qed.
